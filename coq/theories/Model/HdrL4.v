(** C18, layer 4: SCION/UDP header, SCMP base header and every SCMP message
    (pkg/slayers/udp.go, scmp.go, scmp_msg.go).  All of these are fixed sequences of
    big-endian words, some of them reserved; one generic codec [fmt_*] describes them,
    each Go struct is one instance.  Definitions only. *)
From Coq Require Import List Arith NArith Bool.
From Scion Require Import Lib.Bytes Lib.BytesX Lib.Check.
Import ListNotations.
Local Open Scope N_scope.
Local Open Scope res_scope.

Module HdrL4.

(** a header layout: [F k] a k-byte big-endian field, [R k] k reserved bytes
    (ignored by DecodeFromBytes, written as zero by SerializeTo) *)
Inductive fld := F (k : nat) | R (k : nat).
Definition fmt := list fld.

Definition fld_len (f : fld) : nat := match f with F k => k | R k => k end.
Fixpoint fmt_len (f : fmt) : nat :=
  match f with [] => 0 | x :: t => fld_len x + fmt_len t end.

(** SerializeTo: the values of the [F] fields in order *)
Fixpoint fmt_encode (f : fmt) (vals : list N) : bytes :=
  match f with
  | [] => []
  | F k :: t => match vals with
                | v :: vs => be k v ++ fmt_encode t vs
                | [] => be k 0 ++ fmt_encode t []
                end
  | R k :: t => be k 0 ++ fmt_encode t vals
  end.

Fixpoint fmt_read (f : fmt) (r : bytes) : res (list N * bytes) :=
  match f with
  | [] => Ok ([], r)
  | F k :: t => '(v, r') <- wordP k r ;; '(vs, r'') <- fmt_read t r' ;; Ok (v :: vs, r'')
  | R k :: t => '(_, r') <- wordP k r ;; fmt_read t r'
  end.

(** DecodeFromBytes: [if len(data) < minLength { return error }], then the reads;
    the rest is the layer payload *)
Definition fmt_decode (f : fmt) (data : bytes) : res (list N * bytes) :=
  if Nat.ltb (length data) (fmt_len f) then Err else fmt_read f data.

Fixpoint wf_vals (f : fmt) (vals : list N) : Prop :=
  match f with
  | [] => vals = []
  | F k :: t => match vals with v :: vs => v < 256 ^ N.of_nat k /\ wf_vals t vs | [] => False end
  | R k :: t => wf_vals t vals
  end.
Fixpoint wf_valsb (f : fmt) (vals : list N) : bool :=
  match f with
  | [] => match vals with [] => true | _ => false end
  | F k :: t => match vals with v :: vs => (v <? 256 ^ N.of_nat k) && wf_valsb t vs | [] => false end
  | R k :: t => wf_valsb t vals
  end.

(** reserved bytes are cleared *)
Fixpoint fmt_mask (f : fmt) (bs : bytes) : bytes :=
  match f with
  | [] => bs
  | F k :: t => firstn k bs ++ fmt_mask t (skipn k bs)
  | R k :: t => repeat 0 k ++ fmt_mask t (skipn k bs)
  end.

Definition vals_eqb := list_eqb N.eqb.

(** ------------------------------------------------------------ the instances *)
Definition scmp_base_fmt : fmt := [F 1; F 1; F 2].            (* Type, Code, Checksum *)
Definition scmp_ext_if_down_fmt : fmt := [F 8; F 8].           (* IA, IfID *)
Definition scmp_int_conn_down_fmt : fmt := [F 8; F 8; F 8].    (* IA, Ingress, Egress *)
Definition scmp_echo_fmt : fmt := [F 2; F 2].                  (* Identifier, SeqNumber *)
Definition scmp_param_problem_fmt : fmt := [R 2; F 2].         (* reserved, Pointer *)
Definition scmp_traceroute_fmt : fmt := [F 2; F 2; F 8; F 8].  (* Identifier, Sequence, IA, Interface *)
Definition scmp_dest_unreachable_fmt : fmt := [R 4].           (* unused *)
Definition scmp_packet_too_big_fmt : fmt := [R 2; F 2].        (* reserved, MTU *)
Definition udp_fmt : fmt := [F 2; F 2; F 2; F 2].              (* SrcPort, DstPort, Length, Checksum *)

(** SCMP.NextLayerType(): which message layer follows the base header *)
Definition scmp_msg_fmt (typ : N) : option fmt :=
  match typ with
  | 1 => Some scmp_dest_unreachable_fmt
  | 2 => Some scmp_packet_too_big_fmt
  | 4 => Some scmp_param_problem_fmt
  | 5 => Some scmp_ext_if_down_fmt
  | 6 => Some scmp_int_conn_down_fmt
  | 128 | 129 => Some scmp_echo_fmt
  | 130 | 131 => Some scmp_traceroute_fmt
  | _ => None
  end.

(** SCMP base header followed by the message its type selects *)
Definition scmp_decode (data : bytes) : res (list N * list N * bytes) :=
  '(b, r) <- fmt_decode scmp_base_fmt data ;;
  match scmp_msg_fmt (hd 0 b) with
  | Some f => '(m, r') <- fmt_decode f r ;; Ok (b, m, r')
  | None => Ok (b, [], r)
  end.

Definition scmp_encode (b m : list N) : bytes :=
  fmt_encode scmp_base_fmt b ++
  match scmp_msg_fmt (hd 0 b) with Some f => fmt_encode f m | None => [] end.

Definition scmp_mask (bs : bytes) : bytes :=
  firstn 4 bs ++
  match scmp_msg_fmt (hd 0 bs) with Some f => fmt_mask f (skipn 4 bs) | None => skipn 4 bs end.

Definition wf_scmp (b m : list N) : Prop :=
  wf_vals scmp_base_fmt b /\
  match scmp_msg_fmt (hd 0 b) with Some f => wf_vals f m | None => m = [] end.

(** ------------------------------------------------------------ SCION/UDP *)
(** UDP.DecodeFromBytes: header, then the payload is cut according to Length.
    [truncated] is what the code reports through DecodeFeedback.SetTruncated. *)
Definition udp_decode (data : bytes) : res (list N * bytes * bool) :=
  '(v, r) <- fmt_decode udp_fmt data ;;
  let len := nth 2 v 0 in
  if 8 <=? len then
    let hlen := N.to_nat len in
    if Nat.ltb (length data) hlen then Ok (v, r, true)            (* hlen = len(data) *)
    else Ok (v, firstn (hlen - 8) r, false)
  else if len =? 0 then Ok (v, r, false)
  else Err.

(** the part of the data a successfully decoded UDP layer covers (Contents ++ Payload) *)
Definition udp_covered (bs : bytes) : bytes :=
  let len := unbe (firstn 2 (skipn 4 bs)) in
  if len =? 0 then bs else firstn (N.to_nat len) bs.

(** UDP.fixLengths(len(b.Bytes())): [total] = header + payload *)
Definition udp_fix (total : N) (v : list N) : list N :=
  match v with
  | [s; d; _; c] => [s; d; (if 65535 <? total then 0 else total); c]
  | _ => v
  end.

Definition udp_encode (fx : bool) (total : N) (v : list N) : bytes :=
  fmt_encode udp_fmt (if fx then udp_fix total v else v).

(** Length announces more than the data holds *)
Definition udp_overlong (bs : bytes) : bool :=
  Nat.leb 8 (length bs) && (N.of_nat (length bs) <? unbe (firstn 2 (skipn 4 bs))).

End HdrL4.
