(** C11 — local delivery uses the documented underlay destination port.

    Model of
      router/dataplane.go        resolveLocalDst, dstScionPort, getDstPortSCMP, decodeSCMP,
                                 SetPortRange, AddInternalInterface, AddSvc/DelSvc, makeDataPlane
      router/connector.go        SetPortRange (router-config override of the topology range)
      router/control/conf.go     ConfigDataplane (a particular order of the calls below)
      router/underlayproviders/udpip/udpip.go
                                 provider.SetDispatchPorts, NewInternalLink, internalLink.Resolve
      private/topology/topology.go  validatePortRange ("-", "all", "a-b"), EndhostPort
      router/svc.go              Services.AddSvc / DelSvc / Any

    Bytes that carry a port or an identifier are modelled at byte level (the L4
    part of the packet and of the packet quoted in an SCMP error).  Skipping the
    SCION / extension headers is not modelled: the L4 protocol and L4 bytes of
    the packet, and the protocol and offset of the L4 part inside a quoted
    packet, are inputs.

    Definitions only. *)
From Coq Require Import List NArith Bool.
From Scion Require Import Lib.Check.
Import ListNotations.
Local Open Scope N_scope.

Module PortDispatch.

(** topology.EndhostPort *)
Definition endhost_port : N := 30041.

Definition len (l : list N) : N := N.of_nat (length l).
Definition be16 (l : list N) (off : nat) : N := 256 * nth off l 0 + nth (S off) l 0.

(** ------------------------------------------------------------------
    dstScionPort / getDstPortSCMP *)
Inductive res := Ok (p : N) | Err.

Definition L4UDP : N := 17.
Definition L4TCP : N := 6.
Definition L4SCMP : N := 202.

Definition EchoRequest : N := 128.
Definition EchoReply : N := 129.
Definition TracerouteRequest : N := 130.
Definition TracerouteReply : N := 131.

(** SCMP.NextLayerType for the error messages: length of the message-specific
    header (DestinationUnreachable, PacketTooBig, Param.Problem,
    ExternalInterfaceDown, InternalConnectivityDown); None = the payload is not
    interpreted ("unsupported SCMP error message"). *)
Definition scmp_err_hdr (ty : N) : option nat :=
  match ty with
  | 1 => Some 4%nat | 2 => Some 4%nat | 4 => Some 4%nat
  | 5 => Some 16%nat | 6 => Some 24%nat
  | _ => None
  end.

(** The packet quoted by an SCMP error, after gopacket decoded its SCION and
    extension headers: [proto] is the protocol of its L4 part, [l4] the bytes
    from there on (possibly truncated).
    UDP: decodeSCIONUDP adds the UDP layer even when the header is truncated
    (all fields zero then); source port 0 counts as truncated.
    SCMP: only quoted echo / traceroute REQUESTS are accepted, the identifier is
    read from the typed layer if it could be decoded. *)
Definition quoted_port (proto : N) (l4 : list N) : res :=
  if proto =? L4UDP then
    if len l4 <? 8 then Err
    else let sp := be16 l4 0 in if sp =? 0 then Err else Ok sp
  else if proto =? L4SCMP then
    if len l4 <? 4 then Err
    else
      let ty := nth 0 l4 0 in
      let body := skipn 4 l4 in
      if ty <? 128 then Err                       (* error in response to an error *)
      else if ty =? EchoRequest then
        if len body <? 4 then Err else Ok (be16 body 0)
      else if ty =? TracerouteRequest then
        if len body <? 20 then Err else Ok (be16 body 0)
      else Err
  else Err.

(** getDstPortSCMP on the SCMP layer bytes [scmp] (at least 4 bytes).
    [q] describes the quoted packet: None = its SCION/extension headers do not
    decode (no L4 layer is found), Some (proto, off) = L4 protocol and offset of
    the L4 part inside the quote. *)
Definition dst_port_scmp (scmp : list N) (q : option (N * nat)) : res :=
  let ty := nth 0 scmp 0 in
  let pl := skipn 4 scmp in
  if (ty =? EchoRequest) || (ty =? TracerouteRequest) then Ok endhost_port
  else if ty =? EchoReply then
    if len pl <? 4 then Err else Ok (be16 pl 0)
  else if ty =? TracerouteReply then
    if len pl <? 20 then Err else Ok (be16 pl 0)
  else
    match scmp_err_hdr ty with
    | None => Err
    | Some h =>
      (* decodeSCMP: the typed layer must decode and a non-empty quote must follow *)
      if len pl <=? N.of_nat h then Err
      else
        let quote := skipn h pl in
        match q with
        | None => Err
        | Some (proto, off) => quoted_port proto (skipn off quote)
        end
    end.

(** dstScionPort: [l4] = next-header value of the last decoded layer, [pld] its payload. *)
Definition dst_scion_port (l4 : N) (pld : list N) (q : option (N * nat)) : res :=
  if l4 =? L4UDP then
    if len pld <? 8 then Err else Ok (be16 pld 2)
  else if l4 =? L4TCP then
    if len pld <? 20 then Err else Ok (be16 pld 2)
  else if l4 =? L4SCMP then
    if len pld <? 4 then Err else dst_port_scmp pld q
  else Ok endhost_port.

(** ------------------------------------------------------------------
    Destination address (slayers.ParseAddr on DstAddrType / RawDstAddr) *)
Inductive host := HIP (ip : list N) | HSVC (svc : N).

Definition dst_addr (ty : N) (raw : list N) : option host :=
  match ty with
  | 0 => Some (HIP (firstn 4 raw))
  | 3 => Some (HIP (firstn 16 raw))
  | 4 => Some (HSVC (be16 raw 0))
  | _ => None
  end.

Definition all_zero (l : list N) : bool := forallb (N.eqb 0) l.
Definition is4in6 (ip : list N) : bool :=
  (len ip =? 16) && all_zero (firstn 10 ip) && (nth 10 ip 0 =? 255) && (nth 11 ip 0 =? 255).
Definition unspecified (ip : list N) : bool := all_zero ip.
Definition bad_ip (ip : list N) : bool := is4in6 ip || unspecified ip.

(** addr.SVC.Base: strip the multicast flag *)
Definition svc_base (s : N) : N := s mod 32768.

(** ------------------------------------------------------------------
    Configuration state *)
Record range := { r_start : N; r_end : N; r_redirect : N }.

(** one registered service instance *)
Record inst := { i_svc : N; i_ip : list N; i_port : N }.
Definition inst_eqb (a b : inst) : bool :=
  (i_svc a =? i_svc b) && bytes_eqb (i_ip a) (i_ip b) && (i_port a =? i_port b).

Record state := {
  prov : range;            (* udpip provider: dispatch range, shared with its internal link *)
  dp_range : N * N;        (* dataPlane.dispatchedPortStart / End *)
  internal : bool;         (* interfaces[0] exists *)
  svcs : list inst         (* router.Services of the udpip provider, registration order *)
}.

(** makeDataPlane: the udpip provider exists from the start, with the empty range *)
Definition init : state :=
  {| prov := {| r_start := 0; r_end := 0; r_redirect := endhost_port |};
     dp_range := (0, 0); internal := false; svcs := [] |}.

(** topology dispatched_ports as validatePortRange returns it *)
Inductive topo_range := TEmpty | TAll | TSpan (a b : N).
Definition topo_pair (t : topo_range) : N * N :=
  match t with TEmpty => (0, 0) | TAll => (1, 65535) | TSpan a b => (a, b) end.

Inductive op :=
| OSetRange (t : topo_range)                 (* Connector.SetPortRange(topo.PortRange()) *)
| OAddInternal                               (* Connector.AddInternalInterface *)
| OAddExternal                               (* Connector.AddExternalInterface (owned or sibling) *)
| OAddSvc (svc : N) (ip : list N) (port : N)
| ODelSvc (svc : N) (ip : list N) (port : N)
| OOther.                                    (* CreateIACtx, SetKey: no effect here *)

(** Services.AddSvc: no duplicates; DelSvc: removes the entry (the Go code swaps
    the last entry into its place; the order is not observable through Any) *)
Definition svc_add (l : list inst) (a : inst) : list inst :=
  if existsb (inst_eqb a) l then l else l ++ [a].
Fixpoint svc_del (l : list inst) (a : inst) : list inst :=
  match l with
  | [] => []
  | x :: t => if inst_eqb a x then t else x :: svc_del t a
  end.

(** Connector.SetPortRange: the router configuration overrides the topology *)
Definition override (ov : option (N * N)) (p : N * N) : N * N :=
  match ov with
  | Some (s, e) => (s mod 65536, e mod 65536)
  | None => p
  end.

Definition step (ov : option (N * N)) (st : state) (o : op) : state :=
  match o with
  | OSetRange t =>
    let p := override ov (topo_pair t) in
    (* dataPlane.SetPortRange: store, and tell every underlay provider *)
    {| prov := {| r_start := fst p; r_end := snd p; r_redirect := endhost_port |};
       dp_range := p; internal := internal st; svcs := svcs st |}
  | OAddInternal =>
    (* NewInternalLink: the link shares the provider's range and service table *)
    {| prov := prov st; dp_range := dp_range st; internal := true; svcs := svcs st |}
  | OAddExternal => st
  | OAddSvc s ip p =>
    {| prov := prov st; dp_range := dp_range st; internal := internal st;
       svcs := svc_add (svcs st) {| i_svc := s; i_ip := ip; i_port := p |} |}
  | ODelSvc s ip p =>
    {| prov := prov st; dp_range := dp_range st; internal := internal st;
       svcs := svc_del (svcs st) {| i_svc := s; i_ip := ip; i_port := p |} |}
  | OOther => st
  end.

Definition run (ov : option (N * N)) (ops : list op) : state := fold_left (step ov) ops init.

(** ------------------------------------------------------------------
    internalLink.Resolve and resolveLocalDst *)
Inductive outcome := Delivered (ip : list N) (port : N) | NoSvc | Rejected.

Definition in_range (r : range) (p : N) : bool := (r_start r <=? p) && (p <=? r_end r).

Definition instances (st : state) (s : N) : list inst :=
  filter (fun i => i_svc i =? s) (svcs st).

(** the set of outcomes Resolve may produce (Services.Any picks an instance at random) *)
Definition resolve (st : state) (h : host) (port : N) : list outcome :=
  match h with
  | HSVC s =>
    match instances st (svc_base s) with
    | [] => [NoSvc]
    | is => map (fun i => Delivered (i_ip i) (i_port i)) is
    end
  | HIP ip =>
    if is4in6 ip then [Rejected]
    else if unspecified ip then [Rejected]
    else
      let r := prov st in
      [Delivered ip (if (port <? r_start r) || (r_end r <? port) then r_redirect r else port)]
  end.

Definition resolve_local_dst (st : state) (ty : N) (raw : list N) (l4 : N) (pld : list N)
           (q : option (N * nat)) : list outcome :=
  match dst_addr ty raw with
  | None => [Rejected]
  | Some (HSVC s) => resolve st (HSVC s) 0
  | Some (HIP ip) =>
    match dst_scion_port l4 pld q with
    | Err => [Rejected]
    | Ok p => resolve st (HIP ip) p
    end
  end.

(** ------------------------------------------------------------------
    The property, independently of the configuration state machine *)

(** the range in force: the one of the last SetPortRange, whatever else happened *)
Fixpoint last_range (ops : list op) (acc : option topo_range) : option topo_range :=
  match ops with
  | [] => acc
  | OSetRange t :: r => last_range r (Some t)
  | _ :: r => last_range r acc
  end.

(** "the port lies in the configured dispatched-port range" as documented:
    "-" is the empty range, "all" is 1-65535, "a-b" is [a,b]; a range given in
    the router configuration replaces the one of the topology when the range is
    configured; as long as no range was configured nothing is dispatched *)
Definition documented (t : option topo_range) (ov : option (N * N)) (p : N) : bool :=
  match t with
  | None => false                                  (* no range was ever configured *)
  | Some t =>
    match ov with
    | Some (s, e) => (s mod 65536 <=? p) && (p <=? e mod 65536)
    | None =>
      match t with
      | TEmpty => false
      | TAll => (1 <=? p) && (p <=? 65535)
      | TSpan a b => (a <=? p) && (p <=? b)
      end
    end
  end.

Definition expected_port (ops : list op) (ov : option (N * N)) (p : N) : N :=
  if documented (last_range ops None) ov p then p else endhost_port.

(** registered instances, as a specification over the history: an instance is
    registered iff it was added and not deleted since *)
Fixpoint registered (ops : list op) (acc : list inst) : list inst :=
  match ops with
  | [] => acc
  | OAddSvc s ip p :: r =>
    let a := {| i_svc := s; i_ip := ip; i_port := p |} in
    registered r (if existsb (inst_eqb a) acc then acc else acc ++ [a])
  | ODelSvc s ip p :: r =>
    let a := {| i_svc := s; i_ip := ip; i_port := p |} in
    registered r (filter (fun x => negb (inst_eqb a x)) acc)
  | _ :: r => registered r acc
  end.

Definition range_of (ov : option (N * N)) (t : topo_range) : range :=
  {| r_start := fst (override ov (topo_pair t)); r_end := snd (override ov (topo_pair t));
     r_redirect := endhost_port |}.

(** the range the property calls "configured": the one of the last SetPortRange
    (router-config override applied), the empty one if there was none *)
Definition configured (ov : option (N * N)) (ops : list op) : range :=
  match last_range ops None with
  | None => prov init
  | Some t => range_of ov t
  end.

(** what "registered" means: the last call about an instance was AddSvc *)
Fixpoint last_about (i : inst) (ops : list op) (acc : option bool) : option bool :=
  match ops with
  | [] => acc
  | OAddSvc s ip p :: r =>
    last_about i r (if inst_eqb {| i_svc := s; i_ip := ip; i_port := p |} i then Some true else acc)
  | ODelSvc s ip p :: r =>
    last_about i r (if inst_eqb {| i_svc := s; i_ip := ip; i_port := p |} i then Some false else acc)
  | _ :: r => last_about i r acc
  end.

Definition outcome_eqb (a b : outcome) : bool :=
  match a, b with
  | Delivered i p, Delivered j r => bytes_eqb i j && (p =? r)
  | NoSvc, NoSvc => true
  | Rejected, Rejected => true
  | _, _ => false
  end.

(** The known deviation: the empty range (topology "-", or nothing configured
    yet) is represented as [0,0], which contains port 0. *)
Definition known (ov : option (N * N)) (ops : list op) (ty : N) (raw : list N) (l4 : N)
           (pld : list N) (q : option (N * nat)) : bool :=
  match dst_addr ty raw, dst_scion_port l4 pld q with
  | Some (HIP ip), Ok 0 =>
    match last_range ops None, ov with
    | None, _ | Some TEmpty, None => negb (bad_ip ip)
    | _, _ => false
    end
  | _, _ => false
  end.

(** oracle on one observed outcome *)
Definition oracle (ov : option (N * N)) (ops : list op) (ty : N) (raw : list N) (l4 : N)
           (pld : list N) (q : option (N * nat)) (o : outcome) : bool :=
  match dst_addr ty raw with
  | None => true
  | Some (HSVC s) =>
    let is := filter (fun i => i_svc i =? svc_base s) (registered ops []) in
    match o with
    | Delivered ip p => existsb (fun i => bytes_eqb (i_ip i) ip && (i_port i =? p)) is
    | NoSvc => match is with [] => true | _ => false end
    | Rejected => false
    end
  | Some (HIP ip) =>
    if bad_ip ip then true
    else match dst_scion_port l4 pld q with
         | Err => true
         | Ok p => outcome_eqb o (Delivered ip (expected_port ops ov p))
         end
  end.

(** ------------------------------------------------------------------
    Correspondence cases *)
Inductive probe :=
| P (ty : N) (raw : list N)          (* DstAddrType, RawDstAddr *)
    (l4 : N) (pld : list N)          (* next header of the last layer, its payload *)
    (q : list N)                     (* [] | [proto; offset] : the quoted packet's L4 part *)
    (impl : outcome).

Inductive case :=
| CConst (impl : N)                                   (* topology.EndhostPort *)
| CTopo (t : topo_range) (impl_start impl_end : N)    (* validatePortRange / Topology.PortRange *)
| CRes (ov : list N)                                  (* [] | [start; end] router-config override *)
       (ops : list op) (probes : list probe).

Definition ov_of (l : list N) : option (N * N) :=
  match l with [s; e] => Some (s, e) | _ => None end.
Definition q_of (l : list N) : option (N * nat) :=
  match l with [p; o] => Some (p, N.to_nat o) | _ => None end.

Definition probe_agree (st : state) (p : probe) : bool :=
  match p with
  | P ty raw l4 pld q impl =>
    existsb (outcome_eqb impl) (resolve_local_dst st ty raw l4 pld (q_of q))
  end.
Definition probe_oracle (ov : option (N * N)) (ops : list op) (p : probe) : bool :=
  match p with
  | P ty raw l4 pld q impl => oracle ov ops ty raw l4 pld (q_of q) impl
  end.

Definition check (c : case) : N :=
  match c with
  | CConst impl => Check.verdict (impl =? endhost_port) true
  | CTopo t s e =>
    Check.verdict ((fst (topo_pair t) =? s) && (snd (topo_pair t) =? e)) true
  | CRes ov ops probes =>
    let st := run (ov_of ov) ops in
    if internal st then
      Check.verdict (forallb (probe_agree st) probes)
                    (forallb (probe_oracle (ov_of ov) ops) probes)
    else 1
  end.

Definition diag (c : case) : list (list outcome) :=
  match c with
  | CConst _ => [[Delivered [] endhost_port]]
  | CTopo t _ _ => [[Delivered [] (fst (topo_pair t)); Delivered [] (snd (topo_pair t))]]
  | CRes ov ops probes =>
    let st := run (ov_of ov) ops in
    map (fun p => match p with P ty raw l4 pld q _ =>
                    resolve_local_dst st ty raw l4 pld (q_of q) end) probes
  end.

End PortDispatch.
