(** Concurrent histories of the gateway's pktRing (several writers, one reader,
    a close): single-step list specification, history records, and a
    linearizability checker that is generic in the specification (same search
    as RingLin.dfs, candidates taken lazily). Definitions only. *)
From Coq Require Import List NArith ZArith Bool Arith.
From Scion Require Import Lib.Check Model.Ring.
Import ListNotations.
Import Ring.

Module PktLin.

(** ------------------------------------------------------------------
    Generic Wing-Gong search. [R] = history record, [St] = specification state. *)
Inductive answer (R : Type) :=
| Found (l : list R)
| NoLin
| OutOfFuel.
Arguments Found {R} l.
Arguments NoLin {R}.
Arguments OutOfFuel {R}.

Section Gen.
  Variables (R St : Type) (inv ret : R -> N) (stp : St -> R -> option St).

  Fixpoint gexec (s : St) (l : list R) : option St :=
    match l with
    | [] => Some s
    | e :: t => match stp s e with Some s' => gexec s' t | None => None end
    end.

  Fixpoint grt_ok (l : list R) : Prop :=
    match l with
    | [] => True
    | a :: t => Forall (fun b => (inv a < ret b)%N) (a :: t) /\ grt_ok t
    end.

  Definition gminimal (x : R) (rem : list R) : bool :=
    forallb (fun b => N.ltb (inv x) (ret b)) rem.

  Section Loop.
    Variable rec : nat -> St -> list R -> answer R * nat.
    Variable s : St.
    Variable rem : list R.
    (** candidates are the elements of [suf]; [pre] are those already tried *)
    Fixpoint gloop (pre suf : list R) (fuel : nat) : answer R * nat :=
      match suf with
      | [] => (NoLin, fuel)
      | x :: t =>
        if gminimal x rem then
          match stp s x with
          | Some s' =>
            match fuel with
            | O => (OutOfFuel, O)
            | S fuel' =>
              match rec fuel' s' (rev_append pre t) with
              | (Found l, fu) => (Found (x :: l), fu)
              | (NoLin, fu) => gloop (x :: pre) t fu
              | (OutOfFuel, fu) => (OutOfFuel, fu)
              end
            end
          | None => gloop (x :: pre) t fuel
          end
        else gloop (x :: pre) t fuel
      end.
  End Loop.

  Fixpoint gdfs (n : nat) (fuel : nat) (s : St) (rem : list R) : answer R * nat :=
    match rem with
    | [] => (Found [], fuel)
    | _ :: _ =>
      match n with
      | O => (OutOfFuel, fuel)
      | S n' => gloop (gdfs n') s rem [] rem fuel
      end
    end.

  Definition glin_check (fuel : nat) (s0 : St) (h : list R) : answer R :=
    fst (gdfs (length h) fuel s0 h).
End Gen.

(** ------------------------------------------------------------------
    pktRing specification, one step: the packets held (consumer buffer first,
    then the ring), how many of them the consumer has buffered, closed flag. *)
Record pst := { ps_q : list N; ps_buf : nat; ps_cl : bool }.

Definition pspec_step (s : pst) (o : pop) : pst * pout :=
  match o with
  | PWrite v block =>
    if ps_cl s then (s, PRet (-1) None)
    else if ring_size + ps_buf s <=? length (ps_q s) then
      (s, if block then PBlocks else PRet 0 None)
    else ({| ps_q := ps_q s ++ [v]; ps_buf := ps_buf s; ps_cl := ps_cl s |}, PRet 1 None)
  | PRead block =>
    match ps_q s with
    | v :: rest =>
      ({| ps_q := rest;
          ps_buf := match ps_buf s with
                    | S b => b
                    | O => Nat.min (length (ps_q s)) batch_size - 1 end;
          ps_cl := ps_cl s |}, PRet 1 (Some v))
    | [] =>
      if ps_cl s then ({| ps_q := []; ps_buf := 0; ps_cl := true |}, PRet (-1) None)
      else ({| ps_q := []; ps_buf := 0; ps_cl := false |}, if block then PBlocks else PRet 0 None)
    end
  | PClose => ({| ps_q := ps_q s; ps_buf := ps_buf s; ps_cl := true |}, PRet 0 None)
  end.

(** a history operation: a pktRing call, or the runner's final drain
    (Close, then Read until -1) that returned the packets [vs] *)
Inductive hop := HOp (o : pop) | HDrain (vs : list N).

Record prec := { p_op : hop; p_k : Z; p_pkt : option N; p_inv : N; p_ret : N }.

Definition list_N_eqb := list_eqb N.eqb.

Definition pstep_rec (s : pst) (e : prec) : option pst :=
  match p_op e with
  | HOp o =>
    match pspec_step s o with
    | (s', PRet k c) => if Z.eqb k (p_k e) && cell_eqb c (p_pkt e) then Some s' else None
    | (_, PBlocks) => None
    end
  | HDrain vs =>
    if list_N_eqb (ps_q s) vs then Some {| ps_q := []; ps_buf := 0; ps_cl := true |} else None
  end.

Definition pst_init (fill : list N) : pst := {| ps_q := fill; ps_buf := 0; ps_cl := false |}.

Definition plin_check (fuel : nat) (fill : list N) (h : list prec) : answer prec :=
  glin_check prec pst p_inv p_ret pstep_rec fuel (pst_init fill) h.

(** ------------------------------------------------------------------
    Content oracle: every packet read was accepted by a Write (result 1) or was
    in the initial fill, no packet is read twice, and -- the history ends with
    the drain -- every accepted packet is read. *)
Definition accepted (e : prec) : list N :=
  match p_op e with
  | HOp (PWrite v _) => if Z.eqb (p_k e) 1 then [v] else []
  | _ => [] end.
Definition delivered (e : prec) : list N :=
  match p_op e with
  | HOp (PRead _) => match p_pkt e with Some v => [v] | None => [] end
  | HDrain vs => vs
  | _ => [] end.

Definition mem (v : N) (l : list N) : bool := existsb (N.eqb v) l.
Fixpoint nodupb (l : list N) : bool :=
  match l with [] => true | x :: t => negb (mem x t) && nodupb t end.

Definition content_ok (fill : list N) (h : list prec) : bool :=
  let acc := fill ++ flat_map accepted h in
  let del := flat_map delivered h in
  nodupb del && forallb (fun v => mem v acc) del && forallb (fun v => mem v del) acc.

Definition P (o : pop) (k : Z) (c : option N) (inv ret : N) : prec :=
  {| p_op := HOp o; p_k := k; p_pkt := c; p_inv := inv; p_ret := ret |}.
Definition D (vs : list N) (inv ret : N) : prec :=
  {| p_op := HDrain vs; p_k := 0; p_pkt := None; p_inv := inv; p_ret := ret |}.

Definition default_fuel : nat := 100 * 200.

End PktLin.
