(** Model of pkg/spao/mac.go: the input of the SPAO packet authenticator
    ([serializeAuthenticatedData] + [zeroOutMutablePath] + [zeroOutWithBase] and the
    payload that [ComputeAuthCMAC] writes after it).  Definitions only.

    The MAC itself is not modelled: every statement is about [auth_input], the byte
    string handed to the CMAC.  A packet is a record of header *fields* (the way
    slayers.SCION, the path types and the authenticator option hold them); the model
    serializes the path as the Go code does and then zeroes bytes of that
    serialization at the offsets the Go code computes from the path meta header. *)
From Coq Require Import List NArith Bool Arith.
From Coq Require Strings.Byte.
From Scion Require Import Lib.Check Lib.Bytes.
Import ListNotations.
Local Open Scope N_scope.

Module Spao.

(** ------------------------------------------------------------------
    SPI kinds (slayers.PacketAuthSPI: IsDRKey / Type / Direction). *)
Inductive spi_kind := NonDRKey | ASHostSender | ASHostReceiver | HostHostSender | HostHostReceiver.

Definition spi_is_drkey (spi : N) : bool := (0 <? spi) && (spi <? 2097152).   (* 0 < p < 1<<21 *)
Definition spi_hosthost (spi : N) : bool := N.testbit spi 17.                (* p&(1<<17) != 0 *)
Definition spi_receiver (spi : N) : bool := N.testbit spi 16.                (* p&(1<<16) != 0 *)

Definition spi_kind_of (spi : N) : spi_kind :=
  if spi_is_drkey spi then
    match spi_hosthost spi, spi_receiver spi with
    | false, false => ASHostSender
    | false, true => ASHostReceiver
    | true, false => HostHostSender
    | true, true => HostHostReceiver
    end
  else NonDRKey.

(** which parts of the address header enter the MAC input *)
Definition incl_ia (k : spi_kind) : bool := match k with NonDRKey => true | _ => false end.
Definition incl_dst (k : spi_kind) : bool :=
  match k with NonDRKey | ASHostReceiver => true | _ => false end.
Definition incl_src (k : spi_kind) : bool :=
  match k with NonDRKey | ASHostSender => true | _ => false end.

(** ------------------------------------------------------------------
    Packets. *)
Record info := mkInfo {
  i_rsv : N;          (* the six reserved bits of the flags byte (kept by scion.Raw) *)
  i_peer : bool;
  i_consdir : bool;
  i_rsv1 : N;         (* the reserved byte *)
  i_segid : N;
  i_ts : N }.

Record hop := mkHop {
  h_ialert : bool;
  h_ealert : bool;
  h_exp : N;
  h_in : N;
  h_eg : N;
  h_mac : bytes }.

Record meta := mkMeta {
  m_currinf : N;
  m_currhf : N;
  m_seg0 : N;
  m_seg1 : N;
  m_seg2 : N }.

Inductive path :=
| PEmpty
| PScion (m : meta) (infos : list info) (hops : list hop)
| POneHop (i : info) (h1 h2 : hop)
| PEpic (ts ctr : N) (phvf lhvf : bytes) (m : meta) (infos : list info) (hops : list hop).

Record pkt := mkPkt {
  p_version : N;
  p_tc : N;
  p_flow : N;
  p_nexthdr : N;       (* common header NextHdr: not an input of the authenticator *)
  p_hdrlen : N;        (* common header HdrLen field: not an input (recomputed) *)
  p_paylen : N;        (* common header PayloadLen: not an input *)
  p_path_type : N;
  p_dst_type : N;
  p_src_type : N;
  p_dst_ia : N;
  p_src_ia : N;
  p_dst_host : bytes;
  p_src_host : bytes;
  p_path : path;
  p_ext : bytes;       (* extension headers other than the authenticator option: not an input *)
  p_alg : N;           (* authenticator option: algorithm *)
  p_ts : N;            (* authenticator option: timestamp / sequence number *)
  p_l4 : N;            (* upper-layer protocol *)
  p_pld : bytes }.     (* upper-layer packet *)

Definition b2n (b : bool) : N := if b then 1 else 0.

(** byte strings of the generated cases are written with the constructors of
    [Coq.Init.Byte.byte] ([x00] .. [xff]): they parse several times faster than numerals *)
Definition bs (l : list Coq.Init.Byte.byte) : bytes := map Coq.Strings.Byte.to_N l.
(** numbers above 16 bits are written as their big-endian bytes for the same reason *)
Definition nb (l : list Coq.Init.Byte.byte) : N := unbe (bs l).

(** ------------------------------------------------------------------
    Lengths (slayers.AddrType.Length, scion.Base.Len, epic/onehop/empty Len). *)
Definition addr_len (t : N) : N := 4 * (1 + N.land t 3).

(** scion.Base.DecodeFromBytes: NumINF / NumHops from the segment lengths *)
Definition num_inf (m : meta) : N :=
  if 0 <? m_seg2 m then 3 else if 0 <? m_seg1 m then 2 else if 0 <? m_seg0 m then 1 else 0.
Definition num_hops (m : meta) : N := m_seg0 m + m_seg1 m + m_seg2 m.
Definition scion_len (m : meta) : N := 4 + 8 * num_inf m + 12 * num_hops m.

Definition path_len (p : path) : N :=
  match p with
  | PEmpty => 0
  | PScion m _ _ => scion_len m
  | POneHop _ _ _ => 32
  | PEpic _ _ _ _ m _ _ => 16 + scion_len m
  end.

Definition hdr_len (p : pkt) : N :=
  12 + (16 + addr_len (p_dst_type p) + addr_len (p_src_type p)) + path_len (p_path p).

(** ------------------------------------------------------------------
    Path serialization (MetaHdr/InfoField/HopField SerializeTo). *)
Definition ser_meta (m : meta) : bytes :=
  ((m_currinf m mod 4) * 64 + m_currhf m mod 64)
  :: be 3 ((m_seg0 m mod 64) * 4096 + (m_seg1 m mod 64) * 64 + m_seg2 m mod 64).

Definition ser_info (i : info) : bytes :=
  [ (i_rsv i mod 64) * 4 + b2n (i_peer i) * 2 + b2n (i_consdir i); i_rsv1 i mod 256 ]
  ++ be 2 (i_segid i) ++ be 4 (i_ts i).

Definition ser_hop (h : hop) : bytes :=
  [ b2n (h_ialert h) * 2 + b2n (h_ealert h); h_exp h mod 256 ]
  ++ be 2 (h_in h) ++ be 2 (h_eg h) ++ h_mac h.

Definition ser_scion (m : meta) (is : list info) (hs : list hop) : bytes :=
  ser_meta m ++ flat_map ser_info is ++ flat_map ser_hop hs.

Definition ser_path (p : path) : bytes :=
  match p with
  | PEmpty => []
  | PScion m is hs => ser_scion m is hs
  | POneHop i h1 h2 => ser_info i ++ ser_hop h1 ++ ser_hop h2
  | PEpic ts ctr ph lh m is hs => be 4 ts ++ be 4 ctr ++ ph ++ lh ++ ser_scion m is hs
  end.

(** ------------------------------------------------------------------
    zeroOutWithBase, on the serialized bytes.  The Go code walks offsets:
    buf[0] = 0; NumINF info fields of 8 bytes, bytes 2..3 zeroed; then for every
    i < NumINF, SegLen[i] hop fields of 12 bytes, byte 0 zeroed. *)
Fixpoint zero_hops (n : nat) (b : bytes) : bytes :=
  match n with
  | O => b
  | S n' => match b with
            | [] => []
            | _ :: t => 0 :: firstn 11 t ++ zero_hops n' (skipn 11 t)
            end
  end.

Fixpoint zero_infos (n nh : nat) (b : bytes) : bytes :=
  match n with
  | O => zero_hops nh b
  | S n' => match b with
            | a0 :: a1 :: _ :: _ :: t => a0 :: a1 :: 0 :: 0 :: firstn 4 t ++ zero_infos n' nh (skipn 4 t)
            | _ => b
            end
  end.

(** number of hop fields the second loop of zeroOutWithBase visits *)
Definition zeroed_hops (m : meta) : N :=
  match num_inf m with
  | 0 => 0
  | 1 => m_seg0 m
  | 2 => m_seg0 m + m_seg1 m
  | _ => m_seg0 m + m_seg1 m + m_seg2 m
  end.

Definition zero_out_with_base (m : meta) (b : bytes) : bytes :=
  match b with
  | [] => []
  | _ :: t => 0 :: firstn 3 t
              ++ zero_infos (N.to_nat (num_inf m)) (N.to_nat (zeroed_hops m)) (skipn 3 t)
  end.

(** zeroOutMutablePath on the serialized path *)
Definition zero_out_mutable_path (p : path) : bytes :=
  let s := ser_path p in
  match p with
  | PEmpty => s
  | PScion m _ _ => zero_out_with_base m s
  | PEpic _ _ _ _ m _ _ => firstn 16 s ++ zero_out_with_base m (skipn 16 s)
  | POneHop _ _ _ =>
    (* buf[2:4] = 0 (SegID); buf[8] = 0 (first hop flags); buf[20:32] = 0 (second hop) *)
    splice (splice (splice s 2 [0; 0]) 8 [0]) 20 (repeat 0 12)
  end.

(** ------------------------------------------------------------------
    serializeAuthenticatedData. *)
(** the first line of the common header as the code builds it:
    Version&0xF <<28 | TrafficClass&0x3f <<20 | FlowID&0xFFFFF *)
Definition first_line (p : pkt) : N :=
  (p_version p mod 16) * 268435456 + N.land (p_tc p) 63 * 1048576 + p_flow p mod 1048576.

Definition fixed_part (p : pkt) : bytes :=
  [ (hdr_len p / 4) mod 256; p_l4 p mod 256 ]
  ++ be 2 (N.of_nat (length (p_pld p)))
  ++ [ p_alg p mod 256; 0 ]
  ++ be 6 (p_ts p)
  ++ be 4 (first_line p)
  ++ [ p_path_type p mod 256; (p_dst_type p mod 16) * 16 + p_src_type p mod 16; 0; 0 ].

Definition addr_part (p : pkt) (k : spi_kind) : bytes :=
  (if incl_ia k then be 8 (p_dst_ia p) ++ be 8 (p_src_ia p) else [])
  ++ (if incl_dst k then p_dst_host p else [])
  ++ (if incl_src k then p_src_host p else []).

(** the bytes serializeAuthenticatedData leaves in the buffer *)
Definition auth_hdr (p : pkt) (k : spi_kind) : bytes :=
  fixed_part p ++ addr_part p k ++ zero_out_mutable_path (p_path p).

(** the complete CMAC input: ComputeAuthCMAC writes the buffer, then the payload *)
Definition auth_input (p : pkt) (k : spi_kind) : bytes := auth_hdr p k ++ p_pld p.

(** error cases: header length above 1020; epic SerializeTo rejects PHVF/LHVF of length <> 4.
    ("not a multiple of 4" cannot occur: every summand of hdr_len is one.) *)
Definition path_ser_ok (p : path) : bool :=
  match p with
  | PEpic _ _ ph lh _ _ _ => Nat.eqb (length ph) 4 && Nat.eqb (length lh) 4
  | _ => true
  end.

Definition auth_result (p : pkt) (k : spi_kind) : option bytes :=
  if 1020 <? hdr_len p then None
  else if negb (path_ser_ok (p_path p)) then None
  else Some (auth_hdr p k).

(** ------------------------------------------------------------------
    Well-formed packets: field ranges of the wire format, address lengths given by the
    address types, PathType naming the kind of path present, path shape as produced by
    the decoders (scion.Base.DecodeFromBytes). *)
Definition wf_infob (onehop : bool) (i : info) : bool :=
  (if onehop then (i_rsv i =? 0) && (i_rsv1 i =? 0) else (i_rsv i <? 64) && (i_rsv1 i <? 256))
  && (i_segid i <? 65536) && (i_ts i <? 4294967296).

Definition wf_hopb (h : hop) : bool :=
  (h_exp h <? 256) && (h_in h <? 65536) && (h_eg h <? 65536)
  && Nat.eqb (length (h_mac h)) 6 && wf_bytesb (h_mac h).

Definition wf_metab (m : meta) : bool :=
  (m_currinf m <? 4) && (m_currhf m <? 64)
  && (m_seg0 m <? 64) && (m_seg1 m <? 64) && (m_seg2 m <? 64)
  && ((0 <? m_seg0 m) || (m_seg1 m =? 0)) && ((0 <? m_seg1 m) || (m_seg2 m =? 0)).

Definition wf_scionb (m : meta) (is : list info) (hs : list hop) : bool :=
  wf_metab m
  && (N.of_nat (length is) =? num_inf m) && (N.of_nat (length hs) =? num_hops m)
  && forallb (wf_infob false) is && forallb wf_hopb hs.

Definition wf_pathb (p : path) : bool :=
  match p with
  | PEmpty => true
  | PScion m is hs => wf_scionb m is hs
  | POneHop i h1 h2 => wf_infob true i && wf_hopb h1 && wf_hopb h2
  | PEpic ts ctr ph lh m is hs =>
    (ts <? 4294967296) && (ctr <? 4294967296)
    && Nat.eqb (length ph) 4 && wf_bytesb ph && Nat.eqb (length lh) 4 && wf_bytesb lh
    && wf_scionb m is hs
  end.

Definition path_code (p : path) : N :=
  match p with PEmpty => 0 | PScion _ _ _ => 1 | POneHop _ _ _ => 2 | PEpic _ _ _ _ _ _ _ => 3 end.

Definition wf_pktb (p : pkt) : bool :=
  (p_version p <? 16) && (p_tc p <? 256) && (p_flow p <? 1048576)
  && (p_path_type p <? 256)
  && (p_dst_type p <? 16) && (p_src_type p <? 16)
  && (p_dst_ia p <? 18446744073709551616) && (p_src_ia p <? 18446744073709551616)
  && (N.of_nat (length (p_dst_host p)) =? addr_len (p_dst_type p)) && wf_bytesb (p_dst_host p)
  && (N.of_nat (length (p_src_host p)) =? addr_len (p_src_type p)) && wf_bytesb (p_src_host p)
  && wf_pathb (p_path p)
  && (p_alg p <? 256) && (p_ts p <? 281474976710656) && (p_l4 p <? 256)
  && (N.of_nat (length (p_pld p)) <? 65536) && wf_bytesb (p_pld p)
  && (hdr_len p <=? 1020).

Definition wf_pkt (p : pkt) : Prop := wf_pktb p = true.

(** PathType (a field of slayers.SCION) and the kind of the path object are independent in the
    Go struct.  Two packets are [kind_consistent] when equal PathType fields come with path
    objects of the same kind: true whenever PathType names the path present in both packets
    (every decoded packet), and also for a change of the PathType field alone. *)
Definition kind_consistentb (p p' : pkt) : bool :=
  negb (p_path_type p =? p_path_type p') || (path_code (p_path p) =? path_code (p_path p')).
Definition kind_consistent (p p' : pkt) : Prop :=
  p_path_type p = p_path_type p' -> path_code (p_path p) = path_code (p_path p').

(** ------------------------------------------------------------------
    "Equal in every covered field", as a decision procedure.  [tcrel] says when two
    traffic classes count as equal:
      [tc_spec]  the property / authenticator-option.rst: the six DSCP bits (ECN excluded);
      [tc_code]  what the code keeps: TrafficClass & 0x3f. *)
Definition tc_spec (a b : N) : bool := a / 4 =? b / 4.
Definition tc_code (a b : N) : bool := N.land a 63 =? N.land b 63.

(** the known-finding class: the two traffic classes differ in one of the bits {0,1,6,7} *)
Definition tc_known (a b : N) : bool := negb ((a mod 4 =? b mod 4) && (a / 64 =? b / 64)).

Definition info_covb (i i' : info) : bool :=
  (i_rsv i =? i_rsv i') && Bool.eqb (i_peer i) (i_peer i') && Bool.eqb (i_consdir i) (i_consdir i')
  && (i_rsv1 i =? i_rsv1 i') && (i_ts i =? i_ts i').

Definition hop_covb (h h' : hop) : bool :=
  (h_exp h =? h_exp h') && (h_in h =? h_in h') && (h_eg h =? h_eg h') && bytes_eqb (h_mac h) (h_mac h').

Definition meta_covb (m m' : meta) : bool :=
  (m_seg0 m =? m_seg0 m') && (m_seg1 m =? m_seg1 m') && (m_seg2 m =? m_seg2 m').

Definition scion_covb m is hs m' is' hs' : bool :=
  meta_covb m m' && list_eqb info_covb is is' && list_eqb hop_covb hs hs'.

Definition path_covb (p p' : path) : bool :=
  match p, p' with
  | PEmpty, PEmpty => true
  | PScion m is hs, PScion m' is' hs' => scion_covb m is hs m' is' hs'
  | POneHop i h1 _, POneHop i' h1' _ => info_covb i i' && hop_covb h1 h1'
  | PEpic ts ctr ph lh m is hs, PEpic ts' ctr' ph' lh' m' is' hs' =>
    (ts =? ts') && (ctr =? ctr') && bytes_eqb ph ph' && bytes_eqb lh lh'
    && scion_covb m is hs m' is' hs'
  | _, _ => false
  end.

Definition pkt_covb (tcrel : N -> N -> bool) (k : spi_kind) (p p' : pkt) : bool :=
  (p_version p =? p_version p') && tcrel (p_tc p) (p_tc p') && (p_flow p =? p_flow p')
  && (p_path_type p =? p_path_type p')
  && (p_dst_type p =? p_dst_type p') && (p_src_type p =? p_src_type p')
  && (negb (incl_ia k) || ((p_dst_ia p =? p_dst_ia p') && (p_src_ia p =? p_src_ia p')))
  && (negb (incl_dst k) || bytes_eqb (p_dst_host p) (p_dst_host p'))
  && (negb (incl_src k) || bytes_eqb (p_src_host p) (p_src_host p'))
  && path_covb (p_path p) (p_path p')
  && (p_alg p =? p_alg p') && (p_ts p =? p_ts p') && (p_l4 p =? p_l4 p')
  && bytes_eqb (p_pld p) (p_pld p').

(** The same relation as propositions (the form used in the statements of Props/C21.v;
    Proofs/Spao.v shows [pkt_covb] decides it).  Not mentioned, hence free to differ:
    CurrINF, CurrHF, every SegID, every router-alert flag, the whole second hop field of a
    one-hop path, NextHdr, HdrLen, PayloadLen, the extension headers, and the parts of the
    address header that the SPI kind leaves out. *)
Definition info_cov (i i' : info) : Prop :=
  i_rsv i = i_rsv i' /\ i_peer i = i_peer i' /\ i_consdir i = i_consdir i' /\
  i_rsv1 i = i_rsv1 i' /\ i_ts i = i_ts i'.

Definition hop_cov (h h' : hop) : Prop :=
  h_exp h = h_exp h' /\ h_in h = h_in h' /\ h_eg h = h_eg h' /\ h_mac h = h_mac h'.

Definition scion_cov m (is : list info) (hs : list hop) m' is' hs' : Prop :=
  m_seg0 m = m_seg0 m' /\ m_seg1 m = m_seg1 m' /\ m_seg2 m = m_seg2 m' /\
  Forall2 info_cov is is' /\ Forall2 hop_cov hs hs'.

Definition path_cov (p p' : path) : Prop :=
  match p, p' with
  | PEmpty, PEmpty => True
  | PScion m is hs, PScion m' is' hs' => scion_cov m is hs m' is' hs'
  | POneHop i h1 _, POneHop i' h1' _ => info_cov i i' /\ hop_cov h1 h1'
  | PEpic ts ctr ph lh m is hs, PEpic ts' ctr' ph' lh' m' is' hs' =>
    ts = ts' /\ ctr = ctr' /\ ph = ph' /\ lh = lh' /\ scion_cov m is hs m' is' hs'
  | _, _ => False
  end.

(** equal DSCP bits (the six upper bits of the traffic class) *)
Definition dscp_eq (a b : N) : Prop := a / 4 = b / 4.
(** equal under the code's mask 0x3f *)
Definition mask3f_eq (a b : N) : Prop := N.land a 63 = N.land b 63.

Definition pkt_cov (tcrel : N -> N -> Prop) (k : spi_kind) (p p' : pkt) : Prop :=
  p_version p = p_version p' /\ tcrel (p_tc p) (p_tc p') /\ p_flow p = p_flow p' /\
  p_path_type p = p_path_type p' /\
  p_dst_type p = p_dst_type p' /\ p_src_type p = p_src_type p' /\
  (incl_ia k = true -> p_dst_ia p = p_dst_ia p' /\ p_src_ia p = p_src_ia p') /\
  (incl_dst k = true -> p_dst_host p = p_dst_host p') /\
  (incl_src k = true -> p_src_host p = p_src_host p') /\
  path_cov (p_path p) (p_path p') /\
  p_alg p = p_alg p' /\ p_ts p = p_ts p' /\ p_l4 p = p_l4 p' /\ p_pld p = p_pld p'.

(** ------------------------------------------------------------------
    Correspondence cases: a pair of packets under one SPI, with what the implementation
    produced for each (serializeAuthenticatedData bytes, None = error) and how the two
    ComputeAuthCMAC tags (same key) compare. *)
Inductive case :=
| CPair (spi spi' : N) (p p' : pkt)   (* spi' = SPI of the second packet (normally the same) *)
        (r r' : option bytes)    (* implementation: buffer contents for p, p' *)
        (tag_ok : bool)          (* both tags = AES-CMAC(key, buffer ++ payload), recomputed by the runner *)
        (tags_eq : bool).        (* ComputeAuthCMAC(p) = ComputeAuthCMAC(p') *)

(** the property on a pair, evaluated on the implementation's observations:
    equal in all covered fields (specification's notion) <-> equal MAC input and equal tag *)
Definition pair_oracle (k : spi_kind) (p p' : pkt) (r r' : option bytes) (tags_eq : bool) : bool :=
  if wf_pktb p && wf_pktb p' && kind_consistentb p p' then
    match r, r' with
    | Some h, Some h' =>
      let ieq := bytes_eqb (h ++ p_pld p) (h' ++ p_pld p') in
      if pkt_covb tc_spec k p p' then ieq && tags_eq else negb ieq && negb tags_eq
    | _, _ => true
    end
  else true.

Definition spi_kind_eqb (a b : spi_kind) : bool :=
  match a, b with
  | NonDRKey, NonDRKey | ASHostSender, ASHostSender | ASHostReceiver, ASHostReceiver
  | HostHostSender, HostHostSender | HostHostReceiver, HostHostReceiver => true
  | _, _ => false
  end.

Definition check (c : case) : N :=
  match c with
  | CPair spi spi' p p' r r' tag_ok tags_eq =>
    let k := spi_kind_of spi in
    let k' := spi_kind_of spi' in
    Check.verdict
      (option_eqb bytes_eqb (auth_result p k) r && option_eqb bytes_eqb (auth_result p' k') r' && tag_ok)
      (if spi_kind_eqb k k' then pair_oracle k p p' r r' tags_eq else true)
  end.

Definition diag (c : case) : option bytes * option bytes :=
  match c with
  | CPair spi spi' p p' _ _ _ _ => (auth_result p (spi_kind_of spi), auth_result p' (spi_kind_of spi'))
  end.

End Spao.
