(** Model for C14: ownership of the router's packet buffers.

    Part A: events and the ownership monitor ([accepts]) used to check recorded
            traces of the real router (trace conformance), with the completion of
            hand-offs through channels that the two-line hook cannot observe.
    Part B: the goroutines that touch packet buffers as small-step programs over
            the pool channel, the queues and their own local variables:
              router/underlayproviders/udpip/udpip.go  udpConnection.receive (+ link receive),
                                                       udpConnection.send, internalLink.runProcessor
              router/dataplane.go                      runProcessor, runSlowPathProcessor, bfdSend.Send
            Buffers are tokens.  Faults (queue full, WriteBatch returns k < n or an
            error, ReadBatch error) and the observations of the running flags are
            nondeterministic choices carried by the step label.
    Definitions only; the proofs are in Proofs/Pool.v. *)
From Coq Require Import List NArith Arith Bool.
(* Lib.SmallNat is not used here: the generated case files need it built. *)
From Scion Require Import Lib.Check Lib.SmallNat.
Import ListNotations.

Module Pool.

Definition tok := nat.
Definition tid := nat.
Definition qid := nat.

(** [upd i x l]: [l] with position [i] replaced by [x] (no effect if out of range). *)
Fixpoint upd {A} (i : nat) (x : A) (l : list A) : list A :=
  match l, i with
  | [], _ => []
  | _ :: t, O => x :: t
  | h :: t, S i' => h :: upd i' x t
  end.

(* ------------------------------------------------------------------ *)
(** * Part A: events and the ownership monitor *)

Inductive loc := InPool | Held (g : tid) | InQueue (q : qid) | Lost.

Inductive event :=
| EGet (t : tok) (g : tid)             (* PacketPool.Get returned t to goroutine g *)
| EPut (t : tok) (g : tid)             (* goroutine g returns t with PacketPool.Put *)
| EEnq (t : tok) (g : tid) (q : qid)   (* g sent t on channel q *)
| EDeq (t : tok) (g : tid) (q : qid)   (* g received t from channel q *)
| EUse (t : tok) (g : tid)             (* g presents t to a socket (ReadBatch / WriteBatch) *)
| ELeak (t : tok) (g : tid).           (* g forgets t (no Put, no hand-off) *)

(** One monitor step: every action on a buffer must be made by its owner. *)
Definition mstep (m : list loc) (e : event) : option (list loc) :=
  match e with
  | EGet t g =>
    match nth_error m t with Some InPool => Some (upd t (Held g) m) | _ => None end
  | EPut t g =>
    match nth_error m t with
    | Some (Held g') => if Nat.eqb g' g then Some (upd t InPool m) else None
    | _ => None end
  | EEnq t g q =>
    match nth_error m t with
    | Some (Held g') => if Nat.eqb g' g then Some (upd t (InQueue q) m) else None
    | _ => None end
  | EDeq t g q =>
    match nth_error m t with
    | Some (InQueue q') => if Nat.eqb q' q then Some (upd t (Held g) m) else None
    | _ => None end
  | EUse t g =>
    match nth_error m t with
    | Some (Held g') => if Nat.eqb g' g then Some m else None
    | _ => None end
  | ELeak t g =>
    match nth_error m t with
    | Some (Held g') => if Nat.eqb g' g then Some (upd t Lost m) else None
    | _ => None end
  end.

Fixpoint mrun (m : list loc) (tr : list event) : option (list loc) :=
  match tr with
  | [] => Some m
  | e :: tr' => match mstep m e with Some m' => mrun m' tr' | None => None end
  end.

Definition minit (n : nat) : list loc := repeat InPool n.

(** The trace acceptor: all [n] buffers start in the pool. *)
Definition accepts (n : nat) (tr : list event) : bool :=
  match mrun (minit n) tr with Some _ => true | None => false end.

(** Specification vocabulary for the soundness theorem (Props/C14.v): the last
    event of a trace that changed the ownership of [t]. *)
Definition touches (t : tok) (e : event) : bool :=
  match e with
  | EGet t' _ | EPut t' _ | EEnq t' _ _ | EDeq t' _ _ | ELeak t' _ => Nat.eqb t' t
  | EUse _ _ => false
  end.

Definition last_own (tr : list event) (t : tok) : option event :=
  fold_left (fun acc e => if touches t e then Some e else acc) tr None.

(** [e] gives [t] to [g]. *)
Definition acquires (t : tok) (g : tid) (e : event) : bool :=
  match e with
  | EGet t' g' | EDeq t' g' _ => Nat.eqb t' t && Nat.eqb g' g
  | _ => false
  end.

(** [e] is something only the owner of [t] may do, done by [g]. *)
Definition acts (t : tok) (g : tid) (e : event) : bool :=
  match e with
  | EPut t' g' | EEnq t' g' _ | EUse t' g' | ELeak t' g' => Nat.eqb t' t && Nat.eqb g' g
  | _ => false
  end.

Definition owned_by (tr : list event) (t : tok) (g : tid) : Prop :=
  exists e, last_own tr t = Some e /\ acquires t g e = true.

Definition pooled (tr : list event) (t : tok) : Prop :=
  last_own tr t = None \/ exists g, last_own tr t = Some (EPut t g).

(** ** Stages and the completion of unobserved hand-offs.
    Stage codes are those of router/pooltrack_verif.go. *)
Definition stOther := 0. Definition stInit := 1. Definition stRecv := 2. Definition stProc := 3.
Definition stSlow := 4. Definition stBFD := 5. Definition stSend := 6. Definition stILProc := 7.

(** Which stage hands buffers to which stage through a channel. *)
Definition flow (a b : nat) : bool :=
  match a, b with
  | 2, 3 | 2, 7        (* receive loop -> processor queue / internal link's own queue *)
  | 3, 4 | 3, 6        (* processor -> slow-path queue / egress queue *)
  | 4, 6 | 7, 6 | 5, 6 (* slow path, internal-link processor, BFD sender -> egress queue *)
    => true
  | _, _ => false
  end.

Definition stage_of (kinds : list nat) (g : tid) : nat := nth g kinds stOther.

(** The hook sees Get/Put, the sockets see Use.  A channel send/receive is not
    observed; it is inferred when a goroutine [g] touches a buffer that the trace
    so far gives to [g'] <> [g] and the stage of [g'] feeds the stage of [g]: the
    pair [EEnq t g' q; EDeq t g q] (q := g: every queue has one consumer) is
    inserted in front of the event (through an anonymous processor where the
    pipeline has a stage in between, see [via]).  Anything else is left as it is
    and the acceptor rejects it. *)
Definition ev_tok (e : event) : tok :=
  match e with EGet t _ | EPut t _ | EEnq t _ _ | EDeq t _ _ | EUse t _ | ELeak t _ => t end.
Definition ev_tid (e : event) : tid :=
  match e with EGet _ g | EPut _ g | EEnq _ g _ | EDeq _ g _ | EUse _ g | ELeak _ g => g end.

(** Stages a buffer passes through unseen between stage [a] and stage [b]: a
    processor that forwards a packet (or sends it to the slow path) calls neither
    Get nor Put. [None]: [b] cannot receive buffers from [a]. *)
Definition via (a b : nat) : option (list nat) :=
  if flow a b then Some []
  else match a, b with
       | 2, 6 => Some [stProc]       (* receive loop -> processor -> egress queue *)
       | 2, 4 => Some [stProc]       (* receive loop -> processor -> slow-path queue *)
       | _, _ => None
       end.

(** Goroutine id standing for "some goroutine of stage s" in inferred hand-offs. *)
Definition anon (s : nat) : tid := 240 + s.

Fixpoint chain (t : tok) (from : tid) (mid : list nat) (to : tid) : list event :=
  match mid with
  | [] => [EEnq t from to; EDeq t to to]
  | s :: mid' => EEnq t from (anon s) :: EDeq t (anon s) (anon s) :: chain t (anon s) mid' to
  end.

Definition handoff (kinds : list nat) (m : list loc) (e : event) : list event :=
  match e with
  | EPut t g | EUse t g =>
    match nth_error m t with
    | Some (Held g') =>
      if Nat.eqb g' g then []
      else match via (stage_of kinds g') (stage_of kinds g) with
           | Some mid => chain t g' mid g
           | None => []
           end
    | _ => []
    end
  | _ => []
  end.

Fixpoint complete (kinds : list nat) (m : list loc) (raw : list event) : list event :=
  match raw with
  | [] => []
  | e :: raw' =>
    let es := handoff kinds m e ++ [e] in
    let m' := match mrun m es with Some m' => m' | None => m end in
    es ++ complete kinds m' raw'
  end.

(** Stage discipline of the raw events (who calls Get, who calls Put, who does socket I/O). *)
Definition role_ok (kinds : list nat) (e : event) : bool :=
  let s := stage_of kinds (ev_tid e) in
  match e with
  | EGet _ _ => Nat.eqb s stRecv || Nat.eqb s stBFD
  | EPut _ _ => (2 <=? s) && (s <=? 7)
  | EUse _ _ => Nat.eqb s stRecv || Nat.eqb s stSend
  | _ => false
  end.

(* ------------------------------------------------------------------ *)
(** * Part B: the goroutines *)

Inductive disp :=
| DDrop                              (* discard / done / error / no link / unknown disposition *)
| DSlow (full : bool)                (* to the slow-path queue (select default when full) *)
| DSend (q : option qid) (full : bool) (* Link.Send on the link with egress queue q (None: nil link) *)
| DSerErr.                           (* bfdSend.Send: serialization error *)

Inductive choice :=
| CTau                               (* the only possible step *)
| CRun (running : bool)              (* value read from a running flag *)
| CRead (res : option nat)           (* ReadBatch: None = error, Some k = k packets *)
| CDeliver (dst : option qid) (full : bool) (* link.receive: None = invalid packet *)
| CDisp (d : disp)
| CWrite (w : nat)                   (* WriteBatch result, -1 already clamped to 0 *)
| CEmpty                             (* channel empty (non-blocking receive) or closed *)
| CStop.                             (* internalLink: procStop selected *)

Inductive thread :=
(* udpConnection.receive, batch size B; pk = packets[], nr = numReusable *)
| RTop (B : nat) (pk : list tok) (nr : nat)
| RFill (B : nat) (pk : list tok) (nr i : nat)
| RDeliver (B : nat) (pk : list tok) (k i : nat)
| RExit (B : nat) (pk : list tok) (i : nat)
| RDone
(* dataPlane.runProcessor on queue q with slow-path queue sq *)
| PTop (q sq : qid) | PWait (q sq : qid) | PHave (q sq : qid) (t : tok) | PDone
(* dataPlane.runSlowPathProcessor on queue q *)
| STop (q : qid) | SWait (q : qid) | SHave (q : qid) (t : tok) | SDone
(* bfdSend.Send (called again and again by the session) *)
| BIdle | BHave (t : tok)
(* udpConnection.send on queue q, batch size B; pk = pkts[], tw = toWrite *)
| WTop (q : qid) (B : nat) (pk : list tok) (tw : nat)
| WRead (q : qid) (B : nat) (pk : list tok) (tw : nat) (blocking : bool)
| WWrite (q : qid) (B : nat) (pk : list tok) (tw : nat)
| WPut (q : qid) (B : nat) (pk : list tok) (tw w i : nat)
| WExit (q : qid) (B : nat) (pk : list tok) (tw i : nat)
| WDone
(* internalLink.runProcessor on queue q *)
| ITop (q : qid) | IHave (q : qid) (t : tok) | IDrain (q : qid) | IDrainHave (q : qid) (t : tok)
| IDone.

Inductive action :=
| ANone
| AUse (l : list tok)
| AGet
| ADeq (q : qid)
| APut (t : tok)
| AEnq (t : tok) (q : qid)
| ALeak (t : tok).

(** The buffers a goroutine is responsible for, from its local variables. *)
Definition held (th : thread) : list tok :=
  match th with
  | RTop B pk nr => skipn (B - nr) pk
  | RFill B pk nr i => firstn i pk ++ skipn (B - nr) pk
  | RDeliver B pk k i => skipn i pk
  | RExit B pk i => skipn i pk
  | PHave _ _ t | SHave _ t | BHave t | IHave _ t | IDrainHave _ t => [t]
  | WTop _ B pk tw | WRead _ B pk tw _ | WWrite _ B pk tw => firstn tw pk
  | WPut _ B pk tw w i => skipn i (firstn tw pk)
  | WExit _ B pk tw i => skipn i (firstn tw pk)
  | _ => []
  end.

(** Well-formedness of the local variables (index bounds). *)
Definition wf (th : thread) : Prop :=
  match th with
  | RTop B pk nr => length pk = B /\ nr <= B
  | RFill B pk nr i => length pk = B /\ nr <= B /\ i <= B - nr
  | RDeliver B pk k i => length pk = B /\ k <= B /\ i <= k
  | RExit B pk i => length pk = B /\ i <= B
  | WTop _ B pk tw | WWrite _ B pk tw => length pk = B /\ tw <= B
  | WRead _ B pk tw b => length pk = B /\ tw <= B /\ (b = true -> tw = 0)
  | WPut _ B pk tw w i => length pk = B /\ tw <= B /\ w <= tw /\ i <= w
  | WExit _ B pk tw i => length pk = B /\ tw <= B /\ i <= tw
  | _ => True
  end.

(** udpConnection.send: "Shift the leftovers to the head of the buffers":
    [for i := range n { pkts[i] = pkts[i+written+1] }]. *)
Definition shift (w n : nat) (pk : list tok) : list tok :=
  fold_left (fun ps i => upd i (nth (i + w + 1) ps 0) ps) (seq 0 n) pk.

Definition konst (th : thread) : tok -> thread := fun _ => th.

(** What Link.Send / a select with default does with buffer [t]. *)
Definition try_send (t : tok) (q : option qid) (full : bool) : action :=
  match q with
  | Some q' => if full then APut t else AEnq t q'
  | None => APut t
  end.

(** One step of one goroutine: the action on the shared channels and the next
    local state as a function of the buffer received (for AGet / ADeq).
    [ser_fail]: whether serialization in bfdSend.Send can fail. *)
Definition tstep (ser_fail : bool) (th : thread) (c : choice) : option (action * (tok -> thread)) :=
  match th, c with
  (* ---- udpConnection.receive ---- *)
  | RTop B pk nr, CRun true => Some (ANone, konst (RFill B pk nr 0))
  | RTop B pk nr, CRun false => Some (ANone, konst (RExit B pk (B - nr)))
  | RFill B pk nr i, CTau =>
    if i <? B - nr then Some (AGet, fun t => RFill B (upd i t pk) nr (S i)) else None
  | RFill B pk nr i, CRead None =>
    if i <? B - nr then None else Some (AUse pk, konst (RTop B pk B))
  | RFill B pk nr i, CRead (Some k) =>
    if i <? B - nr then None
    else if k <=? B then Some (AUse pk, konst (RDeliver B pk k 0)) else None
  | RDeliver B pk k i, CDeliver dst full =>
    if i <? k then Some (try_send (nth i pk 0) dst full, konst (RDeliver B pk k (S i))) else None
  | RDeliver B pk k i, CTau =>
    if i <? k then None else Some (ANone, konst (RTop B pk (B - k)))
  | RExit B pk i, CTau =>
    if i <? B then Some (APut (nth i pk 0), konst (RExit B pk (S i)))
    else Some (ANone, konst RDone)
  (* ---- dataPlane.runProcessor ---- *)
  | PTop q sq, CRun true => Some (ANone, konst (PWait q sq))
  | PTop q sq, CRun false => Some (ANone, konst PDone)
  | PWait q sq, CTau => Some (ADeq q, fun t => PHave q sq t)
  | PHave q sq t, CDisp DDrop => Some (APut t, konst (PTop q sq))
  | PHave q sq t, CDisp (DSlow full) => Some (try_send t (Some sq) full, konst (PTop q sq))
  | PHave q sq t, CDisp (DSend eg full) => Some (try_send t eg full, konst (PTop q sq))
  (* ---- dataPlane.runSlowPathProcessor ---- *)
  | STop q, CRun true => Some (ANone, konst (SWait q))
  | STop q, CRun false => Some (ANone, konst SDone)
  | SWait q, CTau => Some (ADeq q, fun t => SHave q t)
  | SHave q t, CDisp DDrop => Some (APut t, konst (STop q))
  | SHave q t, CDisp (DSend eg full) => Some (try_send t eg full, konst (STop q))
  (* ---- bfdSend.Send ---- *)
  | BIdle, CTau => Some (AGet, fun t => BHave t)
  | BHave t, CDisp DSerErr => if ser_fail then Some (ALeak t, konst BIdle) else None
  | BHave t, CDisp (DSend (Some q) full) => Some (try_send t (Some q) full, konst BIdle)
  (* ---- udpConnection.send ---- *)
  | WTop q B pk tw, CRun true => Some (ANone, konst (WRead q B pk tw (Nat.eqb tw 0)))
  | WTop q B pk tw, CRun false => Some (ANone, konst (WExit q B pk tw 0))
  | WRead q B pk tw b, CTau =>
    if tw <? B then Some (ADeq q, fun t => WRead q B (upd tw t pk) (S tw) false)
    else Some (ANone, konst (WWrite q B pk tw))
  | WRead q B pk tw b, CEmpty => Some (ANone, konst (WWrite q B pk tw))
  | WWrite q B pk tw, CWrite w =>
    if w <=? tw then Some (AUse (firstn tw pk), konst (WPut q B pk tw w 0)) else None
  | WPut q B pk tw w i, CTau =>
    if i <? w then Some (APut (nth i pk 0), konst (WPut q B pk tw w (S i)))
    else if Nat.eqb w tw then Some (ANone, konst (WTop q B pk 0))
    else Some (APut (nth w pk 0),
               konst (WTop q B (shift w (tw - (w + 1)) pk) (tw - (w + 1))))
  | WExit q B pk tw i, CTau =>
    if i <? tw then Some (APut (nth i pk 0), konst (WExit q B pk tw (S i)))
    else Some (ANone, konst WDone)
  (* ---- internalLink.runProcessor ---- *)
  | ITop q, CTau => Some (ADeq q, fun t => IHave q t)
  | ITop q, CStop => Some (ANone, konst (IDrain q))
  | IHave q t, CDisp DDrop => Some (APut t, konst (ITop q))
  | IHave q t, CDisp (DSend eg full) => Some (try_send t eg full, konst (ITop q))
  | IDrain q, CTau => Some (ADeq q, fun t => IDrainHave q t)
  | IDrain q, CEmpty => Some (ANone, konst IDone)
  | IDrainHave q t, CTau => Some (APut t, konst (IDrain q))
  | _, _ => None
  end.

(** ** The whole router: the pool channel, the queues, the goroutines. *)
Record state := mkState {
  pool : list tok;
  qs : list (list tok);
  ths : list thread;
  leaked : list tok;      (* ghost: buffers that nothing refers to any more *)
}.

(** One step of goroutine [g]; also yields the events it emits. *)
Definition gstep (ser_fail : bool) (st : state) (g : tid) (c : choice)
  : option (state * list event) :=
  match nth_error (ths st) g with
  | None => None
  | Some th =>
    match tstep ser_fail th c with
    | None => None
    | Some (a, k) =>
      match a with
      | ANone => Some (mkState (pool st) (qs st) (upd g (k 0) (ths st)) (leaked st), [])
      | AUse l =>
        Some (mkState (pool st) (qs st) (upd g (k 0) (ths st)) (leaked st),
              map (fun t => EUse t g) l)
      | AGet =>
        match pool st with
        | t :: p' => Some (mkState p' (qs st) (upd g (k t) (ths st)) (leaked st), [EGet t g])
        | [] => None
        end
      | ADeq q =>
        match nth q (qs st) [] with
        | t :: l' =>
          Some (mkState (pool st) (upd q l' (qs st)) (upd g (k t) (ths st)) (leaked st),
                [EDeq t g q])
        | [] => None
        end
      | APut t =>
        Some (mkState (pool st ++ [t]) (qs st) (upd g (k 0) (ths st)) (leaked st), [EPut t g])
      | AEnq t q =>
        if q <? length (qs st)
        then Some (mkState (pool st) (upd q (nth q (qs st) [] ++ [t]) (qs st))
                           (upd g (k 0) (ths st)) (leaked st), [EEnq t g q])
        else None
      | ALeak t =>
        Some (mkState (pool st) (qs st) (upd g (k 0) (ths st)) (t :: leaked st), [ELeak t g])
      end
    end
  end.

(** A schedule is a list of (goroutine, choice). *)
Fixpoint grun (ser_fail : bool) (st : state) (sched : list (tid * choice))
  : option (state * list event) :=
  match sched with
  | [] => Some (st, [])
  | (g, c) :: rest =>
    match gstep ser_fail st g c with
    | None => None
    | Some (st', es) =>
      match grun ser_fail st' rest with
      | None => None
      | Some (st'', es') => Some (st'', es ++ es')
      end
    end
  end.

(** Initial local states (what each goroutine starts with). *)
Definition initial (th : thread) : Prop :=
  match th with
  | RTop B pk nr => length pk = B /\ nr = 0
  | PTop _ _ | STop _ | BIdle | ITop _ => True
  | WTop _ B pk tw => length pk = B /\ tw = 0
  | _ => False
  end.

Definition init_state (n nq : nat) (threads : list thread) : state :=
  mkState (seq 0 n) (repeat [] nq) threads [].

(** Every place a buffer can be. *)
Definition owned (st : state) : list tok :=
  pool st ++ concat (qs st) ++ concat (map held (ths st)).

(* ------------------------------------------------------------------ *)
(** * The correspondence case: one recorded run of the real router *)

(** [n] pool size; [kinds] stage of each goroutine index; [evs] the raw events
    (goroutine index, buffer index; buffer index [n] = not a pool buffer);
    [notpool] where the buffers that were not in the pool after Shutdown were found:
    1 a queue, 2 nowhere, 3 more than once. *)
Inductive rawev := G (g : tid) (t : tok) | P (g : tid) (t : tok) | U (g : tid) (t : tok).
Inductive case := CTrace (n : nat) (kinds : list nat) (evs : list rawev) (notpool : list (tok * nat)).

Definition decode (e : rawev) : event :=
  match e with G g t => EGet t g | P g t => EPut t g | U g t => EUse t g end.

Fixpoint lookup (t : tok) (l : list (tok * nat)) : nat :=
  match l with
  | [] => 0
  | (t', c) :: l' => if Nat.eqb t' t then c else lookup t l'
  end.

(** Final location code of every buffer. *)
Definition final_of (n : nat) (notpool : list (tok * nat)) : list nat :=
  map (fun t => lookup t notpool) (seq 0 n).

Definition loc_eqb (a b : loc) : bool :=
  match a, b with
  | InPool, InPool | Lost, Lost => true
  | Held g, Held g' => Nat.eqb g g'
  | InQueue q, InQueue q' => Nat.eqb q q'
  | _, _ => false
  end.

(** A stage that puts buffers into a channel. *)
Definition producer (s : nat) : bool := flow s stProc || flow s stSlow || flow s stSend.

(** Model's prediction of where a buffer is at the end vs where it was found. *)
Definition final_agrees (kinds : list nat) (m : list loc) (fin : list nat) : bool :=
  Nat.eqb (length m) (length fin) &&
  forallb (fun p =>
    match fst p, snd p with
    | InPool, 0 => true
    | Held g, 1 => producer (stage_of kinds g)   (* sent on a channel, not yet received *)
    | _, _ => false
    end) (combine m fin).

Definition all_accounted (n : nat) (notpool : list (tok * nat)) : bool :=
  forallb (fun p => (fst p <? n) && Nat.eqb (snd p) 1) notpool.

Definition check (c : case) : N :=
  match c with
  | CTrace n kinds evs notpool =>
    let raw := map decode evs in
    let tr := complete kinds (minit n) raw in
    match mrun (minit n) tr with
    | None => Check.verdict false false
    | Some m =>
      Check.verdict (forallb (role_ok kinds) raw && final_agrees kinds m (final_of n notpool))
                    (all_accounted n notpool)
    end
  end.

(** For replays: position and content of the first rejected event of the
    completed trace, as (index, kind, tok, goroutine, stage), and the buffers
    whose final location is not as predicted, as (tok, found). *)
Fixpoint first_reject (m : list loc) (tr : list event) (i : nat) : option (nat * event) :=
  match tr with
  | [] => None
  | e :: tr' => match mstep m e with Some m' => first_reject m' tr' (S i) | None => Some (i, e) end
  end.

Definition ev_code (e : event) : N :=
  match e with EGet _ _ => 0 | EPut _ _ => 1 | EUse _ _ => 2 | EEnq _ _ _ => 3 | EDeq _ _ _ => 4
             | ELeak _ _ => 5 end%N.

Definition diag (c : case) : list (list N) :=
  match c with
  | CTrace n kinds evs notpool =>
    let raw := map decode evs in
    let tr := complete kinds (minit n) raw in
    match first_reject (minit n) tr 0 with
    | Some (i, e) =>
      [[N.of_nat i; ev_code e; N.of_nat (ev_tok e); N.of_nat (ev_tid e);
        N.of_nat (stage_of kinds (ev_tid e))]]
    | None => map (fun p => [N.of_nat (fst p); N.of_nat (snd p)]) notpool
    end
  end.

End Pool.
