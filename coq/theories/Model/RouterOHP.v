(** Model of the border router's handling of one-hop paths
    ([scionPacketProcessor.processOHP], the one-hop branch of [processPkt],
    [bfdSend.Send] in router/dataplane.go and [onehop.Path.Reverse] /
    [ToSCIONDecoded] in pkg/slayers/path/onehop/onehop.go).  Definitions only.

    A one-hop packet is a [Router.pkt] whose path part is one info field and
    two hop fields ([p_infos = [i]], [p_hops = [first; second]]); the path meta
    fields of the record (pointers, segment lengths) do not exist on the wire
    for this path type and are 0.

    Check order of [processOHP]:
      ConsDir flag must be set ;
      ingress link id 0 (internal or sibling link)  -- leaving the AS:
        SrcIA = local ; neighborIAs[first.ConsEgress] non-zero ; = DstIA ;
        6 MAC bytes of the first hop = recomputation over the info field ;
        SegID := SegID xor first.Mac[0:2] ; whole header re-serialized ;
        egress := first.ConsEgress
      otherwise                                      -- entering the AS:
        DstIA = local ; neighborIAs[ingress id] = SrcIA ;
        second := {ConsIngress = ingress id, ExpTime = first.ExpTime, MAC over the
        info field as received} ; whole header re-serialized ; resolveLocalDst
        (every error is a discard here).
    Before the split: HdrLen must cover exactly the one-hop path (fix bcd1dfe), then
    validatePktLen (C08's fix ace0bd3: slow-path request 4/19, which the slow path drops).
    No expiry check, no check that the egress link is up. *)
From Coq Require Import List NArith Bool.
From Scion Require Import Lib.Check Model.Router.
Import ListNotations.
Local Open Scope N_scope.

Module RouterOHP.
Import Router.

(** * Constants (compared with the Go constants by [CConst] cases) *)
Definition OhpPathLen : N := 32.           (* onehop.PathLen *)
Definition OhpPathType : N := 2.           (* onehop.PathType *)
Definition ScionPathType : N := 1.
Definition DefaultExpTime : N := 63.       (* router.hopFieldDefaultExpTime *)
Definition BfdTsBack : N := 10.            (* bfdSend.Send: Unix() - 10 *)
Definition const_value (k : N) : option N :=
  match k with
  | 0 => Some OhpPathLen | 1 => Some OhpPathType | 2 => Some ScionPathType
  | 3 => Some DefaultExpTime | 4 => Some InfoLen | 5 => Some HopLen | 6 => Some CmnHdrLen
  | _ => None
  end.

(** * Shape *)
Definition ohp_shape (p : pkt) : option (info * hop * hop) :=
  match p_infos p, p_hops p with
  | [i], [h1; h2] => Some (i, h1, h2)
  | _, _ => None
  end.

Definition with_path (p : pkt) (i : info) (h1 h2 : hop) : pkt :=
  with_hops (with_infos p [i]) [h1; h2].

(** [dataPlane.neighborIAs[id]] (zero where nothing was configured) *)
Definition nbr_of (c : cfg) (id : N) : N :=
  match get_if c id with Some f => if_nbr f | None => 0 end.

(** byte offsets of the one-hop path inside the packet *)
Definition ohp_info_off (p : pkt) : N := CmnHdrLen + addr_len p.
Definition ohp_first_off (p : pkt) : N := ohp_info_off p + InfoLen.
Definition ohp_second_off (p : pkt) : N := ohp_first_off p + HopLen.

Section WithMac.
Variable macq : N -> N -> N -> N -> N -> option (list N).
Variable c : cfg.
Variable ing : ingress.

(** the hop field the router writes: only ConsIngress and ExpTime are set before the MAC is
    computed *)
Definition second_proto (h1 : hop) : hop := mkHop false false (h_exp h1) (ing_ifid ing) 0 [] 0.
Definition second_hop (h1 : hop) (m : list N) : hop :=
  mkHop false false (h_exp h1) (ing_ifid ing) 0 m 0.

(** leaving the AS *)
Definition ohp_out (p : pkt) (i : info) (h1 h2 : hop) : result :=
  if negb (p_src_ia p =? c_ia c) then Discard
  else
    let n := nbr_of c (h_eg h1) in
    if n =? 0 then Discard
    else if negb (n =? p_dst_ia p) then Discard
    else
      match mac_of macq i h1 with
      | None => MacMiss
      | Some m =>
        if negb (list_eqb N.eqb (h_mac h1) m) then Discard
        else
          let p' := with_path p (ser_info (upd_segid i h1)) (ser_hop h1) (ser_hop h2) in
          (* runProcessor: interfaces[egress] must exist *)
          match get_if c (h_eg h1) with
          | None => Discard
          | Some _ => Forward (h_eg h1) p' None
          end
      end.

(** entering the AS *)
Definition ohp_in (p : pkt) (i : info) (h1 h2 : hop) : result :=
  if negb (p_dst_ia p =? c_ia c) then Discard
  else if negb (nbr_of c (ing_ifid ing) =? p_src_ia p) then Discard
  else
    match mac_of macq i (second_proto h1) with
    | None => MacMiss
    | Some m =>
      let h2' := second_hop h1 m in
      let p' := with_path p (ser_info i) (ser_hop h1) h2' in
      match resolve_inbound c (mkSt p' h2' i false false 0) with
      | Forward e o d => Forward e o d
      | _ => Discard
      end
    end.

Definition process_ohp (p : pkt) : result :=
  match ohp_shape p with
  | None => BadInput
  | Some (i, h1, h2) =>
    if negb (i_consdir i) then Discard
    else if negb (p_pay_len p =? p_pay_actual p)
    then SlowPath (SpScmp ScmpParameterProblem CodeInvalidPacketSize 0) 0 p   (* validatePktLen *)
    else if from0 ing then ohp_out p i h1 h2 else ohp_in p i h1 h2
  end.

(** [slack]: header bytes announced by HdrLen beyond the 32 the one-hop path occupies.  The
    header is re-serialized in place, so such a packet is refused (fix in /repo: before it, the
    new header was written [slack] bytes too far into the buffer). *)
Definition process_ohp_slack (slack : N) (p : pkt) : result :=
  match ohp_shape p with
  | None => BadInput
  | Some _ => if negb (slack =? 0) then Discard else process_ohp p
  end.

(** the one-hop branch of [processPkt]: with a BFD upper layer the packet goes to the link's
    BFD session ([session] = what that does: [Discard] without a session, [Done] otherwise);
    it is never forwarded *)
Definition dispatch_ohp (bfd_next : bool) (session : result) (slack : N) (p : pkt) : result :=
  if bfd_next then session else process_ohp_slack slack p.

End WithMac.

(** * Reversal ([onehop.Path.Reverse]: ToSCIONDecoded, IncPath, Decoded.Reverse) *)
Definition plain_hop (h : hop) : hop := ser_hop h.
Definition ohp_reverse (p : pkt) : option pkt :=
  match ohp_shape p with
  | None => None
  | Some (i, h1, h2) =>
    if h_in h2 =? 0 then None   (* incomplete path can't be converted *)
    else
      Some (mkPkt (p_dst_ia p) (p_src_ia p) (p_dst_type p) (p_src_type p) (p_dst_raw p) (p_src_raw p)
                  (p_pay_len p) (p_pay_actual p) (p_l4_port p)
                  0 0 2 0 0 0
                  [mkInfo false false (i_segid i) (i_ts i) 0]
                  [plain_hop h2; plain_hop h1])
  end.

(** the reply: address header, payload and upper layer taken from [hdr], the path from [rev] *)
Definition reply_with (hdr rev : pkt) : pkt :=
  mkPkt (p_dst_ia hdr) (p_src_ia hdr) (p_dst_type hdr) (p_src_type hdr) (p_dst_raw hdr) (p_src_raw hdr)
        (p_pay_len hdr) (p_pay_actual hdr) (p_l4_port hdr)
        (p_curr_inf rev) (p_curr_hf rev) (p_seg0 rev) (p_seg1 rev) (p_seg2 rev) (p_meta_rsv rev)
        (p_infos rev) (p_hops rev).

Definition same_path (a b : pkt) : bool :=
  (p_curr_inf a =? p_curr_inf b) && (p_curr_hf a =? p_curr_hf b) &&
  (p_seg0 a =? p_seg0 b) && (p_seg1 a =? p_seg1 b) && (p_seg2 a =? p_seg2 b) &&
  (p_meta_rsv a =? p_meta_rsv b) &&
  list_eqb info_eqb (p_infos a) (p_infos b) && list_eqb hop_eqb (p_hops a) (p_hops b).

(** * BFD over a one-hop path ([newBFDSend] + [bfdSend.Send]): the path the router builds for
    its own BFD packets on external interface [ifid] at Unix time [now_s] *)
Definition bfd_info (now_s : N) : info := mkInfo false true 0 (now_s - BfdTsBack) 0.
Definition bfd_first_proto (ifid : N) : hop := mkHop false false DefaultExpTime 0 ifid [] 0.
Definition bfd_first (ifid : N) (m : list N) : hop := mkHop false false DefaultExpTime 0 ifid m 0.
Definition zero_hop : hop := mkHop false false 0 0 0 [0;0;0;0;0;0] 0.

Definition bfd_path (macq : N -> N -> N -> N -> N -> option (list N)) (ifid now_s : N)
  : option (info * hop * hop) :=
  match mac_of macq (bfd_info now_s) (bfd_first_proto ifid) with
  | None => None
  | Some m => Some (bfd_info now_s, bfd_first ifid m, zero_hop)
  end.

(** * Oracles *)
Definition is_forward (r : result) : bool := match r with Forward _ _ _ => true | _ => false end.

Definition rsv_clear (i : info) (h1 h2 : hop) (crsv : N) : bool :=
  (i_rsv i =? 0) && (h_rsv h1 =? 0) && (h_rsv h2 =? 0) && (crsv =? 0).

Definition same_but_path (p out : pkt) : bool :=
  (p_dst_ia p =? p_dst_ia out) && (p_src_ia p =? p_src_ia out) &&
  (p_dst_type p =? p_dst_type out) && (p_src_type p =? p_src_type out) &&
  list_eqb N.eqb (p_dst_raw p) (p_dst_raw out) && list_eqb N.eqb (p_src_raw p) (p_src_raw out) &&
  (p_pay_len p =? p_pay_len out) && (p_pay_actual p =? p_pay_actual out) &&
  option_eqb N.eqb (p_l4_port p) (p_l4_port out).

Definition info_same_but_segid (a b : info) : bool :=
  Bool.eqb (i_peer a) (i_peer b) && Bool.eqb (i_consdir a) (i_consdir b) && (i_ts a =? i_ts b).
Definition hop_same_but_rsv (a b : hop) : bool :=
  Bool.eqb (h_ialert a) (h_ialert b) && Bool.eqb (h_ealert a) (h_ealert b) &&
  (h_exp a =? h_exp b) && (h_in a =? h_in b) && (h_eg a =? h_eg b) &&
  list_eqb N.eqb (h_mac a) (h_mac b).

Definition range (lo n : N) : list N := map (fun k => lo + N.of_nat k) (seq 0 (N.to_nat n)).
Definition memN (x : N) (l : list N) : bool := existsb (N.eqb x) l.

(** byte offsets (by header geometry) in which two one-hop records with clear reserved bits
    differ: the SegID and the second hop field *)
Definition ohp_record_diff (p out : pkt) : list N :=
  match ohp_shape p, ohp_shape out with
  | Some (i, h1, h2), Some (i', h1', h2') =>
    (if i_segid i =? i_segid i' then [] else [ohp_info_off p + 2; ohp_info_off p + 3]) ++
    (if hop_eqb h2 h2' then [] else range (ohp_second_off p) HopLen)
  | _, _ => []
  end.

(** C12 on one observation of the real router: [impl] for packet [p] received over [ing];
    [changed] = byte offsets where the real output differs from the real input; [crsv] = the
    two reserved bytes of the received common header *)
Definition c12_ok (macq : N -> N -> N -> N -> N -> option (list N)) (c : cfg) (ing : ingress)
    (p : pkt) (impl : result) (changed : list N) (inlen outlen crsv : N) : bool :=
  match impl with
  | Forward e out d =>
    match ohp_shape p, ohp_shape out with
    | Some (i, h1, h2), Some (i', h1', h2') =>
      i_consdir i && same_but_path p out && (inlen =? outlen) &&
      if ing_ifid ing =? 0 then
        (* sent out of the AS *)
        (p_src_ia p =? c_ia c) &&
        negb (p_dst_ia p =? 0) && (nbr_of c (h_eg h1) =? p_dst_ia p) && (e =? h_eg h1) &&
        match mac_of macq i h1 with
        | Some m => list_eqb N.eqb (h_mac h1) m
        | None => false
        end &&
        match d with None => true | Some _ => false end &&
        (* frame: SegID folded, nothing else *)
        info_same_but_segid i i' && (i_segid i' =? N.lxor (i_segid i) (mac_prefix (h_mac h1))) &&
        hop_same_but_rsv h1 h1' && hop_same_but_rsv h2 h2' &&
        (negb (rsv_clear i h1 h2 crsv) ||
         forallb (fun o => memN o [ohp_info_off p + 2; ohp_info_off p + 3]) changed)
      else
        (* accepted into the AS *)
        (p_dst_ia p =? c_ia c) && (nbr_of c (ing_ifid ing) =? p_src_ia p) && (e =? 0) &&
        match d with None => false | Some _ => true end &&
        (* the second hop field is the one this AS issues for the receiving interface *)
        (h_in h2' =? ing_ifid ing) && (h_eg h2' =? 0) && (h_exp h2' =? h_exp h1) &&
        negb (h_ialert h2') && negb (h_ealert h2') && (h_rsv h2' =? 0) &&
        match mac_of macq i' h2' with
        | Some m => list_eqb N.eqb (h_mac h2') m
        | None => false
        end &&
        (* frame: info field and first hop field untouched *)
        info_same_but_segid i i' && (i_segid i' =? i_segid i) && hop_same_but_rsv h1 h1' &&
        (negb (rsv_clear i h1 zero_hop crsv) ||
         forallb (fun o => memN o (range (ohp_second_off p) HopLen)) changed)
    | _, _ => false
    end
  | _ => true
  end.

(** side conditions under which the reversed completed path must be accepted *)
Definition host_ok (t : N) (raw : list N) : bool :=
  match parse_host t raw with
  | HIP ip => negb (is_4in6 ip)
  | HSvc _ => true
  | HBad => false
  end.

(** at the router that completed the path: reply [rp] sent from inside the AS, [k] = the
    interface the one-hop packet was received on *)
Definition revB_cond (c : cfg) (now k : N) (rp : pkt) : bool :=
  (p_src_ia rp =? c_ia c) && negb (p_dst_ia rp =? c_ia c) &&
  (p_pay_len rp =? p_pay_actual rp) && host_ok (p_src_type rp) (p_src_raw rp) &&
  match get_if c k with
  | Some f => scope_eqb (if_scope f) External && if_up f
  | None => false
  end &&
  match p_infos rp, p_hops rp with
  | [i], [h2; h1] => negb (expired now i h2)
  | _, _ => false
  end.

(** at the router that issued the first hop: reply [rp] arriving over the interface the
    one-hop packet left through *)
Definition revA_cond (c : cfg) (now : N) (rp : pkt) : bool :=
  negb (p_src_ia rp =? c_ia c) && (p_dst_ia rp =? c_ia c) &&
  (p_pay_len rp =? p_pay_actual rp) &&
  match p_infos rp, p_hops rp with
  | [i], [h2; h1] => negb (expired now i h1) && negb (h_ealert h1)
  | _, _ => false
  end.

(** what local delivery may still answer once the path has been accepted *)
Definition delivery_outcome (rp : pkt) (r : result) : bool :=
  match r with
  | Forward e _ (Some _) => e =? 0
  | SlowPath (SpScmp ty code _) _ _ =>
    ((ty =? ScmpDestUnreachable) && (code =? CodeNoRoute)) ||
    ((ty =? ScmpParameterProblem) && (code =? CodeInvalidDestinationAddress))
  | Discard => match p_l4_port rp with None => true | Some _ => false end
  | _ => false
  end.

(** * Cases of the correspondence check *)
Inductive case :=
| CConst (k v : N)
  (* one packet through processPkt: [bfd_next] = the upper layer is BFD *)
| COhp (c : cfg) (ing : ingress) (macs : list mac_entry) (bfd_next : bool) (slack : N) (p : pkt)
       (impl : result) (changed : list N) (inlen outlen crsv : N)
  (* the router that completed [p1] (received over external interface [k]) gets the reply
     [rp] (path = real onehop Reverse of the real completed packet) from inside the AS *)
| CRevB (c : cfg) (now k : N) (macs : list mac_entry) (p1 rp : pkt) (impl : result)
  (* the router that sent [p0] out gets back, over the interface it sent [p0] through, the
     reply [rp] as forwarded by the real second router ([hdr] = the reply as handed to the
     second router) *)
| CRevA (cA cB : cfg) (now k : N) (ingA : ingress) (macsA macsB : list mac_entry)
        (p0 hdr rp : pkt) (impl : result)
  (* the one-hop packet the real bfdSend built on interface [ifid] towards [remote] at Unix
     time [now_s] ([sent] = its record) *)
| CBfd (c : cfg) (ifid remote now_s : N) (macs : list mac_entry) (sent : pkt).

(** the completed packet as the model computes it *)
Definition macfn := N -> N -> N -> N -> N -> option (list N).

Definition completed (macq : macfn) (c : cfg) (k : N) (p1 : pkt) : option pkt :=
  match process_ohp macq c (InExt k) p1 with
  | Forward _ o _ => Some o
  | _ => None
  end.

Definition reversed (macq : macfn) (c : cfg) (k : N) (p1 : pkt) : option pkt :=
  match completed macq c k p1 with
  | Some p2 => ohp_reverse p2
  | None => None
  end.

(** model of the whole exchange up to the packet the first router gets back:
    (interface it comes back on, packet) *)
Definition round_trip (macqA macqB : macfn) (cA cB : cfg) (k : N) (ingA : ingress)
    (p0 hdr : pkt) : option (N * pkt) :=
  match process_ohp macqA cA ingA p0 with
  | Forward e p1 _ =>
    match reversed macqB cB k p1 with
    | Some rev => Some (e, inc_path (reply_with hdr rev))
    | None => None
    end
  | _ => None
  end.

Definition model_revB (macq : macfn) (c : cfg) (now k : N) (p1 rp : pkt) : result :=
  match reversed macq c k p1 with
  | Some rev => process_scion macq c now InInt (reply_with rp rev)
  | None => BadInput
  end.

Definition model_revA (macqA macqB : macfn) (cA cB : cfg) (now k : N) (ingA : ingress)
    (p0 hdr : pkt) : result :=
  match round_trip macqA macqB cA cB k ingA p0 hdr with
  | Some (e, o) => process_scion macqA cA now (InExt e) o
  | None => BadInput
  end.

(** the reply to a packet this router completed is sent back out through interface k *)
Definition revB_ok (macq : macfn) (c : cfg) (now k : N) (p1 rp : pkt) (impl : result) : bool :=
  match reversed macq c k p1 with
  | Some rev =>
    negb (negb (k =? 0) && revB_cond c now k (reply_with rp rev)) ||
    match impl with Forward e _ None => e =? k | _ => false end
  | None => true
  end.

(** the reply is accepted by the router that issued the first hop: only the local delivery
    decision is left *)
Definition revA_ok (macqA macqB : macfn) (cA cB : cfg) (now k : N) (ingA : ingress)
    (p0 hdr : pkt) (impl : result) : bool :=
  match round_trip macqA macqB cA cB k ingA p0 hdr with
  | Some (_, o) =>
    negb (from0 ingA && negb (k =? 0) && revA_cond cA now o) || delivery_outcome o impl
  | None => true
  end.

Definition bfd_ok (macq : macfn) (c : cfg) (ifid remote : N) (sent : pkt) : bool :=
  match ohp_shape sent with
  | Some (i, h1, h2) =>
    i_consdir i && (p_src_ia sent =? c_ia c) && (p_dst_ia sent =? remote) && (h_eg h1 =? ifid) &&
    match mac_of macq i h1 with
    | Some m => list_eqb N.eqb (h_mac h1) m
    | None => false
    end
  | None => false
  end.

Definition model (cs : case) : result :=
  match cs with
  | COhp c ing macs b sl p _ _ _ _ _ => dispatch_ohp (mac_lookup macs) c ing b Discard sl p
  | CRevB c now k macs p1 rp _ => model_revB (mac_lookup macs) c now k p1 rp
  | CRevA cA cB now k ingA macsA macsB p0 hdr rp _ =>
    model_revA (mac_lookup macsA) (mac_lookup macsB) cA cB now k ingA p0 hdr
  | _ => Done
  end.

Definition agree (cs : case) : bool :=
  match cs with
  | CConst k v => option_eqb N.eqb (const_value k) (Some v)
  | COhp _ _ _ _ _ _ impl _ _ _ _ => result_eqb (model cs) impl
  | CRevB c now k macs p1 rp impl =>
    result_eqb (model cs) impl &&
    match reversed (mac_lookup macs) c k p1 with
    | Some rev => pkt_eqb (reply_with rp rev) rp       (* the real Reverse = the model's *)
    | None => false
    end
  | CRevA cA cB now k ingA macsA macsB p0 hdr rp impl =>
    result_eqb (model cs) impl &&
    match round_trip (mac_lookup macsA) (mac_lookup macsB) cA cB k ingA p0 hdr with
    | Some (_, o) => pkt_eqb o rp
    | None => false
    end
  | CBfd c ifid remote now_s macs sent =>
    match bfd_path (mac_lookup macs) ifid now_s, ohp_shape sent with
    | Some (i, h1, h2), Some (i', h1', h2') =>
      info_eqb i i' && hop_eqb h1 h1' && hop_eqb h2 h2' &&
      (p_src_ia sent =? c_ia c) && (p_dst_ia sent =? remote)
    | _, _ => false
    end
  end.

(** one packet through the one-hop branch of processPkt *)
Definition ohp_ok (macq : macfn) (c : cfg) (ing : ingress) (bfd_next : bool) (slack : N) (p : pkt)
    (impl : result) (changed : list N) (inlen outlen crsv : N) : bool :=
  if bfd_next then negb (is_forward impl)
  else if negb (slack =? 0) then negb (is_forward impl)   (* cannot be rewritten in place *)
  else c12_ok macq c ing p impl changed inlen outlen crsv.

Definition oracle (cs : case) : bool :=
  match cs with
  | CConst _ _ => true
  | COhp c ing macs b sl p impl ch il ol crsv => ohp_ok (mac_lookup macs) c ing b sl p impl ch il ol crsv
  | CRevB c now k macs p1 rp impl => revB_ok (mac_lookup macs) c now k p1 rp impl
  | CRevA cA cB now k ingA macsA macsB p0 hdr rp impl =>
    revA_ok (mac_lookup macsA) (mac_lookup macsB) cA cB now k ingA p0 hdr impl
  | CBfd c ifid remote now_s macs sent =>
    (* a BFD one-hop packet satisfies what C12 demands of packets leaving the AS *)
    bfd_ok (mac_lookup macs) c ifid remote sent
  end.

Definition check (cs : case) : N := Check.verdict (agree cs) (oracle cs).
Definition diag (cs : case) : result := model cs.

End RouterOHP.
