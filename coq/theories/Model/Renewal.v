(** Model of certificate renewal (C37):
      private/ca/renewal/request.go   RequestVerifier.VerifyCMSSignedRenewalRequest, ExtractChain,
                                      VerifySignature, verifyClientChain, verifyWithGraceTRC,
                                      verifySignerInfo, processCSR
      pkg/scrypto/cppki/ca.go         CAPolicy.CreateChain
    on top of Model/PKIChain.v.  CMS / PKCS#10 / ECDSA are abstract: a request
    is the record of what the parsed objects say (envelope certificates in DER
    order, SignedData version, number of SignerInfos, which envelope certificate
    the SignerInfo names, whether the message digest matches the payload, under
    which key the signatures verify, the CSR's subject ISD-AS and key).
    Definitions only. *)
From Coq Require Import List NArith ZArith Bool.
From Scion Require Import Lib.Check Model.PKIChain.
Import ListNotations.
Import PKIChain.
Local Open Scope N_scope.

Module Renewal.

Record request := mkreq {
  r_parse_ok : bool;        (* ContentInfo / SignedData / certificates parse *)
  r_certs : list cert;      (* certificates of the envelope, in parsed order *)
  r_version : N;            (* SignedData version *)
  r_nsigners : N;           (* number of SignerInfos *)
  r_sid : N;                (* c_id of the envelope certificate named by the first SignerInfo, 0 = none *)
  r_type_data : bool;       (* EncapContentInfo is id-data and the payload is readable *)
  r_digest_ok : bool;       (* message-digest attribute = digest of the payload *)
  r_sig_key : N;            (* key under which the SignerInfo signature over the signed attributes verifies, 0 = none *)
  r_csr_parse : bool;       (* payload parses as PKCS#10 *)
  r_csr_ia : ia_res;        (* ISD-AS of the CSR subject *)
  r_csr_key : N;            (* public key of the CSR *)
  r_csr_sig_key : N }.      (* key under which the CSR's own signature verifies, 0 = none *)

(** ExtractChain: exactly two certificates; a leading CA certificate is swapped
    behind; the result must be a valid chain *)
Definition normalise (certs : list cert) : option chain :=
  match certs with
  | [x; y] =>
    match validate_cert x with
    | None => None
    | Some t => let ch := if ctype_eqb t TCA then [y; x] else [x; y] in
                if validate_chain ch then Some ch else None
    end
  | _ => None
  end.

(** verifyClientChain / verifyWithGraceTRC *)
Definition client_chain_ok (ts : list trc) (ch : chain) (now : Z) : bool :=
  match ch with
  | a :: _ =>
    match c_subject_ia a with
    | IAOk isd _ =>
      match latest_trc ts isd with
      | None => false
      | Some t =>
        trc_contains t now
        && (verify_chain_trc ch (Some t) now
            || (negb (is_base t) && (now <=? grace_end t)%Z
                && match find_trc ts isd (t_base t) (t_serial t - 1) with
                   | None => false
                   | Some g => trc_contains g now && verify_chain_trc ch (Some g) now
                   end))
      end
    | _ => false
    end
  | [] => false
  end.

Definition ia_eqb (a b : ia_res) : bool :=
  match a, b with IAOk i s, IAOk i' s' => (i =? i') && (s =? s') | _, _ => false end.

(** VerifyCMSSignedRenewalRequest: [true] = the CSR is returned *)
Definition renewal_verify (ts : list trc) (r : request) (now : Z) : bool :=
  r_parse_ok r &&
  match normalise (r_certs r) with
  | Some (a :: c) =>
    let ch := a :: c in
    (r_version r =? 1) && (r_nsigners r =? 1)
    && (negb (r_sid r =? 0) && (r_sid r =? c_id a))         (* the SignerInfo names a certificate: the AS certificate *)
    && client_chain_ok ts ch now
    && r_type_data r
    && (r_digest_ok r && negb (r_sig_key r =? 0) && (r_sig_key r =? c_key a))   (* verifySignerInfo *)
    && r_csr_parse r
    && ia_eqb (r_csr_ia r) (c_subject_ia a)                 (* processCSR *)
    && (negb (r_csr_sig_key r =? 0) && (r_csr_sig_key r =? r_csr_key r))
  | _ => false
  end.

(** The property's reading of an acceptable request. *)
Definition spec_client_ok (ts : list trc) (ch : chain) (now : Z) : bool :=
  match ch with
  | a :: _ =>
    match c_subject_ia a with
    | IAOk isd _ =>
      match latest_trc ts isd with
      | None => false
      | Some t =>
        trc_contains t now
        && (spec_chain_ok ch t now
            || (in_grace t now
                && match find_trc ts isd (t_base t) (t_serial t - 1) with
                   | None => false
                   | Some g => trc_contains g now && spec_chain_ok ch g now
                   end))
      end
    | _ => false
    end
  | [] => false
  end.

Definition spec_request_ok (ts : list trc) (r : request) (now : Z) : bool :=
  (r_nsigners r =? 1)                                                     (* a single signer *)
  && existsb (fun a =>
       existsb (fun c =>
         (negb (r_sid r =? 0) && (r_sid r =? c_id a))                     (* ... whose certificate is the AS certificate of the included chain *)
         && spec_client_ok ts [a; c] now                                  (* the chain verifies against latest / predecessor in grace *)
         && (r_digest_ok r && (r_sig_key r =? c_key a) && negb (r_sig_key r =? 0))  (* the signature covers the request *)
         && ia_eqb (r_csr_ia r) (c_subject_ia a))                         (* same subject ISD-AS *)
       (r_certs r)) (r_certs r)
  && ((r_csr_sig_key r =? r_csr_key r) && negb (r_csr_sig_key r =? 0)).   (* the request's own signature is valid *)

(** ---------------------------------------------------------------- CAPolicy.CreateChain *)

Record csr := mkcsr {
  q_key : N;            (* public key handle *)
  q_skid : N;           (* cppki.SubjectKeyID of it, 0 = not computable *)
  q_subject : N;        (* handle of the subject name *)
  q_ia : ia_res }.

(** [ca]: the CA certificate of the policy; [signer_key]: key of the policy's
    Signer; [sig_ok]: x509 picks an ECDSA-with-SHA2 algorithm for that key.
    [None] = error. *)
Definition create_chain (ca : cert) (signer_key : N) (sig_ok : bool) (now d : Z) (q : csr) : option cert :=
  if negb (covers (c_nb ca) (c_na ca) now (now + d)%Z) then None
  else if q_skid q =? 0 then None
  else if negb (signer_key =? c_key ca) then None       (* x509.CreateCertificate: key does not match the parent *)
  else
    let a := mkc 0 (q_key q) signer_key (q_subject q) (c_subject ca) 3 true sig_ok (q_skid q) (c_skid ca)
                 false false false true [1; 2; 8] [] false false 0 false (q_ia q) (c_subject_ia ca)
                 now (now + d)%Z in
    if validate_chain [a; ca] then Some a else None.

(** ---------------------------------------------------------------- correspondence cases *)

(** the fields of an issued certificate the property talks about *)
Definition issued_view (a : cert) : list Z :=
  [Z.of_N (c_key a); Z.of_N (c_signer a); Z.of_N (c_issuer a); Z.of_N (c_skid a); Z.of_N (c_akid a);
   c_nb a; c_na a; Z.of_N (ctype_code (validate_cert a));
   match c_subject_ia a with IAOk i s => Z.of_N i | _ => (-1)%Z end;
   match c_subject_ia a with IAOk i s => Z.of_N s | _ => (-1)%Z end].

Definition zlist_eqb (a b : list Z) : bool := list_eqb Z.eqb a b.

Inductive case :=
| CRenew (ts : list trc) (r : request) (now : Z) (impl : bool)
| CIssue (ca : cert) (signer_key : N) (sig_ok : bool) (now d : Z) (q : csr)
         (impl : option cert) (impl_same_subject : bool).

Definition issue_oracle (ca : cert) (q : csr) (impl : option cert) (same_subject : bool) : bool :=
  match impl with
  | None => true
  | Some a =>
    (c_key a =? q_key q) && ia_eqb (c_subject_ia a) (q_ia q) && same_subject   (* requested key and subject *)
    && validate_chain [a; ca]                                                   (* a valid chain *)
    && (c_na a <=? c_na ca)%Z && (c_nb ca <=? c_nb a)%Z                         (* never outlives the CA certificate *)
    && (c_signer a =? c_key ca)                                                  (* signed with the CA key *)
  end.

Definition check (c : case) : N :=
  match c with
  | CRenew ts r now impl =>
    Check.verdict (Bool.eqb (renewal_verify ts r now) impl) (negb impl || spec_request_ok ts r now)
  | CIssue ca sk so now d q impl same =>
    Check.verdict
      (match create_chain ca sk so now d q, impl with
       | None, None => true
       | Some a, Some b => zlist_eqb (issued_view a) (issued_view b)
       | _, _ => false
       end)
      (issue_oracle ca q impl same)
  end.

Definition diag (c : case) : list Z :=
  match c with
  | CRenew ts r now _ => [if renewal_verify ts r now then 1%Z else 0%Z]
  | CIssue ca sk so now d q _ _ =>
    match create_chain ca sk so now d q with Some a => issued_view a | None => [(-999)%Z] end
  end.

End Renewal.
