(** C18, layers 1-2: hop field, info field, path meta header, SCION path (raw and
    decoded form), one-hop path, EPIC path, empty path.  Byte-level encode/decode
    following pkg/slayers/path/{hopfield,infofield}.go, path/scion/{base,raw,decoded}.go,
    path/onehop, path/epic, path/empty.  Definitions only. *)
From Coq Require Import List Arith NArith Bool.
From Scion Require Import Lib.Bytes Lib.BytesX Lib.Check.
Import ListNotations.
Local Open Scope N_scope.
Local Open Scope res_scope.

Module HdrPath.

Definition b2n (b : bool) : N := if b then 1 else 0.
Definition bit (x : N) (i : N) : bool := (x / 2 ^ i) mod 2 =? 1.

(** ------------------------------------------------------------ hop field (12 bytes) *)
Record hop := mkHop {
  h_ingress_alert : bool;      (* raw[0] & 0x2 *)
  h_egress_alert : bool;       (* raw[0] & 0x1 *)
  h_exp : N;                   (* uint8 *)
  h_ci : N;                    (* uint16 *)
  h_ce : N;                    (* uint16 *)
  h_mac : bytes                (* [6]byte *)
}.

Definition hop_len : nat := 12.
Definition mac_len : nat := 6.

Definition hop_encode (h : hop) : bytes :=
  be 1 (b2n (h_egress_alert h) + 2 * b2n (h_ingress_alert h)) ++ be 1 (h_exp h) ++
  be 2 (h_ci h) ++ be 2 (h_ce h) ++ fit mac_len (h_mac h).

Definition hop_decode (raw : bytes) : res (hop * bytes) :=
  if Nat.ltb (length raw) hop_len then Err else
  '(f, r) <- wordP 1 raw ;;
  '(e, r) <- wordP 1 r ;;
  '(ci, r) <- wordP 2 r ;;
  '(ce, r) <- wordP 2 r ;;
  '(m, r) <- takeP mac_len r ;;
  Ok (mkHop (bit f 1) (bit f 0) e ci ce m, r).

Definition wf_hop (h : hop) : Prop :=
  h_exp h < 256 /\ h_ci h < 65536 /\ h_ce h < 65536 /\
  length (h_mac h) = mac_len /\ wf_bytes (h_mac h).
Definition wf_hopb (h : hop) : bool :=
  (h_exp h <? 256) && (h_ci h <? 65536) && (h_ce h <? 65536) &&
  Nat.eqb (length (h_mac h)) mac_len && wf_bytesb (h_mac h).

(** reserved: the six high bits of byte 0 *)
Definition mask_hop (bs : bytes) : bytes :=
  match bs with b0 :: t => b0 mod 4 :: t | [] => [] end.

Definition hop_eqb (a b : hop) : bool :=
  Bool.eqb (h_ingress_alert a) (h_ingress_alert b) && Bool.eqb (h_egress_alert a) (h_egress_alert b) &&
  (h_exp a =? h_exp b) && (h_ci a =? h_ci b) && (h_ce a =? h_ce b) && bytes_eqb (h_mac a) (h_mac b).

(** ------------------------------------------------------------ info field (8 bytes) *)
Record info := mkInfo {
  i_peer : bool;               (* raw[0] & 0x2 *)
  i_consdir : bool;            (* raw[0] & 0x1 *)
  i_segid : N;                 (* uint16 *)
  i_ts : N                     (* uint32 *)
}.

Definition info_len : nat := 8.

Definition info_encode (i : info) : bytes :=
  be 1 (b2n (i_consdir i) + 2 * b2n (i_peer i)) ++ be 1 0 ++ be 2 (i_segid i) ++ be 4 (i_ts i).

Definition info_decode (raw : bytes) : res (info * bytes) :=
  if Nat.ltb (length raw) info_len then Err else
  '(f, r) <- wordP 1 raw ;;
  '(_, r) <- wordP 1 r ;;
  '(sid, r) <- wordP 2 r ;;
  '(ts, r) <- wordP 4 r ;;
  Ok (mkInfo (bit f 1) (bit f 0) sid ts, r).

Definition wf_info (i : info) : Prop := i_segid i < 65536 /\ i_ts i < 4294967296.
Definition wf_infob (i : info) : bool := (i_segid i <? 65536) && (i_ts i <? 4294967296).

(** reserved: the six high bits of byte 0 and all of byte 1 *)
Definition mask_info (bs : bytes) : bytes :=
  match bs with b0 :: b1 :: t => b0 mod 4 :: 0 :: t | l => l end.

Definition info_eqb (a b : info) : bool :=
  Bool.eqb (i_peer a) (i_peer b) && Bool.eqb (i_consdir a) (i_consdir b) &&
  (i_segid a =? i_segid b) && (i_ts a =? i_ts b).

(** ------------------------------------------------------------ path meta header (4 bytes) *)
Record meta := mkMeta { m_currinf : N; m_currhf : N; m_seg0 : N; m_seg1 : N; m_seg2 : N }.

Definition meta_len : nat := 4.

(** [uint32(CurrINF)<<30 | uint32(CurrHF&0x3F)<<24 | (SegLen[i]&0x3F) << ...]; the fields
    occupy disjoint bit ranges, so [|] is [+]; [uint32(x)<<30] keeps the two low bits of [x]. *)
Definition meta_line (m : meta) : N :=
  (m_currinf m mod 4) * 2 ^ 30 + (m_currhf m mod 64) * 2 ^ 24 +
  (m_seg0 m mod 64) * 2 ^ 12 + (m_seg1 m mod 64) * 2 ^ 6 + m_seg2 m mod 64.

Definition meta_encode (m : meta) : bytes := be 4 (meta_line m).

Definition meta_of_line (line : N) : meta :=
  mkMeta (line / 2 ^ 30) ((line / 2 ^ 24) mod 64) ((line / 2 ^ 12) mod 64)
         ((line / 2 ^ 6) mod 64) (line mod 64).

Definition meta_decode (raw : bytes) : res (meta * bytes) :=
  if Nat.ltb (length raw) meta_len then Err else
  '(line, r) <- wordP 4 raw ;;
  Ok (meta_of_line line, r).

Definition wf_meta (m : meta) : Prop :=
  m_currinf m < 4 /\ m_currhf m < 64 /\ m_seg0 m < 64 /\ m_seg1 m < 64 /\ m_seg2 m < 64.
Definition wf_metab (m : meta) : bool :=
  (m_currinf m <? 4) && (m_currhf m <? 64) && (m_seg0 m <? 64) && (m_seg1 m <? 64) && (m_seg2 m <? 64).

(** reserved: bits 18..23 of the 32-bit line (the six high bits of byte 1) *)
Definition clear_rsv (line : N) : N := line - ((line / 2 ^ 18) mod 64) * 2 ^ 18.
Definition mask_meta (bs : bytes) : bytes :=
  match bs with
  | b0 :: b1 :: t => b0 :: b1 mod 4 :: t
  | l => l
  end.

Definition meta_eqb (a b : meta) : bool :=
  (m_currinf a =? m_currinf b) && (m_currhf a =? m_currhf b) && (m_seg0 a =? m_seg0 b) &&
  (m_seg1 a =? m_seg1 b) && (m_seg2 a =? m_seg2 b).

(** ------------------------------------------------------------ Base *)
Record base := mkBase { b_meta : meta; b_numinf : N; b_numhops : N }.

Definition max_hops : N := 64.

(** one iteration of [for i := 2; i >= 0; i--] in Base.DecodeFromBytes *)
Definition base_step (st : res (N * N)) (iseg : N * N) : res (N * N) :=
  '(ninf, nh) <- st ;;
  let '(i, seg) := iseg in
  if (seg =? 0) && (0 <? ninf) then Err
  else Ok ((if (0 <? seg) && (ninf =? 0) then i + 1 else ninf), nh + seg).

Definition base_of_meta (m : meta) : res base :=
  '(ninf, nh) <- fold_left base_step [(2, m_seg2 m); (1, m_seg1 m); (0, m_seg0 m)] (Ok (0, 0)) ;;
  if max_hops <? nh then Err else Ok (mkBase m ninf nh).

Definition base_decode (data : bytes) : res (base * bytes) :=
  '(m, r) <- meta_decode data ;;
  b <- base_of_meta m ;;
  Ok (b, r).

Definition base_len (b : base) : nat :=
  meta_len + N.to_nat (b_numinf b) * info_len + N.to_nat (b_numhops b) * hop_len.

Definition base_eqb (a b : base) : bool :=
  meta_eqb (b_meta a) (b_meta b) && (b_numinf a =? b_numinf b) && (b_numhops a =? b_numhops b).

(** ------------------------------------------------------------ scion.Raw *)
Record raw_path := mkRaw { rp_base : base; rp_raw : bytes }.

Definition raw_decode (data : bytes) : res (raw_path * bytes) :=
  '(b, _) <- base_decode data ;;
  let plen := base_len b in
  if Nat.ltb (length data) plen then Err else
  '(raw, rest) <- takeP plen data ;;
  Ok (mkRaw b raw, rest).

(** Raw.SerializeTo into a zeroed buffer of [Len()] bytes: writes PathMeta over the first
    four bytes of [Raw], then [copy(b, s.Raw)]. *)
Definition raw_encode (p : raw_path) : res bytes :=
  if Nat.ltb (length (rp_raw p)) meta_len then Err else
  Ok (fit (base_len (rp_base p)) (meta_encode (b_meta (rp_base p)) ++ skipn meta_len (rp_raw p))).

(** the value of the struct after SerializeTo (which rewrote the first four bytes of [Raw]) *)
Definition raw_canon (p : raw_path) : raw_path :=
  mkRaw (rp_base p) (meta_encode (b_meta (rp_base p)) ++ skipn meta_len (rp_raw p)).

Definition wf_raw (p : raw_path) : Prop :=
  wf_meta (b_meta (rp_base p)) /\ base_of_meta (b_meta (rp_base p)) = Ok (rp_base p) /\
  length (rp_raw p) = base_len (rp_base p) /\ wf_bytes (rp_raw p).
Definition res_base_eqb (r : res base) (b : base) : bool :=
  match r with Ok x => base_eqb x b | _ => false end.
Definition wf_rawb (p : raw_path) : bool :=
  wf_metab (b_meta (rp_base p)) && res_base_eqb (base_of_meta (b_meta (rp_base p))) (rp_base p) &&
  Nat.eqb (length (rp_raw p)) (base_len (rp_base p)) && wf_bytesb (rp_raw p).

Definition raw_eqb (a b : raw_path) : bool :=
  base_eqb (rp_base a) (rp_base b) && bytes_eqb (rp_raw a) (rp_raw b).

(** ------------------------------------------------------------ scion.Decoded *)
Record dec_path := mkDec { dp_base : base; dp_infos : list info; dp_hops : list hop }.

(** [for i := range n { x[i].DecodeFromBytes(data[offset:offset+k]); offset += k }] *)
Fixpoint read_list {A} (k : nat) (dec : bytes -> res (A * bytes)) (n : nat) (r : bytes)
  : res (list A * bytes) :=
  match n with
  | O => Ok ([], r)
  | S n' =>
    '(chunk, r') <- takeP k r ;;
    '(x, _) <- dec chunk ;;
    '(xs, r'') <- read_list k dec n' r' ;;
    Ok (x :: xs, r'')
  end.

Definition dec_decode (data : bytes) : res (dec_path * bytes) :=
  '(b, r) <- base_decode data ;;
  if Nat.ltb (length data) (base_len b) then Err else
  '(infos, r) <- read_list info_len info_decode (N.to_nat (b_numinf b)) r ;;
  '(hops, r) <- read_list hop_len hop_decode (N.to_nat (b_numhops b)) r ;;
  Ok (mkDec b infos hops, r).

(** Decoded.SerializeTo into a buffer of [Len()] bytes.  Only modelled for values whose slices
    have the lengths NumINF / NumHops announce (otherwise the Go code writes past [Len()]). *)
Definition dec_encode (d : dec_path) : res bytes :=
  if Nat.eqb (length (dp_infos d)) (N.to_nat (b_numinf (dp_base d))) &&
     Nat.eqb (length (dp_hops d)) (N.to_nat (b_numhops (dp_base d)))
  then Ok (meta_encode (b_meta (dp_base d)) ++ concat (map info_encode (dp_infos d)) ++
           concat (map hop_encode (dp_hops d)))
  else Err.

Definition wf_dec (d : dec_path) : Prop :=
  wf_meta (b_meta (dp_base d)) /\ base_of_meta (b_meta (dp_base d)) = Ok (dp_base d) /\
  length (dp_infos d) = N.to_nat (b_numinf (dp_base d)) /\
  length (dp_hops d) = N.to_nat (b_numhops (dp_base d)) /\
  Forall wf_info (dp_infos d) /\ Forall wf_hop (dp_hops d).
Definition wf_decb (d : dec_path) : bool :=
  wf_metab (b_meta (dp_base d)) && res_base_eqb (base_of_meta (b_meta (dp_base d))) (dp_base d) &&
  Nat.eqb (length (dp_infos d)) (N.to_nat (b_numinf (dp_base d))) &&
  Nat.eqb (length (dp_hops d)) (N.to_nat (b_numhops (dp_base d))) &&
  forallb wf_infob (dp_infos d) && forallb wf_hopb (dp_hops d).

Definition dec_eqb (a b : dec_path) : bool :=
  base_eqb (dp_base a) (dp_base b) && list_eqb info_eqb (dp_infos a) (dp_infos b) &&
  list_eqb hop_eqb (dp_hops a) (dp_hops b).

(** apply [f] to each of the next [n] chunks of [k] bytes, then [cont] to what follows *)
Fixpoint mask_chunks (k : nat) (f : bytes -> bytes) (n : nat) (cont : bytes -> bytes) (l : bytes) : bytes :=
  match n with
  | O => cont l
  | S n' => f (firstn k l) ++ mask_chunks k f n' cont (skipn k l)
  end.

(** reserved bits of a fully decoded SCION path: meta RSV, per info field, per hop field *)
Definition mask_dec (bs : bytes) : bytes :=
  match base_decode bs with
  | Ok (b, _) =>
    firstn meta_len (mask_meta bs) ++
    mask_chunks info_len mask_info (N.to_nat (b_numinf b))
      (mask_chunks hop_len mask_hop (N.to_nat (b_numhops b)) (fun l => l)) (skipn meta_len bs)
  | _ => bs
  end.

(** ------------------------------------------------------------ one-hop path (32 bytes) *)
Record onehop := mkOneHop { oh_info : info; oh_first : hop; oh_second : hop }.

Definition onehop_len : nat := 32.

Definition onehop_encode (o : onehop) : bytes :=
  info_encode (oh_info o) ++ hop_encode (oh_first o) ++ hop_encode (oh_second o).

Definition onehop_decode (data : bytes) : res (onehop * bytes) :=
  if Nat.ltb (length data) onehop_len then Err else
  '(c, r) <- takeP info_len data ;;
  '(i, _) <- info_decode c ;;
  '(c, r) <- takeP hop_len r ;;
  '(h1, _) <- hop_decode c ;;
  '(c, r) <- takeP hop_len r ;;
  '(h2, _) <- hop_decode c ;;
  Ok (mkOneHop i h1 h2, r).

Definition wf_onehop (o : onehop) : Prop :=
  wf_info (oh_info o) /\ wf_hop (oh_first o) /\ wf_hop (oh_second o).
Definition wf_onehopb (o : onehop) : bool :=
  wf_infob (oh_info o) && wf_hopb (oh_first o) && wf_hopb (oh_second o).

Definition mask_onehop (bs : bytes) : bytes :=
  mask_chunks info_len mask_info 1 (mask_chunks hop_len mask_hop 2 (fun l => l)) bs.

Definition onehop_eqb (a b : onehop) : bool :=
  info_eqb (oh_info a) (oh_info b) && hop_eqb (oh_first a) (oh_first b) &&
  hop_eqb (oh_second a) (oh_second b).

(** ------------------------------------------------------------ EPIC path *)
Record epic := mkEpic {
  ep_ts : N; ep_ctr : N;        (* PktID: uint32, uint32 *)
  ep_phvf : bytes; ep_lhvf : bytes;
  ep_scion : raw_path
}.

Definition epic_meta_len : nat := 16.
Definition hvf_len : nat := 4.

Definition epic_decode (data : bytes) : res (epic * bytes) :=
  if Nat.ltb (length data) epic_meta_len then Err else
  '(ts, r) <- wordP 4 data ;;
  '(ctr, r) <- wordP 4 r ;;
  '(p, r) <- takeP hvf_len r ;;
  '(l, r) <- takeP hvf_len r ;;
  '(sp, rest) <- raw_decode r ;;
  Ok (mkEpic ts ctr p l sp, rest).

Definition epic_encode (e : epic) : res bytes :=
  if negb (Nat.eqb (length (ep_phvf e)) hvf_len) then Err else
  if negb (Nat.eqb (length (ep_lhvf e)) hvf_len) then Err else
  sp <- raw_encode (ep_scion e) ;;
  Ok (be 4 (ep_ts e) ++ be 4 (ep_ctr e) ++ ep_phvf e ++ ep_lhvf e ++ sp).

Definition wf_epic (e : epic) : Prop :=
  ep_ts e < 4294967296 /\ ep_ctr e < 4294967296 /\
  length (ep_phvf e) = hvf_len /\ wf_bytes (ep_phvf e) /\
  length (ep_lhvf e) = hvf_len /\ wf_bytes (ep_lhvf e) /\ wf_raw (ep_scion e).
Definition wf_epicb (e : epic) : bool :=
  (ep_ts e <? 4294967296) && (ep_ctr e <? 4294967296) &&
  Nat.eqb (length (ep_phvf e)) hvf_len && wf_bytesb (ep_phvf e) &&
  Nat.eqb (length (ep_lhvf e)) hvf_len && wf_bytesb (ep_lhvf e) && wf_rawb (ep_scion e).

Definition mask_epic (bs : bytes) : bytes :=
  firstn epic_meta_len bs ++ mask_meta (skipn epic_meta_len bs).

Definition epic_eqb (a b : epic) : bool :=
  (ep_ts a =? ep_ts b) && (ep_ctr a =? ep_ctr b) && bytes_eqb (ep_phvf a) (ep_phvf b) &&
  bytes_eqb (ep_lhvf a) (ep_lhvf b) && raw_eqb (ep_scion a) (ep_scion b).

(** ------------------------------------------------------------ empty path *)
Definition empty_decode (data : bytes) : res (unit * bytes) :=
  if Nat.eqb (length data) 0 then Ok (tt, []) else Err.

(** ------------------------------------------------------------ path.Path as stored in slayers.SCION *)
Inductive path :=
| PEmpty
| PScion (p : raw_path)
| POneHop (o : onehop)
| PEpic (e : epic)
| PDecoded (d : dec_path)      (* only ever produced by callers, never by SCION.DecodeFromBytes *)
| POpaque (t : N) (b : bytes). (* path.rawPath: unknown path type [t] kept as bytes; only with
                                  SCION.RecyclePaths (or non-strict decoding) *)

Definition path_type (p : path) : N :=
  match p with PEmpty => 0 | PScion _ => 1 | POneHop _ => 2 | PEpic _ => 3 | PDecoded _ => 1
               | POpaque t _ => t end.

Definition is_opaque (p : path) : bool := match p with POpaque _ _ => true | _ => false end.

(** Path.Len() *)
Definition path_len (p : path) : nat :=
  match p with
  | PEmpty => 0
  | PScion r => base_len (rp_base r)
  | POneHop _ => onehop_len
  | PEpic e => epic_meta_len + base_len (rp_base (ep_scion e))
  | PDecoded d => base_len (dp_base d)
  | POpaque _ b => length b
  end.

Definition path_encode (p : path) : res bytes :=
  match p with
  | PEmpty => Ok []
  | PScion r => raw_encode r
  | POneHop o => Ok (onehop_encode o)
  | PEpic e => epic_encode e
  | PDecoded d => dec_encode d
  | POpaque _ b => Ok b
  end.

(** path.NewPath(pathType) with strict decoding (the default), then Path.DecodeFromBytes.
    The returned rest is what the path decoder left untouched (HdrLen slack). *)
Definition path_decode (pt : N) (data : bytes) : res (path * bytes) :=
  match pt with
  | 0 => '(_, r) <- empty_decode data ;; Ok (PEmpty, r)
  | 1 => '(p, r) <- raw_decode data ;; Ok (PScion p, r)
  | 2 => '(o, r) <- onehop_decode data ;; Ok (POneHop o, r)
  | 3 => '(e, r) <- epic_decode data ;; Ok (PEpic e, r)
  | _ => Err
  end.

(** SCION.getPath on a layer with RecyclePaths(): pooled objects for the four registered types
    (same decoders), the opaque raw path for every other type *)
Definition path_decode_r (pt : N) (data : bytes) : res (path * bytes) :=
  if pt <=? 3 then path_decode pt data else Ok (POpaque pt data, []).

Definition path_canon (p : path) : path :=
  match p with
  | PScion r => PScion (raw_canon r)
  | PEpic e => PEpic (mkEpic (ep_ts e) (ep_ctr e) (ep_phvf e) (ep_lhvf e) (raw_canon (ep_scion e)))
  | _ => p
  end.

Definition wf_path (p : path) : Prop :=
  match p with
  | PEmpty => True
  | PScion r => wf_raw r
  | POneHop o => wf_onehop o
  | PEpic e => wf_epic e
  | PDecoded d => wf_dec d
  | POpaque t b => 3 < t /\ t < 256 /\ wf_bytes b
  end.
Definition wf_pathb (p : path) : bool :=
  match p with
  | PEmpty => true
  | PScion r => wf_rawb r
  | POneHop o => wf_onehopb o
  | PEpic e => wf_epicb e
  | PDecoded d => wf_decb d
  | POpaque t b => (3 <? t) && (t <? 256) && wf_bytesb b
  end.

Definition mask_path (pt : N) (bs : bytes) : bytes :=
  match pt with
  | 1 => mask_meta bs
  | 2 => mask_onehop bs
  | 3 => mask_epic bs
  | _ => bs
  end.

Definition path_eqb (a b : path) : bool :=
  match a, b with
  | PEmpty, PEmpty => true
  | PScion x, PScion y => raw_eqb x y
  | POneHop x, POneHop y => onehop_eqb x y
  | PEpic x, PEpic y => epic_eqb x y
  | PDecoded x, PDecoded y => dec_eqb x y
  | POpaque t x, POpaque u y => (t =? u) && bytes_eqb x y
  | _, _ => false
  end.

End HdrPath.
