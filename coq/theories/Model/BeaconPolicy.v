(** Model of beacon reception and propagation filtering:
      control/beacon/policy.go     Filter.Apply, FilterLoop, filterLoops, filterAsLoop, filterIsdLoop,
                                   Policies.Filter / Usage, CorePolicies.Filter / Usage
      control/beacon/store.go      baseStore.PreFilter / InsertBeacon
      private/storage/beacon/sqlite  InsertBeacon (insert, or update when the info timestamp is newer)
      control/beaconing/handler.go Handler.HandleBeacon / validateASEntry (signature verdicts are inputs)
      control/beaconing/propagator.go  Propagator.beaconsPerInterface / shouldIgnore
    Definitions only. *)
From Coq Require Import List NArith ZArith Bool.
From Scion Require Import Lib.Check.
Import ListNotations.
Local Open Scope N_scope.

Module BeaconPolicy.

(** ISD-AS as the pair (ISD, AS); the zero IA is (0, 0). *)
Definition ia := (N * N)%type.
Definition isd (a : ia) : N := fst a.
Definition asn (a : ia) : N := snd a.
Definition ia_eqb (a b : ia) : bool := (fst a =? fst b) && (snd a =? snd b).
Definition ia_zero (a : ia) : bool := (fst a =? 0) && (snd a =? 0).
Definition memN (x : N) (l : list N) : bool := existsb (N.eqb x) l.
Definition mem_ia (x : ia) (l : list ia) : bool := existsb (ia_eqb x) l.

(** ---------------- policy.go: loops *)

(** [filterAsLoop]: the first IA that was seen before; the zero IA if none. *)
Fixpoint as_loop_go (seen hops : list ia) : ia :=
  match hops with
  | [] => (0, 0)
  | h :: t => if mem_ia h seen then h else as_loop_go (h :: seen) t
  end.
Definition filter_as_loop (hops : list ia) : ia := as_loop_go [] hops.

(** [filterIsdLoop]: [last] starts as 0; returns the ISD that is entered a second time, 0 if none. *)
Fixpoint isd_loop_go (seen : list N) (last : N) (hops : list ia) : N :=
  match hops with
  | [] => 0
  | h :: t =>
    if last =? isd h then isd_loop_go seen last t
    else if memN (isd h) seen then isd h
    else isd_loop_go (isd h :: seen) (isd h) t
  end.
Definition filter_isd_loop (hops : list ia) : N := isd_loop_go [] 0 hops.

(** [filterLoops]: true = an error is returned *)
Definition filter_loops (hops : list ia) (allow_isd_loop : bool) : bool :=
  if negb (ia_zero (filter_as_loop hops)) then true
  else if allow_isd_loop then false
  else negb (filter_isd_loop hops =? 0).

(** [FilterLoop(beacon, next, allowIsdLoop)]: true = error *)
Definition filter_loop (hops : list ia) (next : ia) (allow_isd_loop : bool) : bool :=
  filter_loops (if ia_zero next then hops else hops ++ [next]) allow_isd_loop.

(** ---------------- policy.go: Filter *)
Record bfilter := { max_hops : Z; as_bl : list N; isd_bl : list N; allow_isd : bool }.

(** [Filter.Apply]: true = accepted (nil error) *)
Definition filter_apply (f : bfilter) (hops : list ia) : bool :=
  if (Z.of_nat (length hops) >? max_hops f)%Z then false
  else if filter_loops hops (allow_isd f) then false
  else forallb (fun a => negb (memN (asn a) (as_bl f)) && negb (memN (isd a) (isd_bl f))) hops.

(** [Filter.InitDefaults] applied to a configured filter (MaxHopsLength 0 -> DefaultMaxHopsLength = 10,
    AllowIsdLoop nil -> true) *)
Definition mkf (mh : Z) (asbl isdbl : list N) (allow : option bool) : bfilter :=
  {| max_hops := if (mh =? 0)%Z then 10%Z else mh; as_bl := asbl; isd_bl := isdbl;
     allow_isd := match allow with Some b => b | None => true end |}.

(** Policies / CorePolicies: (usage bit, filter) in the order Prop, UpReg, DownReg resp. Prop, CoreReg. *)
Definition policies := list (N * bfilter).
Definition usage_prop : N := 8.

(** [Policies.Filter]: true = accepted by at least one policy *)
Definition pre_filter (ps : policies) (hops : list ia) : bool :=
  existsb (fun p => filter_apply (snd p) hops) ps.
(** [Policies.Usage] *)
Definition usage (ps : policies) (hops : list ia) : N :=
  fold_right (fun p u => if filter_apply (snd p) hops then N.lor (fst p) u else u) 0 ps.
Definition bit_set (u bit : N) : bool := N.land u bit =? bit.

(** ---------------- beacons, interfaces, store *)
Definition hop := (ia * N * N)%type.            (* Local, ConsIngress, ConsEgress *)
Definition hop_ia (h : hop) : ia := fst (fst h).
Record beacon := {
  b_hops : list hop;
  b_next : ia;            (* Next of the last AS entry *)
  b_ts : Z;               (* Info.Timestamp, seconds *)
  b_in : N;               (* InIfID *)
  b_sigs : list bool;     (* verdict of the verifier for each AS entry *)
  b_kid : N }.            (* number of the segment ID (hash over the hops), assigned by the runner *)
Definition hops_of (b : beacon) : list ia := map hop_ia (b_hops b).

Definition hop_eqb (a b : hop) : bool :=
  ia_eqb (hop_ia a) (hop_ia b) && (snd (fst a) =? snd (fst b)) && (snd a =? snd b).
Definition key_eqb := list_eqb hop_eqb.

(** interface table: ifid -> (link type, neighbour IA); link types: 0 unset, 1 core, 2 parent, 3 child, 4 peer *)
Definition intfs := list (N * (N * ia)).
Fixpoint lookup (t : intfs) (id : N) : option (N * ia) :=
  match t with [] => None | (i, v) :: r => if i =? id then Some v else lookup r id end.

Record rec := { r_key : list hop; r_kid : N; r_ts : Z; r_in : N; r_usage : N }.
Definition store := list rec.

(** sqlite [InsertBeacon]: a row with the same segment ID is updated (timestamp,
    ingress interface, usage, packed beacon) iff the new info timestamp is later,
    otherwise left alone; new IDs are appended. *)
Definition mk_rec (b : beacon) (u : N) : rec :=
  {| r_key := b_hops b; r_kid := b_kid b; r_ts := b_ts b; r_in := b_in b; r_usage := u |}.
Fixpoint db_insert (st : store) (b : beacon) (u : N) : store :=
  match st with
  | [] => [mk_rec b u]
  | r :: t =>
    if key_eqb (r_key r) (b_hops b) then (if (b_ts b >? r_ts r)%Z then mk_rec b u else r) :: t
    else r :: db_insert t b u
  end.

Record cfg := { local : ia; ifs : intfs; pols : policies }.

Inductive hres := HNoIntf | HPrefiltered | HInvalid | HVerifyFail | HFiltered | HStored (u : N) | HPanic.

(** [Handler.HandleBeacon] with the real store as inserter. *)
Definition handle (c : cfg) (st : store) (b : beacon) : store * hres :=
  match lookup (ifs c) (b_in b) with
  | None => (st, HNoIntf)
  | Some (lt, nb) =>
    if negb (pre_filter (pols c) (hops_of b)) then (st, HPrefiltered)
    else if negb ((lt =? 1) || (lt =? 2)) then (st, HInvalid)
    else match last (map Some (b_hops b)) None with
         | None => (st, HPanic)                          (* ASEntries[-1] *)
         | Some h =>
           if negb (ia_eqb (hop_ia h) nb) then (st, HInvalid)
           else if negb (ia_eqb (b_next b) (local c)) then (st, HInvalid)
           else if negb (forallb (fun v => v) (b_sigs b)) then (st, HVerifyFail)
           else let u := usage (pols c) (hops_of b) in
                if u =? 0 then (st, HFiltered) else (db_insert st b u, HStored u)
         end
  end.

Definition step (c : cfg) (st : store) (b : beacon) : store := fst (handle c st b).
Definition run (c : cfg) (hist : list beacon) : store := fold_left (step c) hist [].

(** the conditions of the statement for one received beacon *)
Definition acceptable (c : cfg) (b : beacon) : bool :=
  match lookup (ifs c) (b_in b), last (map Some (b_hops b)) None with
  | Some (lt, nb), Some h =>
    ((lt =? 1) || (lt =? 2)) && ia_eqb (hop_ia h) nb && ia_eqb (b_next b) (local c)
    && forallb (fun v => v) (b_sigs b) && pre_filter (pols c) (hops_of b)
  | _, _ => false
  end.

(** ---------------- propagation *)
(** [Propagator.shouldIgnore] *)
Definition should_ignore (allow : bool) (hops : list ia) (nb : ia) : bool := filter_loop hops nb allow.

(** [beaconsPerInterface] for one egress interface with neighbour [nb]: the
    candidates are the rows usable for propagation (set sizes are not limiting),
    rows whose ingress interface is unknown are skipped. *)
Definition key_ias (k : list hop) : list ia := map hop_ia k.
Definition for_interface (pifs : intfs) (allow : bool) (st : store) (nb : ia) : list rec :=
  filter (fun r => bit_set (r_usage r) usage_prop
                   && match lookup pifs (r_in r) with Some _ => true | None => false end
                   && negb (should_ignore allow (key_ias (r_key r)) nb)) st.

Fixpoint insert_sorted (x : N) (l : list N) : list N :=
  match l with [] => [x] | y :: t => if x <=? y then x :: l else y :: insert_sorted x t end.
Definition sortN (l : list N) : list N := fold_right insert_sorted [] l.

Definition propagate (pifs : intfs) (allow : bool) (st : store) (egress : list N)
  : list (N * option (list N)) :=
  map (fun e => (e, match lookup pifs e with
                    | Some (_, nb) => Some (sortN (map r_kid (for_interface pifs allow st nb)))
                    | None => None end)) egress.

(** ---------------- declarative notions of the statement *)
(** AS loop: some AS occurs twice.  ISD loop: an ISD is left and entered again. *)
Definition as_loop (hops : list ia) : Prop := ~ NoDup hops.
Definition isd_loop (hops : list ia) : Prop :=
  exists i j k a b c, (i < j < k)%nat /\
    nth_error hops i = Some a /\ nth_error hops j = Some b /\ nth_error hops k = Some c /\
    isd a = isd c /\ isd b <> isd a.
(** what is sent over an interface whose neighbour is [nb] *)
Definition extended (hops : list ia) (nb : ia) : list ia := if ia_zero nb then hops else hops ++ [nb].
(** real ISD-AS numbers: ISD 0 is the wildcard *)
Definition valid_ias (hops : list ia) : Prop := Forall (fun a => isd a <> 0) hops.

(** ---------------- correspondence cases *)
Definition dump := list (N * Z * N * N).        (* kid, info timestamp, InIfID, usage; sorted by kid *)
Fixpoint insert_rec (x : rec) (l : list rec) : list rec :=
  match l with [] => [x] | y :: t => if r_kid x <=? r_kid y then x :: l else y :: insert_rec x t end.
Definition dump_of (st : store) : dump :=
  map (fun r => (r_kid r, r_ts r, r_in r, r_usage r)) (fold_right insert_rec [] st).

Inductive case :=
| CFilter (f : bfilter) (hops : list ia) (next : ia) (allow : bool)
          (impl_apply impl_loop : bool)   (* Filter.Apply accepted; FilterLoop(next, allow) returned an error *)
| CHist (c : cfg) (hist : list beacon)
        (pifs : intfs) (allow : bool) (egress : list N)
        (impl_ok : list (option bool))    (* per step: error == nil; None = panic *)
        (impl_dump : dump)
        (impl_prop : list (N * option (list N)))
| CWire (loc : ia) (t : list (N * list ia)) (pifs : intfs) (allow : bool)
        (impl_prop : list (N * option (list N))).

Definition step_ok (c : cfg) (st : store) (b : beacon) : option bool :=
  match snd (handle c st b) with
  | HStored _ | HFiltered => Some true
  | HPanic => None
  | _ => Some false
  end.
Fixpoint oks (c : cfg) (st : store) (hist : list beacon) : list (option bool) :=
  match hist with [] => [] | b :: t => step_ok c st b :: oks c (step c st b) t end.

Definition d_eqb (a b : N * Z * N * N) : bool :=
  let '(k1, t1, i1, u1) := a in let '(k2, t2, i2, u2) := b in
  (k1 =? k2) && (t1 =? t2)%Z && (i1 =? i2) && (u1 =? u2).
Definition prop_eqb (a b : N * option (list N)) : bool :=
  (fst a =? fst b) && option_eqb (list_eqb N.eqb) (snd a) (snd b).

(** the runner's numbering of segment IDs is consistent with the hops, policy bits are
    distinct single usages: preconditions of the oracle (checked, not assumed) *)
Definition kids_consistent (hist : list beacon) : bool :=
  forallb (fun b => forallb (fun b' => Bool.eqb (b_kid b =? b_kid b') (key_eqb (b_hops b) (b_hops b'))) hist) hist.
Fixpoint bits_disjoint (ps : policies) : bool :=
  match ps with
  | [] => true
  | p :: t => negb (fst p =? 0) && forallb (fun q => N.land (fst q) (fst p) =? 0) t && bits_disjoint t
  end.

Definition hops_of_kid (hist : list beacon) (kid : N) : option (list ia) :=
  option_map hops_of (find (fun b => b_kid b =? kid) hist).

(** The property on the implementation's observation.
    (1) every stored row stems from a received beacon that arrived on a core or
        parent link, whose last entry is the neighbour and names the local AS,
        whose signatures all verify and that some policy accepts; it carries
        exactly the usages of the accepting policies, and for each of them the
        filter's limits hold;
    (2) every acceptable beacon is stored (the row may stem from a later beacon
        with the same segment ID);
    (3) nothing handed out for an egress interface creates a loop there. *)
Definition row_ok (c : cfg) (hist : list beacon) (d : N * Z * N * N) : bool :=
  let '(kid, ts, inif, u) := d in
  match hops_of_kid hist kid with
  | None => false
  | Some hops =>
    existsb (fun b => (b_kid b =? kid) && (b_ts b =? ts)%Z && (b_in b =? inif) && acceptable c b) hist
    && (u =? usage (pols c) hops) && negb (u =? 0)
    && forallb (fun p => negb (bit_set u (fst p)) || filter_apply (snd p) hops) (pols c)
  end.
Definition stored_all (c : cfg) (hist : list beacon) (d : dump) : bool :=
  forallb (fun b => negb (acceptable c b)
                    || existsb (fun x => let '(kid, ts, _, _) := x in (kid =? b_kid b) && (b_ts b <=? ts)%Z) d) hist.
Definition prop_ok (hist : list beacon) (pifs : intfs) (allow : bool) (d : dump)
                   (p : N * option (list N)) : bool :=
  match lookup pifs (fst p), snd p with
  | Some (_, nb), Some kids =>
    forallb (fun kid =>
      match hops_of_kid hist kid with
      | Some hops =>
        negb (should_ignore allow hops nb)
        && existsb (fun x => let '(k, _, _, u) := x in (k =? kid) && bit_set u usage_prop) d
      | None => false end) kids
  | None, None => true
  | _, _ => false
  end.

Definition no_panic (l : list (option bool)) : bool :=
  forallb (fun o => match o with Some _ => true | None => false end) l.
(** zero-entry beacons make validateASEntry index ASEntries[-1]; they cannot be
    received (seg.BeaconFromPB rejects them), the property does not speak about them *)
Definition in_scope (c : cfg) (hist : list beacon) : bool :=
  kids_consistent hist && bits_disjoint (pols c)
  && forallb (fun b => negb (Nat.eqb (length (b_hops b)) 0)) hist
  (* one verdict per AS entry (audit follow-up: otherwise "all signatures verify" is vacuous) *)
  && forallb (fun b => Nat.eqb (length (b_sigs b)) (length (b_hops b))) hist.

Definition oracle (c : cfg) (hist : list beacon) (pifs : intfs) (allow : bool)
                  (ok : list (option bool)) (d : dump) (pr : list (N * option (list N))) : bool :=
  if negb (in_scope c hist) then true
  else no_panic ok && forallb (row_ok c hist) d && stored_all c hist d
       && forallb (prop_ok hist pifs allow d) pr.

(** ---------------- audit follow-up: the beacon as it leaves the AS.
    [Extend] appends the local AS entry before the beacon is sent to the neighbour
    behind the egress interface, so on the wire the ASes are [hops ++ [local] ++ [nb]].
    [Propagator.shouldIgnore] / [beacon.FilterLoop] look at [hops ++ [nb]] only. *)
Definition on_wire (c : cfg) (hops : list ia) (nb : ia) : list ia :=
  hops ++ [local c] ++ (if ia_zero nb then [] else [nb]).

Definition wire_ok (c : cfg) (hist : list beacon) (pifs : intfs) (allow : bool)
                   (p : N * option (list N)) : bool :=
  match lookup pifs (fst p), snd p with
  | Some (_, nb), Some kids =>
    forallb (fun kid => match hops_of_kid hist kid with
                        | Some hops => negb (filter_loops (on_wire c hops nb) allow)
                        | None => false end) kids
  | _, _ => true
  end.

(** the defect class, from the input alone: some received beacon would loop
    through the local AS on some egress interface although the code's check passes *)
Definition known (c : cfg) (hist : list beacon) (pifs : intfs) (allow : bool) (egress : list N) : bool :=
  existsb (fun b => existsb (fun e =>
    match lookup pifs e with
    | Some (_, nb) => filter_loops (on_wire c (hops_of b) nb) allow && negb (should_ignore allow (hops_of b) nb)
    | None => false end) egress) hist.

(** the full property oracle: [oracle] and no loop on the wire *)
Definition oracle_full (c : cfg) (hist : list beacon) (pifs : intfs) (allow : bool)
                  (ok : list (option bool)) (d : dump) (pr : list (N * option (list N))) : bool :=
  oracle c hist pifs allow ok d pr
  && (negb (in_scope c hist) || forallb (wire_ok c hist pifs allow) pr).

(** the wire-level part as a case of its own (so that the open finding does not
    mask anything else in a history case): the runner supplies the hop IAs of the
    beacons it saw handed out, keyed by segment-ID number *)
Fixpoint assoc_kid (t : list (N * list ia)) (kid : N) : option (list ia) :=
  match t with [] => None | (k, v) :: r => if k =? kid then Some v else assoc_kid r kid end.
Definition kid_table (hist : list beacon) : list (N * list ia) := map (fun b => (b_kid b, hops_of b)) hist.
Definition wire_ok_t (loc : ia) (t : list (N * list ia)) (pifs : intfs) (allow : bool)
                     (p : N * option (list N)) : bool :=
  match lookup pifs (fst p), snd p with
  | Some (_, nb), Some kids =>
    forallb (fun kid => match assoc_kid t kid with
                        | Some hops => negb (filter_loops (hops ++ [loc] ++ (if ia_zero nb then [] else [nb])) allow)
                        | None => false end) kids
  | _, _ => true
  end.

Definition check (x : case) : N :=
  match x with
  | CFilter f hops next allow ia il =>
    Check.verdict (Bool.eqb (filter_apply f hops) ia && Bool.eqb (filter_loop hops next allow) il) true
  | CHist c hist pifs allow egress iok idump iprop =>
    let st := run c hist in
    Check.verdict
      (list_eqb (option_eqb Bool.eqb) (oks c [] hist) iok
       && list_eqb d_eqb (dump_of st) idump
       && list_eqb prop_eqb (propagate pifs allow st egress) iprop)
      (oracle c hist pifs allow iok idump iprop)
  | CWire loc t pifs allow iprop => Check.verdict true (forallb (wire_ok_t loc t pifs allow) iprop)
  end.

Definition diag (x : case) : list (option bool) * dump * list (N * option (list N)) :=
  match x with
  | CFilter f hops next allow _ _ => ([Some (filter_apply f hops); Some (filter_loop hops next allow)], [], [])
  | CHist c hist pifs allow egress _ _ _ =>
    let st := run c hist in (oks c [] hist, dump_of st, propagate pifs allow st egress)
  | CWire _ _ _ _ _ => ([], [], [])
  end.

End BeaconPolicy.
