(** C02, layer 3: definitions.  What "segments produced by beaconing over a topology"
    means at the abstraction of Model/Segment.v ([beaconed]: what iterating
    DefaultExtender.Extend guarantees — C23 states it for one extension step on the
    byte-level model), the packet a host builds from a combinator path
    ([pkt_of_path]) and the provenance path read off a solution of the path combinator
    ([prov_of]: one slice per edge = (segment, cut index), non-peering edges; for a solution
    over a peering link see [peer_hops] in Proofs/CombinePeer.v and [pair_prov] in
    Proofs/CombinePeerMain.v).  Definitions only. *)
From Coq Require Import List NArith Bool Arith.
From Scion Require Import Lib.Check Model.Router Model.Network Model.Prov.
From Scion Require Import Model.Segment Model.SegID Model.Combinator.
Import ListNotations.
Local Open Scope N_scope.

Module CombProv.
Module R := Scion.Model.Router.Router.
Module Nw := Scion.Model.Network.Network.
Module Pv := Scion.Model.Prov.Prov.
Module Sg := Scion.Model.Segment.Segment.
Module Cb := Scion.Model.Combinator.Combinator.
Module Sid := Scion.Model.SegID.SegID.

(** the MAC prefixes of the regular hop fields, and beta_i (C22) *)
Definition sigmas (s : Sg.segment) : list N :=
  map (fun a => Sg.mac16 (Sg.h_mac (Sg.ae_hop a))) (Sg.sg_entries s).
Definition beta_at (s : Sg.segment) (i : nat) : N := Sid.beta (Sg.sg_segid s) (sigmas s) i.
(** the timestamp as the MAC input and the info field carry it (uint32) *)
Definition ts_of (s : Sg.segment) : N := Cb.u32 (Sg.sg_ts s).

Section Beaconed.
Variable mac : N -> N -> N -> N -> N -> N -> list N.
Variable t : Nw.topology.

Definition hop_maced (ia_ : N) (b : N) (ts : N) (h : Sg.hopf) : Prop :=
  exists a, Nw.find_as t ia_ = Some a /\
    Sg.h_mac h = mac (Nw.a_key a) b ts (Sg.h_exp h) (Sg.h_in h) (Sg.h_eg h).

Definition link_to (ia_ ifid : N) (lt : R.linktype) (nbr rem : N) : Prop :=
  exists a f, Nw.find_as t ia_ = Some a /\ Nw.find_nif (Nw.a_ifs a) ifid = Some f /\
    Nw.ni_lt f = lt /\ Nw.ni_nbr f = nbr /\ Nw.ni_remote f = rem.

(** what the extender guarantees for entry [i] of a segment: its hop field is MACed with
    beta_i, its peer hop fields with beta_{i+1} over the same egress and a peering link of
    the AS; its egress leads to the next entry's AS over a child (core) link *)
Definition entry_ok (core : bool) (s : Sg.segment) (i : nat) (e : Sg.as_entry) : Prop :=
  hop_maced (Sg.ae_ia e) (beta_at s i) (ts_of s) (Sg.ae_hop e) /\
  Forall (fun pe =>
    hop_maced (Sg.ae_ia e) (beta_at s (S i)) (ts_of s) (Sg.pe_hop pe) /\
    Sg.h_eg (Sg.pe_hop pe) = Sg.h_eg (Sg.ae_hop e) /\
    link_to (Sg.ae_ia e) (Sg.h_in (Sg.pe_hop pe)) R.Peer (Sg.pe_ia pe) (Sg.pe_if pe)) (Sg.ae_peers e) /\
  match nth_error (Sg.sg_entries s) (S i) with
  | Some e' => link_to (Sg.ae_ia e) (Sg.h_eg (Sg.ae_hop e)) (if core then R.Core else R.Child)
                       (Sg.ae_ia e') (Sg.h_in (Sg.ae_hop e'))
  | None => True
  end.

Definition beaconed (core : bool) (s : Sg.segment) : Prop :=
  Sg.validate s = true /\ Sg.wf_fields s = true /\
  (core = true -> (2 <= length (Sg.sg_entries s))%nat) /\
  forall i e, nth_error (Sg.sg_entries s) i = Some e -> entry_ok core s i e.

End Beaconed.

(** the packet a host builds from a combinator path *)
Definition dflt_slice : Cb.slice := Cb.mkSlice (Cb.mkInfo 0 0 false false) [] [].
Definition pkt_info (sl : Cb.slice) : R.info :=
  R.mkInfo (Cb.i_peer (Cb.sl_info sl)) (Cb.i_consdir (Cb.sl_info sl))
           (Cb.i_segid (Cb.sl_info sl)) (Cb.i_ts (Cb.sl_info sl)) 0.
Definition pkt_hop (x : N * Sg.hopf) : R.hop :=
  R.mkHop false false (Sg.h_exp (snd x)) (Sg.h_in (snd x)) (Sg.h_eg (snd x)) (Sg.h_mac (snd x)) 0.
Definition pkt_of_path (cp : Cb.path) (pp : Pv.pparams) : R.pkt :=
  let sls := Cb.p_slices cp in
  let len j := N.of_nat (length (Cb.sl_hops (nth j sls dflt_slice))) in
  R.mkPkt (Pv.pp_dst_ia pp) (Pv.pp_src_ia pp) (Pv.pp_dst_type pp) (Pv.pp_src_type pp)
          (Pv.pp_dst_raw pp) (Pv.pp_src_raw pp) (Pv.pp_pay pp) (Pv.pp_pay pp) (Pv.pp_port pp)
          0 0 (len 0%nat) (len 1%nat) (len 2%nat) 0
          (map pkt_info sls) (flat_map (fun sl => map pkt_hop (Cb.sl_hops sl)) sls).

(** the provenance path of a solution: one slice per edge *)
Definition dflt_entry : Sg.as_entry := Sg.mkAS 0 (Sg.mkHop 0 0 0 []) 0 0 [].
Definition ph_of (s : Sg.segment) (i : nat) (a : Sg.as_entry) : Pv.phop :=
  Pv.mkPh (Sg.ae_ia a) (Sg.h_in (Sg.ae_hop a)) (Sg.h_eg (Sg.ae_hop a)) (Sg.h_exp (Sg.ae_hop a))
          (Sg.h_mac (Sg.ae_hop a)) (beta_at s i).
(** the AS entries from the cut on, in construction order *)
Definition cons_hops (e : Cb.edge) : list Pv.phop :=
  let s := Cb.is_seg (Cb.e_seg e) in
  map (fun i => ph_of s i (nth i (Sg.sg_entries s) dflt_entry))
      (seq (Cb.e_sc e) (length (Sg.sg_entries s) - Cb.e_sc e)).
Definition pslice_of (e : Cb.edge) : Pv.pslice :=
  Pv.mkSl (match Cb.is_ty (Cb.e_seg e) with Cb.CoreT => Pv.KCore | _ => Pv.KIntra end)
          (Cb.is_down e) false (ts_of (Cb.is_seg (Cb.e_seg e)))
          (if Cb.is_down e then cons_hops e else rev (cons_hops e)).
Definition prov_of (es : list Cb.edge) : Pv.prov := Pv.of_slices (map pslice_of es).

(** no AS other than the source AS / destination AS of the path appears as the AS of a later /
    earlier hop field (what filterLongPaths is for) *)
Definition loop_free (p : Pv.prov) : Prop :=
  (forall k, (1 <= k)%nat -> (k < Pv.nhops p)%nat -> Pv.ia p k <> Pv.ia p 0) /\
  (forall k, (S k < Pv.nhops p)%nat -> Pv.ia p k <> Pv.ia p (Pv.nhops p - 1)).

(** the side conditions of the forwarding theorem, read off the combinator's path: the ASes of
    its hop fields in order; no hop field expired at [now]; the end hosts *)
Definition path_ias (cp : Cb.path) : list N := map fst (flat_map Cb.sl_hops (Cb.p_slices cp)).
Definition path_unexpired (now : N) (cp : Cb.path) : Prop :=
  Forall (fun sl => Forall (fun x =>
    (Cb.i_ts (Cb.sl_info sl) * 1000000000 + (Sg.h_exp (snd x) + 1) * R.ExpUnitNs <? now) = false)
    (Cb.sl_hops sl)) (Cb.p_slices cp).
Definition hosts_ok (t : Nw.topology) (src dst : N) (pp : Pv.pparams) : Prop :=
  Pv.pp_src_ia pp = src /\ Pv.pp_dst_ia pp = dst /\ Pv.src_host_ok pp = true /\
  exists a d, Nw.find_as t dst = Some a /\ Pv.deliver_target a pp = Some d.

End CombProv.
