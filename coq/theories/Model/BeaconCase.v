(** C02, tie of the beaconing run model (Model/Beaconing.v) to the REAL beaconing code.

    [beaconed_b]: the executable form of [CombProv.beaconed] (the hypothesis of C02_combine_prov on
    the input segments), over an option-valued MAC ([Network.kmacq] of a table in the cases).
    [CSeg]: a segment produced by the real control/beaconing.DefaultExtender over a generated
    topology (harness/internal/topogen), together with the origination / propagation choices read
    off the run (egress and announced peering interfaces per AS), the control-plane configuration
    of the ASes (MTUs, MaxExpTime) and a table of hop-field MACs computed with the real MAC function
    under the real keys.  [check_seg]: [Beaconing.run] recomputes the segment ([Extend.extend] per
    AS: ConsIngress / ConsEgress from the links of the topology, peer entries, SegID chain, MACs
    looked up in the table; a miss gives an empty MAC and hence a disagreement) and is compared
    with the decoded real segment; oracle: [beaconed_b] holds on the REAL segment.
    [xcase] joins these cases with the path cases of Model/Prov.v in one shard.  Definitions only. *)
From Coq Require Import List NArith ZArith Bool.
From Scion Require Import Lib.Check Lib.Bytes Model.Router Model.Network Model.Prov.
From Scion Require Import Model.Segment Model.SegID Model.Combinator Model.CombProv Model.Extend Model.Beaconing.
Import ListNotations.
Local Open Scope N_scope.

Module BeaconCase.
Module B := Scion.Model.Beaconing.Beaconing.
Module CP := Scion.Model.CombProv.CombProv.
Module R := Scion.Model.Router.Router.
Module Nw := Scion.Model.Network.Network.
Module Pv := Scion.Model.Prov.Prov.
Module Sg := Scion.Model.Segment.Segment.
Module Ex := Scion.Model.Extend.Extend.

Section Bool.
Variable macq : N -> N -> N -> N -> N -> N -> option (list N).
Variable t : Nw.topology.

Definition hop_maced_b (ia_ b ts : N) (h : Sg.hopf) : bool :=
  match Nw.find_as t ia_ with
  | Some a =>
    match macq (Nw.a_key a) b ts (Sg.h_exp h) (Sg.h_in h) (Sg.h_eg h) with
    | Some m => bytes_eqb (Sg.h_mac h) m
    | None => false
    end
  | None => false
  end.

Definition link_to_b (ia_ ifid : N) (lt : R.linktype) (nbr rem : N) : bool :=
  match Nw.find_as t ia_ with
  | Some a =>
    match Nw.find_nif (Nw.a_ifs a) ifid with
    | Some f => R.lt_eqb (Nw.ni_lt f) lt && (Nw.ni_nbr f =? nbr) && (Nw.ni_remote f =? rem)
    | None => false
    end
  | None => false
  end.

Definition peer_ok_b (s : Sg.segment) (i : nat) (e : Sg.as_entry) (pe : Sg.peer_entry) : bool :=
  hop_maced_b (Sg.ae_ia e) (CP.beta_at s (S i)) (CP.ts_of s) (Sg.pe_hop pe) &&
  (Sg.h_eg (Sg.pe_hop pe) =? Sg.h_eg (Sg.ae_hop e)) &&
  link_to_b (Sg.ae_ia e) (Sg.h_in (Sg.pe_hop pe)) R.Peer (Sg.pe_ia pe) (Sg.pe_if pe).

Definition entry_ok_b (core : bool) (s : Sg.segment) (i : nat) (e : Sg.as_entry) : bool :=
  hop_maced_b (Sg.ae_ia e) (CP.beta_at s i) (CP.ts_of s) (Sg.ae_hop e) &&
  forallb (peer_ok_b s i e) (Sg.ae_peers e) &&
  match nth_error (Sg.sg_entries s) (S i) with
  | Some e' => link_to_b (Sg.ae_ia e) (Sg.h_eg (Sg.ae_hop e)) (if core then R.Core else R.Child)
                         (Sg.ae_ia e') (Sg.h_in (Sg.ae_hop e'))
  | None => true
  end.

Definition beaconed_b (core : bool) (s : Sg.segment) : bool :=
  Sg.validate s && Sg.wf_fields s &&
  (negb core || Nat.leb 2 (length (Sg.sg_entries s))) &&
  forallb (fun i => match nth_error (Sg.sg_entries s) i with
                    | Some e => entry_ok_b core s i e
                    | None => true
                    end) (seq 0 (length (Sg.sg_entries s))).
End Bool.

(** the full MAC as a function of the key and the 16-byte MAC input, read from a table of
    (SegID, timestamp, ExpTime, ConsIngress, ConsEgress) -> 6-byte MAC per key; a miss = [] *)
Definition tabmac (tb : Pv.mactab) (k : N) (inp : list N) : list N :=
  match Nw.kmacq tb k (unbe (firstn 2 (skipn 2 inp))) (unbe (firstn 4 (skipn 4 inp))) (nth 9 inp 0)
                 (unbe (firstn 2 (skipn 10 inp))) (unbe (firstn 2 (skipn 12 inp))) with
  | Some m => m
  | None => []
  end.

(** control-plane configuration per AS: IA -> (MTU, MaxExpTime, [(interface, link MTU)]); the signer
    is valid for ever (the harness signs with a fake signer) *)
Definition ctab := list (N * (N * N * list (N * N))).
Fixpoint assoc {A} (l : list (N * A)) (k : N) : option A :=
  match l with [] => None | (k', v) :: r => if k' =? k then Some v else assoc r k end.
Definition far_future : Z := 1099511627776000000000.
Definition ctl_of_tab (c : ctab) (ia_ : N) : B.ctl :=
  match assoc c ia_ with
  | Some (mtu, mx, ifs) =>
    B.mkCtl mtu (Z.of_N mx) [{| Ex.s_nb := 0; Ex.s_na := far_future |}]
            (fun i => match assoc ifs i with Some m => m | None => 0 end)
  | None => B.mkCtl 0 0 [] (fun _ => 0)
  end.

Inductive case :=
| CSeg (t : Nw.topology) (macs : Pv.mactab) (ctls : ctab) (core : bool) (origin ts segid : N)
       (chs : list (N * list N))          (* per AS on the way: egress (0 = terminate), announced peers *)
       (impl : Sg.segment).               (* the decoded real segment *)

Definition hop_eqb (a b : Sg.hopf) : bool := Sg.hopf_eqb a b.
Definition peer_eqb (a b : Sg.peer_entry) : bool :=
  (Sg.pe_ia a =? Sg.pe_ia b) && (Sg.pe_if a =? Sg.pe_if b) && hop_eqb (Sg.pe_hop a) (Sg.pe_hop b) &&
  (Sg.pe_mtu a =? Sg.pe_mtu b).
Definition entry_eqb (a b : Sg.as_entry) : bool :=
  (Sg.ae_ia a =? Sg.ae_ia b) && hop_eqb (Sg.ae_hop a) (Sg.ae_hop b) && (Sg.ae_inmtu a =? Sg.ae_inmtu b) &&
  (Sg.ae_mtu a =? Sg.ae_mtu b) && list_eqb peer_eqb (Sg.ae_peers a) (Sg.ae_peers b).
Definition seg_eqb (a b : Sg.segment) : bool :=
  (Sg.sg_ts a =? Sg.sg_ts b) && (Sg.sg_segid a =? Sg.sg_segid b) &&
  list_eqb entry_eqb (Sg.sg_entries a) (Sg.sg_entries b).

Definition model_seg (c : case) : option Sg.segment :=
  match c with
  | CSeg t macs ctls core origin ts segid chs _ =>
    B.run (tabmac macs) (ctl_of_tab ctls) t core origin ts segid
          (map (fun x => B.mkCh (fst x) (snd x) (Ex.ns (Z.of_N ts))) chs)
  end.

Definition check_seg (c : case) : N :=
  match c with
  | CSeg t macs ctls core origin ts segid chs impl =>
    Check.verdict (option_eqb seg_eqb (model_seg c) (Some impl))
                  (beaconed_b (Nw.kmacq macs) t core impl)
  end.

(** one shard type for the path cases of Model/Prov.v and the segment cases *)
Inductive xcase := XPath (c : Pv.case) | XSeg (c : case).
Definition check (x : xcase) : N :=
  match x with XPath c => Pv.check02 c | XSeg c => check_seg c end.
Inductive xd := DPath (d : (list Nw.tstep * Nw.final) * bool) | DSeg (s : option Sg.segment) (ok : bool).
Definition diag (x : xcase) : xd :=
  match x with
  | XPath c => DPath (Pv.diag c)
  | XSeg c => DSeg (model_seg c)
                   (match c with CSeg t macs _ core _ _ _ _ impl => beaconed_b (Nw.kmacq macs) t core impl end)
  end.

(** compact constructors for the runner: hop field = exp | in | eg | MAC in one number *)
Definition hp (x : N) : Sg.hopf :=
  Sg.mkHop (Pv.bits x 64 16) (Pv.bits x 48 16) (Pv.bits x 80 8) (R.be_bytes 6 (Pv.bits x 0 48)).
Definition pe (ia_ rif mtu x : N) : Sg.peer_entry := Sg.mkPeer ia_ rif (hp x) mtu.
Definition ae (ia_ x inmtu mtu : N) (ps : list Sg.peer_entry) : Sg.as_entry := Sg.mkAS ia_ (hp x) inmtu mtu ps.

End BeaconCase.
