(** Model of private/path/pathpol: sequences (sequence.go + antlr/Sequence.g4),
    hop predicates (hop_pred.go), ACLs (acl.go), policies (policy.go,
    local_isdas.go, remote_isdas.go).  Definitions only.

    A sequence is modelled as what it denotes: the concrete syntax is
    tokenised and parsed into an AST whose leaves are hop predicates compared
    NUMERICALLY with the hops of a path; the AST is run as a regular expression
    over hop lists (Lib/Regex, Brzozowski derivatives).  The implementation
    instead compiles the text into a regexp over a string rendering of the
    path; the correspondence check compares the two on every run.

    Two parsers: [parse_seq spec_prec] has the standard regular-expression
    precedence (postfix, then juxtaposition, then '|'); [parse_seq impl_prec]
    has the precedence of the generated ANTLR parser ('|' binds tighter than
    juxtaposition, because the Or alternative precedes Concatenation in
    Sequence.g4). *)
From Coq Require Import String Ascii.
From Coq Require Import List NArith ZArith Bool.
From Scion Require Import Lib.Check Lib.Regex Model.AddrFmt.
Import ListNotations.
Local Open Scope N_scope.

Module PathPol.
Import AddrFmt.

(** ---------------------------------------------------------------- hops and hop predicates *)
Record hop := { h_isd : N; h_as : N; h_in : N; h_out : N }.

(** the four forms of onehop in Sequence.g4; [None] for the AS = text that is
    not a valid AS number (it denotes no AS, the implementation's regexp
    fragment matches no path) *)
Inductive hpred :=
| HPIsd (isd : N)
| HPIsdAs (isd : N) (a : option N)
| HPIf (isd : N) (a : option N) (i : N)
| HPInOut (isd : N) (a : option N) (i o : N).

(** 0 is the wildcard *)
Definition wild_eq (p v : N) : bool := (p =? 0) || (p =? v).
Definition as_match (a : option N) (v : N) : bool :=
  match a with Some p => wild_eq p v | None => false end.

Definition hp_match (p : hpred) (h : hop) : bool :=
  match p with
  | HPIsd isd => wild_eq isd (h_isd h)
  | HPIsdAs isd a => wild_eq isd (h_isd h) && as_match a (h_as h)
  | HPIf isd a i => wild_eq isd (h_isd h) && as_match a (h_as h) &&
                    (wild_eq i (h_in h) || wild_eq i (h_out h))
  | HPInOut isd a i o => wild_eq isd (h_isd h) && as_match a (h_as h) &&
                         wild_eq i (h_in h) && wild_eq o (h_out h)
  end.

(** ---------------------------------------------------------------- sequences *)
Inductive seq :=
| SHop (p : hpred)
| SCat (a b : seq) | SOr (a b : seq)
| SOpt (a : seq) | SPlus (a : seq) | SStar (a : seq).

(** the language of a sequence expression: sets of hop lists *)
Fixpoint Lseq (e : seq) (w : list hop) : Prop :=
  match e with
  | SHop p => exists h, w = [h] /\ hp_match p h = true
  | SCat a b => exists u v, w = u ++ v /\ Lseq a u /\ Lseq b v
  | SOr a b => Lseq a w \/ Lseq b w
  | SOpt a => w = [] \/ Lseq a w
  | SPlus a => exists u ws, w = u ++ concat ws /\ Lseq a u /\ Forall (Lseq a) ws
  | SStar a => exists ws, w = concat ws /\ Forall (Lseq a) ws
  end.

Fixpoint seq_re (e : seq) : re hpred :=
  match e with
  | SHop p => Leaf p
  | SCat a b => Cat (seq_re a) (seq_re b)
  | SOr a b => Alt (seq_re a) (seq_re b)
  | SOpt a => Opt (seq_re a)
  | SPlus a => Plus (seq_re a)
  | SStar a => Star (seq_re a)
  end.

Definition seq_matches (e : seq) (w : list hop) : bool := matches hp_match (seq_re e) w.

(** ---------------------------------------------------------------- lexer (Sequence.g4) *)
Inductive tok :=
| TZero | TNum (d : str) | TWildAS | TLegacyAS (d : str) | TAS (txt : str)
| THash | TComma | TQ | TPlus | TStar | TBar | TLPar | TRPar.

Definition is_ws (c : N) : bool := (c =? 32) || (c =? 9) || (c =? 13) || (c =? 10).
Definition is_nz (c : N) : bool := (49 <=? c) && (c <=? 57).

Fixpoint span (p : N -> bool) (s : str) : str * str :=
  match s with
  | c :: t => if p c then let (a, b) := span p t in (c :: a, b) else ([], s)
  | [] => ([], [])
  end.

(** fragment HEXA: [1-9a-fA-F][0-9a-fA-F]* | '0', longest match *)
Definition lex_hexa (s : str) : option (str * str) :=
  match s with
  | c :: t => if c =? 48 then Some ([48], t)
              else if is_hex c then let (a, b) := span is_hex t in Some (c :: a, b)
              else None
  | [] => None
  end.

(** NUM: [1-9][0-9]* *)
Definition lex_num (s : str) : option (str * str) :=
  match s with
  | c :: t => if is_nz c then let (a, b) := span is_dec t in Some (c :: a, b) else None
  | [] => None
  end.

(** AS after the '-': HEXA ':' HEXA ':' HEXA; returns the text after the dash *)
Definition lex_as (s : str) : option (str * str) :=
  match lex_hexa s with
  | Some (h1, 58 :: r1) =>
    match lex_hexa r1 with
    | Some (h2, 58 :: r2) =>
      match lex_hexa r2 with
      | Some (h3, r3) => Some (h1 ++ [58] ++ h2 ++ [58] ++ h3, r3)
      | None => None
      end
    | _ => None
    end
  | _ => None
  end.

Definition tcons (t : tok) (r : option (list tok)) : option (list tok) :=
  match r with Some l => Some (t :: l) | None => None end.

(** maximal munch; whitespace skipped; an unrecognised character is an error
    (ANTLR reports it to the error listener, NewSequence then fails) *)
Fixpoint lex (fuel : nat) (s : str) : option (list tok) :=
  match fuel with
  | O => None
  | S f =>
    match s with
    | [] => Some []
    | c :: t =>
      if is_ws c then lex f t
      else if c =? 48 then tcons TZero (lex f t)
      else if is_nz c then
        match lex_num s with Some (d, r) => tcons (TNum d) (lex f r) | None => None end
      else if c =? 45 then
        match lex_as t with
        | Some (txt, r) => tcons (TAS txt) (lex f r)
        | None =>
          match lex_num t with
          | Some (d, r) => tcons (TLegacyAS d) (lex f r)
          | None => match t with
                    | 48 :: r => tcons TWildAS (lex f r)
                    | _ => None
                    end
          end
        end
      else if c =? 35 then tcons THash (lex f t)
      else if c =? 44 then tcons TComma (lex f t)
      else if c =? 63 then tcons TQ (lex f t)
      else if c =? 43 then tcons TPlus (lex f t)
      else if c =? 42 then tcons TStar (lex f t)
      else if c =? 124 then tcons TBar (lex f t)
      else if c =? 40 then tcons TLPar (lex f t)
      else if c =? 41 then tcons TRPar (lex f t)
      else None
    end
  end.

Definition tokenize (s : str) : option (list tok) := lex (S (length s)) s.

(** ---------------------------------------------------------------- parser *)
Definition num_val (d : str) : N := match digits_val 10 d 0 with Some v => v | None => 0 end.

(** the listener re-prints the AS canonically (addr.ParseAS): the value, 0 = wildcard;
    text that is no AS number denotes nothing *)
Definition as_val (txt : str) : option N := parse_as colon txt.

Definition p_num (t : tok) : option N :=
  match t with TZero => Some 0 | TNum d => Some (num_val d) | _ => None end.

Definition p_as (t : tok) : option (option N) :=
  match t with
  | TWildAS => Some (Some 0)
  | TLegacyAS d => Some (as_val d)
  | TAS txt => Some (as_val txt)
  | _ => None
  end.

(** onehop: isd | isd as | isd as # iface | isd as # iface , iface *)
Definition p_hop (ts : list tok) : option (hpred * list tok) :=
  match ts with
  | [] => None
  | t :: r =>
    match p_num t with
    | None => None
    | Some isd =>
      match r with
      | [] => Some (HPIsd isd, [])
      | ta :: r1 =>
        match p_as ta with
        | None => Some (HPIsd isd, r)
        | Some a =>
          match r1 with
          | THash :: r2 =>
            match r2 with
            | ti :: r3 =>
              match p_num ti with
              | None => None
              | Some i =>
                match r3 with
                | TComma :: r4 =>
                  match r4 with
                  | tout :: r5 => match p_num tout with
                                  | Some o => Some (HPInOut isd a i o, r5)
                                  | None => None
                                  end
                  | [] => None
                  end
                | _ => Some (HPIf isd a i, r3)
                end
              end
            | [] => None
            end
          | _ => Some (HPIsdAs isd a, r1)
          end
        end
      end
    end
  end.

Definition starts_seq (t : tok) : bool :=
  match t with TLPar | TZero | TNum _ => true | _ => false end.

(** precedence climbing exactly as ANTLR does it for the left-recursive rule
    [sequence]; [po]/[pc] are the precedence levels of '|' and of juxtaposition *)
Section Parser.
Variables po pc : nat.

Fixpoint parse (fuel : nat) (p : nat) (ts : list tok) {struct fuel} : option (seq * list tok) :=
  match fuel with
  | O => None
  | S f =>
    let prim :=
      match ts with
      | TLPar :: r =>
        match parse f 0 r with
        | Some (e, TRPar :: r') => Some (e, r')
        | _ => None
        end
      | _ => match p_hop ts with Some (h, r) => Some (SHop h, r) | None => None end
      end in
    match prim with
    | Some (e, r) => ploop f p e r
    | None => None
    end
  end
with ploop (fuel : nat) (p : nat) (e : seq) (ts : list tok) {struct fuel} : option (seq * list tok) :=
  match fuel with
  | O => None
  | S f =>
    match ts with
    | [] => Some (e, [])
    | TQ :: r => ploop f p (SOpt e) r
    | TPlus :: r => ploop f p (SPlus e) r
    | TStar :: r => ploop f p (SStar e) r
    | TBar :: r =>
      if Nat.leb p po then
        match parse f (S po) r with
        | Some (e2, r2) => ploop f p (SOr e e2) r2
        | None => None
        end
      else Some (e, ts)
    | t :: _ =>
      if starts_seq t && Nat.leb p pc then
        match parse f (S pc) ts with
        | Some (e2, r2) => ploop f p (SCat e e2) r2
        | None => None
        end
      else Some (e, ts)
    end
  end.
End Parser.

(** result of NewSequence *)
Inductive sres := SErr | SAll | SSeq (e : seq).

Definition new_sequence (po pc : nat) (s : str) : sres :=
  match s with
  | [] => SAll
  | _ =>
    match tokenize s with
    | None => SErr
    | Some ts =>
      match parse po pc (2 * length ts + 4) 0 ts with
      | Some (e, []) => SSeq e
      | _ => SErr
      end
    end
  end.

(** generated parser: Or (4) before Concatenation (3); regular expressions: the other way round *)
Definition new_sequence_impl := new_sequence 4 3.
Definition new_sequence_spec := new_sequence 3 4.

(** ---------------------------------------------------------------- paths *)
Record path := { p_id : N; p_src : N; p_dst : N; p_ifs : list (N * N) }.   (* interfaces: (IA, ifid) *)

Definition ia_isd_of (ia : N) : N := ia / 2 ^ 48.
Definition ia_as_of (ia : N) : N := ia mod 2 ^ 48.
Definition mk_hop (ia i o : N) : hop :=
  {| h_isd := ia_isd_of ia; h_as := ia_as_of ia; h_in := i; h_out := o |}.

(** GetSequence: first interface = egress of the source AS, then (ingress, egress)
    pairs, last = ingress of the destination; an odd number is an error *)
Fixpoint mid_hops (l : list (N * N)) : option (list hop) :=
  match l with
  | [] => None
  | [(ia, i)] => Some [mk_hop ia i 0]
  | (ia, i) :: (_, o) :: t =>
    match mid_hops t with Some hs => Some (mk_hop ia i o :: hs) | None => None end
  end.

Definition path_hops (ifs : list (N * N)) : option (list hop) :=
  match ifs with
  | [] => Some []
  | (ia, o) :: t => match mid_hops t with Some hs => Some (mk_hop ia 0 o :: hs) | None => None end
  end.

(** the Go filter loops: result = []; for each path: if ok then append *)
Definition go_filter {A} (f : A -> bool) (ps : list A) : list A :=
  fold_left (fun acc p => if f p then acc ++ [p] else acc) ps [].

Definition seq_accepts (e : seq) (p : path) : bool :=
  match path_hops (p_ifs p) with Some hs => seq_matches e hs | None => false end.

(** Sequence.Eval *)
Definition seq_eval (s : sres) (ps : list path) : list path :=
  match s with
  | SErr => []
  | SAll => ps
  | SSeq e => go_filter (seq_accepts e) ps
  end.

(** ---------------------------------------------------------------- HopPredicate (hop_pred.go), ACL (acl.go) *)
Record aclhp := { a_isd : N; a_as : N; a_ifs : list N }.

Fixpoint count (c : N) (s : str) : nat :=
  match s with [] => O | x :: t => if x =? c then S (count c t) else count c t end.

Definition parse_ifid (s : str) : option N := parse_uint 10 64 s.

(** HopPredicateFromString *)
Definition hp_from_string (s : str) : option aclhp :=
  let dashes := count 45 s in let hashes := count 35 s in let commas := count 44 s in
  if Nat.ltb 1 dashes || Nat.ltb 1 hashes || Nat.ltb 1 commas then None
  else if Nat.eqb dashes 0 && (Nat.ltb 0 hashes || Nat.ltb 0 commas) then None
  else
    match split dash s with
    | [] => None
    | d0 :: drest =>
      match parse_isd d0 with
      | None => None
      | Some isd =>
        match drest with
        | [] => Some {| a_isd := isd; a_as := 0; a_ifs := [0] |}
        | d1 :: _ =>
          match split [35] d1 with
          | [] => None
          | h0 :: hrest =>
            match parse_as colon h0 with
            | None => None
            | Some a =>
              match hrest with
              | [] => Some {| a_isd := isd; a_as := a; a_ifs := [0] |}
              | h1 :: _ =>
                match split [44] h1 with
                | [] => None
                | c0 :: crest =>
                  match parse_ifid c0 with
                  | None => None
                  | Some i0 =>
                    let r :=
                      match crest with
                      | [c1] => match parse_ifid c1 with Some i1 => Some [i0; i1] | None => None end
                      | _ => Some [i0]
                      end in
                    match r with
                    | None => None
                    | Some ifs =>
                      if (a =? 0) && existsb (fun i => negb (i =? 0)) ifs then None
                      else Some {| a_isd := isd; a_as := a; a_ifs := ifs |}
                    end
                  end
                end
              end
            end
          end
        end
      end
    end.

(** pathIFMatch; None = index out of range (panic) *)
Definition if_match (hp : aclhp) (ia id : N) (ingress : bool) : option bool :=
  if negb (a_isd hp =? 0) && negb (ia_isd_of ia =? a_isd hp) then Some false
  else if negb (a_as hp =? 0) && negb (ia_as_of ia =? a_as hp) then Some false
  else
    let sel := match a_ifs hp with
               | [a] => Some a
               | [a; b] => Some (if ingress then a else b)
               | a :: _ => Some a
               | [] => None
               end in
    match sel with
    | None => None
    | Some f => Some ((f =? 0) || (f =? id))
    end.

Definition entry := (bool * option aclhp)%type.     (* action (true = Allow), rule *)

Definition matches_all (r : option aclhp) : bool :=
  match r with None => true | Some hp => (a_isd hp =? 0) && (a_as hp =? 0) end.

Fixpoint find_default (es : list entry) (i : nat) : option nat :=
  match es with
  | [] => None
  | e :: t => if matches_all (snd e) then Some i else find_default t (S i)
  end.

(** validateACL *)
Definition validate_acl (es : list entry) : bool :=
  match es with
  | [] => false
  | _ => match find_default es 0 with
         | None => false
         | Some i => Nat.eqb i (length es - 1)
         end
  end.

Inductive act := Allow | Deny | Panic.

(** evalInterface *)
Fixpoint eval_iface (es : list entry) (ia id : N) (ingress : bool) : act :=
  match es with
  | [] => Panic
  | (a, r) :: t =>
    match r with
    | None => if a then Allow else Deny
    | Some hp =>
      match if_match hp ia id ingress with
      | None => Panic
      | Some true => if a then Allow else Deny
      | Some false => eval_iface t ia id ingress
      end
    end
  end.

(** evalPath: interface i is an ingress interface iff i is odd *)
Fixpoint eval_ifs (es : list entry) (ifs : list (N * N)) (odd : bool) : act :=
  match ifs with
  | [] => Allow
  | (ia, id) :: t =>
    match eval_iface es ia id odd with
    | Allow => eval_ifs es t (negb odd)
    | Deny => Deny
    | Panic => Panic
    end
  end.

Definition acl_path (es : list entry) (p : path) : act := eval_ifs es (p_ifs p) false.

(** ACL.Eval; None = panic *)
Definition acl_eval (a : option (list entry)) (ps : list path) : option (list path) :=
  match a with
  | None | Some [] => Some ps
  | Some es =>
    if existsb (fun p => match acl_path es p with Panic => true | _ => false end)
               (* the loop panics at the first such path whose earlier interfaces did not deny *)
               ps
    then None
    else Some (go_filter (fun p => match acl_path es p with Allow => true | _ => false end) ps)
  end.

(** ---------------------------------------------------------------- Policy (policy.go) *)
Record rule := { r_ia : N; r_reject : bool }.

Inductive policy :=
| Pol (local : option (list N)) (remote : option (list rule)) (acl : option (list entry))
      (sq : option str) (opts : list (Z * policy)).

(** LocalISDAS.Eval *)
Definition local_eval (allowed : list N) (ps : list path) : list path :=
  go_filter (fun p => negb (p_src p =? p_dst p) && existsb (N.eqb (p_src p)) allowed) ps.

Definition match_isdas (r ia : N) : bool :=
  negb (negb (ia_isd_of r =? 0) && negb (ia_isd_of r =? ia_isd_of ia)) &&
  negb (negb (ia_as_of r =? 0) && negb (ia_as_of r =? ia_as_of ia)).

Fixpoint remote_decide (rs : list rule) (ia : N) : bool :=
  match rs with
  | [] => false
  | r :: t => if match_isdas (r_ia r) ia then negb (r_reject r) else remote_decide t ia
  end.

(** RemoteISDAS.Eval *)
Definition remote_eval (rs : list rule) (ps : list path) : list path :=
  go_filter (fun p => negb (is_nil (p_ifs p)) && remote_decide rs (p_dst p)) ps.

Definition fp := list (N * N).
Definition fp_eqb : fp -> fp -> bool :=
  list_eqb (fun a b => (fst a =? fst b) && (snd a =? snd b)).
Definition fp_in (set : list fp) (p : path) : bool := existsb (fp_eqb (p_ifs p)) set.

(** the loop of evalOptions: the fingerprint set *)
Fixpoint opts_set (opts : list (Z * (list path -> list path))) (paths : list path)
         (cur : Z) (set : list fp) : list fp :=
  match opts with
  | [] => set
  | (w, f) :: t =>
    if (w <? cur)%Z && negb (is_nil set) then set
    else opts_set t paths w (set ++ map p_ifs (f paths))
  end.

Definition eval_options (opts : list (Z * (list path -> list path))) (paths : list path) : list path :=
  match opts with
  | [] => paths
  | (w0, _) :: _ => go_filter (fp_in (opts_set opts paths w0 [])) paths
  end.

Definition acl_eval_total (a : option (list entry)) (ps : list path) : list path :=
  match acl_eval a ps with Some r => r | None => [] end.

Section Filter.
Variable compile : str -> sres.      (* NewSequence *)

(** Policy.Filter (ACLs in policies are built with NewACL, i.e. validated) *)
Fixpoint pol_filter (p : policy) (ps : list path) {struct p} : list path :=
  match p with
  | Pol lo re acl sq opts =>
    let ps1 := match lo with Some l => local_eval l ps | None => ps end in
    let ps2 := match re with Some r => remote_eval r ps1 | None => ps1 end in
    let ps3 := acl_eval_total acl ps2 in
    let ps4 := match sq with Some s => seq_eval (compile s) ps3 | None => ps3 end in
    eval_options (map (fun wq => match wq with (w, q) => (w, pol_filter q) end) opts) ps4
  end.
End Filter.

(** ---------------------------------------------------------------- correspondence cases *)
Definition mk_path (d : N * N * N * list (N * N)) : path :=
  match d with (id, s, t, ifs) => {| p_id := id; p_src := s; p_dst := t; p_ifs := ifs |} end.

Definition ids (ps : list path) : list N := map p_id ps.
Definition ids_eqb := list_eqb N.eqb.

Definition seq_result (s : sres) (ps : list path) : option (list N) :=
  match s with SErr => None | _ => Some (ids (seq_eval s ps)) end.

Fixpoint seq_eqb (a b : seq) : bool :=
  let oeq := option_eqb N.eqb in
  match a, b with
  | SHop p, SHop q =>
    match p, q with
    | HPIsd i, HPIsd j => i =? j
    | HPIsdAs i x, HPIsdAs j y => (i =? j) && oeq x y
    | HPIf i x f, HPIf j y g => (i =? j) && oeq x y && (f =? g)
    | HPInOut i x f o, HPInOut j y g q => (i =? j) && oeq x y && (f =? g) && (o =? q)
    | _, _ => false
    end
  | SCat a1 a2, SCat b1 b2 => seq_eqb a1 b1 && seq_eqb a2 b2
  | SOr a1 a2, SOr b1 b2 => seq_eqb a1 b1 && seq_eqb a2 b2
  | SOpt a1, SOpt b1 => seq_eqb a1 b1
  | SPlus a1, SPlus b1 => seq_eqb a1 b1
  | SStar a1, SStar b1 => seq_eqb a1 b1
  | _, _ => false
  end.

Definition sres_eqb (a b : sres) : bool :=
  match a, b with
  | SErr, SErr => true | SAll, SAll => true
  | SSeq x, SSeq y => seq_eqb x y
  | _, _ => false
  end.

(** the known finding: expressions that the generated parser reads differently
    from the regular-expression reading *)
Definition or_precedence (s : str) : bool :=
  negb (sres_eqb (new_sequence_impl s) (new_sequence_spec s)).

Inductive aclres := AErr | APanic | AKept (l : list N).

Definition aclres_eqb (a b : aclres) : bool :=
  match a, b with
  | AErr, AErr => true | APanic, APanic => true
  | AKept x, AKept y => ids_eqb x y
  | _, _ => false
  end.

Definition mk_hp (d : N * N * list N) : aclhp :=
  match d with (i, a, l) => {| a_isd := i; a_as := a; a_ifs := l |} end.

Definition mk_entries (l : list (bool * option (N * N * list N))) : list entry :=
  map (fun e => (fst e, match snd e with Some d => Some (mk_hp d) | None => None end)) l.

Definition acl_result (es : list entry) (validated : bool) (ps : list path) : aclres :=
  if validated && negb (validate_acl es) then AErr
  else match acl_eval (Some es) ps with
       | None => APanic
       | Some r => AKept (ids r)
       end.

(** declarative ACL decision: the first entry that matches the interface decides *)
Fixpoint acl_decision (es : list entry) (ia id : N) (ingress : bool) : bool :=
  match es with
  | [] => false
  | (a, r) :: t =>
    match r with
    | None => a
    | Some hp => match if_match hp ia id ingress with
                 | Some true => a
                 | _ => acl_decision t ia id ingress
                 end
    end
  end.

Fixpoint acl_accepts_ifs (es : list entry) (ifs : list (N * N)) (odd : bool) : bool :=
  match ifs with
  | [] => true
  | (ia, id) :: t => acl_decision es ia id odd && acl_accepts_ifs es t (negb odd)
  end.

Definition acl_accepts (es : list entry) (p : path) : bool := acl_accepts_ifs es (p_ifs p) false.

Definition hp_obs (h : option aclhp) : option (N * N * list N) :=
  match h with Some x => Some (a_isd x, a_as x, a_ifs x) | None => None end.

Definition hp_obs_eqb (a b : option (N * N * list N)) : bool :=
  option_eqb (fun x y => (fst (fst x) =? fst (fst y)) && (snd (fst x) =? snd (fst y)) &&
                         ids_eqb (snd x) (snd y)) a b.

Inductive case :=
| CSeq (txt : str) (tagged : bool) (paths : list (N * N * N * list (N * N))) (impl : option (list N))
    (* tagged: the runner put the case into the or-precedence class;
       impl: None = NewSequence failed, Some = ids of the kept paths *)
| CSeqFaithful (txt : str) (paths : list (N * N * N * list (N * N))) (impl : option (list N))
| CHp (txt : str) (impl : option (N * N * list N))
| CAcl (es : list (bool * option (N * N * list N))) (validated : bool)
       (paths : list (N * N * N * list (N * N))) (impl : aclres)
| CPol (p : policy) (paths : list (N * N * N * list (N * N))) (impl : list N).

Definition opt_ids_eqb := option_eqb ids_eqb.

Definition check (c : case) : N :=
  match c with
  | CSeq txt tagged pd impl =>
    let ps := map mk_path pd in
    Check.verdict (opt_ids_eqb (seq_result (new_sequence_impl txt) ps) impl &&
                   Bool.eqb tagged (or_precedence txt))
                  (opt_ids_eqb (seq_result (new_sequence_spec txt) ps) impl)
  | CSeqFaithful txt pd impl =>
    let ps := map mk_path pd in
    Check.verdict (opt_ids_eqb (seq_result (new_sequence_impl txt) ps) impl) true
  | CHp txt impl =>
    Check.verdict (hp_obs_eqb (hp_obs (hp_from_string txt)) impl) true
  | CAcl el validated pd impl =>
    let ps := map mk_path pd in
    let es := mk_entries el in
    Check.verdict (aclres_eqb (acl_result es validated ps) impl)
                  (if validate_acl es
                   then aclres_eqb impl (AKept (ids (filter (acl_accepts es) ps)))
                   else if validated then aclres_eqb impl AErr else true)
  | CPol p pd impl =>
    let ps := map mk_path pd in
    Check.verdict (ids_eqb (ids (pol_filter new_sequence_impl p ps)) impl)
                  (ids_eqb (ids (pol_filter new_sequence_spec p ps)) impl)
  end.

Definition diag (c : case) : option (list N) * option (list N) :=
  match c with
  | CSeq txt _ pd _ | CSeqFaithful txt pd _ =>
    let ps := map mk_path pd in
    (seq_result (new_sequence_impl txt) ps, seq_result (new_sequence_spec txt) ps)
  | CHp txt _ => (match hp_from_string txt with
                  | Some h => Some (a_isd h :: a_as h :: a_ifs h) | None => None end, None)
  | CAcl el validated pd _ =>
    let ps := map mk_path pd in
    (match acl_result (mk_entries el) validated ps with AKept l => Some l | _ => None end, None)
  | CPol p pd _ =>
    let ps := map mk_path pd in
    (Some (ids (pol_filter new_sequence_impl p ps)), Some (ids (pol_filter new_sequence_spec p ps)))
  end.

End PathPol.
