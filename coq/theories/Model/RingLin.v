(** Executable linearizability checker for recorded ring-buffer histories
    (Wing-Gong search over the bounded-FIFO specification of Model/Ring.v) and
    the correspondence cases of C48. Definitions only. *)
From Coq Require Import List NArith ZArith Bool Arith.
From Scion Require Import Lib.Check Model.Ring Model.PktLin.
Import ListNotations.
Import Ring.

Module RingLin.

(** [x] was invoked before every remaining operation (itself included) returned *)
Definition minimal (x : hrec) (rem : list hrec) : bool :=
  forallb (fun b => N.ltb (h_inv x) (h_ret b)) rem.

(** all ways to take one element out of a list *)
Fixpoint picks (l : list hrec) : list (hrec * list hrec) :=
  match l with
  | [] => []
  | x :: t => (x, t) :: map (fun p => (fst p, x :: snd p)) (picks t)
  end.

Inductive answer :=
| Found (l : list hrec)     (* a linearization *)
| NoLin                     (* the search space is exhausted: there is none *)
| OutOfFuel.                (* inconclusive *)

Section Loop.
  Variable rec : nat -> fifo -> list hrec -> answer * nat.
  Variable c : nat.
  Variable f : fifo.
  Variable rem : list hrec.
  (** try each candidate in turn; [fuel] bounds the number of search nodes *)
  Fixpoint loop (cs : list (hrec * list hrec)) (fuel : nat) : answer * nat :=
    match cs with
    | [] => (NoLin, fuel)
    | (x, rest) :: cs' =>
      if minimal x rem then
        match step_rec c f x with
        | Some f' =>
          match fuel with
          | O => (OutOfFuel, O)
          | S fuel' =>
            match rec fuel' f' rest with
            | (Found l, fu) => (Found (x :: l), fu)
            | (NoLin, fu) => loop cs' fu
            | (OutOfFuel, fu) => (OutOfFuel, fu)
            end
          end
        | None => loop cs' fuel
        end
      else loop cs' fuel
    end.
End Loop.

Fixpoint dfs (c : nat) (n : nat) (fuel : nat) (f : fifo) (rem : list hrec) : answer * nat :=
  match rem with
  | [] => (Found [], fuel)
  | _ :: _ =>
    match n with
    | O => (OutOfFuel, fuel)
    | S n' => loop (dfs c n') c f rem (picks rem) fuel
    end
  end.

Definition lin_check (fuel : nat) (c : nat) (f0 : fifo) (h : list hrec) : answer :=
  fst (dfs c (length h) fuel f0 h).

Definition default_fuel : nat := 100 * 200.

(** ------------------------------------------------------------------ cases *)
Definition H (o : op) (k : Z) (got : list cell) (inv ret : N) : hrec :=
  {| h_op := o; h_k := k; h_got := got; h_inv := inv; h_ret := ret |}.

Inductive case :=
| CSeq (c : nat) (init : option (list N)) (ops : list op) (impl : list obs)
    (* sequential op list on one ring; impl = (count, blocked, entries) per op *)
| CHist (c : nat) (init : option (list N)) (h : list hrec)
    (* completed concurrent history with stamps *)
| CPkt (ops : list pop) (impl : list pobs)
    (* sequential op list on a pktRing *)
| CPktHist (fill : list N) (h : list PktLin.prec).
    (* concurrent pktRing history (writers, one reader, close) on a ring pre-filled
       sequentially with [fill], ending with the runner's drain *)

Definition f_init (init : option (list N)) : fifo := {| q := init_queue init; cl := false |}.

Definition oobs_eqb := list_eqb (option_eqb obs_eqb).
Definition opobs_eqb := list_eqb (option_eqb pobs_eqb).

Definition seq_oracle (c : nat) (init : option (list N)) (ops : list op) (impl : list obs) : bool :=
  oobs_eqb (spec_run (init_cap c init) (f_init init) ops) (map Some impl).

Definition pkt_oracle (ops : list pop) (impl : list pobs) : bool :=
  opobs_eqb (pkt_spec_run [] 0 false ops) (map Some impl).

Definition check (x : case) : N :=
  match x with
  | CSeq c init ops impl =>
    Check.verdict (oobs_eqb (seq_run (new c init) ops) (map Some impl)) (seq_oracle c init ops impl)
  | CHist c init h =>
    match lin_check default_fuel (init_cap c init) (f_init init) h with
    | Found _ => 0
    | NoLin => 3
    | OutOfFuel => 1
    end
  | CPkt ops impl =>
    Check.verdict (opobs_eqb (pkt_run pkt_new ops) (map Some impl)) (pkt_oracle ops impl)
  | CPktHist fill h =>
    if PktLin.content_ok fill h then
      match PktLin.plin_check PktLin.default_fuel fill h with
      | PktLin.Found _ => 0
      | PktLin.NoLin => 3
      | PktLin.OutOfFuel => 1
      end
    else 3
  end%N.

(** what the model says: the results of a sequential run / the invocation
    stamps of the linearization found (code 0 none, 1 out of fuel) *)
Definition diag (x : case) : list (option obs) * list (option pobs) * (N * list N) :=
  match x with
  | CSeq c init ops _ => (seq_run (new c init) ops, [], (0, []))
  | CHist c init h =>
    match lin_check default_fuel (init_cap c init) (f_init init) h with
    | Found l => ([], [], (2, map h_inv l))
    | NoLin => ([], [], (0, []))
    | OutOfFuel => ([], [], (1, []))
    end
  | CPkt ops _ => ([], pkt_run pkt_new ops, (0, []))
  | CPktHist fill h =>
    match PktLin.plin_check PktLin.default_fuel fill h with
    | PktLin.Found l => ([], [], ((if PktLin.content_ok fill h then 2 else 3), map PktLin.p_inv l))
    | PktLin.NoLin => ([], [], (0, []))
    | PktLin.OutOfFuel => ([], [], (1, []))
    end
  end%N.

End RingLin.
