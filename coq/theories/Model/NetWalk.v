(** The walk of [Network.run_fuel] with the per-router processing function as a
    parameter, so that the same walk can be taken with another packet type's
    processing (EPIC: [RouterEpic.process_epic] on the embedded SCION path).
    Definitions only. *)
From Coq Require Import List NArith Bool.
From Scion Require Import Lib.Check Model.Router Model.Network Model.RouterEpic.
Import ListNotations.
Local Open Scope N_scope.

Module NetWalk.
Import Router Network.

Section W.
(** what router [r] of AS [a] does with a packet received over [ing] *)
Variable proc : nas -> N -> ingress -> pkt -> result.
Variable t : topology.

Fixpoint run_with (fuel : nat) (l : loc) (p : pkt) : list (tstep * pkt) * final :=
  match fuel with
  | O => ([], OutOfFuel)
  | S fuel' =>
    match find_as t (l_ia l) with
    | None => ([], NoRoute (l_ia l) (l_rtr l))
    | Some a =>
      match proc a (l_rtr l) (l_ing l) p with
      | Forward e out (Some d) =>
        ([(obs_step l e false out, out)], Delivered (a_ia a) (l_rtr l) (fst d) (snd d))
      | Forward e out None =>
        match find_nif (a_ifs a) e with
        | None => ([(obs_step l e false out, out)], NoRoute (a_ia a) (l_rtr l))
        | Some f =>
          if ni_owner f =? l_rtr l then
            match find_as t (ni_nbr f) with
            | None => ([(obs_step l e true out, out)], NoRoute (a_ia a) (l_rtr l))
            | Some b =>
              match find_nif (a_ifs b) (ni_remote f) with
              | None => ([(obs_step l e true out, out)], NoRoute (a_ia a) (l_rtr l))
              | Some g =>
                let '(tr, fin) :=
                  run_with fuel' (mkLoc (a_ia b) (ni_owner g) (InExt (ni_remote f))) out in
                ((obs_step l e true out, out) :: tr, fin)
              end
            end
          else
            let '(tr, fin) :=
              run_with fuel' (mkLoc (a_ia a) (ni_owner f) (InSib (l_rtr l + 1))) out in
            ((obs_step l e false out, out) :: tr, fin)
        end
      | MacMiss => ([], FMacMiss)
      | BadInput => ([], FBadInput)
      | r => ([], Stopped (a_ia a) (l_rtr l) (stop_of r))
      end
    end
  end.
End W.

(** SCION-type paths: the walk of [Network.run_fuel] *)
Definition scion_proc (macq : N -> N -> N -> N -> N -> N -> option (list N)) (now : N)
  (a : nas) (r : N) (ing : ingress) (p : pkt) : result :=
  process_scion (macq (a_key a)) (cfg_of a r) now ing p.

(** EPIC: the routers process the embedded SCION path [p] and check the EPIC header [ep]
    (constant along the path) at the penultimate and last hop *)
Definition epic_proc (fullq : N -> N -> N -> N -> N -> N -> option (list N))
  (emacq : list N -> list N -> option (list N)) (now : N) (ep : RouterEpic.epic)
  (a : nas) (r : N) (ing : ingress) (p : pkt) : result :=
  RouterEpic.process_epic (fullq (a_key a)) emacq (cfg_of a r) now ing ep p.

End NetWalk.
