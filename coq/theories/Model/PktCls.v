(** Model of gateway/pktcls: the condition tree (cond.go), the IPv4 and port
    predicates (pred_ipv4.go, pred_port.go), [String()] and the text syntax
    accepted by [BuildClassTree] (parse.go + antlr/TrafficClass.g4).
    Definitions only.

    Text is [list N] (bytes).  The lexer is ANTLR's maximal munch specialised to
    TrafficClass.g4 (first rule wins on ties; a character that starts no token is
    dropped: BuildClassTree installs a lexer error listener that it never
    consults).  Any parser error or listener error rejects the input. *)
From Coq Require Import List NArith Bool.
From Coq Require String Ascii.
From Scion Require Import Lib.Check.
Import ListNotations.
Import String.StringSyntax.
Local Open Scope N_scope.

Module PktCls.

Definition str (s : String.string) : list N :=
  List.map Ascii.N_of_ascii (String.list_ascii_of_string s).
Arguments str s%string_scope.

(** ------------------------------------------------------------------
    Conditions.  Nets are (address as a 32-bit number, prefix length); Go holds a
    [*net.IPNet] with a 4-byte IP and a CIDR mask. *)
Inductive cond :=
| CAll (l : list cond)
| CAny (l : list cond)
| CNot (c : cond)
| CBool (b : bool)
| CSrc (ip len : N)
| CDst (ip len : N)
| CTos (v : N)
| CDscp (v : N)
| CProto (v : N)
| CSrcPort (lo hi : N)
| CDstPort (lo hi : N)
| CCls (n : N).

(** The layer handed to [Eval]: [None] = nil or any layer that is not
    *layers.IPv4.  [p_frag] = MoreFragments set or fragment offset <> 0 (then
    gopacket's NextLayerType is Fragment).  [p_l4] = the ports of the payload if
    it decodes as a UDP / TCP header (layers.UDP/TCP.DecodeFromBytes succeeds). *)
Record pkt := P { p_src : N; p_dst : N; p_tos : N; p_proto : N; p_frag : bool;
                  p_l4 : option (N * N) }.
Definition layer := option pkt.

(** net.IPNet.Contains for a CIDR mask: both sides are masked. *)
Definition mask_of (len : N) : N := N.shiftl (N.ones len) (32 - len).
Definition contains (ip len a : N) : bool := N.land ip (mask_of len) =? N.land a (mask_of len).

(** CondPorts.Eval: ports only of unfragmented UDP (17) / TCP (6) whose header decodes. *)
Definition ports_of (p : pkt) : option (N * N) :=
  if p_frag p then None
  else if (p_proto p =? 17) || (p_proto p =? 6) then p_l4 p else None.

Definition in_range (lo hi x : N) : bool := (lo <=? x) && (x <=? hi).

Fixpoint eval (c : cond) (v : layer) {struct c} : bool :=
  match c with
  | CAll l =>
    (fix all (l : list cond) : bool :=
       match l with [] => true | x :: r => if eval x v then all r else false end) l
  | CAny l =>
    match l with
    | [] => true
    | _ => (fix any (l : list cond) : bool :=
              match l with [] => false | x :: r => if eval x v then true else any r end) l
    end
  | CNot c => negb (eval c v)
  | CBool b => b
  | CSrc ip len => match v with Some p => contains ip len (p_src p) | None => false end
  | CDst ip len => match v with Some p => contains ip len (p_dst p) | None => false end
  | CTos t => match v with Some p => t =? p_tos p | None => false end
  | CDscp d => match v with Some p => d =? N.shiftr (p_tos p) 2 | None => false end
  | CProto n => match v with Some p => n =? p_proto p | None => false end
  | CSrcPort lo hi =>
    match v with
    | Some p => match ports_of p with Some (s, _) => in_range lo hi s | None => false end
    | None => false end
  | CDstPort lo hi =>
    match v with
    | Some p => match ports_of p with Some (_, d) => in_range lo hi d | None => false end
    | None => false end
  | CCls _ => false
  end.

(** The value of the expression (declarative reading used as the oracle): all =
    conjunction, any = disjunction — the empty disjunction is false. *)
Fixpoint sem (c : cond) (v : layer) {struct c} : bool :=
  match c with
  | CAll l => forallb (fun x => sem x v) l
  | CAny l => existsb (fun x => sem x v) l
  | CNot c => negb (sem c v)
  | CBool b => b
  | CSrc ip len =>
    match v with Some p => p_src p / 2 ^ (32 - len) =? ip / 2 ^ (32 - len) | None => false end
  | CDst ip len =>
    match v with Some p => p_dst p / 2 ^ (32 - len) =? ip / 2 ^ (32 - len) | None => false end
  | CTos t => match v with Some p => p_tos p =? t | None => false end
  | CDscp d => match v with Some p => p_tos p / 4 =? d | None => false end
  | CProto n => match v with Some p => p_proto p =? n | None => false end
  | CSrcPort lo hi =>
    match v with
    | Some p => match ports_of p with Some (s, _) => (lo <=? s) && (s <=? hi) | None => false end
    | None => false end
  | CDstPort lo hi =>
    match v with
    | Some p => match ports_of p with Some (_, d) => (lo <=? d) && (d <=? hi) | None => false end
    | None => false end
  | CCls _ => false
  end.

(** the known finding: the tree contains an [any] without operands, which the code
    evaluates to true (cond.go CondAnyOf.Eval: len(c) == 0 => true) *)
Fixpoint has_empty_any (c : cond) : bool :=
  match c with
  | CAny [] => true
  | CAll l | CAny l => existsb has_empty_any l
  | CNot c => has_empty_any c
  | _ => false
  end.

(** ------------------------------------------------------------------
    Numbers as text. *)
Fixpoint dec_aux (fuel : nat) (n : N) (acc : list N) : list N :=
  match fuel with
  | O => acc
  | S f => if n <? 10 then (48 + n) :: acc else dec_aux f (n / 10) ((48 + n mod 10) :: acc)
  end.
(** decimal without leading zeros ("%d"); n < 2^(size n) <= 10^(size n) *)
Definition dec (n : N) : list N := dec_aux (S (N.size_nat n)) n [].
Definition undec (w : list N) : N := fold_left (fun a c => 10 * a + (c - 48)) w 0.

Definition hexd (k : N) : N := if k <? 10 then 48 + k else 87 + k.
(** "%x" of a uint8 *)
Definition hex8 (v : N) : list N :=
  if v <? 16 then [hexd v] else [hexd (v / 16 mod 16); hexd (v mod 16)].
Definition hexval (c : N) : N :=
  if (48 <=? c) && (c <=? 57) then c - 48
  else if (97 <=? c) && (c <=? 102) then c - 87 else c - 55.
Definition unhex (w : list N) : N := fold_left (fun a c => 16 * a + hexval c) w 0.

(** gopacket layers.IPProtocolMetadata[n].Name (every other entry is ""),
    in ascending protocol number: protocolNameToNumber takes the first match. *)
Definition proto_names : list (N * list N) :=
  [ (0, str "IPv6HopByHop"); (1, str "ICMPv4"); (2, str "IGMP"); (4, str "IPv4"); (6, str "TCP");
    (17, str "UDP"); (27, str "RUDP"); (41, str "IPv6"); (43, str "IPv6Routing");
    (44, str "IPv6Fragment"); (47, str "GRE"); (50, str "IPSecESP"); (51, str "IPSecAH");
    (58, str "ICMPv6"); (59, str "NoNextHeader"); (60, str "IPv6Destination"); (89, str "OSPF");
    (94, str "IPv4"); (97, str "EtherIP"); (112, str "VRRP"); (132, str "SCTP");
    (136, str "UDPLite"); (137, str "MPLS") ].

Definition proto_name (v : N) : list N :=
  match find (fun e => fst e =? v) proto_names with Some e => snd e | None => [] end.

Definition lower (c : N) : N := if (65 <=? c) && (c <=? 90) then c + 32 else c.
Definition eqfold (a b : list N) : bool := list_eqb N.eqb (List.map lower a) (List.map lower b).
Definition proto_of_name (w : list N) : option N :=
  match find (fun e => eqfold w (snd e)) proto_names with Some e => Some (fst e) | None => None end.

(** ------------------------------------------------------------------
    String(): fmt.Sprintf per node. *)
Definition ip4str (a : N) : list N :=
  dec (a / 16777216 mod 256) ++ [46] ++ dec (a / 65536 mod 256) ++ [46] ++
  dec (a / 256 mod 256) ++ [46] ++ dec (a mod 256).
Definition netstr (ip len : N) : list N := ip4str ip ++ [47] ++ dec len.

Fixpoint join (sep : list N) (l : list (list N)) : list N :=
  match l with
  | [] => []
  | [x] => x
  | x :: r => x ++ sep ++ join sep r
  end.

Fixpoint print (c : cond) : list N :=
  match c with
  | CAll l => str "all(" ++ join [44] (List.map print l) ++ [41]
  | CAny l => str "any(" ++ join [44] (List.map print l) ++ [41]
  | CNot c => str "not(" ++ print c ++ [41]
  | CBool b => str "BOOL=" ++ (if b then str "true" else str "false")
  | CSrc ip len => str "src=" ++ netstr ip len
  | CDst ip len => str "dst=" ++ netstr ip len
  | CTos v => str "tos=0x" ++ hex8 v
  | CDscp v => str "dscp=0x" ++ hex8 v
  | CProto v => str "protocol=" ++ proto_name v
  | CSrcPort lo hi => str "srcport=" ++ dec lo ++ [45] ++ dec hi
  | CDstPort lo hi => str "dstport=" ++ dec lo ++ [45] ++ dec hi
  | CCls n => str "cls=" ++ dec n
  end.

(** ------------------------------------------------------------------
    Lexer. *)
Inductive kw := KAny | KAll | KNot | KBool | KSrc | KDst | KDscp | KTos | KProtocol
              | KSrcPort | KDstPort.

Inductive tok :=
| TEq | TEq0x | TDash | TClsEq | TLP | TComma | TRP | TTrue | TFalse
| TDigits (w : list N) | THex (w : list N) | TNet (a b c d l : list N)
| TKw (k : kw) | TStr (w : list N).

Definition is_ws (c : N) : bool := (c =? 32) || (c =? 13) || (c =? 10) || (c =? 9).
Definition is_digit (c : N) : bool := (48 <=? c) && (c <=? 57).
Definition is_hex (c : N) : bool :=
  is_digit c || ((97 <=? c) && (c <=? 102)) || ((65 <=? c) && (c <=? 70)).
Definition is_alpha (c : N) : bool := ((97 <=? c) && (c <=? 122)) || ((65 <=? c) && (c <=? 90)).

Fixpoint span (p : N -> bool) (s : list N) : list N * list N :=
  match s with
  | [] => ([], [])
  | c :: r => if p c then let '(a, b) := span p r in (c :: a, b) else ([], s)
  end.

(** DIGITS: '0' | [1-9][0-9]*  — is [w] exactly one such string *)
Definition is_dec (w : list N) : bool :=
  match w with
  | [] => false
  | c :: r => if c =? 48 then match r with [] => true | _ => false end
              else is_digit c && forallb is_digit r
  end.

(** longest DIGITS prefix *)
Definition digits_tok (s : list N) : option (list N * list N) :=
  match s with
  | [] => None
  | c :: r => if c =? 48 then Some ([48], r)
              else if is_digit c then Some (span is_digit s) else None
  end.

Definition expect (c : N) (s : list N) : option (list N) :=
  match s with x :: r => if x =? c then Some r else None | [] => None end.

(** NET: DIGITS '.' DIGITS '.' DIGITS '.' DIGITS '/' DIGITS *)
Definition net_tok (s : list N) : option (tok * list N) :=
  match digits_tok s with None => None | Some (a, s) =>
  match expect 46 s with None => None | Some s =>
  match digits_tok s with None => None | Some (b, s) =>
  match expect 46 s with None => None | Some s =>
  match digits_tok s with None => None | Some (c, s) =>
  match expect 46 s with None => None | Some s =>
  match digits_tok s with None => None | Some (d, s) =>
  match expect 47 s with None => None | Some s =>
  match digits_tok s with None => None | Some (l, s) => Some (TNet a b c d l, s)
  end end end end end end end end end.

Definition kw_table : list (kw * list N * list N) :=
  [ (KAny, str "ANY", str "any"); (KAll, str "ALL", str "all"); (KNot, str "NOT", str "not");
    (KBool, str "BOOL", str "bool"); (KSrc, str "SRC", str "src"); (KDst, str "DST", str "dst");
    (KDscp, str "DSCP", str "dscp"); (KTos, str "TOS", str "tos");
    (KProtocol, str "PROTOCOL", str "protocol"); (KSrcPort, str "SRCPORT", str "srcport");
    (KDstPort, str "DSTPORT", str "dstport") ].

Definition weqb := list_eqb N.eqb.

(** a maximal run of letters: literal 'true' / 'false', a keyword (all upper or
    all lower case), else STRING *)
Definition word_tok (w : list N) : tok :=
  if weqb w (str "true") then TTrue
  else if weqb w (str "false") then TFalse
  else match find (fun e => weqb w (snd (fst e)) || weqb w (snd e)) kw_table with
       | Some e => TKw (fst (fst e))
       | None => TStr w
       end.

(** [strip p s]: [s] without its prefix [p] *)
Fixpoint strip (p s : list N) : option (list N) :=
  match p with
  | [] => Some s
  | x :: p' => match s with
               | y :: s' => if x =? y then strip p' s' else None
               | [] => None
               end
  end.

(** One step at [c :: r]: the token (None = whitespace or a dropped character)
    and the remaining input. *)
Definition lex1 (c : N) (r : list N) : option tok * list N :=
  if is_ws c then (None, r)
  else if c =? 40 then (Some TLP, r)
  else if c =? 41 then (Some TRP, r)
  else if c =? 44 then (Some TComma, r)
  else if c =? 45 then (Some TDash, r)
  else if c =? 61 then
    match strip [48; 120] r with
    | Some r' => (Some TEq0x, r')
    | None => (Some TEq, r)
    end
  else if is_digit c then
    match net_tok (c :: r) with
    | Some (t, r') => (Some t, r')
    | None =>
      (* the hex run is the longest HEX_DIGITS; DIGITS is as long iff the run is a DIGITS string *)
      let '(h, rh) := span is_hex (c :: r) in
      if is_dec h then (Some (TDigits h), rh) else (Some (THex h), rh)
    end
  else if is_alpha c then
    let '(l, rl) := span is_alpha (c :: r) in
    (* the literal 'cls=' : the letter run is exactly cls and '=' follows *)
    match (if weqb l (str "cls") then strip [61] rl else None) with
    | Some r' => (Some TClsEq, r')
    | None =>
      (* HEX_DIGITS is at least as long as the letter run iff the run is all hex letters *)
      if forallb is_hex l then let '(h, rh) := span is_hex (c :: r) in (Some (THex h), rh)
      else (Some (word_tok l), rl)
    end
  else (None, r).

Fixpoint lex (fuel : nat) (s : list N) : list tok :=
  match fuel with
  | O => []
  | S f =>
    match s with
    | [] => []
    | c :: r =>
      let '(t, r') := lex1 c r in
      match t with Some t => t :: lex f r' | None => lex f r' end
    end
  end.

(** ------------------------------------------------------------------
    Parser (the grammar rule [cond], then EOF) with the listener's conversions. *)
Definition cidr (a b c d l : list N) : option (N * N) :=
  let a := undec a in let b := undec b in let c := undec c in let d := undec d in
  let l := undec l in
  if (a <=? 255) && (b <=? 255) && (c <=? 255) && (d <=? 255) && (l <=? 32) then
    let ip := ((a * 256 + b) * 256 + c) * 256 + d in
    Some (N.land ip (mask_of l), l)
  else None.

Definition port (w : list N) : option N :=
  let v := undec w in if v <=? 65535 then Some v else None.
Definition hex_u8 (w : list N) : option N :=
  let v := unhex w in if v <=? 255 then Some v else None.

Definition leaf (ts : list tok) : option (cond * list tok) :=
  match ts with
  | TKw KBool :: TEq :: TTrue :: r => Some (CBool true, r)
  | TKw KBool :: TEq :: TFalse :: r => Some (CBool false, r)
  | TKw KSrc :: TEq :: TNet a b c d l :: r =>
    match cidr a b c d l with Some (ip, len) => Some (CSrc ip len, r) | None => None end
  | TKw KDst :: TEq :: TNet a b c d l :: r =>
    match cidr a b c d l with Some (ip, len) => Some (CDst ip len, r) | None => None end
  | TKw KTos :: TEq0x :: THex w :: r | TKw KTos :: TEq0x :: TDigits w :: r =>
    match hex_u8 w with Some v => Some (CTos v, r) | None => None end
  | TKw KDscp :: TEq0x :: THex w :: r | TKw KDscp :: TEq0x :: TDigits w :: r =>
    match hex_u8 w with Some v => Some (CDscp v, r) | None => None end
  | TKw KProtocol :: TEq :: TStr w :: r =>
    match proto_of_name w with Some v => Some (CProto v, r) | None => None end
  | TKw KSrcPort :: TEq :: TDigits a :: TDash :: TDigits b :: r =>
    match port a, port b with Some lo, Some hi => Some (CSrcPort lo hi, r) | _, _ => None end
  | TKw KSrcPort :: TEq :: TDigits a :: r =>
    match port a with Some v => Some (CSrcPort v v, r) | None => None end
  | TKw KDstPort :: TEq :: TDigits a :: TDash :: TDigits b :: r =>
    match port a, port b with Some lo, Some hi => Some (CDstPort lo hi, r) | _, _ => None end
  | TKw KDstPort :: TEq :: TDigits a :: r =>
    match port a with Some v => Some (CDstPort v v, r) | None => None end
  | TClsEq :: TDigits w :: r => Some (CCls (undec w), r)
  | _ => None
  end.

Fixpoint pcond (fuel : nat) (ts : list tok) {struct fuel} : option (cond * list tok) :=
  match fuel with
  | O => None
  | S f =>
    match ts with
    | TKw KAll :: TLP :: r =>
      match pargs f r with Some (l, r') => Some (CAll l, r') | None => None end
    | TKw KAny :: TLP :: r =>
      match pargs f r with Some (l, r') => Some (CAny l, r') | None => None end
    | TKw KNot :: TLP :: r =>
      match pcond f r with Some (c, TRP :: r') => Some (CNot c, r') | _ => None end
    | _ => leaf ts
    end
  end
(** cond (',' cond)* ')' *)
with pargs (fuel : nat) (ts : list tok) {struct fuel} : option (list cond * list tok) :=
  match fuel with
  | O => None
  | S f =>
    match pcond f ts with
    | Some (c, TComma :: r) =>
      match pargs f r with Some (l, r') => Some (c :: l, r') | None => None end
    | Some (c, TRP :: r) => Some ([c], r)
    | _ => None
    end
  end.

Definition parse_toks (fuel : nat) (ts : list tok) : option cond :=
  match pcond fuel ts with Some (c, []) => Some c | _ => None end.

(** BuildClassTree: accept / reject and the tree.  Fuel = input length (every
    token has at least one character, every recursive call consumes a token). *)
Definition parse (s : list N) : option cond :=
  parse_toks (S (length s)) (lex (length s) s).

(** ------------------------------------------------------------------
    Correspondence cases. *)
Definition evals (e : cond) (ps : list layer) : list bool := List.map (eval e) ps.
Definition bools_eqb := list_eqb Bool.eqb.

(** what the implementation showed for a text: accepted? then String() of the
    tree and its value on the probe packets *)
Definition pobs := option (list N * list bool).

Definition pobs_of (s : list N) (ps : list layer) : pobs :=
  match parse s with Some e => Some (print e, evals e ps) | None => None end.

Definition pobs_eqb (a b : pobs) : bool :=
  option_eqb (fun x y => bytes_eqb (fst x) (fst y) && bools_eqb (snd x) (snd y)) a b.

(** leaves that the text syntax can express and [String()] prints in that syntax *)
Definition proto_printable (v : N) : bool :=
  let w := proto_name v in
  match w with [] => false | _ => forallb is_alpha w && negb (forallb is_hex w) &&
    match word_tok w with TStr _ => true | _ => false end &&
    match proto_of_name w with Some v' => v' =? v | None => false end
  end.

Fixpoint printable (c : cond) : bool :=
  match c with
  | CAll l | CAny l => match l with [] => false | _ => forallb printable l end
  | CNot c => printable c
  | CBool _ => true
  | CSrc ip len | CDst ip len => (ip <? 4294967296) && (len <=? 32)
  | CTos v | CDscp v => v <? 256
  | CProto v => proto_printable v
  | CSrcPort lo hi | CDstPort lo hi => (lo <? 65536) && (hi <? 65536)
  | CCls _ => true
  end.

(** what parsing the printed text gives back: host bits of nets cleared *)
Fixpoint norm (c : cond) : cond :=
  match c with
  | CAll l => CAll (List.map norm l)
  | CAny l => CAny (List.map norm l)
  | CNot c => CNot (norm c)
  | CSrc ip len => CSrc (N.land ip (mask_of len)) len
  | CDst ip len => CDst (N.land ip (mask_of len)) len
  | c => c
  end.

Inductive case :=
(* a tree built in Go: String(), Eval on the probes, and BuildClassTree of the printed text *)
| CTree (e : cond) (ps : list layer) (impl_str : list N) (impl_ev : list bool) (re : pobs)
(* a text: BuildClassTree, then print and parse again *)
| CText (s : list N) (ps : list layer) (impl : pobs) (re : pobs).

(** same value on every probe after re-parsing; for trees only if printable *)
Definition reparse_ok (ev : list bool) (re : pobs) : bool :=
  match re with Some (_, ev') => bools_eqb ev ev' | None => false end.

(** the property on what the implementation showed: the tree's value on every
    probe is the value of the expression, and a printable tree re-parses to the
    same value *)
Definition tree_oracle (e : cond) (ps : list layer) (ev : list bool) (re : pobs) : bool :=
  bools_eqb (List.map (sem e) ps) ev && (if printable e then reparse_ok ev re else true).

(** an accepted text, printed and parsed again, is accepted with the same value
    (and prints the same) *)
Definition text_oracle (impl re : pobs) : bool :=
  match impl with
  | Some (s', ev) =>
    reparse_ok ev re && match re with Some (s'', _) => bytes_eqb s' s'' | None => false end
  | None => true
  end.

(** the model's observations *)
Definition tree_model (e : cond) (ps : list layer) : list N * list bool * pobs :=
  (print e, evals e ps, pobs_of (print e) ps).
Definition text_model (s : list N) (ps : list layer) : pobs * pobs :=
  (pobs_of s ps, match pobs_of s ps with Some (s', _) => pobs_of s' ps | None => None end).

Definition check (c : case) : N :=
  match c with
  | CTree e ps s ev re =>
    let '(ms, mev, mre) := tree_model e ps in
    Check.verdict (bytes_eqb ms s && bools_eqb mev ev && pobs_eqb mre re) (tree_oracle e ps ev re)
  | CText s ps impl re =>
    let '(mi, mre) := text_model s ps in
    Check.verdict (pobs_eqb mi impl && match mi with Some _ => pobs_eqb mre re | None => true end)
                  (text_oracle impl re)
  end.

Definition diag (c : case) : list N * list bool * pobs :=
  match c with
  | CTree e ps _ _ _ => (print e, evals e ps, pobs_of (print e) ps)
  | CText s ps _ _ => match pobs_of s ps with
                      | Some (s', ev) => (s', ev, pobs_of s' ps)
                      | None => ([], [], None) end
  end.

End PktCls.
