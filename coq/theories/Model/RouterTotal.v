(** C08: the consistency predicate for everything the router emits, and the cases of the
    robustness check.  Definitions only.

    The packet processing itself is Model/Router.v (fast path, SCION-type paths, on a decoded
    record) and Model/RouterScmp.v (slow path); byte-level decoding (slayers / gopacket) is NOT
    modelled here — for it the check is a search (the Go runner feeds valid, mutated and random
    bytes to the real code under [recover]) whose outputs are judged by the predicate below on
    the numbers a real-slayers decode of the output yields. *)
From Coq Require Import List NArith Bool.
From Scion Require Import Lib.Check Lib.Bytes Model.Router Model.RouterScmp.
Import ListNotations.
Local Open Scope N_scope.

Module RouterTotal.
Import Router.

(** * Forwarded packets (decoded record): consistent segment lengths, at most 64 hop fields,
    as many info / hop fields as announced, CurrHF inside the path, CurrINF the segment of
    CurrHF, PayloadLen = the bytes that follow the header *)
Definition fwd_wf (p : pkt) : bool :=
  seglen_ok p && (num_hops p <=? MaxHops) && well_formed p &&
  (p_curr_hf p <? num_hops p) && (p_curr_inf p =? inf_index_for_hf p (p_curr_hf p)) &&
  (p_pay_len p =? p_pay_actual p).

(** * Geometry of an emitted packet as decoded by the real slayers (numbers only) *)
Record geo := mkGeo {
  g_total : N;       (* bytes emitted *)
  g_hdr_len : N;     (* HdrLen field *)
  g_pay_len : N;     (* PayloadLen field *)
  g_path_type : N;   (* 0 empty, 1 SCION, 2 one-hop, 3 EPIC *)
  g_dst_type : N; g_src_type : N;
  g_curr_inf : N; g_curr_hf : N; g_seg0 : N; g_seg1 : N; g_seg2 : N }.

Definition g_num_inf (g : geo) : N :=
  if 0 <? g_seg2 g then 3 else if 0 <? g_seg1 g then 2 else if 0 <? g_seg0 g then 1 else 0.
Definition g_num_hops (g : geo) : N := g_seg0 g + g_seg1 g + g_seg2 g.
Definition g_inf_index (g : geo) (hf : N) : N :=
  if hf <? g_seg0 g then 0 else if hf <? g_seg0 g + g_seg1 g then 1 else 2.
Definition g_seglen_ok (g : geo) : bool :=
  negb ((0 <? g_seg2 g) && ((g_seg1 g =? 0) || (g_seg0 g =? 0))) &&
  negb ((g_seg2 g =? 0) && (0 <? g_seg1 g) && (g_seg0 g =? 0)).

(** bytes of the path header by path type ([None]: unknown type) *)
Definition g_path_len (g : geo) : option N :=
  let sc := MetaLen + InfoLen * g_num_inf g + HopLen * g_num_hops g in
  match g_path_type g with
  | 0 => Some 0
  | 1 => Some sc
  | 2 => Some 32
  | 3 => Some (16 + sc)
  | _ => None
  end.

(** header length covers common + address + path header and lies inside the packet, the payload
    length is exactly what follows the header, and (SCION / EPIC paths) the pointers are inside
    the path and consistent with each other *)
Definition geo_ok (g : geo) : bool :=
  match g_path_len g with
  | None => false
  | Some pl =>
    let need := CmnHdrLen + (2 * IABytes + addr_type_len (g_dst_type g) + addr_type_len (g_src_type g)) + pl in
    (need <=? LineLen * g_hdr_len g) && (LineLen * g_hdr_len g + g_pay_len g =? g_total g) &&
    (if (g_path_type g =? 1) || (g_path_type g =? 3) then
       g_seglen_ok g && (g_num_hops g <=? MaxHops) &&
       (g_curr_hf g <? g_num_hops g) && (g_curr_inf g =? g_inf_index g (g_curr_hf g))
     else true)
  end.

(** the geometry of a record of Model/Router.v (SCION path, HdrLen exactly the header) *)
Definition geo_of (p : pkt) : geo :=
  let hl := (CmnHdrLen + addr_len p + MetaLen + InfoLen * num_inf p + HopLen * num_hops p) / LineLen in
  mkGeo (LineLen * hl + p_pay_actual p) hl (p_pay_len p) 1 (p_dst_type p) (p_src_type p)
        (p_curr_inf p) (p_curr_hf p) (p_seg0 p) (p_seg1 p) (p_seg2 p).

(** * Cases *)
Inductive case :=
| CFast (rc : Router.case)            (* a packet the fast-path model applies to, with the observed result *)
| CSlow (sc : RouterScmp.case)        (* a slow-path run, with the observed reply *)
| CGeo (g : geo).                     (* an emitted packet as the real slayers decode it: oracle only *)

Definition fast_ok (r : result) : bool :=
  match r with
  | Panic => false
  | Forward _ out _ => fwd_wf out
  | _ => true
  end.

Definition slow_ok (r : RouterScmp.sresult) : bool :=
  match r with
  | RouterScmp.SPanic | RouterScmp.SUnparsable => false
  | RouterScmp.SReply rp => RouterScmp.geom_ok rp
  | _ => true
  end.

Definition agree (cs : case) : bool :=
  match cs with
  | CFast rc => Router.agree rc
  | CSlow sc => RouterScmp.agree sc
  | CGeo _ => true
  end.

Definition oracle (cs : case) : bool :=
  match cs with
  | CFast (CPkt _ _ _ _ _ impl _ _ _) => fast_ok impl
  | CFast (CConst _ _) => true
  | CSlow (RouterScmp.CSlow _ _ _ _ _ _ _ _ impl) => slow_ok impl
  | CSlow (RouterScmp.CConst _ _) => true
  | CGeo g => geo_ok g
  end.

Definition check (cs : case) : N := Check.verdict (agree cs) (oracle cs).

Inductive dg := DFast (r : result) | DSlow (r : RouterScmp.sresult * N) | DGeo (ok : bool).
Definition diag (cs : case) : dg :=
  match cs with
  | CFast rc => DFast (Router.diag rc)
  | CSlow sc => DSlow (RouterScmp.diag sc)
  | CGeo g => DGeo (geo_ok g)
  end.

End RouterTotal.
