(** Model of control/beacon/selection_algo.go [baseAlgo.SelectBeacons] /
    [selectMostDiverse] and control/beacon/beacon.go [Beacon.Diversity] (after the
    fix: commit that measures diversity against [beacons[0]] instead of
    [result[0]]).  Definitions only. *)
From Coq Require Import List NArith ZArith Bool.
From Scion Require Import Lib.Check.
Import ListNotations.
Local Open Scope Z_scope.

Module Select.

(** A link of a beacon: (Local IA, ConsEgress of the hop field), beacon.go [link]. *)
Definition link := (N * N)%type.
Definition link_eqb (a b : link) : bool := N.eqb (fst a) (fst b) && N.eqb (snd a) (snd b).

(** A candidate: an identity (position in the candidate list, only used to name
    the beacon in observations) and the links of its AS entries, in order. *)
Record beacon := { bid : N; links : list link }.

(** [len(b.Segment.ASEntries)] *)
Definition nentries (b : beacon) : Z := Z.of_nat (length (links b)).

(** beacon.go [Beacon.Diversity]: number of links of [b] that do not appear in [other]. *)
Definition has_link (other : beacon) (l : link) : bool := existsb (link_eqb l) (links other).
Definition diversity (b other : beacon) : Z :=
  fold_left (fun diff l => if has_link other l then diff else diff + 1) (links b) 0.

(** selection_algo.go [selectMostDiverse]: loop state (diverse, minLen, maxDiversity).
    [diverse] starts as the zero Beacon (None). *)
Record mdst := { md_b : option beacon; md_len : Z; md_div : Z }.
Definition md_init : mdst := {| md_b := None; md_len := 65535; md_div := -1 |}.
Definition md_step (best : beacon) (s : mdst) (b : beacon) : mdst :=
  let d := diversity best b in
  let l := nentries b in
  if (d >? md_div s) || ((d =? md_div s) && (md_len s >? l))
  then {| md_b := Some b; md_len := l; md_div := d |}
  else s.
Definition most_diverse (bs : list beacon) (best : beacon) : option beacon * Z :=
  match bs with
  | [] => (None, -1)
  | _ => let s := fold_left (md_step best) bs md_init in (md_b s, md_div s)
  end.

Inductive result := Ok (l : list beacon) | Panic.

(** [SelectBeacons(_, beacons, resultSize)].  [k] is a Go int.
      if len(beacons) <= resultSize { return beacons }
      best := beacons[0]                                  (len > resultSize)
      result := make([]Beacon, resultSize-1, resultSize)  (panics for resultSize <= 0)
      copy(result, beacons[:resultSize-1])
      _, diversity := selectMostDiverse(result, best)
      mostDiverseRest, diversityRest := selectMostDiverse(beacons[resultSize-1:], best)
      if diversityRest > diversity { return append(result, mostDiverseRest) }
      return append(result, beacons[resultSize-1]) *)
Definition select_beacons (k : Z) (bs : list beacon) : result :=
  if Z.of_nat (length bs) <=? k then Ok bs
  else
    match bs with
    | [] => Panic                          (* beacons[0]; k < 0 *)
    | best :: _ =>
      if k <=? 0 then Panic                (* make with negative length *)
      else
        let k1 := Z.to_nat (k - 1) in
        let heads := firstn k1 bs in
        let rest := skipn k1 bs in
        let d := snd (most_diverse heads best) in
        let '(mdr, dr) := most_diverse rest best in
        if dr >? d then
          match mdr with Some x => Ok (heads ++ [x]) | None => Panic end
        else
          match rest with x :: _ => Ok (heads ++ [x]) | [] => Panic end
    end.

(** ------------------------------------------------------------------
    The statement of C26, written independently of the loop above.
    [is_best best bs b]: every candidate of [bs] is less diverse than [b] (w.r.t.
    [best]), or equally diverse and not shorter.  The most diverse candidate is
    the first such one. *)
Definition is_best (best : beacon) (bs : list beacon) (b : beacon) : bool :=
  forallb (fun y => (diversity best y <? diversity best b)
                    || ((diversity best y =? diversity best b) && (nentries b <=? nentries y))) bs.
Definition spec_most_diverse (best : beacon) (bs : list beacon) : option beacon :=
  find (is_best best bs) bs.
(** best diversity among a list of candidates; -1 for the empty list *)
Definition max_div (best : beacon) (bs : list beacon) : Z :=
  fold_right (fun b m => Z.max (diversity best b) m) (-1) bs.

Definition spec_select (k : Z) (bs : list beacon) : option (list beacon) :=
  if Z.of_nat (length bs) <=? k then Some bs
  else
    let k1 := Z.to_nat (k - 1) in
    let heads := firstn k1 bs in
    let rest := skipn k1 bs in
    match bs, rest with
    | best :: _, r0 :: _ =>
      match spec_most_diverse best rest with
      | Some x =>
        if diversity best x >? max_div best heads then Some (heads ++ [x]) else Some (heads ++ [r0])
      | None => None
      end
    | _, _ => None
    end.

(** ------------------------------------------------------------------
    Correspondence cases.  A candidate list is given by the link lists (ids are
    the positions); the observation is the list of selected positions, or None
    for a panic. *)
Definition mk_beacons (ls : list (list link)) : list beacon :=
  map (fun p => {| bid := N.of_nat (fst p); links := snd p |}) (combine (seq 0 (length ls)) ls).

Inductive case := CSel (k : Z) (cands : list (list link)) (impl : option (list N)).

Definition obs (r : result) : option (list N) :=
  match r with Ok l => Some (map bid l) | Panic => None end.
Definition obs_eqb := option_eqb (list_eqb N.eqb).

(** the property on the implementation's observation: for k >= 1 the result is
    the one the statement describes (in particular: no panic) *)
Definition oracle (k : Z) (bs : list beacon) (o : option (list N)) : bool :=
  if k <? 1 then true
  else match spec_select k bs with
       | Some l => obs_eqb o (Some (map bid l))
       | None => false
       end.

Definition check (c : case) : N :=
  match c with
  | CSel k ls impl =>
    let bs := mk_beacons ls in
    Check.verdict (obs_eqb (obs (select_beacons k bs)) impl) (oracle k bs impl)
  end.

Definition diag (c : case) : option (list N) :=
  match c with CSel k ls _ => obs (select_beacons k (mk_beacons ls)) end.

End Select.
