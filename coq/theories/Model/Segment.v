(** Abstract path segment (pkg/segment: PathSegment, ASEntry, HopEntry, PeerEntry,
    HopField, Info), as far as the path combinator and the beacon extender look
    at it.  Not represented: signatures, the [Next] ISD-AS of an AS entry,
    extensions (static info, EPIC, discovery).

    Numbers are unbounded [N]; the Go field widths are stated by [wf_fields].
    ISD-AS numbers (addr.IA, uint64) and interface ids (uint16) are [N].
    The timestamp is [Info.Timestamp.Unix()] (seconds). *)
From Coq Require Import List NArith Bool.
From Scion Require Import Lib.Check.
Import ListNotations.
Local Open Scope N_scope.

Module Segment.

(** seg.HopField *)
Record hopf := mkHop {
  h_in  : N;          (* ConsIngress *)
  h_eg  : N;          (* ConsEgress *)
  h_exp : N;          (* ExpTime (uint8) *)
  h_mac : list N      (* MAC, 6 bytes *)
}.

(** seg.PeerEntry *)
Record peer_entry := mkPeer {
  pe_ia  : N;         (* Peer: ISD-AS of the peering AS *)
  pe_if  : N;         (* PeerInterface: interface id on the remote side *)
  pe_hop : hopf;      (* hop field whose ConsIngress is the local peering interface *)
  pe_mtu : N          (* PeerMTU *)
}.

(** seg.ASEntry (+ its HopEntry) *)
Record as_entry := mkAS {
  ae_ia    : N;       (* Local *)
  ae_hop   : hopf;    (* HopEntry.HopField *)
  ae_inmtu : N;       (* HopEntry.IngressMTU *)
  ae_mtu   : N;       (* MTU (AS internal) *)
  ae_peers : list peer_entry
}.

(** seg.PathSegment *)
Record segment := mkSeg {
  sg_ts      : N;     (* Info.Timestamp, unix seconds *)
  sg_segid   : N;     (* Info.SegmentID: initial SegID / beta_0 *)
  sg_entries : list as_entry
}.

Definition hopf_eqb (a b : hopf) : bool :=
  (h_in a =? h_in b) && (h_eg a =? h_eg b) && (h_exp a =? h_exp b) &&
  bytes_eqb (h_mac a) (h_mac b).

(** binary.BigEndian.Uint16(MAC[:2]) *)
Definition mac16 (m : list N) : N := nth 0 m 0 * 256 + nth 1 m 0.

(** path.ExpTimeToDuration in milliseconds: (e+1) * (24h/256) = (e+1) * 337.5 s *)
Definition exp_unit_ms : N := 337500.
Definition max_ttl_ms : N := 86400000.
Definition exp_ms (e : N) : N := (e + 1) * exp_unit_ms.

Definition first_ia (s : segment) : N :=
  match sg_entries s with [] => 0 | a :: _ => ae_ia a end.
Definition last_ia (s : segment) : N := ae_ia (last (sg_entries s) (mkAS 0 (mkHop 0 0 0 []) 0 0 [])).

(** The structural part of seg.Validate(ValidateSegment): at least one AS entry,
    first hop without ingress, last hop without egress, every peer hop field
    carries the egress of its AS entry's hop field.  (Consistency of [Next] and
    the extension checks are outside this abstraction.) *)
Definition peers_ok (a : as_entry) : bool :=
  forallb (fun p => h_eg (pe_hop p) =? h_eg (ae_hop a)) (ae_peers a).

Definition validate (s : segment) : bool :=
  match sg_entries s with
  | [] => false
  | a :: _ =>
    (h_in (ae_hop a) =? 0) &&
    (h_eg (ae_hop (last (sg_entries s) a)) =? 0) &&
    forallb peers_ok (sg_entries s)
  end.

(** Go field widths. *)
Definition wf_hop (h : hopf) : bool :=
  (h_in h <? 65536) && (h_eg h <? 65536) && (h_exp h <? 256) &&
  Nat.eqb (length (h_mac h)) 6 && forallb (fun b => b <? 256) (h_mac h).
Definition wf_entry (a : as_entry) : bool :=
  wf_hop (ae_hop a) && (ae_inmtu a <? 2147483648) && (ae_mtu a <? 2147483648) &&
  forallb (fun p => wf_hop (pe_hop p) && (pe_if p <? 65536) && (pe_mtu p <? 2147483648)) (ae_peers a).
Definition wf_fields (s : segment) : bool :=
  (sg_segid s <? 65536) && forallb wf_entry (sg_entries s).

End Segment.
