(** Model of pkg/slayers/path/scion: the path meta header (base.go [MetaHdr]),
    [Base.DecodeFromBytes], the pointer arithmetic of [Base] ([infIndexForHF],
    [IncPath], [IsXover], [IsFirstHopAfterXover]), the two [Raw] predicates
    ([CurrINFMatchesCurrHF], [IsLastHop]) and path reversal ([Decoded.Reverse],
    [Raw.Reverse], [ToRaw], [ToDecoded]) over an abstract path (list of info
    fields + list of hop fields).  Definitions only.

    Go's [uint8] fields are [N]; every place where the Go code computes in
    [uint8] (or converts an [int] to [uint8], or shifts a [uint32]) carries an
    explicit [mod]. *)
From Coq Require Import List NArith ZArith Bool Uint63.
From Scion Require Import Lib.Check.
Import ListNotations.
Local Open Scope N_scope.

Module Meta.

Definition u8 (n : N) : N := n mod 256.
Definition u32 (n : N) : N := n mod 2 ^ 32.
(** [a - b] computed in [uint8] (both operands are [uint8] values) *)
Definition sub8 (a b : N) : N := (a + 256 - b mod 256) mod 256.

(** ------------------------------------------------------------------
    MetaHdr *)
Record meta := { curr_inf : N; curr_hf : N; seg0 : N; seg1 : N; seg2 : N }.

Definition wf_u8 (m : meta) : Prop :=
  curr_inf m < 256 /\ curr_hf m < 256 /\ seg0 m < 256 /\ seg1 m < 256 /\ seg2 m < 256.
(** the values [MetaHdr.DecodeFromBytes] can produce *)
Definition wf_meta (m : meta) : Prop :=
  curr_inf m < 4 /\ curr_hf m < 64 /\ seg0 m < 64 /\ seg1 m < 64 /\ seg2 m < 64.

(** [MetaHdr.DecodeFromBytes] on the big-endian word [w < 2^32]:
      CurrINF = uint8(line >> 30);  CurrHF = uint8(line>>24) & 0x3F;
      SegLen[0] = uint8(line>>12) & 0x3F; SegLen[1] = uint8(line>>6) & 0x3F;
      SegLen[2] = uint8(line) & 0x3F. *)
Definition meta_decode (w : N) : meta :=
  {| curr_inf := u8 (w / 2 ^ 30);
     curr_hf := u8 (w / 2 ^ 24) mod 64;
     seg0 := u8 (w / 2 ^ 12) mod 64;
     seg1 := u8 (w / 2 ^ 6) mod 64;
     seg2 := u8 w mod 64 |}.

(** the same with the operators the Go code uses *)
Definition meta_decode_bits (w : N) : meta :=
  {| curr_inf := N.land (N.shiftr w 30) 255;
     curr_hf := N.land (N.land (N.shiftr w 24) 255) 63;
     seg0 := N.land (N.land (N.shiftr w 12) 255) 63;
     seg1 := N.land (N.land (N.shiftr w 6) 255) 63;
     seg2 := N.land (N.land w 255) 63 |}.

(** [MetaHdr.SerializeTo]:
      line := uint32(CurrINF)<<30 | uint32(CurrHF&0x3F)<<24
      line |= uint32(SegLen[0]&0x3F) << 12 | uint32(SegLen[1]&0x3F) << 6 | uint32(SegLen[2]&0x3F)
    The fields occupy disjoint bits, so [|] is [+]; the shift by 30 of a value
    up to 255 is truncated to 32 bits. *)
Definition meta_encode (m : meta) : N :=
  u32 (curr_inf m * 2 ^ 30) + (curr_hf m mod 64) * 2 ^ 24
  + (seg0 m mod 64) * 2 ^ 12 + (seg1 m mod 64) * 2 ^ 6 + seg2 m mod 64.

Definition meta_encode_bits (m : meta) : N :=
  N.lor (N.lor (N.lor (N.lor
    (N.land (N.shiftl (curr_inf m) 30) (N.ones 32))
    (N.shiftl (N.land (curr_hf m) 63) 24))
    (N.shiftl (N.land (seg0 m) 63) 12))
    (N.shiftl (N.land (seg1 m) 63) 6))
    (N.land (seg2 m) 63).

Definition meta_eqb (a b : meta) : bool :=
  (curr_inf a =? curr_inf b) && (curr_hf a =? curr_hf b) &&
  (seg0 a =? seg0 b) && (seg1 a =? seg1 b) && (seg2 a =? seg2 b).

Definition seglen (m : meta) (i : N) : N :=
  match i with 0 => seg0 m | 1 => seg1 m | _ => seg2 m end.

Definition with_ptrs (m : meta) (ci ch : N) : meta :=
  {| curr_inf := ci; curr_hf := ch; seg0 := seg0 m; seg1 := seg1 m; seg2 := seg2 m |}.

(** ------------------------------------------------------------------
    Base *)
Record base := { pm : meta; num_inf : N; num_hops : N }.

Definition base_eqb (a b : base) : bool :=
  meta_eqb (pm a) (pm b) && (num_inf a =? num_inf b) && (num_hops a =? num_hops b).

(** one iteration of the loop [for i := 2; i >= 0; i--] of [Base.DecodeFromBytes];
    the state is (NumINF, NumHops), [None] = error return *)
Definition dec_step (m : meta) (st : option (N * N)) (i : N) : option (N * N) :=
  match st with
  | None => None
  | Some (ninf, nhops) =>
    if (seglen m i =? 0) && (0 <? ninf) then None
    else
      let ninf' := if (0 <? seglen m i) && (ninf =? 0) then i + 1 else ninf in
      Some (ninf', nhops + seglen m i)
  end.

Definition max_hops : N := 64.

Definition base_decode (m : meta) : option base :=
  match fold_left (dec_step m) [2; 1; 0] (Some (0, 0)) with
  | None => None
  | Some (ninf, nhops) =>
    if max_hops <? nhops then None
    else Some {| pm := m; num_inf := ninf; num_hops := nhops |}
  end.

(** [Base.DecodeFromBytes] on the buffer: bounds check of [MetaHdr.DecodeFromBytes], then the above *)
Definition base_decode_bytes (data : list N) : option base :=
  match data with
  | b0 :: b1 :: b2 :: b3 :: _ =>
    base_decode (meta_decode (((b0 * 256 + b1) * 256 + b2) * 256 + b3))
  | _ => None
  end.

(** [Base.Len] *)
Definition base_len (b : base) : N := 4 + num_inf b * 8 + num_hops b * 12.

(** [infIndexForHF]; [SegLen[0]+SegLen[1]] is a [uint8] addition *)
Definition inf_index_for_hf (m : meta) (hf : N) : N :=
  if hf <? seg0 m then 0
  else if hf <? u8 (seg0 m + seg1 m) then 1
  else 2.

Inductive inc_res := IncOk | IncEmpty | IncEnd.
Definition inc_code (r : inc_res) : N := match r with IncOk => 0 | IncEmpty => 1 | IncEnd => 2 end.

Definition base_with_ptrs (b : base) (ci ch : N) : base :=
  {| pm := with_ptrs (pm b) ci ch; num_inf := num_inf b; num_hops := num_hops b |}.

(** [Base.IncPath].  [int(CurrHF) >= NumHops-1] is [NumHops <= CurrHF+1] over the
    integers; on that branch the code stores [uint8(NumHops-1)] into CurrHF before
    it returns the error. *)
Definition inc_path (b : base) : base * inc_res :=
  let m := pm b in
  if num_inf b =? 0 then (b, IncEmpty)
  else if num_hops b <=? curr_hf m + 1 then
    (base_with_ptrs b (curr_inf m) (u8 (num_hops b + 255)), IncEnd)
  else
    let ch := u8 (curr_hf m + 1) in
    (base_with_ptrs b (inf_index_for_hf m ch) ch, IncOk).

(** [IsXover]: [CurrHF+1 < uint8(NumHops) && CurrINF != infIndexForHF(CurrHF+1)], all in [uint8] *)
Definition is_xover (b : base) : bool :=
  let m := pm b in
  (u8 (curr_hf m + 1) <? u8 (num_hops b)) &&
  negb (curr_inf m =? inf_index_for_hf m (u8 (curr_hf m + 1))).

(** [IsFirstHopAfterXover] *)
Definition is_first_hop_after_xover (b : base) : bool :=
  let m := pm b in
  (0 <? curr_inf m) && (0 <? curr_hf m) &&
  (curr_inf m - 1 =? inf_index_for_hf m (curr_hf m - 1)).

(** [Raw.CurrINFMatchesCurrHF] *)
Definition curr_inf_matches (b : base) : bool :=
  curr_inf (pm b) =? inf_index_for_hf (pm b) (curr_hf (pm b)).

(** [Raw.IsLastHop]: [int(CurrHF) == NumHops-1] *)
Definition is_last_hop (b : base) : bool := curr_hf (pm b) + 1 =? num_hops b.

(** ------------------------------------------------------------------
    Specification vocabulary: the layout of a path as the list that gives, for
    every hop position, the index of the segment it belongs to. *)
Definition seg_map (m : meta) : list N :=
  repeat 0 (N.to_nat (seg0 m)) ++ repeat 1 (N.to_nat (seg1 m)) ++ repeat 2 (N.to_nat (seg2 m)).

Definition seg_at (m : meta) (hf : N) : option N := nth_error (seg_map m) (N.to_nat hf).

(** contiguous non-empty segments, at most 64 hops *)
Definition shape_ok (m : meta) : bool :=
  (negb (seg1 m =? 0) || (seg2 m =? 0)) && (negb (seg0 m =? 0) || (seg1 m =? 0)) &&
  (seg0 m + seg1 m + seg2 m <=? 64).

Definition count_nonzero (m : meta) : N :=
  (if seg0 m =? 0 then 0 else 1) + (if seg1 m =? 0 then 0 else 1) + (if seg2 m =? 0 then 0 else 1).

(** the pointers designate a hop of the path and the segment it lies in *)
Definition valid_ptrs (b : base) : Prop := seg_at (pm b) (curr_hf (pm b)) = Some (curr_inf (pm b)).

(** the walk along a path: start at hop 0 and advance until [IncPath] fails;
    yields the CurrINF seen at every position *)
Fixpoint walk (fuel : nat) (b : base) : list N :=
  match fuel with
  | O => []
  | S k =>
    curr_inf (pm b) ::
    match inc_path b with
    | (b', IncOk) => walk k b'
    | _ => []
    end
  end.

Definition start (b : base) : base := base_with_ptrs b 0 0.

(** ------------------------------------------------------------------
    Paths: abstract contents *)
Record info := { peer : bool; cons_dir : bool; seg_id : N; tstamp : N }.
Definition hop := N.      (* an opaque hop field (its 12 bytes as a number) *)

Definition info_eqb (a b : info) : bool :=
  Bool.eqb (peer a) (peer b) && Bool.eqb (cons_dir a) (cons_dir b) &&
  (seg_id a =? seg_id b) && (tstamp a =? tstamp b).

Definition flip (i : info) : info :=
  {| peer := peer i; cons_dir := negb (cons_dir i); seg_id := seg_id i; tstamp := tstamp i |}.

(** [scion.Decoded] (and the abstract view of a [scion.Raw]) *)
Record path := { pbase : base; infos : list info; hops : list hop }.

Definition path_eqb (a b : path) : bool :=
  base_eqb (pbase a) (pbase b) && list_eqb info_eqb (infos a) (infos b) &&
  list_eqb N.eqb (hops a) (hops b).

Definition wf_path (p : path) : Prop :=
  num_inf (pbase p) = N.of_nat (length (infos p)) /\
  num_hops (pbase p) = N.of_nat (length (hops p)) /\ num_inf (pbase p) <= 3.

Inductive res (A : Type) := Ok (a : A) | Err | Panic.
Arguments Ok {A} a. Arguments Err {A}. Arguments Panic {A}.

(** [Decoded.DecodeFromBytes] / [Raw.DecodeFromBytes] seen abstractly: meta word,
    length of the buffer, and the field contents found in it *)
Definition path_decode (w : N) (datalen : N) (is : list info) (hs : list hop) : option path :=
  match base_decode (meta_decode w) with
  | None => None
  | Some b =>
    if datalen <? base_len b then None
    else Some {| pbase := b; infos := firstn (N.to_nat (num_inf b)) is;
                 hops := firstn (N.to_nat (num_hops b)) hs |}
  end.

(** swap of [InfoFields[0]] and [InfoFields[l]], [l = NumINF-1] *)
Definition swap_infos (ninf : N) (l : list info) : option (list info) :=
  match ninf with
  | 1 => match l with _ :: _ => Some l | _ => None end
  | 2 => match l with a :: b :: r => Some (b :: a :: r) | _ => None end
  | 3 => match l with a :: b :: c :: r => Some (c :: b :: a :: r) | _ => None end
  | _ => None
  end.

(** swap of [SegLen[0]] and [SegLen[l]] *)
Definition swap_seglen (ninf : N) (m : meta) : meta :=
  match ninf with
  | 2 => {| curr_inf := curr_inf m; curr_hf := curr_hf m; seg0 := seg1 m; seg1 := seg0 m; seg2 := seg2 m |}
  | 3 => {| curr_inf := curr_inf m; curr_hf := curr_hf m; seg0 := seg2 m; seg1 := seg1 m; seg2 := seg0 m |}
  | _ => m
  end.

Definition map_prefix {A} (f : A -> A) (k : nat) (l : list A) : list A :=
  map f (firstn k l) ++ skipn k l.
Definition rev_prefix {A} (k : nat) (l : list A) : list A := rev (firstn k l) ++ skipn k l.

(** [Decoded.Reverse].  [Err]: empty path.  [Panic]: an index beyond
    [InfoFields]/[HopFields]/[SegLen] (cannot happen for a path that came out of
    [DecodeFromBytes]).  The new pointers are computed in [uint8]:
      CurrINF = uint8(NumINF) - CurrINF - 1;  CurrHF = uint8(NumHops) - CurrHF - 1. *)
Definition reverse_decoded (p : path) : res path :=
  let b := pbase p in
  let m := pm b in
  if num_inf b =? 0 then Err
  else
    match swap_infos (num_inf b) (infos p) with
    | None => Panic
    | Some is1 =>
      if (2 <=? num_hops b) && (N.of_nat (length (hops p)) <? num_hops b) then Panic
      else
        let m1 := swap_seglen (num_inf b) m in
        let ci := sub8 (sub8 (u8 (num_inf b)) (curr_inf m)) 1 in
        let ch := sub8 (sub8 (u8 (num_hops b)) (curr_hf m)) 1 in
        Ok {| pbase := {| pm := with_ptrs m1 ci ch; num_inf := num_inf b; num_hops := num_hops b |};
              infos := map_prefix flip (N.to_nat (num_inf b)) is1;
              hops := rev_prefix (N.to_nat (num_hops b)) (hops p) |}
    end.

(** [Decoded.ToRaw] = serialize (the meta header is masked by [MetaHdr.SerializeTo])
    and [Raw.DecodeFromBytes]; described for paths with consistent lengths only
    ([None] otherwise and when the re-decoding fails). *)
Definition to_raw (p : path) : option path :=
  if (num_inf (pbase p) =? N.of_nat (length (infos p))) &&
     (num_hops (pbase p) =? N.of_nat (length (hops p)))
  then path_decode (meta_encode (pm (pbase p))) (base_len (pbase p)) (infos p) (hops p)
  else None.

(** [Raw.ToDecoded]: writes the (masked) meta header into the buffer and decodes it *)
Definition to_decoded (p : path) : option path := to_raw p.

(** [Raw.Reverse]: ToDecoded, Decoded.Reverse, serialize into the buffer, decode again *)
Definition reverse_raw (p : path) : res path :=
  match to_decoded p with
  | None => Err
  | Some d =>
    match reverse_decoded d with
    | Ok d' => match to_raw d' with Some r => Ok r | None => Err end
    | Err => Err
    | Panic => Panic
    end
  end.

(** ------------------------------------------------------------------
    Correspondence cases *)

(** what is observed on a [Base] with given pointers: IsXover, IsFirstHopAfterXover,
    CurrINFMatchesCurrHF, IsLastHop, then IncPath: result and the pointers afterwards *)
Record obs := { o_xover : bool; o_first : bool; o_match : bool; o_last : bool;
                o_inc : N; o_ci : N; o_ch : N }.

Definition obs_of (b : base) : obs :=
  let r := inc_path b in
  {| o_xover := is_xover b; o_first := is_first_hop_after_xover b;
     o_match := curr_inf_matches b; o_last := is_last_hop b;
     o_inc := inc_code (snd r); o_ci := curr_inf (pm (fst r)); o_ch := curr_hf (pm (fst r)) |}.

Definition obs_eqb (a b : obs) : bool :=
  Bool.eqb (o_xover a) (o_xover b) && Bool.eqb (o_first a) (o_first b) &&
  Bool.eqb (o_match a) (o_match b) && Bool.eqb (o_last a) (o_last b) &&
  (o_inc a =? o_inc b) && (o_ci a =? o_ci b) && (o_ch a =? o_ch b).

(** the runner packs an observation into 24 bits:
    CurrHF' (8) | CurrINF' (8) | IncPath result (2) | last | match | first | xover *)
Definition unpack (v : N) : obs :=
  {| o_ch := N.land v 255; o_ci := N.land (N.shiftr v 8) 255; o_inc := N.land (N.shiftr v 16) 3;
     o_last := N.testbit v 18; o_match := N.testbit v 19; o_first := N.testbit v 20;
     o_xover := N.testbit v 21 |}.

(** The runner ships its tables as lists of primitive 63-bit integers (coqc parses those
    quickly): [per] entries of [bits] bits in each, the first entry in the low bits. *)
Fixpoint int_digits (bits mask : int) (k : nat) (w : int) : list N :=
  match k with
  | O => []
  | S k' => Z.to_N (Uint63.to_Z (Uint63.land w mask)) :: int_digits bits mask k' (Uint63.lsr w bits)
  end.
Definition unpack_ints (bits mask : int) (per : nat) (ws : list int) : list N :=
  flat_map (int_digits bits mask per) ws.

Definition opt_eqb (a b : option N) : bool := option_eqb N.eqb a b.

(** The property on one pointer position of an accepted shape, as a function of the
    implementation's observation.  Outside the path ([CurrHF >= NumHops]) the
    property says nothing.  Inside: the match predicate tells whether CurrINF is
    the segment containing the hop; IsLastHop; IncPath moves to the next hop and
    its segment, or fails at the last hop leaving the pointers alone; and, when
    CurrINF is the hop's segment, cross-over = the next hop lies in another
    segment, first-after-cross-over = the previous hop lies in another segment. *)
Definition ptr_oracle_on (L : list N) (nhops ci ch : N) (o : obs) : bool :=
  if nhops <=? ch then true else
  let at_ (hf : N) := nth_error L (N.to_nat hf) in
  let valid := opt_eqb (at_ ch) (Some ci) in
  Bool.eqb (o_match o) valid &&
  Bool.eqb (o_last o) (ch + 1 =? nhops) &&
  (if ch + 1 =? nhops then (o_inc o =? 2) && (o_ci o =? ci) && (o_ch o =? ch)
   else (o_inc o =? 0) && (o_ch o =? ch + 1) && opt_eqb (at_ (ch + 1)) (Some (o_ci o))) &&
  (negb valid ||
   (Bool.eqb (o_xover o)
             (match at_ (ch + 1) with Some k => negb (k =? ci) | None => false end) &&
    Bool.eqb (o_first o)
             (if ch =? 0 then false
              else match at_ (ch - 1) with Some k => negb (k =? ci) | None => false end))).

Definition ptr_oracle (m : meta) := ptr_oracle_on (seg_map m).

Definition ptrs : list (N * N) :=
  flat_map (fun ci => map (fun ch => (ci, N.of_nat ch)) (seq 0 64)) [0; 1; 2; 3].

(** the runner's table, unpacked: one observation per (CurrINF, CurrHF) in the order of [ptrs],
    two 30-bit entries per integer *)
Definition unpack_table (ws : list (list int)) : list obs :=
  map unpack (unpack_ints 30%uint63 1073741823%uint63 2 (concat ws)).

Definition table_agree (b : base) (os : list obs) : bool :=
  Nat.eqb (length os) (length ptrs) &&
  forallb (fun po => obs_eqb (obs_of (base_with_ptrs b (fst (fst po)) (snd (fst po)))) (snd po))
          (combine ptrs os).

Definition table_oracle (m : meta) (nhops : N) (os : list obs) : bool :=
  Nat.eqb (length os) (length ptrs) &&
  let L := seg_map m in
  forallb (fun po => ptr_oracle_on L nhops (fst (fst po)) (snd (fst po)) (snd po)) (combine ptrs os).

(** accept table entry (16 bits): accepted | NumINF (2) | NumHops (8); 0 = rejected *)
Definition acc_pack (m : meta) : N :=
  match base_decode m with
  | None => 0
  | Some b => 1 + 2 * (num_inf b + 4 * num_hops b)
  end.
(** the property: accepted iff contiguous non-empty segments of at most 64 hops; then NumINF is the
    number of segments and NumHops their total length *)
Definition spec_acc_pack (m : meta) : N :=
  if shape_ok m then 1 + 2 * (count_nonzero m + 4 * (seg0 m + seg1 m + seg2 m)) else 0.

Definition shape_meta (s0 s1 s2 : N) : meta :=
  {| curr_inf := 0; curr_hf := 0; seg0 := s0; seg1 := s1; seg2 := s2 |}.

Definition n64 : list N := map N.of_nat (seq 0 64).

(** the pairs (SegLen[1], SegLen[2]) in the order of the runner's rows *)
Definition acc_entries (f : meta -> N) (s0 : N) : list N :=
  flat_map (fun s1 => map (fun s2 => f (shape_meta s0 s1 s2)) n64) n64.
(** five 12-bit entries per integer *)
Definition unpack_acc (ws : list (list int)) : list N := unpack_ints 12%uint63 4095%uint63 5 (concat ws).
(** a walk: [n] values of two bits (3 = anything above 2), thirty per integer *)
Definition unpack_walk (n : N) (ws : list int) : list N :=
  firstn (N.to_nat n) (unpack_ints 2%uint63 3%uint63 30 ws).

Definition nlist_eqb := list_eqb N.eqb.

(** a path as printed by the runner *)
Definition mk_info (p c : bool) (s t : N) : info := {| peer := p; cons_dir := c; seg_id := s; tstamp := t |}.
Definition mk_path (ci ch s0 s1 s2 ninf nhops : N) (is : list info) (hs : list hop) : path :=
  {| pbase := {| pm := {| curr_inf := ci; curr_hf := ch; seg0 := s0; seg1 := s1; seg2 := s2 |};
                 num_inf := ninf; num_hops := nhops |};
     infos := is; hops := hs |}.

Definition res_eqb (a b : res path) : bool :=
  match a, b with
  | Ok x, Ok y => path_eqb x y
  | Err, Err => true
  | Panic, Panic => true
  | _, _ => false
  end.
Definition opath_eqb := option_eqb path_eqb.

(** reversal as the property describes it, on a path whose pointers are in range:
    segments and hops in opposite order, construction directions flipped, the same
    hop and the same segment current *)
Definition spec_reverse (p : path) : path :=
  let b := pbase p in let m := pm b in
  {| pbase := {| pm := {| curr_inf := num_inf b - 1 - curr_inf m; curr_hf := num_hops b - 1 - curr_hf m;
                          seg0 := seglen m (num_inf b - 1);
                          seg1 := if num_inf b =? 2 then seg0 m else seg1 m;
                          seg2 := if num_inf b =? 3 then seg0 m else seg2 m |};
                 num_inf := num_inf b; num_hops := num_hops b |};
     infos := map flip (rev (infos p)); hops := rev (hops p) |}.

Definition ptrs_in_range (p : path) : bool :=
  (curr_inf (pm (pbase p)) <? num_inf (pbase p)) && (curr_hf (pm (pbase p)) <? num_hops (pbase p)).

(** ------------------------------------------------------------------
    Operation sequences on one [Raw] and one [Decoded] object.  The state of either is the
    abstract path as the public API shows it (PathMeta, NumINF, NumHops, the fields returned by
    GetInfoField/GetHopField resp. the slices).  A [Raw] also carries the four meta header bytes
    of its buffer; the code never reads them before rewriting them (ToDecoded and IncPath write
    PathMeta into the buffer first, DecodeFromBytes sets both), so they are not part of the state. *)
Inductive op :=
| OInc (via_base : bool)     (* Raw.IncPath, or IncPath of the embedded Base (no buffer write); Decoded: Base.IncPath *)
| ORev                       (* Reverse *)
| OSetPtr (ci ch : N)        (* PathMeta.CurrINF / CurrHF assigned directly *)
| OConv                      (* Raw.ToDecoded resp. Decoded.ToRaw; the object itself is kept *)
| OSetInfo (i : N) (x : info)   (* Raw.SetInfoField resp. InfoFields[i] = x *)
| OSetHop (i : N) (x : hop)     (* Raw.SetHopField resp. HopFields[i] = x *)
| OSer                       (* SerializeTo into a fresh buffer, which is then decoded by a fresh Decoded *)
| ODecode (w datalen : N) (is : list info) (hs : list hop).
                             (* DecodeFromBytes of another path into the same object *)

Definition set_nth {A} (l : list A) (i : nat) (x : A) : list A :=
  firstn i l ++ match skipn i l with [] => [] | _ :: t => x :: t end.

(** what is seen after a step: result class (0 ok, 1 error, 2 IncPath at end, 3 panic), the object,
    the converted object for [OConv] *)
Record sobs := { so_code : N; so_path : path; so_conv : option path }.
Definition mk_sobs (c : N) (p : path) (v : option path) : sobs := {| so_code := c; so_path := p; so_conv := v |}.

Definition with_base (p : path) (b : base) : path := {| pbase := b; infos := infos p; hops := hops p |}.

Definition step (raw : bool) (p : path) (o : op) : sobs :=
  match o with
  | OInc _ =>
    let r := inc_path (pbase p) in mk_sobs (inc_code (snd r)) (with_base p (fst r)) None
  | ORev =>
    match (if raw then reverse_raw p else reverse_decoded p) with
    | Ok q => mk_sobs 0 q None
    | Err => mk_sobs 1 p None
    | Panic => mk_sobs 3 p None
    end
  | OSetPtr ci ch => mk_sobs 0 (with_base p (base_with_ptrs (pbase p) ci ch)) None
  | OConv | OSer => mk_sobs (match to_raw p with Some _ => 0 | None => 1 end) p (to_raw p)
  | ODecode w datalen is hs =>
    match path_decode w datalen is hs with
    | Some q => mk_sobs 0 q None
    | None => mk_sobs 1 p None
    end
  | OSetInfo i x =>
    if i <? num_inf (pbase p)
    then mk_sobs 0 {| pbase := pbase p; infos := set_nth (infos p) (N.to_nat i) x; hops := hops p |} None
    else mk_sobs 1 p None
  | OSetHop i x =>
    if i <? num_hops (pbase p)
    then mk_sobs 0 {| pbase := pbase p; infos := infos p; hops := set_nth (hops p) (N.to_nat i) x |} None
    else mk_sobs 1 p None
  end.

Definition sobs_eqb (a b : sobs) : bool :=
  (so_code a =? so_code b) && path_eqb (so_path a) (so_path b) && opath_eqb (so_conv a) (so_conv b).

(** model and implementation step by step; the model continues from its own states *)
Fixpoint seq_agree (r d : path) (ops : list op) (obs : list (sobs * sobs)) : bool :=
  match ops, obs with
  | [], [] => true
  | o :: ops', (obr, obd) :: obs' =>
    let mr := step true r o in
    let md := step false d o in
    sobs_eqb mr obr && sobs_eqb md obd && seq_agree (so_path mr) (so_path md) ops' obs'
  | _, _ => false
  end.

(** The property after a history, as a function of what the implementation showed before and after
    a step ([pre] is the object as observed before the step):
    - Reverse fails on the empty path; with pointers in range it yields the mirror image of [pre]
      (so reversing twice restores it, and raw and decoded agree wherever they agreed before);
    - IncPath inside the path: fails at the last hop and leaves the object alone, else moves to the
      next hop and to the segment that contains it, nothing else changes;
    - converting Raw <-> Decoded, or serializing and decoding again, with pointers in range gives
      the same path. *)
Definition inc_oracle (pre : path) (ob : sobs) : bool :=
  let b := pbase pre in let m := pm b in
  if num_hops b <=? curr_hf m then true
  else if curr_hf m + 1 =? num_hops b then (so_code ob =? 2) && path_eqb (so_path ob) pre
  else
    let m' := pm (pbase (so_path ob)) in
    (so_code ob =? 0) && (curr_hf m' =? curr_hf m + 1) &&
    opt_eqb (seg_at m (curr_hf m + 1)) (Some (curr_inf m')) &&
    path_eqb (so_path ob) (with_base pre (base_with_ptrs b (curr_inf m') (curr_hf m'))).

Definition step_oracle (pre : path) (o : op) (ob : sobs) : bool :=
  match o with
  | ORev =>
    if num_inf (pbase pre) =? 0 then negb (so_code ob =? 0)
    else negb (ptrs_in_range pre) || ((so_code ob =? 0) && path_eqb (so_path ob) (spec_reverse pre))
  | OInc _ => inc_oracle pre ob
  | OConv | OSer =>
    negb (ptrs_in_range pre) ||
    ((so_code ob =? 0) && path_eqb (so_path ob) pre && opath_eqb (so_conv ob) (Some pre))
  | _ => true
  end.

(** decoding the same bytes into a (recycled) Raw and a (recycled) Decoded object gives the same path,
    with exactly NumINF info fields and NumHops hop fields *)
Definition pair_oracle (o : op) (obr obd : sobs) : bool :=
  match o with
  | ODecode _ _ _ _ =>
    (so_code obr =? 0) && (so_code obd =? 0) && path_eqb (so_path obr) (so_path obd) &&
    (N.of_nat (length (infos (so_path obd))) =? num_inf (pbase (so_path obd))) &&
    (N.of_nat (length (hops (so_path obd))) =? num_hops (pbase (so_path obd)))
  | _ => true
  end.

Fixpoint seq_oracle (r d : path) (ops : list op) (obs : list (sobs * sobs)) : bool :=
  match ops, obs with
  | [], [] => true
  | o :: ops', (obr, obd) :: obs' =>
    step_oracle r o obr && step_oracle d o obd && pair_oracle o obr obd &&
    seq_oracle (so_path obr) (so_path obd) ops' obs'
  | _, _ => false
  end.

(** the observations the model makes along a sequence *)
Fixpoint seq_model (r d : path) (ops : list op) : list (sobs * sobs) :=
  match ops with
  | [] => []
  | o :: ops' =>
    let mr := step true r o in
    let md := step false d o in
    (mr, md) :: seq_model (so_path mr) (so_path md) ops'
  end.

Inductive case :=
(* MetaHdr.DecodeFromBytes on a 32-bit word and SerializeTo of the result:
   impl = [CurrINF; CurrHF; SegLen0; SegLen1; SegLen2; re-encoded word] *)
| CWord (w : N) (impl : list N)
(* MetaHdr.SerializeTo on arbitrary uint8 field values *)
| CEnc (ci ch s0 s1 s2 : N) (impl : N)
(* Base.DecodeFromBytes for one SegLen[0] and all 64 x 64 (SegLen[1], SegLen[2]), packed *)
| CAccept (s0 : N) (impl : list (list int))
(* all 4 x 64 pointer values on one accepted shape: NumINF, NumHops, the packed observations *)
| CShape (s0 s1 s2 : N) (ninf nhops : N) (impl : list (list int))
(* the walk from hop 0 with IncPath until it fails: CurrINF at every position (count, packed values) *)
| CWalk (s0 s1 s2 : N) (n : N) (impl : list int)
(* a full path: word, buffer length, contents; decode result as seen through Decoded and through Raw
   (None = rejected), the results of Reverse on each (applied once and twice), Decoded.Reverse followed by
   ToRaw, and the ToRaw/ToDecoded round trip *)
| CPath (w datalen : N) (is : list info) (hs : list hop)
        (dec raw : option path)
        (drev drev2 : res path) (rrev rrev2 : res path)
        (drev_raw : option path) (d_raw_d : option path)
(* Decoded.Reverse (once, twice) on a Decoded whose pointers were set by hand to arbitrary uint8 values *)
| CRevU8 (p : path) (drev drev2 : res path)
(* an operation sequence on one Raw and one Decoded decoded from the same buffer: the two objects as
   first seen, the operations, and both objects (with result class) after every operation *)
| CSeq (w datalen : N) (is : list info) (hs : list hop) (raw0 dec0 : path) (ops : list op)
       (impl : list (sobs * sobs)).

Definition word_obs (w : N) : list N :=
  let m := meta_decode w in
  [curr_inf m; curr_hf m; seg0 m; seg1 m; seg2 m; meta_encode m].

(** oracle for a word: the fields are the bit fields of the word, and re-encoding gives the word back
    with the six reserved bits cleared *)
Definition word_oracle (w : N) (impl : list N) : bool :=
  match impl with
  | [ci; ch; s0; s1; s2; e] =>
    (ci * 2 ^ 30 + ch * 2 ^ 24 + ((w / 2 ^ 18) mod 64) * 2 ^ 18 + s0 * 2 ^ 12 + s1 * 2 ^ 6 + s2 =? w) &&
    (ci <? 4) && (ch <? 64) && (s0 <? 64) && (s1 <? 64) && (s2 <? 64) &&
    (e + ((w / 2 ^ 18) mod 64) * 2 ^ 18 =? w)
  | _ => false
  end.

(** oracle for SerializeTo: decoding the written word gives the fields back, truncated to their widths *)
Definition enc_oracle (ci ch s0 s1 s2 e : N) : bool :=
  (e =? (ci mod 4) * 2 ^ 30 + (ch mod 64) * 2 ^ 24 + (s0 mod 64) * 2 ^ 12 + (s1 mod 64) * 2 ^ 6 + s2 mod 64).

Definition is_ok {A} (r : res A) : bool := match r with Ok _ => true | _ => false end.

Definition twice (f : path -> res path) (p : path) : res path :=
  match f p with Ok q => f q | x => x end.

(** oracle for a path case, on the implementation's observations only *)
Definition path_oracle (dec raw : option path) (drev drev2 rrev rrev2 : res path)
           (drev_raw d_raw_d : option path) : bool :=
  match dec, raw with
  | None, None => true
  | Some d, Some r =>
    (* raw and decoded see the same path, and converting back and forth keeps it *)
    path_eqb d r && opath_eqb d_raw_d (Some d) &&
    if num_inf (pbase d) =? 0 then negb (is_ok drev) && negb (is_ok rrev)
    else
      match drev, rrev with
      | Ok d1, Ok r1 =>
        (* both reversals agree once serialized *)
        opath_eqb drev_raw (Some r1) &&
        (* reversing twice restores the path *)
        res_eqb drev2 (Ok d) && res_eqb rrev2 (Ok r) &&
        (* and, pointers in range, the reversed path is the mirrored one *)
        (negb (ptrs_in_range d) || (path_eqb d1 (spec_reverse d) && path_eqb r1 (spec_reverse d)))
      | _, _ => false
      end
  | _, _ => false
  end.

Definition rev_oracle (p : path) (drev drev2 : res path) : bool :=
  if num_inf (pbase p) =? 0 then negb (is_ok drev) else is_ok drev && res_eqb drev2 (Ok p).

Definition check (c : case) : N :=
  match c with
  | CWord w impl => Check.verdict (nlist_eqb (word_obs w) impl) (word_oracle w impl)
  | CEnc ci ch s0 s1 s2 impl =>
    Check.verdict
      (meta_encode {| curr_inf := ci; curr_hf := ch; seg0 := s0; seg1 := s1; seg2 := s2 |} =? impl)
      (enc_oracle ci ch s0 s1 s2 impl)
  | CAccept s0 impl =>
    (* 4096 entries; the last integer carries one unused slot *)
    let es := firstn 4096 (unpack_acc impl) in
    Check.verdict (nlist_eqb (acc_entries acc_pack s0) es)
                  (nlist_eqb (acc_entries spec_acc_pack s0) es)
  | CShape s0 s1 s2 ninf nhops impl =>
    let m := shape_meta s0 s1 s2 in
    let os := unpack_table impl in
    match base_decode m with
    | Some b =>
      Check.verdict ((num_inf b =? ninf) && (num_hops b =? nhops) && table_agree b os)
                    (shape_ok m && (ninf =? count_nonzero m) && (nhops =? s0 + s1 + s2) &&
                     table_oracle m nhops os)
    | None => Check.verdict false (negb (shape_ok m))   (* the runner only sends accepted shapes *)
    end
  | CWalk s0 s1 s2 n ws =>
    let m := shape_meta s0 s1 s2 in
    let impl := unpack_walk n ws in
    match base_decode m with
    | Some b => Check.verdict (nlist_eqb (walk 300 (start b)) impl)
                              ((num_hops b =? 0) || nlist_eqb (seg_map m) impl)
    | None => Check.verdict false (negb (shape_ok m))
    end
  | CPath w datalen is hs dec raw drev drev2 rrev rrev2 drev_raw d_raw_d =>
    let md := path_decode w datalen is hs in
    let agree :=
      opath_eqb md dec && opath_eqb md raw &&
      match md with
      | None => true
      | Some d =>
        res_eqb (reverse_decoded d) drev && res_eqb (twice reverse_decoded d) drev2 &&
        res_eqb (reverse_raw d) rrev && res_eqb (twice reverse_raw d) rrev2 &&
        opath_eqb (match reverse_decoded d with Ok d1 => to_raw d1 | _ => None end) drev_raw &&
        opath_eqb (match to_raw d with Some r => to_decoded r | None => None end) d_raw_d
      end in
    Check.verdict agree (path_oracle dec raw drev drev2 rrev rrev2 drev_raw d_raw_d)
  | CRevU8 p drev drev2 =>
    Check.verdict (res_eqb (reverse_decoded p) drev && res_eqb (twice reverse_decoded p) drev2)
                  (rev_oracle p drev drev2)
  | CSeq w datalen is hs raw0 dec0 ops impl =>
    match path_decode w datalen is hs with
    | Some d =>
      Check.verdict (path_eqb d raw0 && path_eqb d dec0 && seq_agree d d ops impl)
                    (path_eqb raw0 dec0 && seq_oracle raw0 dec0 ops impl)
    | None => Check.verdict false true   (* the runner only sends sequences on decodable buffers *)
    end
  end.

Definition ptrs_of (r : res path) : list N :=
  match r with
  | Ok d => [1; curr_inf (pm (pbase d)); curr_hf (pm (pbase d)); seg0 (pm (pbase d));
             seg1 (pm (pbase d)); seg2 (pm (pbase d))]
  | Err => [2] | Panic => [3]
  end.

Definition diag (c : case) : list N :=
  match c with
  | CWord w _ => word_obs w
  | CEnc ci ch s0 s1 s2 _ =>
    [meta_encode {| curr_inf := ci; curr_hf := ch; seg0 := s0; seg1 := s1; seg2 := s2 |}]
  | CAccept s0 impl =>
    (* positions SegLen[1] * 64 + SegLen[2] where model and implementation differ *)
    map (fun pe => N.of_nat (fst pe))
        (filter (fun pe => negb (fst (snd pe) =? snd (snd pe)))
                (combine (seq 0 4096) (combine (acc_entries acc_pack s0) (firstn 4096 (unpack_acc impl)))))
  | CShape s0 s1 s2 _ _ impl =>
    match base_decode (shape_meta s0 s1 s2) with
    | Some b =>
      (* positions (CurrINF * 64 + CurrHF) where model and implementation differ *)
      num_inf b :: num_hops b ::
      map (fun po => fst (fst po) * 64 + snd (fst po))
          (filter (fun po => negb (obs_eqb (obs_of (base_with_ptrs b (fst (fst po)) (snd (fst po)))) (snd po)))
                  (combine ptrs (unpack_table impl)))
    | None => []
    end
  | CWalk s0 s1 s2 _ _ =>
    match base_decode (shape_meta s0 s1 s2) with Some b => walk 300 (start b) | None => [] end
  | CPath w datalen is hs _ _ _ _ _ _ _ _ =>
    match path_decode w datalen is hs with
    | None => [0]
    | Some d => ptrs_of (reverse_decoded d) ++ ptrs_of (reverse_raw d)
    end
  | CRevU8 p _ _ => ptrs_of (reverse_decoded p)
  | CSeq w datalen is hs _ _ ops _ =>
    match path_decode w datalen is hs with
    | Some d =>
      flat_map (fun ob => [so_code (fst ob); curr_inf (pm (pbase (so_path (fst ob)))); curr_hf (pm (pbase (so_path (fst ob))));
                           so_code (snd ob); curr_inf (pm (pbase (so_path (snd ob)))); curr_hf (pm (pbase (so_path (snd ob))))])
               (seq_model d d ops)
    | None => [0]
    end
  end.

End Meta.
