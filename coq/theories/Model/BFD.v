(** Model of router/bfd: the transition table (fsm.go), the reception filter
    [shouldDiscard] and the event loop of [Session.Run] (session.go), next to a
    transcription of RFC 5880 section 6.8.6 / 6.8.4.  Definitions only. *)
From Coq Require Import List NArith Bool.
From Scion Require Import Lib.Check.
Import ListNotations.
Local Open Scope N_scope.

Module BFD.

(** gopacket numbering: AdminDown = 0, Down = 1, Init = 2, Up = 3. *)
Inductive st := AdminDown | Down | Init | Up.
Inductive ev := EvAdminDown | EvDown | EvInit | EvUp | EvTimer | EvAdminUp.

Definition st_code (s : st) : N :=
  match s with AdminDown => 0 | Down => 1 | Init => 2 | Up => 3 end.
Definition st_of_code (n : N) : option st :=
  match n with 0 => Some AdminDown | 1 => Some Down | 2 => Some Init | 3 => Some Up | _ => None end.
Definition ev_of_code (n : N) : option ev :=
  match n with 0 => Some EvAdminDown | 1 => Some EvDown | 2 => Some EvInit | 3 => Some EvUp
             | 4 => Some EvTimer | 5 => Some EvAdminUp | _ => None end.
Definition st_eqb (a b : st) : bool := N.eqb (st_code a) (st_code b).

(** fsm.go [transition], case by case. *)
Definition transition (s : st) (e : ev) : st :=
  match s with
  | AdminDown => match e with EvAdminUp => Down | _ => AdminDown end
  | Down => match e with
            | EvInit => Up | EvDown => Init
            | EvUp | EvTimer | EvAdminUp => Down
            | EvAdminDown => AdminDown end
  | Init => match e with
            | EvInit | EvUp => Up
            | EvTimer => Down
            | EvDown | EvAdminUp => Init
            | EvAdminDown => AdminDown end
  | Up => match e with
          | EvInit | EvUp | EvAdminUp => Up
          | EvTimer | EvDown => Down
          | EvAdminDown => AdminDown end
  end.

(** RFC 5880 section 6.8.6, the state update on reception of a control packet
    that passed the validation rules ([rx] is the received State field):

      If bfd.SessionState is AdminDown: discard the packet
      If received state is AdminDown
          If bfd.SessionState is not Down:  bfd.SessionState := Down
      Else
          If bfd.SessionState is Down
              If received State is Down:       bfd.SessionState := Init
              Else if received State is Init:  bfd.SessionState := Up
          Else if bfd.SessionState is Init
              If received State is Init or Up: bfd.SessionState := Up
          Else (bfd.SessionState is Up)
              If received State is Down:       bfd.SessionState := Down *)
Definition rfc_recv (s rx : st) : st :=
  match s with
  | AdminDown => AdminDown
  | _ =>
    match rx with
    | AdminDown => Down
    | _ =>
      match s with
      | Down => match rx with Down => Init | Init => Up | _ => Down end
      | Init => match rx with Init | Up => Up | _ => Init end
      | _ (* Up *) => match rx with Down => Down | _ => Up end
      end
    end
  end.

(** RFC 5880 section 6.8.4: detection time expires in Init or Up => Down. *)
Definition rfc_timer (s : st) : st :=
  match s with Init | Up => Down | _ => s end.

(** A received control packet, the fields [shouldDiscard] and [Run] look at. *)
Record pkt := {
  p_version : N; p_len : N; p_auth : bool; p_auth_hdr : bool; p_auth_type : N;
  p_mult : N; p_multipoint : bool; p_my : N; p_your : N; p_state : st;
  p_poll : bool; p_final : bool; p_echo_rx : N; p_demand : bool;
  p_des_tx : N; p_req_rx : N }.

(** session.go [shouldDiscard]. [p_len] is [layers.BFD.Length()]. *)
Definition should_discard (p : pkt) : bool :=
  negb (p_version p =? 1)
  || (negb (p_auth p) && (p_len p <? 24))
  || (p_auth p && (p_len p <? 26))
  || (p_mult p =? 0)
  || p_multipoint p
  || (p_my p =? 0)
  || ((p_your p =? 0) && negb (st_eqb (p_state p) AdminDown) && negb (st_eqb (p_state p) Down))
  || (negb (p_auth p) && p_auth_hdr p && negb (p_auth_type p =? 0))
  || p_auth p || p_poll p || p_final p || negb (p_echo_rx p =? 0) || p_demand p.

(** RFC 5880 section 6.8.6, the validation rules applied before the state update,
    for a system on which authentication is not in use ("If the A bit is set and
    no authentication is in use, the packet MUST be discarded"), without the
    session lookup ... *)
Definition rfc_invalid (p : pkt) : bool :=
  negb (p_version p =? 1)
  || (negb (p_auth p) && (p_len p <? 24))
  || (p_auth p && (p_len p <? 26))
  || (p_mult p =? 0)
  || p_multipoint p
  || (p_my p =? 0)
  || ((p_your p =? 0) && negb (st_eqb (p_state p) AdminDown) && negb (st_eqb (p_state p) Down))
  || p_auth p.
(** ... and the session lookup: "If the Your Discriminator field is nonzero, it MUST be
    used to select the session ... If no session is found, the packet MUST be discarded."
    A scion session is bound to one link; [ld] is its local discriminator. *)
Definition rfc_no_session (ld : N) (p : pkt) : bool :=
  negb (p_your p =? 0) && negb (p_your p =? ld).
Definition rfc_discard (ld : N) (p : pkt) : bool := rfc_invalid p || rfc_no_session ld p.
(** features scion does not implement; packets using them are dropped on top of the RFC rules
    (poll sequences, echo function, demand mode; an authentication header without the A bit is
    a decoding artefact of gopacket) *)
Definition unsupported (p : pkt) : bool :=
  (negb (p_auth p) && p_auth_hdr p && negb (p_auth_type p =? 0))
  || p_poll p || p_final p || negb (p_echo_rx p =? 0) || p_demand p.

(** Detection time armed by an accepted packet (session.go, Run):
    [msg.DetectMultiplier * max(s.RequiredMinRxInterval, msg.DesiredMinTxInterval)], microseconds. *)
Definition detect_time (req_rx_us : N) (p : pkt) : N := p_mult p * N.max req_rx_us (p_des_tx p).
(** RFC 5880 section 6.8.4 (asynchronous mode): "the Detection Time calculated in the local
    system is equal to the value of Detect Mult received from the remote system, multiplied by
    the agreed transmit interval of the remote system (the greater of bfd.RequiredMinRxInterval
    and the last received Desired Min TX Interval)". *)
Definition rfc_detect_time (remote_mult local_req_rx remote_des_tx : N) : N :=
  remote_mult * (if local_req_rx <? remote_des_tx then remote_des_tx else local_req_rx).

(** The session as seen from outside: local state and (learned) remote discriminator. *)
Record sess := { local : st; rdisc : N }.

Definition init (cfg_rdisc : N) : sess := {| local := Down; rdisc := cfg_rdisc |}.

(** Mapping of a received State to the fsm event used by [Session.Run]:
    the received state is fed into the state machine unchanged
    ([s.transition(ctx, event(s.remoteState))]).  For a received AdminDown this is
    the genuine defect recorded as known finding C16/recv-admindown: the local
    session enters AdminDown, which only EvAdminUp (never generated) leaves. *)
Definition recv_event (rx : st) : ev :=
  match rx with AdminDown => EvAdminDown | Down => EvDown | Init => EvInit | Up => EvUp end.

Inductive op := Recv (p : pkt) | Timeout.

Definition step (s : sess) (o : op) : sess :=
  match o with
  | Recv p =>
    if should_discard p then s
    else {| local := transition (local s) (recv_event (p_state p));
            rdisc := if rdisc s =? 0 then p_my p else rdisc s |}
  | Timeout => {| local := transition (local s) EvTimer; rdisc := 0 |}
  end.

Definition run (s : sess) (ops : list op) : sess := fold_left step ops s.

(** the known-finding class: an accepted packet carrying State = AdminDown *)
Definition rx_admindown (o : op) : bool :=
  match o with Recv p => negb (should_discard p) && st_eqb (p_state p) AdminDown | Timeout => false end.
Definition no_rx_admindown (ops : list op) : bool := forallb (fun o => negb (rx_admindown o)) ops.

(** second known-finding class (C16/your-discriminator-unchecked): an accepted packet whose
    non-zero Your Discriminator is not the session's local discriminator [ld] *)
Definition rx_wrong_your (ld : N) (o : op) : bool :=
  match o with Recv p => negb (should_discard p) && rfc_no_session ld p | Timeout => false end.
Definition no_rx_wrong_your (ld : N) (ops : list op) : bool :=
  forallb (fun o => negb (rx_wrong_your ld o)) ops.

(** states after every op *)
Fixpoint trace (s : sess) (ops : list op) : list sess :=
  match ops with [] => [] | o :: t => let s' := step s o in s' :: trace s' t end.

(** A well-formed control packet with the given State and discriminators. *)
Definition mk (s : st) (my your : N) : pkt :=
  {| p_version := 1; p_len := 24; p_auth := false; p_auth_hdr := false; p_auth_type := 0;
     p_mult := 3; p_multipoint := false; p_my := my; p_your := your; p_state := s;
     p_poll := false; p_final := false; p_echo_rx := 0; p_demand := false;
     p_des_tx := 1000; p_req_rx := 1000 |}.

(** ------------------------------------------------------------------
    Two sessions over a lossy, reordering-free link. *)
Record pair := { sa : sess; sb : sess; da : N; db : N;      (* local discriminators *)
                 ab : list pkt; ba : list pkt }.            (* in flight *)

Definition emit (s : sess) (ldisc : N) : pkt := mk (local s) ldisc (rdisc s).

Inductive pop := SendA | SendB | DelivAB | DelivBA | DropAB | DropBA | TimeoutA | TimeoutB.

Definition pstep (p : pair) (o : pop) : pair :=
  match o with
  | SendA => {| sa := sa p; sb := sb p; da := da p; db := db p;
                ab := ab p ++ [emit (sa p) (da p)]; ba := ba p |}
  | SendB => {| sa := sa p; sb := sb p; da := da p; db := db p;
                ab := ab p; ba := ba p ++ [emit (sb p) (db p)] |}
  | DelivAB => match ab p with
               | [] => p
               | m :: t => {| sa := sa p; sb := step (sb p) (Recv m); da := da p; db := db p;
                              ab := t; ba := ba p |} end
  | DelivBA => match ba p with
               | [] => p
               | m :: t => {| sa := step (sa p) (Recv m); sb := sb p; da := da p; db := db p;
                              ab := ab p; ba := t |} end
  | DropAB => {| sa := sa p; sb := sb p; da := da p; db := db p; ab := tl (ab p); ba := ba p |}
  | DropBA => {| sa := sa p; sb := sb p; da := da p; db := db p; ab := ab p; ba := tl (ba p) |}
  | TimeoutA => {| sa := step (sa p) Timeout; sb := sb p; da := da p; db := db p;
                   ab := ab p; ba := ba p |}
  | TimeoutB => {| sa := sa p; sb := step (sb p) Timeout; da := da p; db := db p;
                   ab := ab p; ba := ba p |}
  end.

Definition prun (p : pair) (os : list pop) : pair := fold_left pstep os p.

Definition pinit (da0 db0 : N) : pair :=
  {| sa := init 0; sb := init 0; da := da0; db := db0; ab := []; ba := [] |}.

(** one loss-free exchange in each direction *)
Definition round : list pop := [SendA; DelivAB; SendB; DelivBA].
Fixpoint rounds (n : nat) : list pop := match n with O => [] | S k => round ++ rounds k end.
(** deliver whatever is still in flight *)
Definition flush (p : pair) : list pop :=
  repeat DelivAB (length (ab p)) ++ repeat DelivBA (length (ba p)).

(** ------------------------------------------------------------------
    Correspondence cases. *)
Definition pkt_of (f : list N) : option pkt :=
  match f with
  | [v; len; auth; ah; at_; mult; mp; my; your; stc; poll; fin; echo; dem; dtx; rrx] =>
    match st_of_code stc with
    | Some s => Some {| p_version := v; p_len := len; p_auth := negb (auth =? 0);
                        p_auth_hdr := negb (ah =? 0); p_auth_type := at_; p_mult := mult;
                        p_multipoint := negb (mp =? 0); p_my := my; p_your := your; p_state := s;
                        p_poll := negb (poll =? 0); p_final := negb (fin =? 0); p_echo_rx := echo;
                        p_demand := negb (dem =? 0); p_des_tx := dtx; p_req_rx := rrx |}
    | None => None end
  | _ => None
  end.

Inductive case :=
| CTrans (s e impl : N)                      (* transition table entry; impl = 255 for panic *)
| CDiscard (f : list N) (impl : bool)        (* shouldDiscard on one packet *)
| CHist (ld rd0 : N) (ops : list (option (list N)))   (* None = detection timeout; ld = local discriminator *)
        (impl : list (N * N))                (* (state, remote discriminator) after each op *)
| CDetect (req_rx_us : N) (f : list N) (hi lo : N).
   (* one accepted packet [f] that leaves the session in Init/Up, then silence. Observed on the real
      session, microseconds: [hi] = from just before the packet was handed over until Down was first
      seen (an upper bound of the real detection time); [lo] = from just after it was accepted until
      the last moment the session was seen not Down (a lower bound) *)

Definition ops_of (l : list (option (list N))) : option (list op) :=
  fold_right (fun o acc =>
    match acc with None => None | Some t =>
      match o with
      | None => Some (Timeout :: t)
      | Some f => match pkt_of f with Some p => Some (Recv p :: t) | None => None end
      end end) (Some []) l.

Definition obs_of (s : sess) : N * N := (st_code (local s), rdisc s).
Definition obs_eqb (a b : N * N) := N.eqb (fst a) (fst b) && N.eqb (snd a) (snd b).

(** the property oracle on an observed history: every accepted reception follows
    RFC 6.8.6, every timeout follows 6.8.4, and AdminDown is never entered *)
Fixpoint hist_ok (ld prev : N) (ops : list op) (obs : list (N * N)) : bool :=
  match ops, obs with
  | [], [] => true
  | o :: t, (s', _) :: t' =>
    match st_of_code prev, st_of_code s' with
    | Some p, Some n =>
      negb (st_eqb n AdminDown) &&
      match o with
      | Recv k => if should_discard k || rfc_no_session ld k then st_eqb n p
                  else st_eqb n (rfc_recv p (p_state k))
      | Timeout => st_eqb n (rfc_timer p)
      end && hist_ok ld s' t t'
    | _, _ => false
    end
  | _, _ => false
  end.

(** tolerances of the timing observation: 1 ms of clock granularity below, 3 s of scheduling
    delay above (the check runs on loaded machines) *)
Definition detect_ok (t hi lo : N) : bool := (t <=? hi + 1000) && (lo <=? t + 3000000).

Definition check (c : case) : N :=
  match c with
  | CTrans s e impl =>
    match st_of_code s, ev_of_code e with
    | Some s', Some e' => Check.verdict (N.eqb (st_code (transition s' e')) impl) true
    | _, _ => Check.verdict (N.eqb impl 255) true
    end
  | CDiscard f impl =>
    match pkt_of f with
    | Some p => Check.verdict (Bool.eqb (should_discard p) impl) true
    | None => 1
    end
  | CHist ld rd0 l impl =>
    match ops_of l with
    | Some ops =>
      Check.verdict (list_eqb obs_eqb (map obs_of (trace (init rd0) ops)) impl)
                    (hist_ok ld (st_code Down) ops impl)
    | None => 1
    end
  | CDetect r f hi lo =>
    match pkt_of f with
    | Some p =>
      if should_discard p || st_eqb (local (step (init 0) (Recv p))) Down then 1 (* not a detection case *)
      else Check.verdict (detect_ok (detect_time r p) hi lo)
                         (detect_ok (rfc_detect_time (p_mult p) r (p_des_tx p)) hi lo)
    | None => 1
    end
  end.

Definition diag (c : case) : list (N * N) :=
  match c with
  | CTrans s e _ => match st_of_code s, ev_of_code e with
                    | Some s', Some e' => [(st_code (transition s' e'), 0)] | _, _ => [(255, 0)] end
  | CDiscard f _ => match pkt_of f with Some p => [((if should_discard p then 1 else 0), 0)] | None => [] end
  | CHist _ rd0 l _ => match ops_of l with Some ops => map obs_of (trace (init rd0) ops) | None => [] end
  | CDetect r f _ _ => match pkt_of f with Some p => [(detect_time r p, 0)] | None => [] end
  end.

End BFD.
