(** Model of beacon extension:
      control/beaconing/extender.go   DefaultExtender.Extend, createHopEntry, createPeerEntries,
                                      createPeerEntry, createHopF, remoteIA / remoteMTU / remoteInfo, extractBeta
      private/trust/signer.go         LastExpiring
      pkg/slayers/path/hopfield.go    ExpTimeToDuration / ExpTimeFromDuration
      pkg/slayers/path/mac.go         MACInput
      pkg/segment/seg.go              AddASEntry (what is signed), Validate
    The MAC is an argument ([mac : bytes -> option bytes]; [None] = the table supplied by
    the runner has no entry).  Times are integers: nanoseconds for instants and
    durations, seconds for the segment timestamp.  Definitions only. *)
From Coq Require Import List NArith ZArith Bool.
From Scion Require Import Lib.Check Lib.Bytes.
Import ListNotations.
Local Open Scope Z_scope.

Module Extend.

(** ---------------- hopfield.go *)
Definition max_ttl : Z := 86400 * 1000000000.          (* 24 h in ns *)
Definition exp_unit : Z := max_ttl / 256.               (* 337.5 s *)
Definition exp_to_dur (e : Z) : Z := (e + 1) * exp_unit.
(** [uint8((d*256)/MaxTTL - 1)] *)
Definition exp_from_dur (d : Z) : option Z :=
  if d <? exp_unit then None
  else if d >? max_ttl then None
  else Some (((d * 256) / max_ttl - 1) mod 256).

(** ---------------- addresses, interfaces *)
Definition ia := (N * N)%type.                          (* ISD, AS *)
Definition ia_zero : ia := (0%N, 0%N).
Definition ia_eqb (a b : ia) : bool := (fst a =? fst b)%N && (snd a =? snd b)%N.
Definition wildcard (a : ia) : bool := (fst a =? 0)%N || (snd a =? 0)%N.

Record intf := { i_ia : ia; i_rif : N; i_mtu : N }.     (* remote IA, remote interface, MTU *)
Definition intfs := list (N * intf).
Fixpoint lookup (t : intfs) (id : N) : option intf :=
  match t with [] => None | (i, v) :: r => if (i =? id)%N then Some v else lookup r id end.

(** [remoteIA]: None = error *)
Definition remote_ia (t : intfs) (id : N) : option ia :=
  if (id =? 0)%N then Some ia_zero
  else match lookup t id with
       | None => None
       | Some i => if wildcard (i_ia i) then None else Some (i_ia i)
       end.
(** [remoteMTU] *)
Definition remote_mtu (t : intfs) (id : N) : option N :=
  if (id =? 0)%N then Some 0%N
  else match lookup t id with None => None | Some i => Some (i_mtu i) end.
(** [remoteInfo] *)
Definition remote_info (t : intfs) (id : N) : option (ia * N * N) :=
  if (id =? 0)%N then Some (ia_zero, 0%N, 0%N)
  else match lookup t id with
       | None => None
       | Some i => if (i_rif i =? 0)%N then None
                   else if wildcard (i_ia i) then None
                   else Some (i_ia i, i_rif i, i_mtu i)
       end.

(** ---------------- segments *)
Record peer := { p_ia : ia; p_rif : N; p_mtu : N; p_in : N; p_eg : N; p_exp : Z; p_mac : list N }.
Record entry := {
  e_local : ia; e_next : ia; e_mtu : N; e_inmtu : N;
  e_in : N; e_eg : N; e_exp : Z; e_mac : list N;
  e_peers : list peer }.
(** an entry already in the segment together with the identities of its signed
    message (HeaderAndBody, Signature) *)
Record segment := { s_ts : Z; s_segid : N; s_entries : list (entry * (N * N)) }.

(** [binary.BigEndian.Uint16(MAC[:2])] *)
Definition sigma (m : list N) : N := unbe (firstn 2 m).
(** [extractBeta] *)
Definition extract_beta (s : segment) : N :=
  fold_left (fun b e => N.lxor b (sigma (e_mac (fst e)))) (s_entries s) (s_segid s).

(** [path.MACInput]; the timestamp is [uint32(ts.Unix())] *)
Definition mac_input (beta : N) (ts : Z) (exp : Z) (ing eg : N) : list N :=
  be 2 0 ++ be 2 beta ++ be 4 (Z.to_N (ts mod 4294967296)) ++ [0%N; Z.to_N exp] ++ be 2 ing ++ be 2 eg ++ be 2 0.

(** [Validate]: [beacon] = ValidateBeacon, otherwise ValidateSegment *)
Fixpoint validate_from (es : list entry) (beacon : bool) : bool :=
  match es with
  | [] => true
  | e :: t =>
    forallb (fun p => (p_eg p =? e_eg e)%N) (e_peers e) &&
    match t with
    | e' :: _ => ia_eqb (e_next e) (e_local e') && validate_from t beacon
    | [] => if beacon then negb (wildcard (e_next e)) && negb (e_eg e =? 0)%N
            else ia_eqb (e_next e) ia_zero && (e_eg e =? 0)%N
    end
  end.
Definition validate (es : list entry) (beacon : bool) : bool :=
  match es with
  | [] => false
  | e :: _ => (e_in e =? 0)%N && validate_from es beacon
  end.

(** ---------------- signers *)
Record signer := { s_nb : Z; s_na : Z }.                (* NotBefore, NotAfter (ns) *)
(** [Validity.Covers] of [ts, now] *)
Definition covers (s : signer) (ts_ns now : Z) : bool := (s_nb s <=? ts_ns) && (now <=? s_na s).
(** [trust.LastExpiring]; the result carries the position of the signer *)
Fixpoint number {A} (n : N) (l : list A) : list (N * A) :=
  match l with [] => [] | x :: t => (n, x) :: number (n + 1)%N t end.
Definition last_expiring (ss : list signer) (ts_ns now : Z) : option (N * signer) :=
  match filter (fun p => covers (snd p) ts_ns now) (number 0%N ss) with
  | [] => None
  | c :: rest => Some (fold_left (fun latest s => if s_na (snd s) >? s_na (snd latest) then s else latest) rest c)
  end.

(** ---------------- Extend *)
Record cfg := { c_ia : ia; c_mtu : N; c_maxexp : Z; c_ifs : intfs }.

Inductive err := ENoMTU | EIngressZero | EIngressFirst | EBothZero | ESignerGen | ENoSigner | EExpiry
               | EIngressIntf | EEgressIntf | EValidate.
(** what AddASEntry hands to the signer: the body (the new entry), the segment
    info and the signed messages of all earlier entries *)
Record signed_input := { sg_body : entry; sg_info : Z * N; sg_prev : list (N * N) }.
Inductive result := Ok (e : entry) (signer_idx : N) (sg : signed_input) | Err (x : err) | MacMiss.

Section WithMac.
Variable mac : list N -> option (list N).

(** [createHopF]: the first 6 bytes of the full MAC *)
Definition hop_mac (beta : N) (ts exp : Z) (ing eg : N) : option (list N) :=
  option_map (firstn 6) (mac (mac_input beta ts exp ing eg)).

(** [createPeerEntries]: peers whose remote information is incomplete are skipped *)
Fixpoint peer_entries (t : intfs) (beta : N) (ts exp : Z) (eg : N) (ps : list N) : option (list peer) :=
  match ps with
  | [] => Some []
  | p :: rest =>
    match remote_info t p with
    | None => peer_entries t beta ts exp eg rest
    | Some (pia, rif, mtu) =>
      match hop_mac beta ts exp p eg, peer_entries t beta ts exp eg rest with
      | Some m, Some r => Some ({| p_ia := pia; p_rif := rif; p_mtu := mtu; p_in := p; p_eg := eg;
                                   p_exp := exp; p_mac := m |} :: r)
      | _, _ => None
      end
    end
  end.

Definition ns (sec : Z) : Z := sec * 1000000000.

Definition extend (c : cfg) (signers : list signer) (gen_err : bool) (now : Z)
                  (s : segment) (ingress egress : N) (peers : list N) : result :=
  if (c_mtu c =? 0)%N then Err ENoMTU
  else
  let first := match s_entries s with [] => true | _ => false end in
  if (ingress =? 0)%N && negb first then Err EIngressZero
  else if negb (ingress =? 0)%N && first then Err EIngressFirst
  else if (ingress =? 0)%N && (egress =? 0)%N then Err EBothZero
  else if gen_err then Err ESignerGen
  else
  let ts := s_ts s in
  match last_expiring signers (ns ts) now with
  | None => Err ENoSigner
  | Some (idx, sgn) =>
    match (if ns ts + exp_to_dur (c_maxexp c) >? s_na sgn
           then exp_from_dur (s_na sgn - ns ts) else Some (c_maxexp c)) with
    | None => Err EExpiry
    | Some exp =>
      let beta := extract_beta s in
      match remote_mtu (c_ifs c) ingress with
      | None => Err EIngressIntf
      | Some inmtu =>
        match hop_mac beta ts exp ingress egress with
        | None => MacMiss
        | Some hm =>
          match peer_entries (c_ifs c) (N.lxor beta (sigma hm)) ts exp egress peers with
          | None => MacMiss
          | Some pes =>
            match remote_ia (c_ifs c) egress with
            | None => Err EEgressIntf
            | Some next =>
              let e := {| e_local := c_ia c; e_next := next; e_mtu := c_mtu c; e_inmtu := inmtu;
                          e_in := ingress; e_eg := egress; e_exp := exp; e_mac := hm; e_peers := pes |} in
              if validate (map fst (s_entries s) ++ [e]) (negb (egress =? 0)%N)
              then Ok e idx {| sg_body := e; sg_info := (ts, s_segid s); sg_prev := map snd (s_entries s) |}
              else Err EValidate
            end
          end
        end
      end
    end
  end.

(** the router-side check of a hop field MAC under an accumulator value *)
Definition mac_verifies (beta : N) (ts exp : Z) (ing eg : N) (m : list N) : bool :=
  match hop_mac beta ts exp ing eg with Some m' => bytes_eqb m m' | None => false end.

End WithMac.

(** ---------------- correspondence cases *)
Definition table := list (list N * list N).             (* MAC input -> full MAC, as computed with the real key *)
Fixpoint table_mac (t : table) (i : list N) : option (list N) :=
  match t with [] => None | (k, v) :: r => if bytes_eqb k i then Some v else table_mac r i end.

(** observation on the implementation: None = an error was returned; otherwise
    the appended AS entry, the position of the signer whose Sign was called,
    what it was given as associated data (0 = segment info, 2i+1 / 2i+2 = HeaderAndBody /
    Signature of entry i, 999 = anything else), whether the signed body decodes to
    the appended entry, and whether path.MAC (the router's function) reproduces
    the hop and peer MACs under the accumulated SegID *)
Record obs := { o_entry : entry; o_signer : N; o_assoc : list N; o_body_ok : bool; o_macs_ok : bool }.

Inductive case :=
| CExp (d : Z) (impl : option Z) (back : Z)             (* ExpTimeFromDuration d; ExpTimeToDuration of the result *)
| CExt (c : cfg) (signers : list signer) (gen_err : bool) (now : Z) (s : segment)
       (ingress egress : N) (peers : list N) (macs : table) (impl : option obs)
(** audit follow-up: as [CExt], plus the identities of the associated data the signer was given, in order
    (0 = the segment info, otherwise the identity number of a HeaderAndBody / Signature byte string) *)
| CExt2 (c : cfg) (signers : list signer) (gen_err : bool) (now : Z) (s : segment)
        (ingress egress : N) (peers : list N) (macs : table) (impl : option obs) (impl_ids : list N).

Definition peer_eqb (a b : peer) : bool :=
  ia_eqb (p_ia a) (p_ia b) && (p_rif a =? p_rif b)%N && (p_mtu a =? p_mtu b)%N && (p_in a =? p_in b)%N
  && (p_eg a =? p_eg b)%N && (p_exp a =? p_exp b) && bytes_eqb (p_mac a) (p_mac b).
Definition entry_eqb (a b : entry) : bool :=
  ia_eqb (e_local a) (e_local b) && ia_eqb (e_next a) (e_next b) && (e_mtu a =? e_mtu b)%N
  && (e_inmtu a =? e_inmtu b)%N && (e_in a =? e_in b)%N && (e_eg a =? e_eg b)%N && (e_exp a =? e_exp b)
  && bytes_eqb (e_mac a) (e_mac b) && list_eqb peer_eqb (e_peers a) (e_peers b).

Definition assoc_codes (n : nat) : list N :=
  0%N :: flat_map (fun i => [(2 * N.of_nat i + 1)%N; (2 * N.of_nat i + 2)%N]) (seq 0 n).

Definition agree (r : result) (o : option obs) (nprev : nat) : bool :=
  match r, o with
  | Err _, None => true
  | Ok e idx sg, Some ob =>
    entry_eqb e (o_entry ob) && (idx =? o_signer ob)%N
    && list_eqb N.eqb (assoc_codes (length (sg_prev sg))) (o_assoc ob)
  | _, _ => false
  end.

(** position checks of the statement *)
Definition position_inconsistent (s : segment) (ingress egress : N) : bool :=
  let first := match s_entries s with [] => true | _ => false end in
  ((ingress =? 0)%N && negb first) || (negb (ingress =? 0)%N && first) || ((ingress =? 0)%N && (egress =? 0)%N).

(** The property on the implementation's observation. *)
Definition oracle (c : cfg) (signers : list signer) (now : Z) (s : segment)
                  (ingress egress : N) (macs : table) (o : option obs) : bool :=
  match o with
  | None => true
  | Some ob =>
    let e := o_entry ob in
    let ts := s_ts s in
    let beta := extract_beta s in
    negb (position_inconsistent s ingress egress)
    (* names the local AS and the neighbour behind the egress interface *)
    && ia_eqb (e_local e) (c_ia c)
    && match remote_ia (c_ifs c) egress with Some n => ia_eqb (e_next e) n | None => false end
    && (e_in e =? ingress)%N && (e_eg e =? egress)%N
    (* signed over the segment info and all earlier entries and signatures, by a signer valid from the
       segment timestamp until now *)
    && o_body_ok ob && list_eqb N.eqb (assoc_codes (length (s_entries s))) (o_assoc ob)
    && match nth_error signers (N.to_nat (o_signer ob)) with
       | Some sgn =>
         covers sgn (ns ts) now
         (* expiry never beyond the configured maximum nor the signer's expiry *)
         && (0 <=? e_exp e) && (e_exp e <=? c_maxexp c)
         && (ns ts + exp_to_dur (e_exp e) <=? s_na sgn)
       | None => false
       end
    (* hop and peer MACs verify under the accumulated segment identifier *)
    && o_macs_ok ob
    && mac_verifies (table_mac macs) beta ts (e_exp e) (e_in e) (e_eg e) (e_mac e)
    && forallb (fun p => mac_verifies (table_mac macs) (N.lxor beta (sigma (e_mac e))) ts (p_exp p) (p_in p) (p_eg p) (p_mac p)
                         && (p_exp p =? e_exp e) && (p_eg p =? e_eg e)%N) (e_peers e)
  end.

(** the associated data of a signed input as a list of identities: the segment
    info (0), then HeaderAndBody and Signature of every earlier entry, in order *)
Definition assoc_ids (prev : list (N * N)) : list N :=
  0%N :: flat_map (fun p => [fst p; snd p]) prev.
Definition ids_agree (r : result) (o : option obs) (ids : list N) : bool :=
  match r, o with
  | Ok _ _ sg, Some _ => list_eqb N.eqb (assoc_ids (sg_prev sg)) ids
  | _, _ => true
  end.
Definition ids_oracle (s : segment) (o : option obs) (ids : list N) : bool :=
  match o with
  | Some _ => list_eqb N.eqb (assoc_ids (map snd (s_entries s))) ids
  | None => true
  end.

Definition check (x : case) : N :=
  match x with
  | CExp d impl back =>
    Check.verdict (option_eqb Z.eqb (exp_from_dur d) impl)
                  (match impl with Some e => (0 <=? e) && (e <=? 255) && (back =? exp_to_dur e) && (back <=? d)
                                           && (d <? back + exp_unit)
                              | None => (d <? exp_unit) || (d >? max_ttl) end)
  | CExt c signers gen_err now s ingress egress peers macs impl =>
    let r := extend (table_mac macs) c signers gen_err now s ingress egress peers in
    Check.verdict (agree r impl (length (s_entries s)))
                  (oracle c signers now s ingress egress macs impl)
  | CExt2 c signers gen_err now s ingress egress peers macs impl ids =>
    let r := extend (table_mac macs) c signers gen_err now s ingress egress peers in
    Check.verdict (agree r impl (length (s_entries s)) && ids_agree r impl ids)
                  (oracle c signers now s ingress egress macs impl && ids_oracle s impl ids)
  end.

Definition diag (x : case) : option (entry * N) * option Z :=
  match x with
  | CExp d _ _ => (None, exp_from_dur d)
  | CExt c signers gen_err now s ingress egress peers macs _ =>
    match extend (table_mac macs) c signers gen_err now s ingress egress peers with
    | Ok e idx _ => (Some (e, idx), None)
    | Err _ => (None, Some 0)
    | MacMiss => (None, Some (-1))
    end
  | CExt2 c signers gen_err now s ingress egress peers macs _ _ =>
    match extend (table_mac macs) c signers gen_err now s ingress egress peers with
    | Ok e idx _ => (Some (e, idx), None)
    | Err _ => (None, Some 0)
    | MacMiss => (None, Some (-1))
    end
  end.

End Extend.
