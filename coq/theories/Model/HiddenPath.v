(** Model of the hidden-path registry and authoritative server
    (pkg/experimental/hiddenpath/registry.go, authoritative.go, store.go) over an
    abstract path store that follows private/storage/path/sqlite/sqlite.go
    ([insert] / [buildQuery] restricted to what [Storer] uses).  Definitions only.

    An ISD-AS is a pair (ISD, AS).  A group id is its uint64 form.  A segment is
    identified by [s_id] (PathSegment.ID(), a hash over the hops, hence the
    destination is a function [end_of] of the id), ordered by [s_ver] (signature
    timestamp of the last AS entry, utils.ExtractLastHopVersion) and tagged with
    the seg.Type it was sent with. *)
From Coq Require Import List NArith ZArith Bool.
From Scion Require Import Lib.Check.
Import ListNotations.
Local Open Scope N_scope.

Module HiddenPath.

Definition ia := (N * N)%type.
Definition ia_eqb (a b : ia) : bool := (fst a =? fst b) && (snd a =? snd b).
Definition mem_ia (x : ia) (l : list ia) : bool := existsb (ia_eqb x) l.
Definition mem_n (x : N) (l : list N) : bool := existsb (N.eqb x) l.

(** hiddenpath.Group: the fields the two servers consult (maps become lists). *)
Record group := mkgroup {
  g_owner : ia; g_writers : list ia; g_readers : list ia; g_registries : list ia }.

(** [Groups map[GroupID]*Group] and [LocalIA] shared by both servers. *)
Record config := mkcfg { c_groups : list (N * group); c_local : ia }.

Fixpoint lookup (id : N) (l : list (N * group)) : option group :=
  match l with
  | [] => None
  | (k, g) :: t => if k =? id then Some g else lookup id t
  end.

Record segm := mkseg { s_id : N; s_ver : Z; s_type : N }.
Definition type_down : N := 2.        (* seg.TypeDown *)
Definition is_down (s : segm) : bool := s_type s =? type_down.

(** ---------------------------------------------------------------- store
    Segments table keyed by SegID with the HPGroupIDs rows of the segment:
    segment id |-> (version of the stored segment, groups).  Row order = RowID. *)
Definition entry := (N * (Z * list N))%type.
Definition store := list entry.

Fixpoint find (s : N) (st : store) : option (Z * list N) :=
  match st with
  | [] => None
  | (k, e) :: t => if k =? s then Some e else find s t
  end.

Definition add_group (g : N) (gs : list N) : list N := if mem_n g gs then gs else gs ++ [g].

(** sqlite.go [insert] called through [Storer.Put] with one group id:
    unknown SegID: insertFull;  known SegID and the new last-hop version is not
    newer: nothing at all happens (neither segment nor group rows change);
    otherwise updateExisting: the segment is replaced and the group row is
    inserted (PRIMARY KEY ... ON CONFLICT IGNORE).

    [strict = true] is the implementation.  [strict = false] is the store the
    property presumes: the segment row is kept as well, but the group is
    recorded; it only serves to delimit the known defect class (below). *)
Fixpoint put1 (strict : bool) (st : store) (g : N) (sg : segm) : store :=
  match st with
  | [] => [(s_id sg, (s_ver sg, [g]))]
  | (k, (v, gs)) :: t =>
    if k =? s_id sg then
      if (s_ver sg <=? v)%Z then (k, (v, if strict then gs else add_group g gs)) :: t
      else (k, (s_ver sg, add_group g gs)) :: t
    else (k, (v, gs)) :: put1 strict t g sg
  end.

(** [Storer.Put]: one insert per segment, in order. *)
Definition put (strict : bool) (st : store) (g : N) (segs : list segm) : store :=
  fold_left (fun st sg => put1 strict st g sg) segs st.

(** EndsAt clause of [buildQuery]: AS 0 is an ISD wildcard. *)
Definition ends_at (dst e : ia) : bool :=
  if snd dst =? 0 then fst dst =? fst e else ia_eqb dst e.

Section WithEnds.
Variable end_of : N -> ia.      (* last AS of the segment with this id *)
Variable strict : bool.         (* true: the implementation's store, see [put1] *)

(** [Storer.Get]: rows whose end matches and that carry one of the group ids. *)
Definition get (dst : ia) (gids : list N) (st : store) : list (N * Z) :=
  map (fun e => (fst e, fst (snd e)))
      (filter (fun e => ends_at dst (end_of (fst e))
                        && existsb (fun g => mem_n g gids) (snd (snd e))) st).

(** ---------------------------------------------------------------- RegistryServer.Register *)
Record registration := mkreg {
  r_peer : ia;                   (* reg.Peer.IA; the gRPC server never passes a nil Peer *)
  r_gid : N; r_segs : list segm;
  r_verdict : bool }.            (* what Verifier.Verify answers for these segments *)

Inductive reg_err := RUnknownGroup | RNotWriter | RNotRegistry | RWrongType | RVerify.
Inductive reg_res := ROk | RErr (e : reg_err).

Definition register (cfg : config) (r : registration) (st : store) : reg_res * store :=
  match lookup (r_gid r) (c_groups cfg) with
  | None => (RErr RUnknownGroup, st)
  | Some g =>
    if negb (mem_ia (r_peer r) (g_writers g)) then (RErr RNotWriter, st)
    else if negb (mem_ia (c_local cfg) (g_registries g)) then (RErr RNotRegistry, st)
    else if negb (forallb is_down (r_segs r)) then (RErr RWrongType, st)
    else if negb (r_verdict r) then (RErr RVerify, st)
    else (ROk, put strict st (r_gid r) (r_segs r))
  end.

(** ---------------------------------------------------------------- AuthoritativeServer.Segments *)
Record request := mkreq { q_gids : list N; q_dst : ia; q_peer : ia }.

Inductive seg_err := SNoGroups | SUnknownGroup | SNotAllowed | SNotAuthoritative.
Inductive seg_res := SOk (l : list (N * Z)) | SErr (e : seg_err).

Definition can_read (peer : ia) (g : group) : bool :=
  ia_eqb (g_owner g) peer || mem_ia peer (g_registries g)
  || mem_ia peer (g_writers g) || mem_ia peer (g_readers g).
Definition is_authoritative (local : ia) (g : group) : bool := mem_ia local (g_registries g).

Fixpoint check_groups (cfg : config) (peer : ia) (gids : list N) : option seg_err :=
  match gids with
  | [] => None
  | id :: t =>
    match lookup id (c_groups cfg) with
    | None => Some SUnknownGroup
    | Some g =>
      if negb (can_read peer g) then Some SNotAllowed
      else if negb (is_authoritative (c_local cfg) g) then Some SNotAuthoritative
      else check_groups cfg peer t
    end
  end.

Definition segments (cfg : config) (q : request) (st : store) : seg_res :=
  match q_gids q with
  | [] => SErr SNoGroups
  | _ =>
    match check_groups cfg (q_peer q) (q_gids q) with
    | Some e => SErr e
    | None => SOk (get (q_dst q) (q_gids q) st)
    end
  end.

(** ---------------------------------------------------------------- histories *)
(** [OPub]: the control service's path DB is shared with the public segment
    registration, which inserts a (public) down segment under group id 0
    (pathdb Insert = InsertWithHPGroupIDs [0]) *)
Definition public_gid : N := 0.
Inductive op := OReg (r : registration) | OReq (q : request) | OPub (sg : segm).
Inductive out := OutReg (r : reg_res) | OutReq (r : seg_res) | OutPub.

Definition step (cfg : config) (st : store) (o : op) : store * out :=
  match o with
  | OReg r => let (res, st') := register cfg r st in (st', OutReg res)
  | OReq q => (st, OutReq (segments cfg q st))
  | OPub sg => (put1 strict st public_gid sg, OutPub)
  end.

Definition exec (cfg : config) (st : store) (ops : list op) : store :=
  fold_left (fun st o => fst (step cfg st o)) ops st.

Fixpoint trace (cfg : config) (st : store) (ops : list op) : list out :=
  match ops with
  | [] => []
  | o :: t => let (st', r) := step cfg st o in r :: trace cfg st' t
  end.

(** ---------------------------------------------------------------- the property, stated on histories
    (independent of the store: it only looks at which registrations the property
    accepts and what they contained) *)

(** a registration the property accepts *)
Definition reg_okb (cfg : config) (r : registration) : bool :=
  match lookup (r_gid r) (c_groups cfg) with
  | Some g =>
    mem_ia (r_peer r) (g_writers g) && mem_ia (c_local cfg) (g_registries g)
    && forallb is_down (r_segs r) && r_verdict r
  | None => false
  end.

(** a request the property lets the server answer *)
Definition serve_okb (cfg : config) (q : request) : bool :=
  negb (match q_gids q with [] => true | _ => false end)
  && forallb (fun id => match lookup id (c_groups cfg) with
                        | Some g => can_read (q_peer q) g && is_authoritative (c_local cfg) g
                        | None => false end) (q_gids q).

(** the (group, segment) pairs registered by the accepted registrations, in order *)
Definition puts_of (cfg : config) (ops : list op) : list (N * segm) :=
  flat_map (fun o => match o with
                     | OReg r => if reg_okb cfg r then map (fun sg => (r_gid r, sg)) (r_segs r) else []
                     | OReq _ => []
                     | OPub sg => [(public_gid, sg)] end) ops.

Definition vers (s : N) (ps : list (N * segm)) : list Z :=
  map (fun p => s_ver (snd p)) (filter (fun p => s_id (snd p) =? s) ps).

(** the answer the property prescribes after the registrations [ps]: the segments
    registered under a requested group that end at the destination, each in its
    newest registered version *)
Definition spec_answer (q : request) (ps : list (N * segm)) : list (N * Z) :=
  map (fun p => (s_id (snd p), fold_right Z.max (s_ver (snd p)) (vers (s_id (snd p)) ps)))
      (filter (fun p => mem_n (fst p) (q_gids q) && ends_at (q_dst q) (end_of (s_id (snd p)))) ps).

Definition pair_eqb (a b : N * Z) : bool := (fst a =? fst b) && (snd a =? snd b)%Z.
Definition incl_b (l1 l2 : list (N * Z)) : bool := forallb (fun a => existsb (pair_eqb a) l2) l1.
Fixpoint nodup_keys (l : list (N * Z)) : bool :=
  match l with [] => true | a :: t => negb (existsb (fun b => fst a =? fst b) t) && nodup_keys t end.

(** observation of one op on the implementation:
    registration: 0 accepted, 1 error;  request: answered? + (segment id, version) list *)
Inductive obs := ObsReg (code : N) | ObsReq (ok : bool) (l : list (N * Z)).

Definition obs_of (o : out) : obs :=
  match o with
  | OutReg ROk => ObsReg 0 | OutReg (RErr _) => ObsReg 1
  | OutReq (SOk l) => ObsReq true l | OutReq (SErr _) => ObsReq false []
  | OutPub => ObsReg 0
  end.

Definition obs_eqb (a b : obs) : bool :=
  match a, b with
  | ObsReg x, ObsReg y => x =? y
  | ObsReq false _, ObsReq false _ => true
  | ObsReq true l1, ObsReq true l2 => incl_b l1 l2 && incl_b l2 l1 && (length l1 =? length l2)%nat
  | _, _ => false
  end.

(** the oracle: each observed verdict and each observed answer is the one the
    property prescribes for the history so far *)
Definition op_ok (cfg : config) (ps : list (N * segm)) (o : op) (b : obs) : bool :=
  match o, b with
  | OReg r, ObsReg c => Bool.eqb (c =? 0) (reg_okb cfg r)
  | OPub _, ObsReg c => c =? 0
  | OReq q, ObsReq ok l =>
    Bool.eqb ok (serve_okb cfg q)
    && (negb ok || (incl_b l (spec_answer q ps) && incl_b (spec_answer q ps) l && nodup_keys l))
  | _, _ => false
  end.

Fixpoint hist_ok (cfg : config) (ps : list (N * segm)) (ops : list op) (obs_l : list obs) : bool :=
  match ops, obs_l with
  | [], [] => true
  | o :: t, b :: t' => op_ok cfg ps o b && hist_ok cfg (ps ++ puts_of cfg [o]) t t'
  | _, _ => false
  end.

End WithEnds.

(** ---------------------------------------------------------------- the known defect class
    A registration of a segment whose id is already stored in an equal or newer
    version under other groups only: the path DB ignores it completely, so the
    group is never recorded although the registration is acknowledged. *)
Definition dropped (st : store) (g : N) (sg : segm) : bool :=
  match find (s_id sg) st with
  | Some (v, gs) => (s_ver sg <=? v)%Z && negb (mem_n g gs)
  | None => false
  end.

Fixpoint known_puts (st : store) (ps : list (N * segm)) : bool :=
  match ps with
  | [] => false
  | p :: t => dropped st (fst p) (snd p) || known_puts (put1 true st (fst p) (snd p)) t
  end.

Definition known (cfg : config) (ops : list op) : bool := known_puts [] (puts_of cfg ops).

(** The narrow class used for tagging: histories in which such an ignored
    registration is visible in an answer, i.e. the implementation's store and the
    store the property presumes produce different observations. *)
Definition pair_exact_eqb (a b : N * Z) : bool := (fst a =? fst b) && (snd a =? snd b)%Z.
Definition obs_exact_eqb (a b : obs) : bool :=
  match a, b with
  | ObsReg x, ObsReg y => x =? y
  | ObsReq o1 l1, ObsReq o2 l2 => Bool.eqb o1 o2 && list_eqb pair_exact_eqb l1 l2
  | _, _ => false
  end.
Definition model_obs (strict : bool) (end_of : N -> ia) (cfg : config) (ops : list op) : list obs :=
  map obs_of (trace end_of strict cfg [] ops).
Definition known_visible (end_of : N -> ia) (cfg : config) (ops : list op) : bool :=
  negb (list_eqb obs_exact_eqb (model_obs true end_of cfg ops) (model_obs false end_of cfg ops)).

(** ---------------------------------------------------------------- the property's vocabulary (Prop level) *)

(** the conditions of the property on a registration *)
Definition reg_allowed (cfg : config) (r : registration) : Prop :=
  exists g, lookup (r_gid r) (c_groups cfg) = Some g
    /\ In (r_peer r) (g_writers g) /\ In (c_local cfg) (g_registries g)
    /\ (forall sg, In sg (r_segs r) -> s_type sg = type_down) /\ r_verdict r = true.

Definition member (peer : ia) (g : group) : Prop :=
  peer = g_owner g \/ In peer (g_writers g) \/ In peer (g_readers g) \/ In peer (g_registries g).

(** the conditions of the property on a request *)
Definition serve_allowed (cfg : config) (q : request) : Prop :=
  q_gids q <> [] /\
  forall id, In id (q_gids q) ->
    exists g, lookup id (c_groups cfg) = Some g /\ member (q_peer q) g
              /\ In (c_local cfg) (g_registries g).

(** the store associates segment id [s] with group [g] *)
Definition stored_under (st : store) (s g : N) : Prop :=
  exists v gs, find s st = Some (v, gs) /\ In g gs.

(** some registration of the history that satisfies the property's conditions
    registered segment [sg] under group [g], or [g] is the public group id 0 and
    the segment was inserted as a public segment *)
Definition registered (cfg : config) (ops : list op) (g : N) (sg : segm) : Prop :=
  (exists r, In (OReg r) ops /\ reg_allowed cfg r /\ r_gid r = g /\ In sg (r_segs r))
  \/ (g = public_gid /\ In (OPub sg) ops).

(** [v] is the newest version of segment [s] registered in the history *)
Definition newest (cfg : config) (ops : list op) (s : N) (v : Z) : Prop :=
  (exists g sg, registered cfg ops g sg /\ s_id sg = s /\ s_ver sg = v) /\
  (forall g sg, registered cfg ops g sg -> s_id sg = s -> (s_ver sg <= v)%Z).

(** what the property requires of an answer [l] to request [q] after history [ops] *)
Definition exact_answer (end_of : N -> ia) (cfg : config) (ops : list op) (q : request)
           (l : list (N * Z)) : Prop :=
  forall s v, In (s, v) l <->
    (ends_at (q_dst q) (end_of s) = true
     /\ (exists g sg, In g (q_gids q) /\ registered cfg ops g sg /\ s_id sg = s)
     /\ newest cfg ops s v).

(** ---------------------------------------------------------------- correspondence cases *)
Definition table_end (tbl : list (N * ia)) (s : N) : ia :=
  match List.find (fun p => fst p =? s) tbl with Some p => snd p | None => (0, 0) end.

Inductive case :=
| CHist (ends : list (N * ia)) (cfg : config) (ops : list op) (impl : list obs)
        (tagged : bool).      (* the runner's own classification into the known defect class *)

Definition check (c : case) : N :=
  match c with
  | CHist ends cfg ops impl tagged =>
    Check.verdict (list_eqb obs_eqb (model_obs true (table_end ends) cfg ops) impl
                   && Bool.eqb (known_visible (table_end ends) cfg ops) tagged)
                  (hist_ok (table_end ends) cfg [] ops impl)
  end.

Definition diag (c : case) : list obs * bool :=
  match c with
  | CHist ends cfg ops _ _ =>
    (model_obs true (table_end ends) cfg ops, known_visible (table_end ends) cfg ops)
  end.

End HiddenPath.
