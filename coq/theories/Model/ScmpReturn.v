(** C10 — SCMP replies and traceroute answers travel back to the sender.
    Definitions only.

    The pieces come from the other models: the fast path of one router
    ([Router.process_scion]), the slow path that builds the SCMP packet
    ([RouterScmp.slow_path]: processPacket / packSCMP / prepareSCMP /
    handleSCMPTraceRouteRequest), the network of routers ([Network]), provenance
    paths and their rendering ([Prov]), the port derivation of local delivery
    ([PortDispatch.dst_scion_port], C11).  Added here:

    - [reply_path]: the path part of prepareSCMP in isolation (reversal, revert
      of the cross-over, increment when the reply leaves over an external link);
    - faults: a router whose egress interface is down or unknown ([cfault],
      applied to the configuration of ONE router), and packets altered by the
      sender ([pfault]: a later hop field with another ExpTime / MAC, a
      router-alert flag);
    - [run_x]: the hop-by-hop walk of [Network.run_fuel] with that faulty router,
      ending with the slow-path request when a router answers;
    - [next_loc]: where the answer goes (runSlowPathProcessor sends it over the
      link the offending packet came in on);
    - the positions of a path at which a router can answer, the packet it
      holds then, and where in the REVERSED provenance path the reply is
      ([ret_hop], [ret_pos]);
    - the case of the correspondence check with its oracle [c10_ok]. *)
From Coq Require Import List NArith Bool Arith.
From Scion Require Import Lib.Check Lib.Bytes Model.Router Model.Network Model.Prov Model.RouterScmp
  Model.PortDispatch.
Import ListNotations.
Local Open Scope N_scope.

Module ScmpReturn.
Import Router Network Prov.

(** * The path of the reply: the first half of [prepareSCMP] *)
Definition reply_path (external : bool) (p : pkt) : option pkt :=
  match RouterScmp.reverse p with
  | None => None
  | Some r0 =>
    match nthN (p_infos r0) (p_curr_inf r0) with
    | None => None
    | Some i0 =>
      match RouterScmp.det_peer r0 i0 with
      | None => None
      | Some pe =>
        match RouterScmp.revert_xover r0 pe with
        | None => None
        | Some r1 =>
          match RouterScmp.ext_inc external r1 pe with
          | RouterScmp.EOk r2 => Some r2
          | _ => None
          end
        end
      end
    end
  end.

Definition is_ext (ing : ingress) : bool := match ing with InExt _ => true | _ => false end.

(** * Faults *)

(** of one router's configuration: the link behind egress interface [e] reports
    down (the router's own external link, or the link to the sibling router that
    owns [e], which takes all interfaces of that sibling with it); or the
    router does not know interface [e] *)
Inductive cfault := CDown (e : N) | CUnknown (e : N).

Definition set_down (f : iface) : iface :=
  mkIf (if_id f) (if_scope f) (if_lt f) (if_nbr f) false (if_link f).

Definition with_ifs (c : cfg) (l : list iface) : cfg :=
  mkCfg (c_ia c) l (c_svcs c) (c_local_host c) (c_port_lo c) (c_port_hi c) (c_scmp_auth c).

Definition apply_cfault (f : cfault) (c : cfg) : cfg :=
  match f with
  | CDown e =>
    match find_if (c_ifs c) e with
    | Some x =>
      with_ifs c (map (fun y =>
        if scope_eqb (if_scope x) External then (if if_id y =? e then set_down y else y)
        else if scope_eqb (if_scope y) (if_scope x) && (if_link y =? if_link x) then set_down y else y)
        (c_ifs c))
    | None => c
    end
  | CUnknown e => with_ifs c (filter (fun y => negb (if_id y =? e)) (c_ifs c))
  end.

(** of the packet, made by the sender: one protected value of a hop field
    altered ([Prov.tamper]: ExpTime, MAC), or router-alert flags set on a hop *)
Inductive pfault :=
| PNone
| PHop (f : field) (idx : nat) (v : N)
| PAlert (idx : nat) (ia ea : bool).   (* the two flag bits of hop field [idx] as on the wire *)

Definition set_alerts (idx : nat) (ia ea : bool) (q : pkt) : pkt :=
  match nth_error (p_hops q) idx with
  | Some h => with_hops q (set_nth (p_hops q) idx
                (mkHop ia ea (h_exp h) (h_in h) (h_eg h) (h_mac h) (h_rsv h)))
  | None => q
  end.

Definition apply_pfault (pf : pfault) (q : pkt) : pkt :=
  match pf with
  | PNone => q
  | PHop f idx v => tamper f idx v q
  | PAlert idx ia ea => set_alerts idx ia ea q
  end.

(** * The walk with one faulty router *)
Definition fault_at := option (N * (N * cfault)).   (* ISD-AS, router, fault *)

Definition cfg_x (fa : fault_at) (a : nas) (r : N) : cfg :=
  match fa with
  | Some (ia_, (rt, f)) =>
    if (a_ia a =? ia_) && (r =? rt) then apply_cfault f (cfg_of a r) else cfg_of a r
  | None => cfg_of a r
  end.

Inductive xfinal :=
| XFin (f : final)
| XSlow (l : loc) (inp : pkt) (req : spreq) (eg : N) (out : pkt).   (* the router at [l] answers *)

Section WithMac.
Variable macq : N -> N -> N -> N -> N -> N -> option (list N).
Variable t : topology.
Variable fa : fault_at.
Variable now : N.

Fixpoint run_x (fuel : nat) (l : loc) (p : pkt) : list (tstep * pkt) * xfinal :=
  match fuel with
  | O => ([], XFin OutOfFuel)
  | S fuel' =>
    match find_as t (l_ia l) with
    | None => ([], XFin (NoRoute (l_ia l) (l_rtr l)))
    | Some a =>
      match process_scion (macq (a_key a)) (cfg_x fa a (l_rtr l)) now (l_ing l) p with
      | Forward e out (Some d) =>
        ([(obs_step l e false out, out)], XFin (Delivered (a_ia a) (l_rtr l) (fst d) (snd d)))
      | Forward e out None =>
        match find_nif (a_ifs a) e with
        | None => ([(obs_step l e false out, out)], XFin (NoRoute (a_ia a) (l_rtr l)))
        | Some f =>
          if ni_owner f =? l_rtr l then
            match find_as t (ni_nbr f) with
            | None => ([(obs_step l e true out, out)], XFin (NoRoute (a_ia a) (l_rtr l)))
            | Some b =>
              match find_nif (a_ifs b) (ni_remote f) with
              | None => ([(obs_step l e true out, out)], XFin (NoRoute (a_ia a) (l_rtr l)))
              | Some g =>
                let '(tr, fin) :=
                  run_x fuel' (mkLoc (a_ia b) (ni_owner g) (InExt (ni_remote f))) out in
                ((obs_step l e true out, out) :: tr, fin)
              end
            end
          else
            let '(tr, fin) :=
              run_x fuel' (mkLoc (a_ia a) (ni_owner f) (InSib (l_rtr l + 1))) out in
            ((obs_step l e false out, out) :: tr, fin)
        end
      | SlowPath req eg out => ([], XSlow (mkLoc (a_ia a) (l_rtr l) (l_ing l)) p req eg out)
      | MacMiss => ([], XFin FMacMiss)
      | BadInput => ([], XFin FBadInput)
      | r => ([], XFin (Stopped (a_ia a) (l_rtr l) (stop_of r)))
      end
    end
  end.

End WithMac.

Definition to_final (x : xfinal) : final :=
  match x with
  | XFin f => f
  | XSlow l _ req eg out => Stopped (l_ia l) (l_rtr l) (stop_of (SlowPath req eg out))
  end.

(** * Where the answer goes: over the link the offending packet came in on.
    [Some None]: over the internal link, straight to the underlay address the
    packet came from (no further router). *)
Definition next_loc (t : topology) (l : loc) : option (option loc) :=
  match l_ing l with
  | InInt => Some None
  | InSib k => if k =? 0 then None else Some (Some (mkLoc (l_ia l) (k - 1) (InSib (l_rtr l + 1))))
  | InExt i =>
    match find_as t (l_ia l) with
    | None => None
    | Some a =>
      match find_nif (a_ifs a) i with
      | None => None
      | Some f =>
        match find_as t (ni_nbr f) with
        | None => None
        | Some b =>
          match find_nif (a_ifs b) (ni_remote f) with
          | None => None
          | Some g => Some (Some (mkLoc (a_ia b) (ni_owner g) (InExt (ni_remote f))))
          end
        end
      end
    end
  end.

(** * The answering router's slow path *)
Definition with_host (c : cfg) (h : list N) : cfg :=
  mkCfg (c_ia c) (c_ifs c) (c_svcs c) h (c_port_lo c) (c_port_hi c) (c_scmp_auth c).

Fixpoint host_of (hosts : list (N * (N * list N))) (ia_ rtr : N) : list N :=
  match hosts with
  | [] => []
  | (i, (r, h)) :: rest => if (i =? ia_) && (r =? rtr) then h else host_of rest ia_ rtr
  end.

Definition no_cmac (_ : bytes) : option bytes := None.

Definition answer (c : cfg) (ing : ingress) (req : spreq) (eg : N) (out : pkt)
           (tc flow next : N) (raw : bytes) : RouterScmp.sresult :=
  RouterScmp.slow_path no_cmac c ing req eg (RouterScmp.mkSpin out false tc flow next raw) false 0.

(** the port local delivery derives from an SCMP message ([dstScionPort] /
    [getDstPortSCMP], the model of C11): for an error message the source port /
    identifier of the quoted packet, whose upper layer has protocol [qnext] and
    starts [qoff] bytes into the quote; for a traceroute reply the identifier *)
Definition reply_port (l4 : bytes) (qnext : N) (qoff : nat) : option N :=
  match PortDispatch.dst_scion_port PortDispatch.L4SCMP l4 (Some (qnext, qoff)) with
  | PortDispatch.Ok pt => Some pt
  | PortDispatch.Err => None
  end.

Definition set_port (q : pkt) (port : option N) : pkt :=
  mkPkt (p_dst_ia q) (p_src_ia q) (p_dst_type q) (p_src_type q) (p_dst_raw q) (p_src_raw q)
        (p_pay_len q) (p_pay_actual q) port (p_curr_inf q) (p_curr_hf q)
        (p_seg0 q) (p_seg1 q) (p_seg2 q) (p_meta_rsv q) (p_infos q) (p_hops q).

(** the reply as the routers on the way back see it *)
Definition walk_pkt (r : RouterScmp.reply) (qnext : N) (qoff : nat) : pkt :=
  set_port (RouterScmp.r_hdr r) (reply_port (RouterScmp.r_l4 r) qnext qoff).

Inductive back :=
| BDirect (ia rtr : N)                 (* handed to the internal network of that AS by that router *)
| BWalk (w : list tstep * final)       (* walked through the routers *)
| BNone.                               (* nothing was sent *)

Definition back_eqb (a b : back) : bool :=
  match a, b with
  | BDirect i r, BDirect i' r' => (i =? i') && (r =? r')
  | BWalk w, BWalk w' => walk_eqb w w'
  | BNone, BNone => true
  | _, _ => false
  end.

Definition go_back (macq : N -> N -> N -> N -> N -> N -> option (list N)) (t : topology) (now' : N)
           (l : loc) (res : RouterScmp.sresult) (qnext : N) (qoff : nat) : back :=
  match res with
  | RouterScmp.SReply r =>
    match next_loc t l with
    | Some None => BDirect (l_ia l) (l_rtr l)
    | Some (Some l') => BWalk (forward macq t now' l' (walk_pkt r qnext qoff))
    | None => BNone
    end
  | _ => BNone
  end.

(** * Positions: where on a provenance path a router can answer *)

(** how the offending packet reached the router *)
Inductive arrival := AHost | AExt | ASib.

Definition owner_of (t : topology) (ia_ x : N) : N :=
  match find_as t ia_ with
  | Some a => match find_nif (a_ifs a) x with Some f => ni_owner f | None => 0 end
  | None => 0
  end.

(** the hop whose egress interface the AS of hop [k] uses (the next one at a segment change) *)
Definition eff (p : prov) (k : nat) : nat := if crosses p k || Nat.eqb (S k) (nhops p) then k else S k.

(** the hop field through whose ingress interface the packet entered the AS in
    which hop [kc] is current: the previous one if [kc] was reached by a segment change *)
Definition ret_hop (p : prov) (kc : nat) : nat :=
  if is_first p kc && negb (peerhop p kc) then (kc - 1)%nat else kc.

(** position in the REVERSED provenance path, and SegID state, of the reply as it
    leaves the router: at the hop of the previous AS when it leaves over the
    external link the offending packet came in on; at the router's own AS
    ("between the routers") when it goes to the sibling router or to the host *)
Definition ret_pos (p : prov) (how : arrival) (kc : nat) : nat * bool :=
  match how with
  | AExt => ((nhops p - ret_hop p kc)%nat, false)
  | _ => ((nhops p - 1 - ret_hop p kc)%nat, true)
  end.

(** router and link at which hop [ka] becomes current on arrival *)
Definition pos_loc (t : topology) (p : prov) (ka : nat) (how : arrival) : loc :=
  match how with
  | AHost => mkLoc (ia p ka) (owner_of t (ia p ka) (tr_eg p (eff p ka))) InInt
  | AExt => mkLoc (ia p ka) (owner_of t (ia p ka) (tr_in p ka)) (InExt (tr_in p ka))
  | ASib => mkLoc (ia p ka) (owner_of t (ia p ka) (tr_eg p ka))
                  (InSib (owner_of t (ia p (ret_hop p ka)) (tr_in p (ret_hop p ka)) + 1))
  end.

(** the packet of the path as it arrives there (before any fault of the sender) *)
Definition pos_pkt (p : prov) (pp : pparams) (ka : nat) (how : arrival) : pkt :=
  render p pp ka (match how with ASib => true | _ => false end).

(** inter-AS interfaces crossed between hop [k] and hop [k+m] *)
Definition pairs_of (p : prov) (k : nat) : list (N * N) :=
  if crosses p k then [(ia p k, tr_eg p k); (ia p (S k), tr_in p (S k))] else [].
Definition ifs_seg (p : prov) (k m : nat) : list (N * N) := flat_map (pairs_of p) (seq k m).

(** what the reply has to cross: the interfaces the offending packet crossed, in
    reverse order (the first one is not recorded when the answering router
    itself sends over it) *)
Definition back_ifs (p : prov) (how : arrival) (kc : nat) : list (N * N) :=
  let l := rev (ifs_seg p 0 (ret_hop p kc)) in
  match how with AExt => tl l | _ => l end.

(** parameters of the reply packet: from the router (ISD-AS [lia], host address
    as packed by the slow path) to the source of the offending packet *)
Definition reply_params (pp : pparams) (lia lt : N) (lraw : list N) (pay : N) (port : option N) : pparams :=
  mkPP lia (pp_src_ia pp) (pp_src_type pp) lt (pp_src_raw pp) lraw pay port.

(** * The traceroute answer *)
Definition tr_reply_body (id seq lia ifid : N) : bytes := be 2 id ++ be 2 seq ++ be 8 lia ++ be 8 ifid.

(** the SCMP message is a traceroute reply carrying exactly these values *)
Definition tr_reply_ok (l4 : bytes) (id seq lia ifid : N) : bool :=
  match l4 with
  | ty :: cd :: _ :: _ :: rest =>
    (ty =? RouterScmp.ScmpTracerouteReply) && (cd =? 0) && bytes_eqb rest (tr_reply_body id seq lia ifid)
  | _ => false
  end.

(** * Validity of a scenario (what the theorems assume), as booleans *)

(** the claimed position is one at which a packet of the path is handed to a router *)
Definition pos_ok (t : topology) (p : prov) (ka : nat) (how : arrival) : bool :=
  (ka <? nhops p)%nat &&
  match how with
  | AHost => Nat.eqb ka 0
  | AExt => (1 <=? ka)%nat && crosses p (ka - 1)
  | ASib =>
    let k0 := ret_hop p ka in
    (S ka <? nhops p)%nat && crosses p ka && (1 <=? k0)%nat && crosses p (k0 - 1) &&
    negb (owner_of t (ia p k0) (tr_in p k0) =? owner_of t (ia p ka) (tr_eg p ka))
  end.

(** hop current when the router stops, for the faults whose answer leaves the
    packet in the state "ingress SegID update done":
    egress faults and egress alerts stop at the hop whose egress interface is
    used; an ingress alert stops at the hop of arrival *)
Inductive stopkind := KEgress | KIngressAlert.
Definition stop_hop (p : prov) (ka : nat) (how : arrival) (sk : stopkind) : nat :=
  match how, sk with
  | ASib, _ => ka
  | _, KIngressAlert => ka
  | _, KEgress => eff p ka
  end.

(** the fault of the scenario is one of the covered ones and sits where the position says *)
Definition clean_fault (t : topology) (p : prov) (pf : pfault) (fa : fault_at) (ka kc : nat) (how : arrival)
  : bool :=
  let l := pos_loc t p ka how in
  match pf, fa with
  | PNone, Some (fia, (frt, cf)) =>
    (* this router's egress interface is down / unknown *)
    Nat.eqb kc (stop_hop p ka how KEgress) && (S kc <? nhops p)%nat &&
    (fia =? l_ia l) && (frt =? l_rtr l) &&
    (match cf with CDown e => e | CUnknown e => e end =? tr_eg p kc)
  | PAlert kx ia_ ea, None =>
    (* exactly one flag is set: the one of an interface the packet crosses *)
    Nat.eqb kx kc &&
    (if cons p kx then (* ConsIngress flag = traversal ingress *)
       (ia_ && negb ea && Nat.eqb kc (stop_hop p ka how KIngressAlert) &&
        match how with AExt => true | _ => false end)
       || (ea && negb ia_ && Nat.eqb kc (stop_hop p ka how KEgress) && (S kc <? nhops p)%nat &&
           (owner_of t (ia p kc) (tr_eg p kc) =? l_rtr l))
     else
       (ea && negb ia_ && Nat.eqb kc (stop_hop p ka how KIngressAlert) &&
        match how with AExt => true | _ => false end)
       || (ia_ && negb ea && Nat.eqb kc (stop_hop p ka how KEgress) && (S kc <? nhops p)%nat &&
           (owner_of t (ia p kc) (tr_eg p kc) =? l_rtr l)))
  | _, _ => false
  end.

(** a later hop field whose ExpTime or MAC the sender altered (not covered by
    the theorems; the case still runs through check and oracle) *)
Definition hop_fault (pf : pfault) : bool :=
  match pf with PHop FHopExp _ _ | PHop FHopMac _ _ => true | _ => false end.

(** a packet with a router-alert flag is a traceroute request (the property says nothing
    about other packets that carry the flag) *)
Definition alert_req_ok (pf : pfault) (trq : option (N * N)) : bool :=
  match pf, trq with PAlert _ _ _, None => false | _, _ => true end.

(** exactly one router-alert flag is set, and it is the flag of an interface the path crosses:
    the ingress interface of a hop reached from the previous AS, or the egress interface of
    a hop left for the next AS *)
Definition alert_on_path (p : prov) (pf : pfault) : bool :=
  match pf with
  | PAlert kx ia_ ea =>
    let ingress_flag := if cons p kx then ia_ else ea in
    let egress_flag := if cons p kx then ea else ia_ in
    (kx <? nhops p)%nat &&
    (ingress_flag && negb egress_flag && (1 <=? kx)%nat && crosses p (kx - 1)
     || egress_flag && negb ingress_flag && (S kx <? nhops p)%nat && crosses p kx)
  | _ => false
  end.

Definition is_alert (pf : pfault) : bool := match pf with PAlert _ _ _ => true | _ => false end.

(** the source host is an IP host the reply can be delivered to *)
Definition src_ip_ok (pp : pparams) : bool :=
  match parse_host (pp_src_type pp) (pp_src_raw pp) with
  | HIP ip => negb (is_4in6 ip || is_unspecified ip)
  | _ => false
  end.

(** KNOWN FINDING (see notes/C10.md): errors raised by the checks that precede
    [updateNonConsDirIngressSegID] — here: an expired hop field — on a hop
    traversed against construction direction, reached from the previous AS inside the
    same segment, not a peering hop: prepareSCMP folds the hop's MAC into a SegID that
    was never unfolded, and the next router on the way back rejects the reply. *)
Definition known_early (now : N) (p : prov) (pf : pfault) : bool :=
  match pf with
  | PHop FHopExp idx v =>
    (sg_ts (hdr p idx) * 1000000000 + (v + 1) * ExpUnitNs <? now) &&
    negb (cons p idx) && negb (is_first p idx) && negb (peerhop p idx) && (1 <=? idx)%nat
  | _ => false
  end.

(** * The oracle: what C10 demands of an observed answer
    [reply]: the packet the router emitted; [bk]: how it travelled.
    Delivered to the original source host — ISD-AS, address, and the port the SCMP
    quote rules give — over exactly the interfaces the offending packet crossed,
    in reverse order; a traceroute request is answered by the router owning the
    flagged interface with its ISD-AS, that interface, identifier and sequence. *)
Definition c10_ok (t : topology) (p : prov) (pp : pparams) (pf : pfault) (ka kc : nat) (how : arrival)
           (trq : option (N * N)) (qnext : N) (qoff : nat)
           (l : loc) (reply : RouterScmp.sresult) (bk : back) : bool :=
  match reply with
  | RouterScmp.SReply r =>
    let h := RouterScmp.r_hdr r in
    (p_dst_ia h =? pp_src_ia pp) && (p_dst_type h =? pp_src_type pp) &&
    list_eqb N.eqb (p_dst_raw h) (pp_src_raw pp) &&
    match how, bk with
    | AHost, BDirect a _ => a =? pp_src_ia pp
    | AHost, _ => false
    | _, BWalk w =>
      list_eqb pair_eqb (crossed (fst w)) (back_ifs p how kc) &&
      match reply_port (RouterScmp.r_l4 r) qnext qoff with
      | Some pt => delivered_to w (pp_src_ia pp) (reply_target pp (Some pt))
      | None => false
      end
    | _, _ => false
    end &&
    match pf, trq with
    | PAlert kx ia_ ea, Some (id, sq) =>
      let ingress_flag := if cons p kx then ia_ else ea in
      let ifid := if ingress_flag then tr_in p kx else tr_eg p kx in
      (l_ia l =? ia p kx) && (l_rtr l =? owner_of t (ia p kx) ifid) &&
      tr_reply_ok (RouterScmp.r_l4 r) id sq (ia p kx) ifid
    | PAlert _ _ _, None => false
    | _, _ => true
    end
  | _ => false
  end.

(** * Cases of the correspondence check *)
Inductive case :=
| CRet (t : topology) (hosts : list (N * (N * list N))) (now now' : N) (macs : mactab)
       (p : prov) (pp : pparams) (pf : pfault) (fa : fault_at)
       (tc flow next qnext : N) (qoff : nat)
       (ka kc : nat) (how : arrival) (trq : option (N * N))
       (expect_valid : bool)
       (* observations on the real routers *)
       (sent : pkt) (srt : N)                    (* the packet the host sent, and the router it went to *)
       (fwd : list tstep * final)                (* the walk up to the router that answered *)
       (oloc : loc) (oin : pkt) (ores : result)  (* that router, the packet as it arrived, its fast path *)
       (raw : bytes)                             (* the bytes the fast path left *)
       (oreply : RouterScmp.sresult)             (* the packet of the real slow path, decoded *)
       (oback : back)                            (* the reply walked back through the real routers *)
(* a packet whose alert flags no router on the path reacts to (flags of interfaces the path does
   not cross): forwarded to the destination with the flags untouched *)
| CPass (t : topology) (now : N) (macs : mactab) (p : prov) (pp : pparams) (pf : pfault)
        (expect_valid : bool) (sent : pkt) (srt : N) (fwd : list tstep * final) (last : pkt).

Record mobs := mkMobs {
  m_fwd : list tstep * final;
  m_stop : option (loc * pkt * result);
  m_reply : RouterScmp.sresult;
  m_back : back }.

Definition model_q (macq : N -> N -> N -> N -> N -> N -> option (list N))
           (t : topology) (hosts : list (N * (N * list N))) (now now' : N)
           (p : prov) (pp : pparams) (pf : pfault) (fa : fault_at) (tc flow next qnext : N) (qoff : nat)
           (srt : N) (raw : bytes) : mobs :=
  let sent := apply_pfault pf (render p pp 0 false) in
  let w := run_x macq t fa now (fuel_for sent) (mkLoc (p_src_ia sent) srt InInt) sent in
  let fwd := (map fst (fst w), to_final (snd w)) in
  match snd w with
  | XSlow l inp req eg out =>
    match find_as t (l_ia l) with
    | Some a =>
      let c := with_host (cfg_x fa a (l_rtr l)) (host_of hosts (l_ia l) (l_rtr l)) in
      let rep := answer c (l_ing l) req eg out tc flow next raw in
      mkMobs fwd (Some (l, inp, SlowPath req eg out)) rep (go_back macq t now' l rep qnext qoff)
    | None => mkMobs fwd None RouterScmp.SDrop BNone
    end
  | XFin _ => mkMobs fwd None RouterScmp.SDrop BNone
  end.

Definition model_ret (t : topology) (hosts : list (N * (N * list N))) (now now' : N) (macs : mactab) :=
  model_q (kmacq macs) t hosts now now'.

Definition loc_eqb (a b : loc) : bool :=
  (l_ia a =? l_ia b) && (l_rtr a =? l_rtr b) && ingress_eqb (l_ing a) (l_ing b).

(** the AS of the answering router does not occur earlier on the path (the path has no loop
    through it: the real combinator never builds one) *)
Definition no_revisit (p : prov) (kc : nat) : bool :=
  forallb (fun j => negb (ia p j =? ia p kc)) (seq 0 (ret_hop p kc)).

Definition valid_ret (t : topology) (now now' : N) (macs : mactab) (p : prov) (pp : pparams)
           (ka kc : nat) (how : arrival) : bool :=
  valid_b (kmacq macs) t now p pp && all_unexpired now' p && src_ip_ok pp && pos_ok t p ka how &&
  (kc <? nhops p)%nat && no_revisit p kc.

Definition last_pkt (w : list (tstep * pkt) * xfinal) : option pkt :=
  match snd w with
  | XFin (Delivered _ _ _ _) => option_map snd (nth_error (fst w) (length (fst w) - 1))
  | _ => None
  end.

Definition check (c : case) : N :=
  match c with
  | CRet t hosts now now' macs p pp pf fa tc flow next qnext qoff ka kc how trq ev
         sent srt fwd oloc oin ores raw oreply oback =>
    let m := model_ret t hosts now now' macs p pp pf fa tc flow next qnext qoff srt raw in
    let valid := valid_ret t now now' macs p pp ka kc how in
    (* a traceroute request with the flag of an interface of the path is in scope wherever it
       was answered (the oracle demands that it is the owner of the interface) *)
    let scope := (if is_alert pf then alert_on_path p pf && alert_req_ok pf trq
                  else clean_fault t p pf fa ka kc how) || hop_fault pf in
    Check.verdict
      (pkt_eqb (apply_pfault pf (render p pp 0 false)) sent &&
       walk_eqb (m_fwd m) fwd &&
       match m_stop m with
       | Some (l, inp, res) => loc_eqb l oloc && pkt_eqb inp oin && result_eqb res ores
       | None => false
       end &&
       RouterScmp.sresult_eqb (m_reply m) oreply && back_eqb (m_back m) oback &&
       Bool.eqb valid ev &&
       (* the claimed position is where the real walk stopped, with the packet the path gives there *)
       (negb valid ||
        loc_eqb (pos_loc t p ka how) oloc && pkt_eqb (apply_pfault pf (pos_pkt p pp ka how)) oin))
      (negb (valid && scope) || c10_ok t p pp pf ka kc how trq qnext qoff oloc oreply oback)
  | CPass t now macs p pp pf ev sent srt fwd last =>
    let macq := kmacq macs in
    let s := apply_pfault pf (render p pp 0 false) in
    let w := run_x macq t None now (fuel_for s) (mkLoc (p_src_ia s) srt InInt) s in
    let valid := valid_b macq t now p pp in
    Check.verdict
      (pkt_eqb s sent && walk_eqb (map fst (fst w), to_final (snd w)) fwd &&
       option_eqb pkt_eqb (last_pkt w) (Some last) && Bool.eqb valid ev)
      (negb valid ||
       (* nobody had to answer: the flag is not the flag of an interface of the path *)
       negb (alert_on_path p pf) &&
       match find_as t (pp_dst_ia pp) with
       | Some a => delivered_to fwd (pp_dst_ia pp) (deliver_target a pp)
       | None => false
       end &&
       (* flags untouched *)
       list_eqb hop_eqb (p_hops last) (p_hops sent))
  end.

Definition diag (c : case) : mobs * bool * bool :=
  match c with
  | CRet t hosts now now' macs p pp pf fa tc flow next qnext qoff ka kc how trq ev
         sent srt fwd oloc oin ores raw oreply oback =>
    let m := model_ret t hosts now now' macs p pp pf fa tc flow next qnext qoff srt raw in
    (mkMobs (m_fwd m) (m_stop m)
            (match m_reply m with
             | RouterScmp.SReply r =>
               RouterScmp.SReply (RouterScmp.mkReply (RouterScmp.r_hdr r) (RouterScmp.r_tc r) (RouterScmp.r_flow r)
                 (RouterScmp.r_next r) (RouterScmp.r_hdr_len r) (RouterScmp.r_path_type r) (RouterScmp.r_auth r)
                 (firstn 32 (RouterScmp.r_l4 r)))
             | x => x
             end) (m_back m),
     valid_ret t now now' macs p pp ka kc how, clean_fault t p pf fa ka kc how)
  | CPass t now macs p pp pf ev sent srt fwd last =>
    let macq := kmacq macs in
    let s := apply_pfault pf (render p pp 0 false) in
    let w := run_x macq t None now (fuel_for s) (mkLoc (p_src_ia s) srt InInt) s in
    (mkMobs (map fst (fst w), to_final (snd w)) None RouterScmp.SDrop BNone, valid_b macq t now p pp, true)
  end.

(** compact constructor for the runner: a topology location *)
Definition lc (ia_ rtr : N) (ing : ingress) : loc := mkLoc ia_ rtr ing.

End ScmpReturn.
