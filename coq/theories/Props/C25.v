(** C25 — only valid, policy-conforming beacons are stored and propagated.
    Property theorems only. *)
From Coq Require Import List NArith ZArith Bool Lia.
From Scion Require Import Lib.Check Model.BeaconPolicy Proofs.BeaconPolicy.
Import ListNotations.
Import BeaconPolicy.
Local Open Scope N_scope.

(** A reception step stores the beacon iff it arrived on a known interface whose
    link is core (1) or parent (2), its last AS entry is the neighbour of that
    interface and names the local AS as next hop, all signature verdicts are
    positive and at least one policy accepts it. *)
Theorem C25_stored_iff : forall c st b, bits_disjoint (pols c) = true ->
  length (b_sigs b) = length (b_hops b) ->      (* one verdict per AS entry: "all its signatures verify" *)
  ((exists u, snd (handle c st b) = HStored u) <->
   exists lt nb h, lookup (ifs c) (b_in b) = Some (lt, nb) /\ (lt = 1 \/ lt = 2) /\
     last (map Some (b_hops b)) None = Some h /\ hop_ia h = nb /\ b_next b = local c /\
     Forall (fun v => v = true) (b_sigs b) /\
     exists p, In p (pols c) /\ filter_apply (snd p) (hops_of b) = true).
Proof.
  intros c st b Hd _. rewrite <- acceptable_spec. split.
  - intros (u & H). now apply handle_stored in H.
  - intros Ha. exists (usage (pols c) (hops_of b)). apply handle_stored. split; [exact Ha|]. split; [reflexivity|].
    intros E. apply usage_zero_iff in E; [|now apply bits_disjoint_nonzero].
    rewrite (acceptable_prefilter c b Ha) in E. discriminate.
Qed.
Print Assumptions C25_stored_iff.

(** The store changes only in that case; then it holds a row for the beacon's
    segment ID (this beacon's, or one with a timestamp at least as new). *)
Theorem C25_store_effect : forall c st b,
  (forall u, snd (handle c st b) <> HStored u) -> fst (handle c st b) = st.
Proof.
  intros c st b H. rewrite handle_store. destruct (snd (handle c st b)) eqn:E; try reflexivity.
  exfalso. now apply (H u).
Qed.
Print Assumptions C25_store_effect.

Theorem C25_stored_is_in_store : forall c st b u,
  snd (handle c st b) = HStored u ->
  exists r, In r (fst (handle c st b)) /\ r_key r = b_hops b /\ (b_ts b <= r_ts r)%Z.
Proof. intros c st b u H. rewrite handle_store, H. apply db_insert_has. Qed.
Print Assumptions C25_stored_is_in_store.

(** It is stored with exactly the usages of the accepting policies. *)
Theorem C25_usage_exact : forall c st b u, bits_disjoint (pols c) = true ->
  snd (handle c st b) = HStored u ->
  u = usage (pols c) (hops_of b) /\
  forall p, In p (pols c) -> bit_set u (fst p) = filter_apply (snd p) (hops_of b).
Proof.
  intros c st b u Hd H. apply handle_stored in H as (_ & -> & _). split; [reflexivity|].
  intros p Hp. now apply usage_bit.
Qed.
Print Assumptions C25_usage_exact.

(** The loop filter of the code decides the declarative notions: an AS occurs
    twice / an ISD is left and entered again (for real ISD-AS numbers, ISD <> 0). *)
Theorem C25_filter_decides_loops : forall hops allow, valid_ias hops ->
  (filter_loops hops allow = true <-> as_loop hops \/ (allow = false /\ isd_loop hops)).
Proof. exact filter_loops_spec. Qed.
Print Assumptions C25_filter_decides_loops.

(** Filter.Apply accepts exactly the beacons within the maximum length, without
    loops and without blocked AS / ISD. *)
Theorem C25_filter_apply_spec : forall f hops,
  filter_apply f hops = true <->
  (Z.of_nat (length hops) <= max_hops f)%Z /\ filter_loops hops (allow_isd f) = false /\
  (forall a, In a hops -> ~ In (asn a) (as_bl f) /\ ~ In (isd a) (isd_bl f)).
Proof. exact filter_apply_spec. Qed.
Print Assumptions C25_filter_apply_spec.

(** Whatever history of receptions led to the store: no beacon handed out for an
    egress interface creates an AS loop with the neighbour appended, nor an ISD
    loop when those are disallowed; only rows usable for propagation are handed out. *)
Theorem C25_no_loop_propagated : forall c hist pifs allow nb r,
  In r (for_interface pifs allow (run c hist) nb) ->
  In r (run c hist) /\ bit_set (r_usage r) usage_prop = true /\
  (valid_ias (extended (key_ias (r_key r)) nb) ->
   NoDup (extended (key_ias (r_key r)) nb) /\
   (allow = false -> ~ isd_loop (extended (key_ias (r_key r)) nb))).
Proof.
  intros c hist pifs allow nb r H. apply for_interface_in in H as (Hr & Hb & _ & Hi).
  split; [exact Hr|]. split; [exact Hb|]. intros Hv. now apply no_loop_sent.
Qed.
Print Assumptions C25_no_loop_propagated.

Theorem C25_propagate_uses_filter : forall pifs allow st egress e kids,
  In (e, Some kids) (propagate pifs allow st egress) ->
  exists lt nb, lookup pifs e = Some (lt, nb) /\
    forall k, In k kids <-> exists r, In r (for_interface pifs allow st nb) /\ r_kid r = k.
Proof.
  intros pifs allow st egress e kids H. unfold propagate in H. apply in_map_iff in H as (e' & E & _).
  inversion E; subst e'. destruct (lookup pifs e) as [[lt nb]|]; [|discriminate].
  inversion H1; subst kids. exists lt, nb. split; [reflexivity|]. intros k. rewrite sortN_in, in_map_iff.
  split; intros (r & A & B); exists r; auto.
Qed.
Print Assumptions C25_propagate_uses_filter.

(** Invariant over arbitrary histories of reception steps: every stored row stems
    from a received beacon satisfying all conditions, carries exactly the usages
    of the accepting policies, and for every usage it is stored with the beacon
    is within that policy's maximum length and contains no blocked AS or ISD
    (and no loop that the policy forbids). *)
Theorem C25_stored_respects_policy : forall c hist r, bits_disjoint (pols c) = true ->
  In r (fold_left (step c) hist []) ->
  (exists b, In b hist /\ acceptable c b = true /\ r_key r = b_hops b /\ r_ts r = b_ts b /\ r_in r = b_in b /\
             r_usage r = usage (pols c) (hops_of b) /\ r_usage r <> 0) /\
  forall p, In p (pols c) -> bit_set (r_usage r) (fst p) = true ->
    let hops := key_ias (r_key r) in
    (Z.of_nat (length hops) <= max_hops (snd p))%Z /\
    (forall a, In a hops -> ~ In (asn a) (as_bl (snd p)) /\ ~ In (isd a) (isd_bl (snd p))) /\
    (valid_ias hops -> NoDup hops /\ (allow_isd (snd p) = false -> ~ isd_loop hops)).
Proof.
  intros c hist r Hd Hr. destruct (store_inv_run c hist) as [I1 _].
  destruct (I1 r Hr) as (b & Hb & Hf). split.
  - destruct Hf as (-> & Ha & Hu). exists b. cbn. repeat split; auto.
  - intros p Hp Hbit hops. pose proof (row_respects c b r p Hd Hf Hp Hbit) as A.
    apply filter_apply_spec in A as (A1 & A2 & A3). fold hops in A1, A2, A3.
    split; [exact A1|]. split; [exact A3|]. intros Hv.
    pose proof (filter_loops_spec hops (allow_isd (snd p)) Hv) as S. split.
    + assert (Hdec : forall a b : ia, {a = b} + {a <> b}) by (decide equality; apply N.eq_dec).
      destruct (ListDec.NoDup_dec Hdec hops) as [Hn|Hn]; [exact Hn|].
      assert (X : filter_loops hops (allow_isd (snd p)) = true) by (apply S; now left). congruence.
    + intros Hal Hl. assert (X : filter_loops hops (allow_isd (snd p)) = true) by (apply S; right; now split).
      congruence.
Qed.
Print Assumptions C25_stored_respects_policy.

(** ... and every received beacon that satisfies the conditions is in the store
    (possibly superseded by a row of the same segment ID with a newer timestamp). *)
Theorem C25_acceptable_is_stored : forall c hist b, bits_disjoint (pols c) = true ->
  In b hist -> acceptable c b = true ->
  exists r, In r (run c hist) /\ r_key r = b_hops b /\ (b_ts b <= r_ts r)%Z.
Proof.
  intros c hist b Hd Hb Ha. destruct (store_inv_run c hist) as [_ I2]. apply I2; auto.
  intros E. apply usage_zero_iff in E; [|now apply bits_disjoint_nonzero].
  rewrite (acceptable_prefilter c b Ha) in E. discriminate.
Qed.
Print Assumptions C25_acceptable_is_stored.

(** The part of the oracle that the code satisfies (everything except "no loop
    through the local AS on the wire") holds on the model for every input. *)
Theorem C25_oracle_holds_on_model : forall c hist pifs allow egress,
  oracle c hist pifs allow (oks c [] hist) (dump_of (run c hist))
         (propagate pifs allow (run c hist) egress) = true.
Proof. exact oracle_model. Qed.
Print Assumptions C25_oracle_holds_on_model.

(** Audit follow-up.  On the wire a propagated beacon carries [hops ++ [local] ++ [neighbour]]
    ([on_wire]): Extend appends the local AS entry.  The code checks [hops ++ [neighbour]] only
    (Propagator.shouldIgnore / beacon.FilterLoop), and neither the handler nor the policy filter
    looks for the local AS in a received beacon.  The full oracle [oracle_full] (= [oracle] and no
    AS loop, nor ISD loop when disallowed, in [on_wire]) is therefore violated by the faithful model:
    open finding, tag loop-through-local-as. *)
Definition c25_witness_cfg : cfg :=
  {| local := (1, 110); ifs := [(1, (2, (1, 111))); (2, (3, (1, 112)))];
     pols := [(8, mkf 0 [] [] (Some false)); (1, mkf 0 [] [] None); (2, mkf 0 [] [] None)] |}.
Definition c25_witness_beacon : beacon :=
  {| b_hops := [((1, 100), 0, 1); ((1, 110), 1, 2); ((1, 111), 2, 1)]; b_next := (1, 110); b_ts := 100%Z;
     b_in := 1; b_sigs := [true; true; true]; b_kid := 0 |}.

Theorem C25_no_wire_loop_refuted : exists c hist pifs allow egress,
  in_scope c hist = true /\
  oracle_full c hist pifs allow (oks c [] hist) (dump_of (run c hist))
              (propagate pifs allow (run c hist) egress) = false /\
  (* declaratively: a stored beacon is handed out for interface 2 (neighbour 1-112) and on the wire
     1-100, 1-110, 1-111, 1-110, 1-112 repeats the local AS *)
  exists r nb, lookup pifs 2 = Some (3, nb) /\ In r (for_interface pifs allow (run c hist) nb) /\
               valid_ias (on_wire c (key_ias (r_key r)) nb) /\ as_loop (on_wire c (key_ias (r_key r)) nb).
Proof.
  exists c25_witness_cfg, [c25_witness_beacon], (ifs c25_witness_cfg), false, [2].
  split; [vm_compute; reflexivity|]. split; [vm_compute; reflexivity|].
  exists (mk_rec c25_witness_beacon 11), (1, 112). split; [reflexivity|]. split; [vm_compute; now left|].
  assert (Hv : valid_ias (on_wire c25_witness_cfg (key_ias (r_key (mk_rec c25_witness_beacon 11))) (1, 112))).
  { vm_compute. repeat constructor; discriminate. }
  split; [exact Hv|]. intros Hnd. apply (filter_as_loop_spec _ Hv) in Hnd. vm_compute in Hnd. discriminate.
Qed.
Print Assumptions C25_no_wire_loop_refuted.

(** Outside the defect class ([known], computed from the input: some received beacon loops through
    the local AS on some egress interface although the code's check passes) the full oracle holds
    on the model for every input. *)
Theorem C25_no_wire_loop_except_known : forall c hist pifs allow egress,
  known c hist pifs allow egress = false ->
  oracle_full c hist pifs allow (oks c [] hist) (dump_of (run c hist))
              (propagate pifs allow (run c hist) egress) = true.
Proof. exact oracle_full_except_known. Qed.
Print Assumptions C25_no_wire_loop_except_known.

(** The wire-level correspondence case ([CWire]) evaluates exactly the wire part of [oracle_full]. *)
Theorem C25_wire_case_is_oracle : forall c hist pifs allow p,
  wire_ok_t (local c) (kid_table hist) pifs allow p = wire_ok c hist pifs allow p.
Proof. exact wire_ok_t_table. Qed.
Print Assumptions C25_wire_case_is_oracle.

(** The same, declaratively and over arbitrary reception histories: a beacon handed out for an
    interface does not loop on the wire provided it does not already contain the local AS (and the
    neighbour is not the local AS itself); no ISD loop either when those are disallowed, provided
    the local AS lies in the ISD of the beacon's last AS or in the neighbour's ISD. *)
Theorem C25_no_wire_loop_propagated_except_known : forall c hist pifs allow nb r,
  In r (for_interface pifs allow (run c hist) nb) ->
  let hops := key_ias (r_key r) in
  valid_ias (on_wire c hops nb) ->
  ~ In (local c) hops -> local c <> nb ->
  (allow = false ->
     (exists p h, hops = p ++ [h] /\ isd (local c) = isd h) \/ (ia_zero nb = false /\ isd (local c) = isd nb)) ->
  NoDup (on_wire c hops nb) /\ (allow = false -> ~ isd_loop (on_wire c hops nb)).
Proof.
  intros c hist pifs allow nb r H hops Hv Hl Hn Hi. apply for_interface_in in H as (_ & _ & _ & Hign).
  now apply no_wire_loop_except_known.
Qed.
Print Assumptions C25_no_wire_loop_propagated_except_known.

(** Non-vacuity: AS 1-110 (non-core store: Prop 8, UpReg 1, DownReg 2; DownReg
    blocks AS 210, UpReg allows at most 2 hops) receives four beacons; two are
    stored, with usages 11 and 8; the one through 2-210 and 1-112 is handed out for neither of these neighbours. *)
Example C25_example :
  let f0 := mkf 0 [] [] None in
  let c := {| local := (1, 110);
              ifs := [(1, (2, (1, 111))); (2, (3, (1, 112))); (3, (4, (2, 210)))];
              pols := [(8, f0); (1, mkf 2 [] [] None); (2, mkf 0 [210] [] (Some false))] |} in
  let mk hops inif sigs kid := {| b_hops := hops; b_next := (1, 110); b_ts := 100%Z; b_in := inif;
                                  b_sigs := sigs; b_kid := kid |} in
  let hist := [ mk [((1, 100), 0, 1); ((1, 111), 2, 1)] 1 [true; true] 0;
                mk [((2, 210), 0, 1); ((1, 112), 1, 2); ((1, 111), 2, 1)] 1 [true; true; true] 1;
                mk [((1, 100), 0, 1); ((1, 112), 2, 1)] 2 [true; true] 2;        (* child link *)
                mk [((1, 100), 0, 3); ((1, 111), 2, 1)] 1 [true; false] 3 ] in   (* bad signature *)
  bits_disjoint (pols c) = true /\
  dump_of (run c hist) = [(0, 100%Z, 1, 11); (1, 100%Z, 1, 8)] /\
  propagate (ifs c) true (run c hist) [2; 3] = [(2, Some [0]); (3, Some [0])].
Proof. vm_compute. repeat split. Qed.

(** Non-vacuity (audit follow-up): propagation refused solely because of an ISD loop.  The beacon
    2-210, 1-111 has no AS loop with either neighbour; towards 2-211 it would leave ISD 2 and enter
    it again.  With ISD loops disallowed it is withheld from interface 2 only; with ISD loops allowed
    it goes out on both interfaces. *)
Example C25_example_isd_loop :
  let c := {| local := (1, 110);
              ifs := [(1, (1, (1, 111))); (2, (1, (2, 211))); (3, (1, (1, 112)))];
              pols := [(8, mkf 0 [] [] None); (4, mkf 0 [] [] None)] |} in
  let b := {| b_hops := [((2, 210), 0, 1); ((1, 111), 2, 1)]; b_next := (1, 110); b_ts := 100%Z; b_in := 1;
              b_sigs := [true; true]; b_kid := 0 |} in
  dump_of (run c [b]) = [(0, 100%Z, 1, 12)] /\
  propagate (ifs c) false (run c [b]) [2; 3] = [(2, Some []); (3, Some [0])] /\
  propagate (ifs c) true (run c [b]) [2; 3] = [(2, Some [0]); (3, Some [0])] /\
  filter_as_loop [(2, 210); (1, 111); (2, 211)] = (0, 0) /\
  filter_isd_loop [(2, 210); (1, 111); (2, 211)] = 2.
Proof. vm_compute. repeat split. Qed.
