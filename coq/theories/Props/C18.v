(** C18 — SCION headers round-trip through decoding and serialization.

    For every layer: [_dec_enc] serializing a well-formed value and decoding the bytes yields the
    same field values; [_enc_dec] re-serializing what the decoder accepted reproduces the input on
    all bits outside the layer's explicit reserved mask; [_reject_total] the decoder never panics
    and rejects inputs whose declared lengths exceed the data.  All bytes are [< 256] ([wf_bytes]).

    Two deviations of scion from the property are carried by the faithful model and stated as
    [_refuted] theorems (known findings [hdrlen-slack], [udp-length-exceeds-data]); the
    [_except_known] theorem is the full oracle outside exactly these two input classes. *)
From Coq Require Import List Arith NArith Bool.
From Scion Require Import Lib.Bytes Lib.BytesX Lib.Check.
From Scion Require Import Model.HdrPath Model.HdrScion Model.HdrL4 Model.HdrExt Model.Hdr.
From Scion Require Import Proofs.HdrPath Proofs.HdrScion Proofs.HdrL4 Proofs.HdrExt Proofs.Hdr.
Import ListNotations.
Import Scion.Model.HdrPath.HdrPath Scion.Model.HdrScion.HdrScion Scion.Model.HdrL4.HdrL4
       Scion.Model.HdrExt.HdrExt Scion.Model.Hdr.Hdr.
Local Open Scope N_scope.

(** ---------------------------------------------------------------- 1. hop field, info field *)
Theorem C18_hop_dec_enc : forall h rest, wf_hop h -> hop_decode (hop_encode h ++ rest) = Ok (h, rest).
Proof. exact hop_dec_enc. Qed.
Print Assumptions C18_hop_dec_enc.

(** reserved: the six high bits of byte 0 ([mask_hop]) *)
Theorem C18_hop_enc_dec : forall bs h rest, wf_bytes bs -> hop_decode bs = Ok (h, rest) ->
  hop_encode h ++ rest = mask_hop bs /\ wf_hop h.
Proof. intros bs h rest W D. destruct (hop_enc_dec bs h rest W D) as (M & Wh & _). auto. Qed.
Print Assumptions C18_hop_enc_dec.

Theorem C18_hop_reject_total : forall bs,
  hop_decode bs <> Panic /\ (hop_decode bs = Err <-> (length bs < hop_len)%nat).
Proof. intros bs. split; [apply hop_no_panic | apply hop_err_iff]. Qed.
Print Assumptions C18_hop_reject_total.

Theorem C18_info_dec_enc : forall i rest, wf_info i -> info_decode (info_encode i ++ rest) = Ok (i, rest).
Proof. exact info_dec_enc. Qed.
Print Assumptions C18_info_dec_enc.

(** reserved: the six high bits of byte 0 and byte 1 ([mask_info]) *)
Theorem C18_info_enc_dec : forall bs i rest, wf_bytes bs -> info_decode bs = Ok (i, rest) ->
  info_encode i ++ rest = mask_info bs /\ wf_info i.
Proof. intros bs i rest W D. destruct (info_enc_dec bs i rest W D) as (M & Wi & _). auto. Qed.
Print Assumptions C18_info_enc_dec.

Theorem C18_info_reject_total : forall bs,
  info_decode bs <> Panic /\ (info_decode bs = Err <-> (length bs < info_len)%nat).
Proof. intros bs. split; [apply info_no_panic | apply info_err_iff]. Qed.
Print Assumptions C18_info_reject_total.

(** ---------------------------------------------------------------- 2. path meta header and paths *)
Theorem C18_meta_dec_enc : forall m rest, wf_meta m -> meta_decode (meta_encode m ++ rest) = Ok (m, rest).
Proof. exact meta_dec_enc. Qed.
Print Assumptions C18_meta_dec_enc.

(** reserved: the six high bits of byte 1 ([mask_meta]) *)
Theorem C18_meta_enc_dec : forall bs m rest, wf_bytes bs -> meta_decode bs = Ok (m, rest) ->
  meta_encode m ++ rest = mask_meta bs /\ wf_meta m.
Proof. intros bs m rest W D. destruct (meta_enc_dec bs m rest W D) as (M & Wm & _). auto. Qed.
Print Assumptions C18_meta_enc_dec.

Theorem C18_meta_reject_total : forall bs,
  meta_decode bs <> Panic /\ (meta_decode bs = Err <-> (length bs < meta_len)%nat).
Proof. intros bs. split; [apply meta_no_panic | apply meta_err_iff]. Qed.
Print Assumptions C18_meta_reject_total.

(** scion.Raw: SerializeTo rewrites the first four bytes of Raw from PathMeta ([raw_canon]) *)
Theorem C18_scionpath_dec_enc : forall p rest, wf_raw p ->
  exists e, raw_encode p = Ok e /\ raw_decode (e ++ rest) = Ok (raw_canon p, rest).
Proof. intros p rest W. destruct (raw_dec_enc_canon p rest W) as (e & E & D & _). eauto. Qed.
Print Assumptions C18_scionpath_dec_enc.

Theorem C18_scionpath_enc_dec : forall bs p rest, wf_bytes bs -> raw_decode bs = Ok (p, rest) ->
  exists e, raw_encode p = Ok e /\ e ++ rest = mask_meta bs /\ wf_raw p.
Proof. intros bs p rest W D. destruct (raw_enc_dec bs p rest W D) as (e & E & M & Wp & _). eauto. Qed.
Print Assumptions C18_scionpath_enc_dec.

(** NumINF / NumHops announcing more than the data holds is rejected *)
Theorem C18_scionpath_reject_total : forall bs,
  raw_decode bs <> Panic /\ dec_decode bs <> Panic /\
  (forall b r, base_decode bs = Ok (b, r) -> (length bs < base_len b)%nat ->
     raw_decode bs = Err /\ dec_decode bs = Err).
Proof.
  intros bs. split; [apply raw_no_panic|]. split; [apply dec_no_panic|].
  intros b r E L. split; [eapply raw_reject_short | eapply dec_reject_short]; eauto.
Qed.
Print Assumptions C18_scionpath_reject_total.

Theorem C18_decodedpath_dec_enc : forall d rest, wf_dec d ->
  exists e, dec_encode d = Ok e /\ dec_decode (e ++ rest) = Ok (d, rest).
Proof. exact dec_dec_enc. Qed.
Print Assumptions C18_decodedpath_dec_enc.

(** reserved: meta RSV and the reserved bits of every info and hop field ([mask_dec]) *)
Theorem C18_decodedpath_enc_dec : forall bs d rest, wf_bytes bs -> dec_decode bs = Ok (d, rest) ->
  exists e, dec_encode d = Ok e /\ e ++ rest = mask_dec bs /\ wf_dec d.
Proof. intros bs d rest W D. destruct (dec_enc_dec bs d rest W D) as (e & E & M & Wd & _). eauto. Qed.
Print Assumptions C18_decodedpath_enc_dec.

(** the raw and the fully decoded form accept exactly the same byte strings *)
Theorem C18_raw_decoded_accept_same : forall bs, wf_bytes bs ->
  is_ok (raw_decode bs) = is_ok (dec_decode bs).
Proof. exact raw_dec_accept_same. Qed.
Print Assumptions C18_raw_decoded_accept_same.

Theorem C18_onehop_dec_enc : forall o rest, wf_onehop o ->
  onehop_decode (onehop_encode o ++ rest) = Ok (o, rest).
Proof. exact onehop_dec_enc. Qed.
Print Assumptions C18_onehop_dec_enc.

Theorem C18_onehop_enc_dec : forall bs o rest, wf_bytes bs -> onehop_decode bs = Ok (o, rest) ->
  onehop_encode o ++ rest = mask_onehop bs /\ wf_onehop o.
Proof. intros bs o rest W D. destruct (onehop_enc_dec bs o rest W D) as (M & Wo & _). auto. Qed.
Print Assumptions C18_onehop_enc_dec.

Theorem C18_onehop_reject_total : forall bs,
  onehop_decode bs <> Panic /\ (onehop_decode bs = Err <-> (length bs < onehop_len)%nat).
Proof. intros bs. split; [apply onehop_no_panic | apply onehop_err_iff]. Qed.
Print Assumptions C18_onehop_reject_total.

(** all four registered path types behind path.NewPath: empty, SCION, one-hop, EPIC *)
Theorem C18_path_dec_enc : forall p, wf_path p -> (forall d, p <> PDecoded d) -> is_opaque p = false ->
  exists e, path_encode p = Ok e /\ length e = path_len p /\
            path_decode (path_type p) e = Ok (path_canon p, []).
Proof. intros p W ND NO. destruct (path_dec_enc p W ND NO) as (e & E & L & D & _). eauto. Qed.
Print Assumptions C18_path_dec_enc.

Theorem C18_path_enc_dec : forall pt bs p rest, wf_bytes bs -> path_decode pt bs = Ok (p, rest) ->
  exists e, path_encode p = Ok e /\ e ++ rest = mask_path pt bs /\ wf_path p /\ path_type p = pt.
Proof.
  intros pt bs p rest W D. destruct (path_enc_dec pt bs p rest W D) as (e & E & M & Wp & _ & T & _). eauto.
Qed.
Print Assumptions C18_path_enc_dec.

Theorem C18_path_reject_total : forall pt bs,
  path_decode pt bs <> Panic /\ (3 < pt -> path_decode pt bs = Err) /\
  (forall p rest, wf_bytes bs -> path_decode pt bs = Ok (p, rest) -> (path_len p <= length bs)%nat).
Proof.
  intros pt bs. split; [apply path_no_panic|]. split; [apply path_type_unknown|].
  intros p rest W D. eapply path_reject_short; eauto.
Qed.
Print Assumptions C18_path_reject_total.

(** ---------------------------------------------------------------- 3. SCION common + address header + path *)
Theorem C18_scion_dec_enc : forall h, wf_scion h -> is_opaque (s_path h) = false ->
  exists e, scion_encode false 0 h = Ok e /\
    forall payload, scion_decode (e ++ payload) = Ok (scion_canon false 0 h, payload).
Proof. intros h W NO. destruct (scion_dec_enc h W NO) as (e & E & _ & D). eauto. Qed.
Print Assumptions C18_scion_dec_enc.

(** with FixLengths the serializer fills in HdrLen and PayloadLen itself *)
Theorem C18_scion_dec_enc_fixlengths : forall h n, wf_scion_nolen h -> is_opaque (s_path h) = false ->
  (scn_len h <= max_hdr_len)%nat -> Nat.modulo (scn_len h) line_len = 0%nat ->
  exists e, scion_encode true n h = Ok e /\
    forall payload, scion_decode (e ++ payload) = Ok (scion_canon true n h, payload).
Proof. intros h n W NO M4 Mx. destruct (scion_dec_enc_fix h n W NO M4 Mx) as (e & E & _ & D). eauto. Qed.
Print Assumptions C18_scion_dec_enc_fixlengths.

(** reserved: bytes 10-11 of the common header and the path's reserved bits ([mask_scion]);
    holds whenever HdrLen is exactly what address header and path occupy *)
Theorem C18_scion_enc_dec_except_known : forall bs h payload,
  wf_bytes bs -> scion_decode bs = Ok (h, payload) -> scion_slack h = 0%nat ->
  exists e, scion_encode false 0 h = Ok e /\ e ++ payload = mask_scion bs.
Proof.
  intros bs h payload W D S. destruct (scion_enc_dec bs h payload W D) as (_ & _ & _ & _ & _ & _ & R).
  exact (R S).
Qed.
Print Assumptions C18_scion_enc_dec_except_known.

(** known finding hdrlen-slack: a header whose HdrLen announces one more line than the one-hop
    path needs is accepted, and its re-serialization is four bytes short *)
Definition slack_packet : bytes :=
  [0;0;0;1; 17; 18; 0;0; 2; 0; 0;0] ++ repeat 0 24 ++ repeat 0 32 ++ [9;9;9;9].

Theorem C18_scion_enc_dec_refuted : exists bs h payload,
  wf_bytes bs /\ scion_decode bs = Ok (h, payload) /\ scion_slack h <> 0%nat /\
  forall e, scion_encode false 0 h = Ok e -> e ++ payload <> mask_scion bs.
Proof.
  exists slack_packet.
  destruct (scion_decode slack_packet) as [[h payload]| |] eqn:D; try (vm_compute in D; discriminate).
  exists h, payload. split; [apply wf_bytesb_spec; vm_compute; reflexivity|]. split; [reflexivity|].
  vm_compute in D. injection D as <- <-. split; [vm_compute; discriminate|].
  intros e E. vm_compute in E. injection E as <-. vm_compute. discriminate.
Qed.
Print Assumptions C18_scion_enc_dec_refuted.

(** decoded values are well-formed and every declared length fits the data *)
Theorem C18_scion_reject_total : forall bs,
  scion_decode bs <> Panic /\
  (wf_bytes bs -> scion_overlong bs = true -> scion_decode bs = Err) /\
  (forall h payload, wf_bytes bs -> scion_decode bs = Ok (h, payload) ->
     wf_scion_nolen h /\ (scn_len h <= N.to_nat (s_hdrlen h) * line_len)%nat /\
     length bs = (N.to_nat (s_hdrlen h) * line_len + length payload)%nat).
Proof.
  intros bs. split; [apply scion_no_panic|]. split; [apply scion_reject_overlong|].
  intros h payload W D. destruct (scion_enc_dec bs h payload W D) as (Wh & _ & _ & _ & L1 & L2 & _). auto.
Qed.
Print Assumptions C18_scion_reject_total.

(** a header carrying a fully decoded path ([scion.Decoded]) — with or without FixLengths — is decoded
    as the same header with the path in raw form ([scion_undecoded]), and that raw path decodes
    (Raw.ToDecoded) to exactly the original info and hop fields *)
Theorem C18_scion_dec_enc_decoded : forall (fx : bool) n h d, s_path h = PDecoded d -> wf_dec d ->
  (if fx then wf_scion_nolen (scion_undecoded h) /\ (scn_len (scion_undecoded h) <= max_hdr_len)%nat /\
              Nat.modulo (scn_len (scion_undecoded h)) line_len = 0%nat
   else wf_scion (scion_undecoded h)) ->
  exists e r, scion_encode fx n h = Ok e /\
    s_path (scion_canon fx n (scion_undecoded h)) = PScion r /\ dec_decode (rp_raw r) = Ok (d, []) /\
    forall payload, scion_decode (e ++ payload) = Ok (scion_canon fx n (scion_undecoded h), payload).
Proof. exact scion_dec_enc_decoded. Qed.
Print Assumptions C18_scion_dec_enc_decoded.

(** a layer on which RecyclePaths() was called (router, dispatcher): unknown path types are kept as
    opaque bytes ([POpaque]) instead of being rejected; on the registered path types it decodes
    exactly like a fresh layer, it never panics, and the round trip holds for it as well *)
Theorem C18_scion_recycled_same : forall bs, wf_bytes bs -> nth 8 bs 0 <= 3 ->
  scion_decode_r bs = scion_decode bs.
Proof. intros bs W H. now apply scion_r_same. Qed.
Print Assumptions C18_scion_recycled_same.

Theorem C18_scion_recycled_enc_dec_except_known : forall bs h payload,
  wf_bytes bs -> scion_decode_r bs = Ok (h, payload) -> scion_slack h = 0%nat ->
  exists e, scion_encode false 0 h = Ok e /\ e ++ payload = mask_scion bs.
Proof.
  intros bs h payload W D S. destruct (scion_r_enc_dec bs h payload W D) as (_ & _ & _ & _ & _ & _ & R).
  exact (R S).
Qed.
Print Assumptions C18_scion_recycled_enc_dec_except_known.

Theorem C18_scion_recycled_reject_total : forall bs,
  scion_decode_r bs <> Panic /\
  (wf_bytes bs -> scion_overlong bs = true -> scion_decode_r bs = Err) /\
  (forall h payload, wf_bytes bs -> scion_decode_r bs = Ok (h, payload) ->
     wf_scion_nolen h /\ s_pathtype h < 256 /\
     length bs = (N.to_nat (s_hdrlen h) * line_len + length payload)%nat).
Proof.
  intros bs. split; [apply scion_r_no_panic|]. split; [apply scion_r_reject_overlong|].
  intros h payload W D. destruct (scion_r_enc_dec bs h payload W D) as (Wh & _ & _ & _ & _ & L & _).
  split; [exact Wh|]. split; [eapply scion_r_pathtype_lt; eauto | exact L].
Qed.
Print Assumptions C18_scion_recycled_reject_total.

(** host addresses: the three supported types round-trip through PackAddr / ParseAddr, every
    other type nibble is rejected by ParseAddr *)
Theorem C18_addr_dec_enc : forall a, wf_host a ->
  parse_addr (fst (pack_addr a)) (snd (pack_addr a)) = Ok a.
Proof. exact parse_pack. Qed.
Print Assumptions C18_addr_dec_enc.

(** reserved: the last two bytes of a service address ([mask_addr]); an IPv4-mapped 16-byte
    address is unmapped by PackAddr (documented there) and therefore excluded *)
Theorem C18_addr_enc_dec : forall t raw a, wf_bytes raw -> length raw = addr_len t ->
  parse_addr t raw = Ok a -> (forall b, a = HostIP6 b -> is_v4mapped b = false) ->
  pack_addr a = (t, mask_addr t raw) /\ wf_host a.
Proof. intros t raw a W L P NM. eapply pack_parse; eauto. eapply parse_addr_type; eauto. Qed.
Print Assumptions C18_addr_enc_dec.

Theorem C18_addr_reject_total : forall t raw, length raw = addr_len t ->
  parse_addr t raw <> Panic /\ (t <> T4Ip -> t <> T4Svc -> t <> T16Ip -> parse_addr t raw = Err).
Proof.
  intros t raw L. split; [now apply parse_addr_no_panic|]. intros A B C. unfold parse_addr.
  destruct (t =? T4Ip) eqn:E0; [apply N.eqb_eq in E0; contradiction|].
  destruct (t =? T4Svc) eqn:E1; [apply N.eqb_eq in E1; contradiction|].
  destruct (t =? T16Ip) eqn:E2; [apply N.eqb_eq in E2; contradiction|]. reflexivity.
Qed.
Print Assumptions C18_addr_reject_total.

(** ---------------------------------------------------------------- 4. UDP, SCMP *)
Theorem C18_udp_dec_enc : forall v payload, wf_vals udp_fmt v ->
  (nth 2 v 0 = 0 \/ nth 2 v 0 = N.of_nat (8 + length payload)) ->
  udp_decode (udp_encode false 0 v ++ payload) = Ok (v, payload, false).
Proof. exact udp_dec_enc. Qed.
Print Assumptions C18_udp_dec_enc.

Theorem C18_udp_dec_enc_fixlengths : forall v payload, wf_vals udp_fmt v ->
  let total := N.of_nat (8 + length payload) in
  udp_decode (udp_encode true total v ++ payload) = Ok (udp_fix total v, payload, false).
Proof. intros v payload W. apply udp_dec_enc_fix. exact W. Qed.
Print Assumptions C18_udp_dec_enc_fixlengths.

(** header and payload are exactly the part of the data that Length covers ([udp_covered]) *)
Theorem C18_udp_enc_dec : forall bs v payload tr, wf_bytes bs -> udp_decode bs = Ok (v, payload, tr) ->
  udp_encode false 0 v ++ payload = udp_covered bs /\ wf_vals udp_fmt v /\
  (tr = true <-> udp_overlong bs = true).
Proof. intros bs v p tr W D. destruct (udp_enc_dec bs v p tr W D) as (M & Wv & _ & T). auto. Qed.
Print Assumptions C18_udp_enc_dec.

(** known finding udp-length-exceeds-data: such a header is accepted (only flagged truncated) *)
Theorem C18_udp_reject_refuted : exists bs,
  wf_bytes bs /\ udp_overlong bs = true /\ is_ok (udp_decode bs) = true.
Proof.
  destruct udp_overlong_accepted as (bs & O & A). exists [0;1;0;2;0;100;0;0;7].
  split; [apply wf_bytesb_spec; reflexivity|]. split; vm_compute; reflexivity.
Qed.
Print Assumptions C18_udp_reject_refuted.

Theorem C18_udp_reject_total : forall bs,
  udp_decode bs <> Panic /\ ((length bs < 8)%nat -> udp_decode bs = Err).
Proof.
  intros bs. split; [apply udp_no_panic|]. intros L. unfold udp_decode.
  replace (fmt_decode udp_fmt bs) with (@Err (list N * bytes)); [reflexivity|].
  symmetry. apply fmt_decode_err_iff. exact L.
Qed.
Print Assumptions C18_udp_reject_total.

(** SCMP base header followed by the message layer its type selects — all of
    DestinationUnreachable, PacketTooBig, ParameterProblem, ExternalInterfaceDown,
    InternalConnectivityDown, EchoRequest/Reply, TracerouteRequest/Reply, and unknown types *)
Theorem C18_scmp_dec_enc : forall b m rest, wf_scmp b m ->
  scmp_decode (scmp_encode b m ++ rest) = Ok (b, m, rest).
Proof. exact scmp_dec_enc. Qed.
Print Assumptions C18_scmp_dec_enc.

(** reserved: the unused / reserved bytes of the message ([scmp_mask]) *)
Theorem C18_scmp_enc_dec : forall bs b m rest, wf_bytes bs -> scmp_decode bs = Ok (b, m, rest) ->
  scmp_encode b m ++ rest = scmp_mask bs /\ wf_scmp b m.
Proof. intros bs b m rest W D. destruct (scmp_enc_dec bs b m rest W D) as (M & Ws & _). auto. Qed.
Print Assumptions C18_scmp_enc_dec.

Theorem C18_scmp_reject_total : forall bs,
  scmp_decode bs <> Panic /\
  (forall b r f, fmt_decode scmp_base_fmt bs = Ok (b, r) -> scmp_msg_fmt (hd 0 b) = Some f ->
     (length r < fmt_len f)%nat -> scmp_decode bs = Err).
Proof. intros bs. split; [apply scmp_no_panic | apply scmp_reject_short]. Qed.
Print Assumptions C18_scmp_reject_total.

(** every single message struct (and any other fixed layout of words and reserved bytes) *)
Theorem C18_scmpmsg_dec_enc : forall f v rest, wf_vals f v ->
  fmt_decode f (fmt_encode f v ++ rest) = Ok (v, rest).
Proof. exact fmt_dec_enc. Qed.
Print Assumptions C18_scmpmsg_dec_enc.

Theorem C18_scmpmsg_enc_dec : forall f bs v rest, wf_bytes bs -> fmt_decode f bs = Ok (v, rest) ->
  fmt_encode f v ++ rest = fmt_mask f bs /\ wf_vals f v.
Proof. intros f bs v rest W D. destruct (fmt_enc_dec f bs v rest W D) as (M & Wv & _). auto. Qed.
Print Assumptions C18_scmpmsg_enc_dec.

Theorem C18_scmpmsg_reject_total : forall f bs,
  fmt_decode f bs <> Panic /\ (fmt_decode f bs = Err <-> (length bs < fmt_len f)%nat).
Proof. intros f bs. split; [apply fmt_decode_no_panic | apply fmt_decode_err_iff]. Qed.
Print Assumptions C18_scmpmsg_reject_total.

(** ---------------------------------------------------------------- 5. HBH / E2E extensions, SPAO *)
Theorem C18_ext_dec_enc : forall k e payload, wf_ext k e ->
  exists en, ext_encode k false e = Ok en /\
    ext_decode k (en ++ payload) = Ok (ext_canon false e, payload).
Proof. exact ext_dec_enc. Qed.
Print Assumptions C18_ext_dec_enc.

(** FixLengths: option lengths and ExtLen are computed, alignment and trailing padding are
    inserted; the decoder returns exactly that option list ([ext_canon true]) and the caller's
    non-padding options all reappear in order *)
Theorem C18_ext_dec_enc_fixlengths : forall k e payload, wf_ext_fix k e ->
  exists en, ext_encode k true e = Ok en /\
    ext_decode k (en ++ payload) = Ok (ext_canon true e, payload) /\
    filter (fun o => negb (is_pad o)) (e_opts (ext_canon true e)) =
    map fix_opt (filter (fun o => negb (is_pad o)) (e_opts e)).
Proof. exact ext_dec_enc_fix. Qed.
Print Assumptions C18_ext_dec_enc_fixlengths.

(** no reserved bits: the extension header is reproduced exactly *)
Theorem C18_ext_enc_dec : forall k bs e payload, wf_bytes bs -> ext_decode k bs = Ok (e, payload) ->
  exists en, ext_encode k false e = Ok en /\ en ++ payload = bs /\ wf_ext k e.
Proof.
  intros k bs e payload W D. destruct (ext_enc_dec k bs e payload W D) as (E & M & We & _). eauto.
Qed.
Print Assumptions C18_ext_enc_dec.

Theorem C18_ext_reject_total : forall k bs,
  ext_decode k bs <> Panic /\ ext_skip_decode k bs <> Panic /\
  (wf_bytes bs -> ext_overlong bs = true -> ext_decode k bs = Err).
Proof.
  intros k bs. split; [apply ext_no_panic|]. split; [apply ext_skip_no_panic | apply ext_reject_overlong].
Qed.
Print Assumptions C18_ext_reject_total.

Theorem C18_spao_dec_enc : forall p, wf_spao p ->
  exists o, spao_to_opt p = Ok o /\ spao_of_opt o = Ok p.
Proof. intros p W. destruct (spao_dec_enc p W) as (o & E & D & _). eauto. Qed.
Print Assumptions C18_spao_dec_enc.

(** reserved: byte 5 of the option data ([mask_spao]) *)
Theorem C18_spao_enc_dec : forall o p, wf_bytes (o_data o) -> spao_of_opt o = Ok p ->
  exists o', spao_to_opt p = Ok o' /\ o_data o' = mask_spao (o_data o) /\ o_type o' = o_type o.
Proof. intros o p W D. destruct (spao_enc_dec o p W D) as (o' & E & M & _ & T). eauto. Qed.
Print Assumptions C18_spao_enc_dec.

Theorem C18_spao_reject_total : forall o,
  spao_of_opt o <> Panic /\ ((length (o_data o) < spao_meta_len)%nat -> spao_of_opt o = Err).
Proof.
  intros o. split; [apply spao_no_panic|]. intros L. unfold spao_of_opt.
  destruct (negb (o_type o =? opt_type_auth)); [reflexivity|].
  apply Nat.ltb_lt in L. now rewrite L.
Qed.
Print Assumptions C18_spao_reject_total.

(** ---------------------------------------------------------------- all layers: the oracle of [Hdr.check] *)
(** encoder direction: for every header value of every layer the oracle evaluated on the model's
    own serialization and decoding is true *)
Theorem C18_enc_oracle_holds_on_model : forall fx h payload,
  let m := encode fx (aux_of payload) h in
  enc_oracle fx h payload (res_opt m)
    (match m with Ok e => res_opt (decode (lay_of h) (e ++ payload)) | _ => None end) = true.
Proof. exact enc_oracle_model. Qed.
Print Assumptions C18_enc_oracle_holds_on_model.

(** decoder direction, outside the two known input classes *)
Theorem C18_dec_oracle_except_known : forall l bs, wf_bytes bs -> known l bs = false ->
  let m := decode l bs in
  dec_oracle l bs (res_opt m)
    (match m with Ok (h, _) => res_opt (encode false 0 h) | _ => None end) = true.
Proof. exact dec_oracle_model. Qed.
Print Assumptions C18_dec_oracle_except_known.

(** ... and inside them the faithful model fails the oracle (replayable on the implementation) *)
Theorem C18_dec_oracle_refuted :
  (exists bs, wf_bytes bs /\ known LScion bs = true /\
     let m := decode LScion bs in
     dec_oracle LScion bs (res_opt m)
       (match m with Ok (h, _) => res_opt (encode false 0 h) | _ => None end) = false) /\
  (exists bs, wf_bytes bs /\ known LUdp bs = true /\
     let m := decode LUdp bs in
     dec_oracle LUdp bs (res_opt m)
       (match m with Ok (h, _) => res_opt (encode false 0 h) | _ => None end) = false).
Proof.
  split.
  - exists slack_packet. split; [apply wf_bytesb_spec; vm_compute; reflexivity|].
    split; vm_compute; reflexivity.
  - exists [0;1;0;2;0;100;0;0;7]. split; [apply wf_bytesb_spec; vm_compute; reflexivity|].
    split; vm_compute; reflexivity.
Qed.
Print Assumptions C18_dec_oracle_refuted.

(** no decoder of any layer ever panics; over-long length fields are rejected *)
Theorem C18_reject_total : forall l bs, l <> LAddr ->
  decode l bs <> Panic /\
  (wf_bytes bs -> overlong l bs = true -> known l bs = false -> decode l bs = Err).
Proof.
  intros l bs NA. split; [now apply decode_no_panic | apply decode_reject_overlong].
Qed.
Print Assumptions C18_reject_total.

(** ---------------------------------------------------------------- non-vacuity *)
(** a SCION header with IPv6 destination, service source and a two-segment path (CurrHF 1,
    SegLen 2+1), followed by an end-to-end extension with an aligned authenticator option *)
Definition ex_hop (i : N) : hop := mkHop (i =? 1) false (60 + i) i (i + 1) [1;2;3;4;5;i].
Definition ex_raw : raw_path :=
  let m := mkMeta 0 1 2 1 0 in
  mkRaw (mkBase m 2 3)
        (meta_encode m ++ info_encode (mkInfo false true 7 1700000000) ++
         info_encode (mkInfo true false 9 1700000001) ++
         hop_encode (ex_hop 0) ++ hop_encode (ex_hop 1) ++ hop_encode (ex_hop 2)).
Definition ex_scion : scion :=
  mkScion 0 184 74565 201 26 40 1 3 4 281105609592848 281105609592849
          [32;1;13;184;0;0;0;0;0;0;0;0;0;0;0;1] [0;2;0;0] (PScion ex_raw).
Definition ex_ext : ext :=
  mkExt 17 0 [mkOpt 2 16 [0;1;0;2;0;0;0;0;0;0;0;5;170;187;204;221] 4 2].

(** a header with the unregistered path type 7 and eight path bytes: rejected by a fresh layer, kept
    as an opaque path and reproduced byte for byte by a recycling one *)
Definition opaque_packet : bytes :=
  [0;0;0;1; 17; 11; 0;2; 7; 0; 0;0] ++ repeat 1 24 ++ [1;2;3;4;5;6;7;8] ++ [9;9].

Example C18_example_opaque :
  scion_decode opaque_packet = Err /\
  exists h, scion_decode_r opaque_packet = Ok (h, [9;9]) /\ s_path h = POpaque 7 [1;2;3;4;5;6;7;8] /\
            scion_slack h = 0%nat /\
            exists e, scion_encode false 0 h = Ok e /\ e ++ [9;9] = opaque_packet.
Proof.
  split; [vm_compute; reflexivity|].
  eexists. split; [vm_compute; reflexivity|]. split; [reflexivity|]. split; [vm_compute; reflexivity|].
  eexists. split; vm_compute; reflexivity.
Qed.

Example C18_example :
  wf_scionb ex_scion = true /\ wf_ext_fixb E2E ex_ext = true /\
  (exists e, scion_encode false 0 ex_scion = Ok e /\ length e = 104%nat /\
     scion_decode (e ++ [1;2;3]) = Ok (ex_scion, [1;2;3])) /\
  (exists en, ext_encode E2E true ex_ext = Ok en /\ length en = 20%nat /\
     res_opt (ext_decode E2E (en ++ [7])) =
     Some (mkExt 17 4 [mkOpt 2 16 [0;1;0;2;0;0;0;0;0;0;0;5;170;187;204;221] 0 0], [7])).
Proof.
  split; [vm_compute; reflexivity|]. split; [vm_compute; reflexivity|]. split.
  - eexists. split; [vm_compute; reflexivity|]. split; vm_compute; reflexivity.
  - eexists. split; [vm_compute; reflexivity|]. split; vm_compute; reflexivity.
Qed.
