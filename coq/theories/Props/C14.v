(** C14 — every packet buffer has exactly one owner at a time.
    Property theorems only (model: Model/Pool.v, lemmas: Proofs/Pool.v).

    PARTIAL by nature: the theorems quantify over ALL interleavings, fault
    sequences and numbers of goroutines of the MODEL; the real goroutine
    interleavings are sampled by the runner (trace conformance), not enumerated.
    Go scheduler fairness, channel internals and the memory model are not
    modelled (race detector).

    FIXED FINDING C14/sender-retained-at-shutdown (commit 175cc8f): udpConnection.send
    dropped the packets it had retained after a partial WriteBatch when the
    connection was stopped.  The model follows the fixed code (WExit returns them).

    LATENT (not reachable, not a finding): bfdSend.Send returns without Put when
    serialization fails.  gopacket.SerializeLayers cannot fail there (serializeProxy
    never returns an error; the two length checks of SCION.SerializeTo are constants
    of the sender), so the branch is dead.  The model has the branch behind the
    switch [ser_fail]; with it enabled a buffer is lost
    ([C14_bfd_serialize_error_would_leak]), without it nothing ever is. *)
From Coq Require Import List Arith Bool Lia Permutation.
From Scion Require Import Lib.Check Model.Pool Proofs.Pool.
Import ListNotations.
Import Pool.

(** ** Unique owner.  In every state reachable by any interleaving (schedule) of
    any number of receive loops, processors, slow-path processors, BFD senders,
    send loops and internal-link processors, under any choice of faults, every
    one of the [n] buffers is in exactly one place: in the pool channel, in one
    queue, in the local variables of one goroutine (or, only if serialization in
    bfdSend.Send could fail, lost).  So no buffer is returned twice, none is
    handed out while in use, and no two stages hold the same buffer. *)
Theorem C14_step_preserves_unique_owner : forall ser_fail n st g c st' es,
  inv n st -> gstep ser_fail st g c = Some (st', es) -> inv n st'.
Proof. exact gstep_inv. Qed.
Print Assumptions C14_step_preserves_unique_owner.

Theorem C14_unique_owner : forall ser_fail n nq threads sched st es,
  Forall initial threads ->
  grun ser_fail (init_state n nq threads) sched = Some (st, es) ->
  (forall t, t < n ->
     count_occ Nat.eq_dec
       (leaked st ++ pool st ++ concat (qs st) ++ concat (map held (ths st))) t = 1) /\
  NoDup (pool st ++ concat (qs st) ++ concat (map held (ths st))) /\
  (forall t, In t (pool st ++ concat (qs st) ++ concat (map held (ths st))) -> t < n).
Proof.
  intros sf n nq threads sched st es Hin H.
  pose proof (grun_inv _ _ _ _ _ _ (init_inv n nq threads Hin) H) as Hi.
  split; [|split].
  - intros t Ht. exact (inv_once _ _ _ Hi Ht).
  - pose proof (inv_nodup _ _ Hi) as Hn. unfold all_toks in Hn.
    now apply NoDup_app_tail in Hn.
  - intros t Ht. eapply inv_range; eauto. unfold all_toks, owned. apply in_or_app; auto.
Qed.
Print Assumptions C14_unique_owner.

(** ** No leak.  (bfdSend.Send's serialization cannot fail: [ser_fail = false].)
    In every reachable state nothing is lost, and the buffers in the pool, in the
    queues and held by the (running, blocked or finished) goroutines add up to
    the pool size. *)
Theorem C14_no_leak : forall n nq threads sched st es,
  Forall initial threads ->
  grun false (init_state n nq threads) sched = Some (st, es) ->
  leaked st = [] /\
  Permutation (pool st ++ concat (qs st) ++ concat (map held (ths st))) (seq 0 n) /\
  length (pool st) + length (concat (qs st)) + length (concat (map held (ths st))) = n.
Proof.
  intros n nq threads sched st es Hin H.
  pose proof (grun_inv _ _ _ _ _ _ (init_inv n nq threads Hin) H) as Hi.
  pose proof (grun_leaked _ _ _ _ H) as Hl. cbn in Hl.
  split; auto. split.
  - destruct Hi as [Hp _]. unfold all_toks, owned in Hp. now rewrite Hl in Hp.
  - pose proof (inv_count _ _ Hi) as Hc. rewrite Hl in Hc. cbn in Hc. lia.
Qed.
Print Assumptions C14_no_leak.

(** Every path of a goroutine through its code: the buffers it obtained (from the
    pool or from a queue) together with those it held at the start are, each
    exactly once, either returned with Put, sent on a queue, or still held at the
    end.  Between two points where it holds nothing (the loop heads of the
    processors, of bfdSend.Send and of the internal-link processor; the end of the
    receive and send loops) it has Put or enqueued exactly what it obtained. *)
Theorem C14_no_leak_running : forall th acq rel lost th',
  wf th -> lrun false th acq rel lost th' ->
  lost = [] /\ Permutation (acq ++ held th) (rel ++ held th').
Proof.
  intros th acq rel lost th' Hwf H.
  pose proof (lrun_no_lost _ _ _ _ _ H) as ->.
  destruct (lrun_balance _ _ _ _ _ _ Hwf H) as [_ Hp]. auto.
Qed.
Print Assumptions C14_no_leak_running.

Corollary C14_iteration_returns_everything : forall th acq rel lost th',
  wf th -> empty_handed th -> empty_handed th' -> lrun false th acq rel lost th' ->
  Permutation acq rel.
Proof.
  intros th acq rel lost th' Hwf He He' H.
  destruct (C14_no_leak_running _ _ _ _ _ Hwf H) as [_ Hp].
  rewrite (empty_handed_held _ He), (empty_handed_held _ He'), !app_nil_r in Hp. auto.
Qed.
Print Assumptions C14_iteration_returns_everything.

(** The latent branch of bfdSend.Send, were it reachable, loses a buffer. *)
Theorem C14_bfd_serialize_error_would_leak :
  exists sched st es,
    grun true (init_state 1 1 [BIdle]) sched = Some (st, es) /\
    leaked st = [0] /\ owned st = [].
Proof.
  exists [(0, CTau); (0, CDisp DSerErr)]. eexists. eexists.
  split; [vm_compute; reflexivity|]. split; reflexivity.
Qed.
Print Assumptions C14_bfd_serialize_error_would_leak.

(** ** The trace acceptor is sound.  Along an accepted trace, whatever only the
    owner of a buffer may do (Put, send it on a channel, present it to a socket,
    drop it) is done by the goroutine that the most recent ownership event on
    that buffer (Get or a channel receive) gave it to, and Get only ever returns
    a buffer whose most recent ownership event is a Put (or that was never
    touched): no use by a non-owner, no double Put, no Get of a held buffer. *)
Theorem C14_accepts_sound : forall n tr, accepts n tr = true ->
  (forall a e c t g, tr = a ++ e :: c -> acts t g e = true -> owned_by a t g) /\
  (forall a c t g, tr = a ++ EGet t g :: c -> pooled a t).
Proof.
  intros n tr H. split.
  - intros a e c t g. apply (accepts_owner n tr a e c t g H).
  - intros a c t g. apply (accepts_get n tr a c t g H).
Qed.
Print Assumptions C14_accepts_sound.

Corollary C14_no_double_put : forall n a t g1 b g2 c,
  accepts n (a ++ EPut t g1 :: b ++ EPut t g2 :: c) = true ->
  exists e, In e b /\ acquires t g2 e = true.
Proof. exact no_double_put. Qed.
Print Assumptions C14_no_double_put.

Corollary C14_no_get_of_held_buffer : forall n a t g1 b g2 c,
  accepts n (a ++ EGet t g1 :: b ++ EGet t g2 :: c) = true ->
  exists g', In (EPut t g') b.
Proof. exact no_get_while_held. Qed.
Print Assumptions C14_no_get_of_held_buffer.

(** The completion of unobserved channel hand-offs adds nothing but EEnq/EDeq
    events: the recorded Get/Put/Use events are exactly those of the completed
    trace, so what the acceptor guarantees about the completed trace it
    guarantees about the recorded events. *)
Theorem C14_completion_conservative : forall kinds m raw,
  forallb is_raw raw = true -> filter is_raw (complete kinds m raw) = raw.
Proof. exact complete_raw. Qed.
Print Assumptions C14_completion_conservative.

(** ** The oracle of [Pool.check] holds on the model: every trace of every
    interleaving of the model is accepted, and (no serialization failure) every
    buffer is accounted for in every reachable state ([C14_no_leak]). *)
Theorem C14_model_traces_accepted : forall ser_fail n nq threads sched st es,
  Forall initial threads ->
  grun ser_fail (init_state n nq threads) sched = Some (st, es) ->
  accepts n es = true.
Proof. exact model_accepted. Qed.
Print Assumptions C14_model_traces_accepted.

(** ** Non-vacuity: a concrete interleaving of a receive loop (batch 2), a
    processor, a slow-path processor and a send loop (batch 2) over 6 buffers,
    with a full slow-path queue, a partial WriteBatch (0 of 2 written: one packet
    dropped, one retained and shifted) and a stop of the send loop while it still
    retains a packet.  The run exists, its trace is accepted, nothing is lost. *)
Definition ex_threads : list thread :=
  [RTop 2 [0; 0] 0; PTop 0 1; STop 1; WTop 2 2 [0; 0] 0].

Definition ex_sched : list (tid * choice) :=
  [ (0, CRun true); (0, CTau); (0, CTau); (0, CRead (Some 2));
    (0, CDeliver (Some 0) false); (0, CDeliver (Some 0) false); (0, CTau);
    (1, CRun true); (1, CTau); (1, CDisp (DSend (Some 2) false));
    (1, CRun true); (1, CTau); (1, CDisp (DSend (Some 2) false));
    (0, CRun true); (0, CTau); (0, CTau); (0, CRead (Some 1));
    (0, CDeliver (Some 0) false); (0, CTau);
    (1, CRun true); (1, CTau); (1, CDisp (DSlow true));
    (3, CRun true); (3, CTau); (3, CTau); (3, CTau); (3, CWrite 0);
    (3, CTau);                      (* written = 0 <> toWrite = 2: drop pkts[0], shift *)
    (3, CRun false); (3, CTau); (3, CTau);   (* stop: return the retained packet *)
    (0, CRun false); (0, CTau); (0, CTau) ].

Example C14_nonvacuous :
  match grun false (init_state 6 3 ex_threads) ex_sched with
  | Some (st, es) =>
    accepts 6 es && Nat.eqb (length es) 24 && Nat.eqb (length (pool st)) 6 &&
    forallb (fun th => match th with RDone | WDone | PTop _ _ | STop _ => true | _ => false end)
            (ths st)
  | None => false
  end = true.
Proof. vm_compute. reflexivity. Qed.
