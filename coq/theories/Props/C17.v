(** C17 — configured socket buffer sizes reach the matching socket option.
    Property theorems only; closed by lemmas of Proofs/SockCfg.v. *)
From Coq Require Import List NArith Bool Permutation.
From Scion Require Import Lib.Check Model.SockCfg Proofs.SockCfg.
Import ListNotations.
Import SockCfg.
Local Open Scope N_scope.

(** For every router configuration (all receive/send/batch sizes), every link kind, wherever
    the link's provider was instantiated, the conn.Config handed to the socket opener carries
    the configured receive size as ReceiveBufferSize and the configured send size as
    SendBufferSize. *)
Theorem C17_plumbing : forall c k o reuse cc,
  open_cfg c k o reuse = Some cc ->
  cc_receive cc = rc_receive c /\ cc_send cc = rc_send c.
Proof. exact open_cfg_sizes. Qed.
Print Assumptions C17_plumbing.

(** ... and a socket is opened for every link, except a sibling link that shares the internal
    link's socket (whose options the theorem above covers). *)
Theorem C17_every_link_opens : forall c k o reuse,
  open_cfg c k o reuse = None <-> (k = Sibling /\ reuse = false).
Proof. exact open_cfg_some. Qed.
Print Assumptions C17_every_link_opens.

(** Down to the socket options: the receive size is what is requested as SO_RCVBUF and the
    send size what is requested as SO_SNDBUF (zero = leave the system default). *)
Theorem C17_socket_options : forall c k o reuse cc,
  open_cfg c k o reuse = Some cc ->
  so_rcvbuf (init_conn cc) = requested (rc_receive c) /\
  so_sndbuf (init_conn cc) = requested (rc_send c).
Proof.
  intros c k o reuse cc H. destruct (open_cfg_sizes _ _ _ _ _ H) as [Hr Hs].
  destruct (init_conn_requested cc) as [H1 H2]. now rewrite H1, H2, Hr, Hs.
Qed.
Print Assumptions C17_socket_options.

(** The oracles used by the correspondence check hold on the model, for every input. *)
Theorem C17_oracle_holds_on_model : forall c reuse links m,
  model_links c reuse links = Some m -> forallb (obs_ok c) m = true.
Proof. exact model_links_ok. Qed.
Print Assumptions C17_oracle_holds_on_model.

Theorem C17_socket_oracle_holds_on_model : forall c reuse dr ds links m,
  model_chain c reuse dr ds links = Some m -> forallb (sock_ok c dr ds) m = true.
Proof. exact model_chain_ok. Qed.
Print Assumptions C17_socket_oracle_holds_on_model.

(** Whole configurations.  For every router configuration and every LIST of configured links
    (any kinds, any provider origins, any number, any order): the run is defined, every link
    contributes exactly one observation that depends on that link alone, and this observation
    is the pair (configured receive, configured send) — or "no socket" precisely for a sibling
    link sharing the internal socket.  Reordering the links only reorders the observations.
    (The per-link theorems above are definitional unfoldings of the straight-line model; what
    ties them to the code is the correspondence oracle, see spec/C17.json.) *)
Theorem C17_all_links : forall c reuse links,
  Forall (fun l => kind_of (fst l) <> None) links ->
  exists m, model_links c reuse links = Some m /\
    Forall2 (fun l o =>
      (o = Some (rc_receive c, rc_send c) /\ ~ (kind_of (fst l) = Some Sibling /\ reuse = false)) \/
      (o = None /\ kind_of (fst l) = Some Sibling /\ reuse = false)) links m /\
    forall links', Permutation links links' ->
      exists m', model_links c reuse links' = Some m' /\ Permutation m m'.
Proof.
  intros c reuse links Hk. destruct (model_links_total c reuse links Hk) as [m Hm].
  exists m. split; [assumption|]. split.
  - apply model_links_pointwise in Hm. clear Hk. induction Hm as [|l o t mt H _ IH].
    + constructor.
    + constructor; [now apply (link_obs_value c reuse)|exact IH].
  - intros links' HP. now apply (model_links_perm c reuse links links' m).
Qed.
Print Assumptions C17_all_links.

(** Non-vacuity: distinct sizes, all three link kinds, both provider origins; and the oracle
    rejects the swapped observation. *)
Example C17_example :
  let c := {| rc_receive := 65536; rc_send := 131072; rc_batch := 64 |} in
  model_links c true [(0, 0); (1, 0); (2, 0); (1, 1); (2, 1)]
    = Some (repeat (Some (65536, 131072)) 5) /\
  obs_ok c (Some (131072, 65536)) = false /\
  model_links c false [(0, 0); (1, 0)] = Some [Some (65536, 131072); None].
Proof. vm_compute. repeat split; reflexivity. Qed.
