(** C27 — beacon and path databases behave like their abstract stores.
    Property theorems only, about the abstract stores of Model/Store.v after an
    arbitrary history ([brun ops] / [prun ops] are [fold_left]s over the operation
    list).  The SQL text is not modelled: that the sqlite backends behave like these
    stores is what the correspondence check establishes on every run (partial). *)
From Coq Require Import List NArith Bool Lia Permutation Sorted.
From Scion Require Import Lib.Check Model.Store Proofs.Store.
Import ListNotations.
Import Store.
Local Open Scope N_scope.

(** After any history there is at most one stored version per segment identifier. *)
Theorem C27_unique_key : forall bops pops,
  NoDup (map be_id (bdb (brun bops))) /\ NoDup (map pe_id (segs (pst (prun pops)))).
Proof. intros bops pops. split; [apply brun_wf|apply prun_wf]. Qed.
Print Assumptions C27_unique_key.

(** What an insertion does to the row of its identifier, after any history: a new
    identifier is stored; a strictly newer version (info timestamp) replaces payload,
    ingress interface, length, expiry and usage; an equal or older one changes
    nothing.  Rows of other identifiers are untouched.  The returned counters say
    which case it was. *)
Theorem C27_insert_rule_beacon : forall ops b u id,
  let tick := fst (fst (brun ops)) in
  let db := bdb (brun ops) in
  kfind be_id id (bdb (brun (ops ++ [BInsert b u]))) =
    (if id_eqb (b_id b) id then
       match kfind be_id (b_id b) db with
       | None => Some (bnew tick b u)
       | Some e => if be_ver e <? b_ver b then Some (bupd tick b u e) else Some e
       end
     else kfind be_id id db)
  /\ snd (bstep tick db (BInsert b u)) =
     match kfind be_id (b_id b) db with
     | None => BRStats 1 0
     | Some e => if be_ver e <? b_ver b then BRStats 0 1 else BRStats 0 0
     end.
Proof.
  intros ops b u id tick db. split.
  - rewrite brun_snoc, bexec_db, bstep_insert_fst. apply insert_beacon_find.
  - cbn [bstep]. unfold insert_beacon. destruct (kfind be_id (b_id b) db) as [e|]; [|reflexivity].
    now destruct (be_ver e <? b_ver b).
Qed.
Print Assumptions C27_insert_rule_beacon.

(** Path segments: the version is the signing time of the last AS entry; a strictly
    newer one replaces payload, interfaces and expiry and ADDS its segment type and
    hidden-path groups to those registered ([pupd]); a new identifier is registered
    with exactly its type and groups (group 0 if none given). *)
Theorem C27_insert_rule_path : forall ops s ty gs id,
  let tick := fst (fst (prun ops)) in
  let db := segs (pst (prun ops)) in
  kfind pe_id id (segs (pst (prun (ops ++ [PInsert s ty gs])))) =
    (if id_eqb (s_id s) id then
       match kfind pe_id (s_id s) db with
       | None => Some (pnew tick s ty gs)
       | Some e => if pe_ver e <? s_ver s then Some (pupd tick s ty gs e) else Some e
       end
     else kfind pe_id id db)
  /\ (forall e, pe_types (pupd tick s ty gs e) = add_n ty (pe_types e) /\
                pe_groups (pupd tick s ty gs e) = union_n gs (pe_groups e) /\
                (forall t, In t (pe_types (pupd tick s ty gs e)) <-> t = ty \/ In t (pe_types e)) /\
                (forall g, In g (pe_groups (pupd tick s ty gs e)) <-> In g gs \/ In g (pe_groups e)))
  /\ snd (pstep tick (pst (prun ops)) (PInsert s ty gs)) =
     match kfind pe_id (s_id s) db with
     | None => PRStats 1 0
     | Some e => if pe_ver e <? s_ver s then PRStats 0 1 else PRStats 0 0
     end.
Proof.
  intros ops s ty gs id tick db. split; [|split].
  - rewrite prun_snoc, pexec_st, pstep_segs_insert. apply insert_seg_find.
  - intros e. cbn [pupd pe_types pe_groups]. repeat split; try reflexivity.
    + apply add_n_in. + apply add_n_in. + apply union_n_spec. + apply union_n_spec.
  - cbn [pstep]. fold db. unfold insert_seg. destruct (kfind pe_id (s_id s) db) as [e|]; [|reflexivity].
    now destruct (pe_ver e <? s_ver s).
Qed.
Print Assumptions C27_insert_rule_path.

(** Along any history, as long as an identifier stays stored its version never
    decreases, and the stored row changes only when the version strictly increases
    (an equal or older version is ignored); for path segments the registered types and
    groups only grow. *)
Theorem C27_version_monotone : forall bops bo pops po id,
  (forall e e', kfind be_id id (bdb (brun bops)) = Some e ->
                kfind be_id id (bdb (brun (bops ++ [bo]))) = Some e' ->
                be_ver e <= be_ver e' /\ (be_ver e = be_ver e' -> e' = e)) /\
  (forall e e', kfind pe_id id (segs (pst (prun pops))) = Some e ->
                kfind pe_id id (segs (pst (prun (pops ++ [po])))) = Some e' ->
                pe_ver e <= pe_ver e' /\ (pe_ver e = pe_ver e' -> e' = e) /\
                incl (pe_types e) (pe_types e') /\ incl (pe_groups e) (pe_groups e')).
Proof.
  intros bops bo pops po id. split; intros e e' F F'.
  - rewrite brun_snoc, bexec_db in F'. eapply bstep_version_mono; eauto. apply brun_wf.
  - rewrite prun_snoc, pexec_st in F'. eapply pstep_version_mono; eauto. apply prun_wf.
Qed.
Print Assumptions C27_version_monotone.

(** Queries return exactly the stored rows that match all filters: GetBeacons is a
    permutation of the matching rows, newest update first; BeaconSources is the set of
    start ISD-ASes; the path Get returns one row per matching segment and registered
    type passing the type filter, carrying the groups passing the group filter, and
    nothing for a segment none of whose groups passes. *)
Theorem C27_query_exact : forall bops pops bp pp,
  let db := bdb (brun bops) in
  let sdb := segs (pst (prun pops)) in
  Permutation (get_beacons bp db) (filter (bmatch bp) db)
  /\ StronglySorted (fun x y => be_lu y <= be_lu x) (get_beacons bp db)
  /\ (NoDup (beacon_sources db) /\ forall a, In a (beacon_sources db) <-> In a (map be_start db))
  /\ NoDup (get_segs pp sdb)
  /\ (forall row, In row (get_segs pp sdb) <->
        exists e t, In e sdb /\ pmatch pp e = true /\ sel (g_groups pp) (pe_groups e) <> [] /\
                    In t (sel (g_types pp) (pe_types e)) /\
                    row = (pe_id e, pe_pay e, t, sel (g_groups pp) (pe_groups e), pe_lu e)).
Proof.
  intros bops pops bp pp db sdb. destruct (get_beacons_spec bp db) as [P S].
  split; [exact P|]. split; [exact S|]. split; [apply dedup_ia_spec|].
  split; [apply get_segs_nodup; apply prun_wf|]. intros row. apply get_segs_in.
Qed.
Print Assumptions C27_query_exact.

(** Candidate beacons: in non-decreasing length order, at most [n] (exactly
    min(n, number of matching beacons)), each stored, allowed for the usage and from
    the requested source, none twice, and none shorter was left out. *)
Theorem C27_candidates : forall ops n u src,
  let db := bdb (brun ops) in
  let r := candidate_beacons n u src db in
  StronglySorted (fun x y => be_hops x <= be_hops y) r
  /\ (length r <= N.to_nat n)%nat
  /\ length r = Nat.min (N.to_nat n) (length (filter (cand_match u src) db))
  /\ (forall e, In e r -> In e db /\ usage_has (be_usage e) u = true /\ src_ok src e = true)
  /\ (forall x, In x db -> cand_match u src x = true -> ~ In x r ->
                forall y, In y r -> be_hops y <= be_hops x)
  /\ NoDup (map be_id r).
Proof.
  intros ops n u src db r. destruct (candidates_spec n u src db) as [A [B [C [D [E F]]]]].
  repeat split; try assumption.
  - now apply D. - now apply D. - now apply D.
  - intros x Hx Hm. apply E. apply filter_In. now split.
  - apply F. apply brun_wf.
Qed.
Print Assumptions C27_candidates.

(** Deletion by identifier prefix, after any history: exactly the rows whose
    identifier starts with the given hexadecimal digits disappear, every other row is
    untouched, and the number of rows that vanish is the number of matching rows
    (what the runner observes by counting the rows before and after the call). *)
Theorem C27_delete_rule : forall bops pops p id,
  let db := bdb (brun bops) in
  let sdb := segs (pst (prun pops)) in
  kfind be_id id (bdb (brun (bops ++ [BDelete p]))) =
    (if prefix_b p id then None else kfind be_id id db)
  /\ snd (bstep (fst (fst (brun bops))) db (BDelete p)) =
     BRDeleted (N.of_nat (length (filter (fun e => prefix_b p (be_id e)) db)))
  /\ (length (bdb (brun (bops ++ [BDelete p])))
      + length (filter (fun e => prefix_b p (be_id e)) db) = length db)%nat
  /\ kfind pe_id id (segs (pst (prun (pops ++ [PDelete p])))) =
    (if prefix_b p id then None else kfind pe_id id sdb)
  /\ snd (pstep (fst (fst (prun pops))) (pst (prun pops)) (PDelete p)) =
     PRDeleted (N.of_nat (length (filter (fun e => prefix_b p (pe_id e)) sdb)))
  /\ (length (segs (pst (prun (pops ++ [PDelete p]))))
      + length (filter (fun e => prefix_b p (pe_id e)) sdb) = length sdb)%nat.
Proof.
  intros bops pops p id db sdb.
  assert (Cnt : forall {X} (f : X -> bool) (l : list X),
           (length (filter (fun x => negb (f x)) l) + length (filter f l) = length l)%nat).
  { intros X f l. induction l as [|x t IH]; cbn; [reflexivity|]. destruct (f x); cbn; lia. }
  split; [|split; [|split; [|split; [|split]]]].
  - rewrite brun_snoc, bexec_db. cbn [bstep fst]. unfold delete_beacon.
    rewrite kfind_filter by apply brun_wf. fold db.
    destruct (kfind be_id id db) as [e|] eqn:F; [|now destruct (prefix_b p id)].
    apply kfind_some in F as [_ <-]. now destruct (prefix_b p (be_id e)).
  - reflexivity.
  - rewrite brun_snoc, bexec_db. cbn [bstep fst]. unfold delete_beacon. apply Cnt.
  - rewrite prun_snoc, pexec_st. cbn [pstep fst segs]. unfold delete_segment.
    rewrite kfind_filter by apply prun_wf. fold sdb.
    destruct (kfind pe_id id sdb) as [e|] eqn:F; [|now destruct (prefix_b p id)].
    apply kfind_some in F as [_ <-]. now destruct (prefix_b p (pe_id e)).
  - reflexivity.
  - rewrite prun_snoc, pexec_st. cbn [pstep fst segs]. unfold delete_segment. apply Cnt.
Qed.
Print Assumptions C27_delete_rule.

(** Clean-up removes exactly the rows whose expiry lies before [now] and reports how
    many they were. *)
Theorem C27_cleanup_exact : forall bops pops now,
  let db := bdb (brun bops) in
  let sdb := segs (pst (prun pops)) in
  (forall e, In e (fst (delete_expired_beacons now db)) <-> In e db /\ now <= be_exp e) /\
  (N.to_nat (snd (delete_expired_beacons now db)) + length (fst (delete_expired_beacons now db))
   = length db)%nat /\
  (forall e, In e (fst (delete_expired_segs now sdb)) <-> In e sdb /\ now <= pe_exp e) /\
  (N.to_nat (snd (delete_expired_segs now sdb)) + length (fst (delete_expired_segs now sdb))
   = length sdb)%nat.
Proof.
  intros bops pops now db sdb.
  assert (Cnt : forall {X} (f : X -> bool) (l : list X),
           (length (filter f l) + length (filter (fun x => negb (f x)) l) = length l)%nat).
  { intros X f l. induction l as [|x t IH]; cbn; [reflexivity|]. destruct (f x); cbn; lia. }
  unfold delete_expired_beacons, delete_expired_segs. cbn [fst snd].
  split; [|split; [|split]].
  - intros e. rewrite filter_In, negb_true_iff, N.ltb_ge. tauto.
  - rewrite Nnat.Nat2N.id. apply Cnt.
  - intros e. rewrite filter_In, negb_true_iff, N.ltb_ge. tauto.
  - rewrite Nnat.Nat2N.id. apply Cnt.
Qed.
Print Assumptions C27_cleanup_exact.

(** The stored next-query time of a (source, destination) pair is the maximum of
    all times inserted for it, so it never decreases; InsertNextQuery reports true
    exactly when there was none or the new time is strictly later. *)
Theorem C27_next_query_monotone : forall ops o src dst,
  let get (l : list pop) := nq_find src dst (nqs (pst (prun l))) in
  get ops = fold_left (nq_upd src dst) ops None
  /\ match get ops, get (ops ++ [o]) with
     | Some v, Some v' => v <= v'
     | Some _, None => False
     | None, _ => True
     end
  /\ (forall t, snd (pstep (fst (fst (prun ops))) (pst (prun ops)) (PInsertNQ src dst t)) =
                PRBool (match get ops with None => true | Some v => v <? t end)).
Proof.
  intros ops o src dst get. subst get. cbn beta. split; [apply prun_nq|]. split.
  - rewrite !prun_nq, fold_left_app. cbn [fold_left].
    destruct (fold_left (nq_upd src dst) ops None) as [v|]; [|exact I].
    destruct o as [s ty gs|p|now|p|s d t|s d]; cbn [nq_upd]; try lia.
    destruct (ia_eqb s src && ia_eqb d dst); cbn [omax]; lia.
  - intros t. cbn [pstep]. pose proof (insert_nq_result src dst t (nqs (pst (prun ops)))) as R.
    destruct (insert_nq src dst t (nqs (pst (prun ops)))) as [l' b]. cbn [snd] in *. now subst b.
Qed.
Print Assumptions C27_next_query_monotone.

(** The oracle (and the agreement test) used by [check] hold on the model's own
    results, for every history. *)
Theorem C27_oracle_holds_on_model : forall bops pops,
  check (CBeacon bops (bresults bops)) = 0 /\ check (CPath pops (presults pops)) = 0.
Proof.
  intros bops pops. unfold check. rewrite bresults_trace, presults_trace. split.
  - destruct (bhist_model bops 0 []) as [A B]; [constructor|]. now rewrite A, B.
  - destruct (phist_model pops 0 {| segs := []; nqs := [] |}) as [A B]; [split; constructor|].
    now rewrite A, B.
Qed.
Print Assumptions C27_oracle_holds_on_model.

(** Non-vacuity: a path-store history with a new segment, an ignored equal version,
    a newer version that adds a type and a group, a filtered query, a clean-up and
    next-query times. *)
Example C27_example :
  let a := (1, 10) in let b := (1, 11) in
  let s1 := {| s_id := [1; 2]; s_ver := 100; s_start := a; s_end := b; s_intfs := [(a, 1); (b, 2)];
               s_exp := 500; s_pay := 1 |} in
  let s2 := {| s_id := [1; 2]; s_ver := 200; s_start := a; s_end := b; s_intfs := [(a, 1); (b, 2); (b, 9)];
               s_exp := 300; s_pay := 2 |} in
  let all := {| g_ids := []; g_types := []; g_groups := []; g_intfs := []; g_starts := []; g_ends := [] |} in
  let q := {| g_ids := []; g_types := [2]; g_groups := [7]; g_intfs := [(b, 9)]; g_starts := [(1, 0)]; g_ends := [] |} in
  presults [PInsert s1 1 []; PInsert s1 2 [7]; PGet all; PInsert s2 2 [7]; PGet q;
            PDelete [1; 3]; PDeleteExpired 301; PGet all; PInsertNQ a b 50; PInsertNQ a b 50; PGetNQ a b;
            PInsert s1 3 [9]; PDelete [1]; PGet all]
  = [PRStats 1 0; PRStats 0 0; PRGet [([1; 2], 1, 1, [0], 0)]; PRStats 0 1;
     PRGet [([1; 2], 2, 2, [7], 3)]; PRDeleted 0; PRCount 1; PRGet []; PRBool true; PRBool false;
     PRNQ (Some 50); PRStats 1 0; PRDeleted 1; PRGet []].
Proof. vm_compute. reflexivity. Qed.
