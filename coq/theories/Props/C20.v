(** C20 — UDP and SCMP checksums verify and detect corruption.
    Property theorems only; the work is in Proofs/Checksum.v. *)
From Coq Require Import List NArith Bool Lia ZifyBool ZifyN ZifyNat.
From Scion Require Import Lib.Check Lib.Bytes Model.Checksum Proofs.Checksum Model.ChecksumX Proofs.ChecksumX.
Import ListNotations.
Import Checksum.
Local Open Scope N_scope.

(** For every SCION address header (any ISD-ASes, host addresses of 4, 8, 12 or 16 arbitrary
    bytes), every UDP or SCMP header and every payload of up to 130 000 bytes (odd lengths
    included), serialization succeeds, and the one's complement sum over pseudo header and the
    written upper layer — computed the way the code computes it, uint32 accumulator and folding
    loop — is 0xFFFF. *)
Theorem C20_verifies : forall h l payload,
  wf_hdr h -> wf_l4 l -> wf_bytes payload -> small payload ->
  exists b, serialize h l payload = Ok b /\
            verify_sum h (N.of_nat (length b)) b (proto_of l) = Ok 65535.
Proof.
  intros h l payload WH WL WP SM.
  assert (X : exists b, serialize h l payload = Ok b).
  { unfold serialize.
    pose proof (proto_range l) as [P0 P1].
    set (u0 := pre l (N.of_nat (length payload)) ++ [0; 0] ++ payload).
    assert (W0 : wf_bytes u0).
    { unfold u0. apply Forall_app. split; [now apply pre_wf|]. apply Forall_app. split; [|exact WP].
      repeat constructor; unfold wf_byte; lia. }
    assert (B0 : bounded u0).
    { unfold bounded, u0, small in *. rewrite !app_length. cbn [length].
      pose proof (pre_length l (N.of_nat (length payload))).
      assert (prelen l <= 6) by (destruct l; unfold prelen; lia). lia. }
    rewrite (compute_exact h u0 _ WH P1 W0 B0). eauto. }
  destruct X as [b E]. exists b. split; [exact E|]. now apply (serialize_verifies h l payload).
Qed.
Print Assumptions C20_verifies.

(** The model's sums are the mathematical ones: as long as the covered data is shorter than
    131 000 bytes the uint32 accumulator does not wrap, the pseudo header loop sums the 16-bit
    words of DstIA ++ SrcIA ++ dst host ++ src host ++ length(32 bit) ++ 0 0 0 protocol, an odd
    last byte counts as a high byte (zero padding), and the folding loop yields the one's
    complement representative ([words_of], [sum], [ones]). *)
Theorem C20_bytes_to_words : forall h len upper proto,
  wf_hdr h -> len < 2 ^ 32 -> proto < 256 -> wf_bytes upper -> bounded upper ->
  verify_sum h len upper proto = Ok (ones (sum (words_of (covered h len upper proto)))) /\
  sum (words_of (covered h len upper proto)) < 2 ^ 32.
Proof.
  intros h len upper proto WH Hl Hp WU B. split.
  - exact (verify_exact h len upper proto WH Hl Hp WU B).
  - exact (covered_sum_lt h len upper proto WH Hp WU B).
Qed.
Print Assumptions C20_bytes_to_words.

(** Over any sequence of words (any length, any values), flipping one of the 16 bits of one word
    changes the folded one's complement sum: the sum moves by +-2^k, and 2^k is never a multiple
    of 65535; 0x0000 and 0xFFFF are kept apart because only the empty sum folds to 0. *)
Theorem C20_single_bit : forall ws i k, (i < length ws)%nat -> k < 16 ->
  ones (sum (flip_nth ws i (2 ^ k))) <> ones (sum ws).
Proof. exact single_bit_words. Qed.
Print Assumptions C20_single_bit.

(** Glue: flipping bit j of byte p of a byte string is flipping bit j (odd p) or j+8 (even p) of
    word p/2 of its word sequence, also in the zero-padded last word of an odd-length string. *)
Theorem C20_byte_flip_is_word_flip : forall l p j, wf_bytes l -> (p < length l)%nat -> j < 8 ->
  words_of (flip_bit l p j) =
  flip_nth (words_of l) (Nat.div2 p) (2 ^ (if Nat.even p then j + 8 else j)).
Proof. intros l p j. apply words_of_flip. Qed.
Print Assumptions C20_byte_flip_is_word_flip.

(** Hence: two (address header, length, upper layer) whose covered data differ in exactly one bit
    never have the same verification sum. *)
Theorem C20_single_bit_covered : forall h len upper proto h' len' upper' proto' p j,
  wf_hdr h -> len < 2 ^ 32 -> proto < 256 -> wf_bytes upper -> bounded upper ->
  wf_hdr h' -> len' < 2 ^ 32 -> proto' < 256 -> wf_bytes upper' -> bounded upper' ->
  (p < length (covered h len upper proto))%nat -> j < 8 ->
  covered h' len' upper' proto' = flip_bit (covered h len upper proto) p j ->
  verify_sum h' len' upper' proto' <> verify_sum h len upper proto.
Proof. exact single_bit_covered. Qed.
Print Assumptions C20_single_bit_covered.

(** In particular, on a serialized UDP/SCMP message: flipping any bit of DstIA, SrcIA, either host
    address or the upper layer (checksum field excluded here; it is covered by the theorem above)
    makes the verification sum differ from 0xFFFF, and the sender would have written another
    checksum for the flipped input. *)
Theorem C20_flip_detected : forall h l payload b region idx bit,
  wf_hdr h -> wf_l4 l -> wf_bytes payload -> small payload -> serialize h l payload = Ok b ->
  valid_flip h (prelen l) b region idx bit ->
  flip_oracle h l b (region, idx, bit,
     model_flip h l (pre l (N.of_nat (length payload)) ++ [0; 0] ++ payload) (region, idx, bit, 0)) = true.
Proof. exact flip_oracle_model. Qed.
Print Assumptions C20_flip_detected.

(** a flip of the length word of the pseudo header (it is not stored in the upper layer) *)
Theorem C20_length_flip_detected : forall h l payload b i,
  wf_hdr h -> wf_l4 l -> wf_bytes payload -> small payload -> serialize h l payload = Ok b -> i < 32 ->
  verify_sum h (N.lxor (N.of_nat (length b)) (2 ^ i)) b (proto_of l) <> Ok 65535.
Proof.
  intros h l payload b i WH WL WP SM SER Hi.
  destruct (serialize_eq h l payload b WH WL WP SM SER) as (_ & _ & _ & _ & WB & BB & _ & _).
  pose proof (proto_range l) as [P0 P1].
  set (n := N.of_nat (length b)) in *.
  assert (Hn : n < 2 ^ 32) by (unfold n, bounded in *; change (2 ^ 32) with 4294967296; lia).
  assert (Hn' : N.lxor n (2 ^ i) < 2 ^ 32) by (now apply lxor_lt_pow2).
  rewrite <- (serialize_verifies h l payload b WH WL WP SM SER). fold n.
  (* the covered data differ in bit (i mod 8) of byte 3 - i/8 of the length word *)
  assert (E4 : be 4 (N.lxor n (2 ^ i)) = flip_bit (be 4 n) (3 - N.to_nat (i / 8)) (i mod 8)).
  { rewrite be_lxor. destruct (N.ltb_spec (i / 8) (N.of_nat 4)); [reflexivity|lia]. }
  apply (single_bit_covered h n b (proto_of l) h (N.lxor n (2 ^ i)) b (proto_of l)
           (length (be 8 (dst_ia h) ++ be 8 (src_ia h) ++ raw_dst h ++ raw_src h) + (3 - N.to_nat (i / 8)))
           (i mod 8)); try assumption.
  - unfold covered. rewrite !app_length, !be_length. cbn [length]. lia.
  - apply N.mod_lt. discriminate.
  - unfold covered. rewrite E4.
    assert (A : forall X, be 8 (dst_ia h) ++ be 8 (src_ia h) ++ raw_dst h ++ raw_src h ++ X =
                          (be 8 (dst_ia h) ++ be 8 (src_ia h) ++ raw_dst h ++ raw_src h) ++ X).
    { intros X. now rewrite <- !app_assoc. }
    rewrite !A. apply flip_mid. rewrite be_length. lia.
Qed.
Print Assumptions C20_length_flip_detected.

(** The oracle evaluated by [Checksum.check] on the implementation's bytes holds on the model. *)
Theorem C20_oracle_holds_on_model : forall h l payload b flips,
  wf_hdr h -> wf_l4 l -> wf_bytes payload -> small payload -> serialize h l payload = Ok b ->
  Forall (fun f => valid_flip h (prelen l) b (fst (fst (fst f))) (snd (fst (fst f))) (snd (fst f))) flips ->
  let upper0 := pre l (N.of_nat (length payload)) ++ [0; 0] ++ payload in
  oracle h l 0 (N.of_nat (length b)) b
         (map (fun f => (fst (fst (fst f)), snd (fst (fst f)), snd (fst f), model_flip h l upper0 f)) flips) = true.
Proof.
  intros h l payload b flips WH WL WP SM SER VF. cbv zeta. unfold oracle.
  pose proof WH as (N1 & N2 & E1 & E2 & _).
  unfold even_len. rewrite E1, E2.
  destruct (raw_dst h) as [|d0 dt] eqn:ED; [contradiction|].
  destruct (raw_src h) as [|s0 st] eqn:ES; [contradiction|]. rewrite <- ED, <- ES in *.
  replace (N.of_nat (length (raw_dst h)) =? 0) with false by (rewrite ED; cbn [length]; lia).
  replace (N.of_nat (length (raw_src h)) =? 0) with false by (rewrite ES; cbn [length]; lia).
  cbn [negb andb N.eqb].
  rewrite (serialize_verifies h l payload b WH WL WP SM SER). rewrite !N.eqb_refl. cbn [andb].
  apply forallb_forall. intros f' IN. apply in_map_iff in IN as ([[[region idx] bit] x] & <- & IN).
  rewrite Forall_forall in VF. specialize (VF _ IN). cbn [fst snd] in *.
  exact (flip_oracle_model h l payload b region idx bit WH WL WP SM SER VF).
Qed.
Print Assumptions C20_oracle_holds_on_model.

(** Region-free form (audit follow-up): on the bytes a sender wrote, flipping ANY single bit of ANY
    byte of the upper layer - the two checksum bytes included - makes the verification sum
    differ from 0xFFFF. *)
Theorem C20_any_flip_detected : forall h l payload b p j,
  wf_hdr h -> wf_l4 l -> wf_bytes payload -> small payload -> serialize h l payload = Ok b ->
  (p < length b)%nat -> j < 8 ->
  verify_sum h (N.of_nat (length b)) (flip_bit b p j) (proto_of l) <> Ok 65535.
Proof.
  intros h l payload b p j WH WL WP SM SER P J.
  destruct (any_flip_detected h l payload b p j WH WL WP SM SER P J) as (s & -> & NE).
  intros X. apply NE. now inversion X.
Qed.
Print Assumptions C20_any_flip_detected.

(** The additional oracle clauses of [ChecksumX.check] (every bit of the checksum field, every bit
    of the length word, flipped on the implementation's bytes) hold on the model. *)
Theorem C20_extra_oracle_holds_on_model : forall h l payload b,
  wf_hdr h -> wf_l4 l -> wf_bytes payload -> small payload -> serialize h l payload = Ok b ->
  ChecksumX.extra_oracle h l 0 (N.of_nat (length b)) b = true.
Proof. exact extra_oracle_model. Qed.
Print Assumptions C20_extra_oracle_holds_on_model.

(** Non-vacuity: a UDP datagram with an odd payload between an IPv4 and an IPv6 host. *)
Example C20_example :
  let h := {| dst_ia := 0x0001ff0000000110; src_ia := 0x0002ff0000000220;
              raw_dst := [10; 0; 0; 1];
              raw_src := [0x20; 0x01; 0x0d; 0xb8; 0; 0; 0; 0; 0; 0; 0; 0; 0; 0; 0; 1] |} in
  let l := UDP 1000 2000 None in
  wf_hdr h /\ wf_l4 l /\
  exists b, serialize h l [1; 2; 3] = Ok b /\ length b = 11%nat /\
            verify_sum h 11 b 17 = Ok 65535 /\
            valid_flip h 6 b 5 2 0 /\
            verify_sum h 11 (flip_bit b 10 0) 17 = Ok 65279.
Proof.
  cbv zeta. split; [|split].
  - unfold wf_hdr; cbn [raw_dst raw_src length Nat.even]. repeat split; try discriminate; try lia;
      repeat constructor; unfold wf_byte; lia.
  - cbn. lia.
  - eexists. split; [vm_compute; reflexivity|]. repeat split; try (vm_compute; reflexivity).
    right. right. right. right. right. repeat split; cbn; lia.
Qed.
