(** C10 — SCMP replies and traceroute answers travel back to the sender.

    Reading guide.  A path is a provenance path [p] ([Prov.prov], C02): [good mac t p]
    = well-formed topology, all links up, [Prov.wf_prov_b]; [render p pp k mid] is the
    packet of the path when hop [k] is current ([mid]: "between the routers of the
    AS": the ingress router has done its SegID update).  [rev_prov p] is the
    reversed provenance path (C03).  The router model is [Router.process_scion]
    (fast path), the slow path is [RouterScmp.slow_path] (processPacket / packSCMP /
    prepareSCMP / handleSCMPTraceRouteRequest, C09).

    A router can answer at a position of the path: hop [kc] is current when it stops;
    [ret_hop p kc] is the hop through whose ingress interface the packet entered the
    AS ([kc] itself, or [kc-1] when the router had already switched segment: that
    is the cross-over prepareSCMP reverts); the packet reached the router from the
    source host ([AHost]), from the previous AS ([AExt]) or from the sibling router
    that received it ([ASib]).  [ret_pos p how kc] is where the reply is in
    [rev_prov p]: at hop [n - ret_hop] "on arrival" when it leaves over the external
    link it came from (the increment of prepareSCMP), at hop [n - 1 - ret_hop]
    "between the routers" otherwise. *)
From Coq Require Import List NArith Bool Arith Lia.
From Scion Require Import Lib.Check Lib.Bytes Model.Router Model.Network Model.Prov Model.RouterScmp
  Model.ScmpReturn.
From Scion Require Import Proofs.ProvFacts Proofs.ForwardView Proofs.ForwardStep Proofs.ScmpReturnCong
  Proofs.ScmpReturnStop Proofs.ScmpReturnMain Proofs.ScmpReturnOracle Proofs.ScmpReturnAlert
  Proofs.ScmpReturnTrace Proofs.ScmpReturnOracleAlert.
Import ListNotations.
Import Scion.Model.Router.Router Network Prov.
Local Open Scope N_scope.

(** THE PATH OF THE ANSWER.  Whatever the request (SCMP error of any type, traceroute
    reply): if the packet the fast path left is the packet of the path with hop [kc]
    current, the packet the slow path emits carries — as the routers see it, with any
    upper-layer port — exactly the rendering of the REVERSED provenance path at
    [ret_pos], addressed to the source of the offending packet, with the router's
    ISD-AS as source: reversal, revert of the cross-over, increment for an external
    link and the SegIDs every router back will verify its hop with. *)
Theorem C10_reply_path : forall mac t p pp cmac c ing req eg x va ats r how kc port,
  good mac t p -> (kc < nhops p)%nat -> ing_how ing how ->
  (how = ScmpReturn.AExt ->
   (1 <= ScmpReturn.ret_hop p kc)%nat /\ crosses p (ScmpReturn.ret_hop p kc - 1) = true) ->
  RouterScmp.sp_pkt x = render p pp kc true ->
  RouterScmp.slow_path cmac c ing req eg x va ats = RouterScmp.SReply r ->
  exists lt lraw pay,
    RouterScmp.pack_local (c_local_host c) = Some (lt, lraw) /\
    ScmpReturn.set_port (RouterScmp.r_hdr r) port =
    set_src (c_ia c) (render (rev_prov p) (rev_params pp lt lraw pay port)
                             (fst (ScmpReturn.ret_pos p how kc)) (snd (ScmpReturn.ret_pos p how kc))).
Proof. intros. eapply reply_is_render; eassumption. Qed.
Print Assumptions C10_reply_path.

(** THE ANSWER RETURNS.  Hence (by the walk of C02 on the reversed path, for a packet
    whose source is the router's AS): sent over the link the offending packet came
    in on, the answer is forwarded by every router on the way back, crosses exactly
    the interfaces the offending packet crossed, in reverse order, and is delivered
    to the source host at the port the SCMP quote rules give (C11); a router of the
    source AS hands it to the internal network directly. *)
Theorem C10_reply_returns : forall mac t p pp now' cmac c ing req eg x va ats r how kc l next qoff pt d0,
  good mac t p -> endpoints_ok t p pp = true -> all_unexpired now' p = true ->
  ScmpReturn.src_ip_ok pp = true ->
  (kc < nhops p)%nat -> ing_how ing how ->
  RouterScmp.sp_pkt x = render p pp kc true ->
  RouterScmp.slow_path cmac c ing req eg x va ats = RouterScmp.SReply r ->
  c_ia c = ia p kc ->
  (forall j, (j < ScmpReturn.ret_hop p kc)%nat -> ia p j <> ia p kc) ->
  ScmpReturn.reply_port (RouterScmp.r_l4 r) next qoff = Some pt ->
  reply_target pp (Some pt) = Some d0 ->
  match how with
  | ScmpReturn.AHost => l = mkLoc (ia p kc) (l_rtr l) InInt
  | ScmpReturn.AExt =>
    (1 <= ScmpReturn.ret_hop p kc)%nat /\ crosses p (ScmpReturn.ret_hop p kc - 1) = true /\
    l = mkLoc (ia p kc) (l_rtr l) (InExt (tr_in p (ScmpReturn.ret_hop p kc))) /\ ing = l_ing l
  | ScmpReturn.ASib =>
    (S kc < nhops p)%nat /\ crosses p kc = true /\
    (1 <= ScmpReturn.ret_hop p kc)%nat /\ crosses p (ScmpReturn.ret_hop p kc - 1) = true /\
    in_rtr t p (ScmpReturn.ret_hop p kc) <> eg_rtr t p kc /\
    l = mkLoc (ia p kc) (eg_rtr t p kc) (InSib (in_rtr t p (ScmpReturn.ret_hop p kc) + 1))
  end ->
  match how with
  | ScmpReturn.AHost =>
    ScmpReturn.go_back (macq_of mac) t now' l (RouterScmp.SReply r) next qoff =
    ScmpReturn.BDirect (ia p kc) (l_rtr l)
  | _ =>
    exists tr rtr,
      ScmpReturn.go_back (macq_of mac) t now' l (RouterScmp.SReply r) next qoff =
        ScmpReturn.BWalk (tr, Delivered (pp_src_ia pp) rtr (fst d0) (snd d0)) /\
      crossed tr = ScmpReturn.back_ifs p how kc
  end.
Proof. intros. eapply answer_returns; eassumption. Qed.
Print Assumptions C10_reply_returns.

(** WHICH ROUTER ANSWERS AN INTERFACE FAULT, AND IN WHICH STATE.  The router that
    receives the packet from the host or the previous AS ([arrives]) and finds the egress
    interface of the path down (its own external link, or the link to the sibling
    that owns it) or missing from its configuration hands the slow path the request
    ExternalInterfaceDown / InternalConnectivityDown / UnknownHopField{Egress,Ingress}
    with the packet of the path at the hop whose egress interface is used, "between the
    routers" — also when it had to switch segment first. *)
Theorem C10_fault_answer : forall mac t now p pp q k ing r cf,
  good mac t p -> endpoints_ok t p pp = true -> all_unexpired now p = true ->
  view p pp (nhops p) (length (pv_segs p)) q k k false -> (S k < nhops p)%nat -> arrives p k ing ->
  (k = 0%nat -> r = eg_rtr t p (eff p k)) ->
  fault_if cf = tr_eg p (eff p k) ->
  process_scion (macq_of mac (a_key (as_of t p k))) (ScmpReturn.apply_cfault cf (cfg_of (as_of t p k) r)) now ing q =
  SlowPath (fault_req p pp cf (eff p k) (eg_rtr t p (eff p k) =? r)) (tr_eg p (eff p k))
           (render p pp (eff p k) true).
Proof. intros. now apply fault_arrive. Qed.
Print Assumptions C10_fault_answer.

(** the same for the egress router of an AS that got the packet from its sibling *)
Theorem C10_fault_answer_sibling : forall mac t now p pp q k k0 cf,
  good mac t p -> endpoints_ok t p pp = true -> all_unexpired now p = true ->
  view p pp (nhops p) (length (pv_segs p)) q k k true -> (S k < nhops p)%nat -> crosses p k = true ->
  entry p k = k0 -> (1 <= k0)%nat -> crosses p (k0 - 1) = true -> as_of t p k0 = as_of t p k ->
  in_rtr t p k0 <> eg_rtr t p k ->
  fault_if cf = tr_eg p k ->
  process_scion (macq_of mac (a_key (as_of t p k)))
                (ScmpReturn.apply_cfault cf (cfg_of (as_of t p k) (eg_rtr t p k))) now
                (InSib (in_rtr t p k0 + 1)) q =
  SlowPath (fault_req p pp cf k true) (tr_eg p k) (render p pp k true).
Proof. intros. now apply fault_mid. Qed.
Print Assumptions C10_fault_answer_sibling.

(** THE ORACLE OF THE CORRESPONDENCE CHECK HOLDS ON THE MODEL, for every scenario "the
    egress interface of one router of the path is down or unknown" (any path, any
    position, any MAC): if the model's walk through the network with that faulty router
    stops at the position the case names with the packet the path gives there
    (the check compares both with the real walk), and the model's router answers with a
    packet whose quote yields a port, then that answer and its way back satisfy
    [c10_ok]: addressed to the source, delivered to the source host over the reverse
    interface sequence (or handed over directly by a router of the source AS). *)
Theorem C10_oracle_holds_on_model :
  forall mac t hosts now now' p pp fia frt cf tc flow next qnext qoff ka kc how srt raw r pt,
  let macq := macq_of mac in
  let fa := Some (fia, (frt, cf)) in
  good mac t p -> endpoints_ok t p pp = true ->
  all_unexpired now p = true -> all_unexpired now' p = true -> ScmpReturn.src_ip_ok pp = true ->
  ScmpReturn.pos_ok t p ka how = true -> (kc < nhops p)%nat -> ScmpReturn.no_revisit p kc = true ->
  ScmpReturn.clean_fault t p ScmpReturn.PNone fa ka kc how = true ->
  let m := ScmpReturn.model_q macq t hosts now now' p pp ScmpReturn.PNone fa tc flow next qnext qoff srt raw in
  (exists res, ScmpReturn.m_stop m =
               Some (ScmpReturn.pos_loc t p ka how, ScmpReturn.pos_pkt p pp ka how, res)) ->
  ScmpReturn.m_reply m = RouterScmp.SReply r ->
  ScmpReturn.reply_port (RouterScmp.r_l4 r) qnext qoff = Some pt ->
  ScmpReturn.c10_ok t p pp ScmpReturn.PNone ka kc how None qnext qoff (ScmpReturn.pos_loc t p ka how)
                    (ScmpReturn.m_reply m) (ScmpReturn.m_back m) = true.
Proof. intros. eapply oracle_fault; eassumption. Qed.
Print Assumptions C10_oracle_holds_on_model.

(** TRACEROUTE.  [set_alerts kx a e q]: the packet [q] with the two router-alert bits of hop
    field [kx] set to [a] (ConsIngress flag) and [e] (ConsEgress flag); [in_flag p k a e] /
    [eg_flag p k a e]: the bit that stands for the interface through which hop [k] is
    entered / left in the direction of travel.

    (1) The flag of the interface through which hop [k] is entered: the router that
    receives the packet from the previous AS over that interface raises the
    router-alert request for the ingress interface, with the flag cleared — the packet it
    hands to the slow path IS the packet of the path (so [C10_reply_path] and
    [C10_reply_returns] apply to the answer). *)
Theorem C10_traceroute_ingress : forall mac t now p pp q k r a e,
  good mac t p -> endpoints_ok t p pp = true -> all_unexpired now p = true ->
  view p pp (nhops p) (length (pv_segs p)) q k k false -> (k < nhops p)%nat ->
  (1 <= k)%nat -> crosses p (k - 1) = true ->
  in_flag p k a e = true -> eg_flag p k a e = false ->
  process_scion (macq_of mac (a_key (as_of t p k))) (cfg_of (as_of t p k) r) now (InExt (tr_in p k))
                (ScmpReturn.set_alerts k a e q) =
  SlowPath SpAlertIngress 0 (render p pp k true).
Proof. intros. now apply ingress_flag_answer. Qed.
Print Assumptions C10_traceroute_ingress.

(** (1') The same WITHOUT any assumption on the other flag bit (audit follow-up): the ingress
    handler runs before anything looks at the egress flag, raises the request and clears only
    its own bit; the packet handed to the slow path is the packet of the path with the other
    bit of hop [k] as the sender set it.  (With both bits set the request is consumed here;
    the egress interface is never asked.) *)
Theorem C10_traceroute_ingress_any : forall mac t now p pp q k r a e,
  good mac t p -> endpoints_ok t p pp = true -> all_unexpired now p = true ->
  view p pp (nhops p) (length (pv_segs p)) q k k false -> (k < nhops p)%nat ->
  (1 <= k)%nat -> crosses p (k - 1) = true ->
  in_flag p k a e = true ->
  process_scion (macq_of mac (a_key (as_of t p k))) (cfg_of (as_of t p k) r) now (InExt (tr_in p k))
                (ScmpReturn.set_alerts k a e q) =
  SlowPath SpAlertIngress 0
           (ScmpReturn.set_alerts k (if cons p k then false else a) (if cons p k then e else false)
                                  (render p pp k true)).
Proof. intros. now apply ingress_flag_answer_any. Qed.
Print Assumptions C10_traceroute_ingress_any.

(** (2) The flag of the interface through which the AS is left: the router that owns that
    interface raises the request for the egress interface — the router that received the
    packet if it owns it (also after a segment change) ... *)
Theorem C10_traceroute_egress : forall mac t now p pp q k ing r a e,
  good mac t p -> endpoints_ok t p pp = true -> all_unexpired now p = true ->
  view p pp (nhops p) (length (pv_segs p)) q k k false -> (S k < nhops p)%nat -> arrives p k ing ->
  (k = 0%nat -> r = eg_rtr t p (eff p k)) -> eg_rtr t p (eff p k) = r ->
  eg_flag p (eff p k) a e = true -> in_flag p (eff p k) a e = false ->
  process_scion (macq_of mac (a_key (as_of t p k))) (cfg_of (as_of t p k) r) now ing
                (ScmpReturn.set_alerts (eff p k) a e q) =
  SlowPath SpAlertEgress (tr_eg p (eff p k)) (render p pp (eff p k) true).
Proof. intros. now apply egress_flag_answer. Qed.
Print Assumptions C10_traceroute_egress.

(** ... or its sibling, to which the receiving router forwards the packet with the flag
    untouched ([C10_flag_untouched] below). *)
Theorem C10_traceroute_egress_sibling : forall mac t now p pp q k k0 a e,
  good mac t p -> endpoints_ok t p pp = true -> all_unexpired now p = true ->
  view p pp (nhops p) (length (pv_segs p)) q k k true -> (S k < nhops p)%nat -> crosses p k = true ->
  entry p k = k0 -> (1 <= k0)%nat -> crosses p (k0 - 1) = true -> as_of t p k0 = as_of t p k ->
  in_rtr t p k0 <> eg_rtr t p k ->
  eg_flag p k a e = true -> in_flag p k a e = false ->
  process_scion (macq_of mac (a_key (as_of t p k))) (cfg_of (as_of t p k) (eg_rtr t p k)) now
                (InSib (in_rtr t p k0 + 1)) (ScmpReturn.set_alerts k a e q) =
  SlowPath SpAlertEgress (tr_eg p k) (render p pp k true).
Proof. intros. now apply egress_flag_answer_sibling. Qed.
Print Assumptions C10_traceroute_egress_sibling.

(** (3) Every other router: a router that receives the flagged packet from the host or the
    previous AS and is neither the router of (1) nor the owner of (2), the egress router of
    an AS whose hop does not carry the egress flag, and the last router if the flag is
    not the ingress flag of the last hop, do exactly what they do with the packet
    without the flag — same disposition, same egress, and the packet they send is the
    packet they would send with the flag bits of hop [kx] still as the sender set them
    ([phi_res]/[gflag]: only hop field [kx]'s two flag bits differ). *)
Theorem C10_flag_untouched : forall mac t now p pp q k ing r kx a e,
  good mac t p -> endpoints_ok t p pp = true -> all_unexpired now p = true ->
  view p pp (nhops p) (length (pv_segs p)) q k k false -> (S k < nhops p)%nat -> arrives p k ing ->
  (k = 0%nat -> r = eg_rtr t p (eff p k)) ->
  (k <> kx \/ in_flag p k a e = false \/ ing = InInt) ->
  (eff p k <> kx \/ eg_flag p (eff p k) a e = false \/ eg_rtr t p (eff p k) <> r) ->
  process_scion (macq_of mac (a_key (as_of t p k))) (cfg_of (as_of t p k) r) now ing
                (ScmpReturn.set_alerts kx a e q) =
  phi_res (p_src_ia q) (gflag kx a e)
          (process_scion (macq_of mac (a_key (as_of t p k))) (cfg_of (as_of t p k) r) now ing q).
Proof. intros. eapply flag_forward; eassumption. Qed.
Print Assumptions C10_flag_untouched.

Theorem C10_flag_untouched_sibling : forall mac t now p pp q k k0 kx a e,
  good mac t p -> endpoints_ok t p pp = true -> all_unexpired now p = true ->
  view p pp (nhops p) (length (pv_segs p)) q k k true -> (S k < nhops p)%nat -> crosses p k = true ->
  entry p k = k0 -> (1 <= k0)%nat -> crosses p (k0 - 1) = true -> as_of t p k0 = as_of t p k ->
  in_rtr t p k0 <> eg_rtr t p k ->
  (k <> kx \/ eg_flag p k a e = false) ->
  process_scion (macq_of mac (a_key (as_of t p k))) (cfg_of (as_of t p k) (eg_rtr t p k)) now
                (InSib (in_rtr t p k0 + 1)) (ScmpReturn.set_alerts kx a e q) =
  phi_res (p_src_ia q) (gflag kx a e)
          (process_scion (macq_of mac (a_key (as_of t p k))) (cfg_of (as_of t p k) (eg_rtr t p k)) now
                         (InSib (in_rtr t p k0 + 1)) q).
Proof. intros. eapply flag_forward_sibling; eassumption. Qed.
Print Assumptions C10_flag_untouched_sibling.

Theorem C10_flag_untouched_last : forall mac t now p pp q k ing r kx a e,
  good mac t p -> endpoints_ok t p pp = true -> all_unexpired now p = true ->
  view p pp (nhops p) (length (pv_segs p)) q k k false -> S k = nhops p -> arrives p k ing ->
  (k <> kx \/ in_flag p k a e = false) ->
  process_scion (macq_of mac (a_key (as_of t p k))) (cfg_of (as_of t p k) r) now ing
                (ScmpReturn.set_alerts kx a e q) =
  phi_res (p_src_ia q) (gflag kx a e)
          (process_scion (macq_of mac (a_key (as_of t p k))) (cfg_of (as_of t p k) r) now ing q).
Proof. intros. eapply flag_deliver; eassumption. Qed.
Print Assumptions C10_flag_untouched_last.

(** (4) What the answer says: a traceroute reply (type 131, code 0) whose body is the first
    four bytes of the request's body — identifier and sequence number, copied —, the
    router's ISD-AS and the interface the request is about: the interface id of the link
    the packet came in on for the ingress flag, the egress interface for the egress flag. *)
Theorem C10_traceroute_reply : forall cmac c ing req eg x va ats r,
  req = SpAlertIngress \/ req = SpAlertEgress ->
  RouterScmp.slow_path cmac c ing req eg x va ats = RouterScmp.SReply r ->
  exists ll t0 cd c1 c2 rest ck,
    RouterScmp.last_layer (RouterScmp.sp_next x) (RouterScmp.payload x) = Some ll /\
    snd ll = t0 :: cd :: c1 :: c2 :: rest /\
    RouterScmp.r_l4 r = [RouterScmp.ScmpTracerouteReply; 0] ++ be 2 ck ++
                        (firstn 4 rest ++ be 8 (c_ia c) ++ be 8 (alert_ifid req ing eg)).
Proof. intros. eapply alert_reply_content; eassumption. Qed.
Print Assumptions C10_traceroute_reply.

(** * Examples: leaf 20 below core 10 (two routers, interface 1 on router 0, interface 2 on
    router 1), leaf 30 below core 10; path 20 -> 10 -> 30 (up segment, down segment). *)
Definition toy (k s ts e i g : N) : list N := [k; s; ts; e; i; g].
Definition ex_topo : topology :=
  [ mkAs 10 7 2 [mkNif 1 Child 20 1 0 true; mkNif 2 Child 30 1 1 true] [] 0 0;
    mkAs 20 8 1 [mkNif 1 Parent 10 1 0 true] [] 0 0;
    mkAs 30 9 1 [mkNif 1 Parent 10 2 0 true] [] 0 0 ].
Definition ex_prov : prov :=
  let ts := 1000 in
  let u0 := toy 7 5 ts 63 0 1 in let bu1 := N.lxor 5 (mac_prefix u0) in
  let u1 := toy 8 bu1 ts 63 1 0 in
  let d0 := toy 7 9 ts 63 0 2 in let bd1 := N.lxor 9 (mac_prefix d0) in
  let d1 := toy 9 bd1 ts 63 1 0 in
  of_slices
    [ mkSl KIntra false false ts [mkPh 20 1 0 63 u1 bu1; mkPh 10 0 1 63 u0 5];
      mkSl KIntra true false ts [mkPh 10 0 2 63 d0 9; mkPh 30 1 0 63 d1 bd1] ].
Definition ex_pp : pparams := mkPP 20 30 0 0 [10; 0; 0; 2] [10; 0; 0; 1] 8 (Some 80).
Definition ex_hosts : list (N * (N * list N)) :=
  [(10, (0, [10; 1; 0; 1])); (10, (1, [10; 1; 0; 2])); (20, (0, [10; 2; 0; 1])); (30, (0, [10; 3; 0; 1]))].
(** 92 header bytes (never looked at by the model) and a UDP header with source port 4242 *)
Definition ex_raw : bytes := repeat 0 92 ++ [16; 146; 0; 80; 0; 8; 0; 0].
Definition ex_now : N := 2000000000000.
Definition ex_macq := macq_of toy.

(** NON-VACUITY.  Interface 2 of router 1 of AS 10 is down.  The packet goes 20/r0 -> 10/r0 ->
    (sibling link) 10/r1, which answers ExternalInterfaceDown after the segment change
    (hop 2 current, entered through hop 1: the cross-over is reverted); the answer
    goes back over the sibling link to 10/r0, out of interface 1, into 20/r0 and to the
    host 10.0.0.1, port 4242; all hypotheses of the oracle theorem hold. *)
Example C10_example :
  let fa := Some (10, (1, ScmpReturn.CDown 2)) in
  let m := ScmpReturn.model_q ex_macq ex_topo ex_hosts ex_now ex_now ex_prov ex_pp ScmpReturn.PNone fa 0 0 17 17 92 0 ex_raw in
  valid_b ex_macq ex_topo ex_now ex_prov ex_pp = true /\
  ScmpReturn.pos_ok ex_topo ex_prov 2 ScmpReturn.ASib = true /\
  ScmpReturn.clean_fault ex_topo ex_prov ScmpReturn.PNone fa 2 2 ScmpReturn.ASib = true /\
  ScmpReturn.no_revisit ex_prov 2 = true /\ ScmpReturn.ret_hop ex_prov 2 = 1%nat /\
  map (fun s => (t_ia s, t_rtr s)) (fst (ScmpReturn.m_fwd m)) = [(20, 0); (10, 0)] /\
  snd (ScmpReturn.m_fwd m) = Stopped 10 1 (KScmp 5 0) /\
  match ScmpReturn.m_stop m with
  | Some (l, inp, _) => l = ScmpReturn.pos_loc ex_topo ex_prov 2 ScmpReturn.ASib /\
                        inp = ScmpReturn.pos_pkt ex_prov ex_pp 2 ScmpReturn.ASib
  | None => False
  end /\
  match ScmpReturn.m_reply m, ScmpReturn.m_back m with
  | RouterScmp.SReply r, ScmpReturn.BWalk w =>
    ScmpReturn.reply_port (RouterScmp.r_l4 r) 17 92 = Some 4242 /\
    snd w = Delivered 20 0 [10; 0; 0; 1] 4242 /\ crossed (fst w) = [(10, 1); (20, 1)] /\
    p_src_ia (RouterScmp.r_hdr r) = 10 /\ p_curr_hf (RouterScmp.r_hdr r) = 2
  | _, _ => False
  end /\
  ScmpReturn.c10_ok ex_topo ex_prov ex_pp ScmpReturn.PNone 2 2 ScmpReturn.ASib None 17 92
                    (ScmpReturn.pos_loc ex_topo ex_prov 2 ScmpReturn.ASib)
                    (ScmpReturn.m_reply m) (ScmpReturn.m_back m) = true.
Proof. vm_compute. repeat split; reflexivity. Qed.

(** NON-VACUITY OF THE TRACEROUTE HALF (audit follow-up).  The same path, an SCMP traceroute
    request (type 130, identifier 4242, sequence 1) as payload.  Hop fields: 0 = AS 20 and
    1 = AS 10 (up segment, against construction direction: the ConsEgress bit is the ingress
    flag), 2 = AS 10 and 3 = AS 30 (down segment: the ConsIngress bit is the ingress flag). *)
Definition ex_tr_raw : bytes := repeat 0 92 ++ [130; 0; 0; 0; 16; 146; 0; 1] ++ repeat 0 16.
Definition ex_tr_pp : pparams := mkPP 20 30 0 0 [10; 0; 0; 2] [10; 0; 0; 1] 24 (Some 30041).
Definition ex_tr (kx : nat) (a e : bool) : ScmpReturn.mobs :=
  ScmpReturn.model_q ex_macq ex_topo ex_hosts ex_now ex_now ex_prov ex_tr_pp (ScmpReturn.PAlert kx a e) None
                     0 0 202 202 92 0 ex_tr_raw.

(** the flag of interface 1 of AS 10 (ingress of hop 1): router 10/r0, which receives the packet
    over that interface, answers; the reply names ISD-AS 10, interface 1, identifier and sequence
    of the request, and is delivered to 10.0.0.1 at port 4242 (the identifier) *)
Example C10_traceroute_example_ingress :
  let m := ex_tr 1 false true in
  ScmpReturn.alert_on_path ex_prov (ScmpReturn.PAlert 1 false true) = true /\
  in_flag ex_prov 1 false true = true /\ eg_flag ex_prov 1 false true = false /\
  map (fun s => (t_ia s, t_rtr s)) (fst (ScmpReturn.m_fwd m)) = [(20, 0)] /\
  snd (ScmpReturn.m_fwd m) = Stopped 10 0 KAlert /\
  match ScmpReturn.m_stop m with
  | Some (l, inp, SlowPath rq eg out) =>
    l = ScmpReturn.pos_loc ex_topo ex_prov 1 ScmpReturn.AExt /\
    inp = ScmpReturn.set_alerts 1 false true (ScmpReturn.pos_pkt ex_prov ex_tr_pp 1 ScmpReturn.AExt) /\
    rq = SpAlertIngress /\ out = render ex_prov ex_tr_pp 1 true
  | _ => False
  end /\
  match ScmpReturn.m_reply m, ScmpReturn.m_back m with
  | RouterScmp.SReply r, ScmpReturn.BWalk w =>
    RouterScmp.r_l4 r = [131; 0; 87; 94] ++ ScmpReturn.tr_reply_body 4242 1 10 1 /\
    snd w = Delivered 20 0 [10; 0; 0; 1] 4242 /\ crossed (fst w) = [(20, 1)]
  | _, _ => False
  end /\
  ScmpReturn.c10_ok ex_topo ex_prov ex_tr_pp (ScmpReturn.PAlert 1 false true) 1 1 ScmpReturn.AExt (Some (4242, 1)) 202 92
                    (ScmpReturn.pos_loc ex_topo ex_prov 1 ScmpReturn.AExt)
                    (ScmpReturn.m_reply m) (ScmpReturn.m_back m) = true.
Proof. vm_compute. repeat split; reflexivity. Qed.

(** the flag of interface 2 of AS 10 (egress of hop 2): 20/r0 and 10/r0 forward with the flag
    untouched (10/r0 after the segment change: it does not own interface 2), 10/r1 answers *)
Example C10_traceroute_example_egress :
  let m := ex_tr 2 false true in
  ScmpReturn.alert_on_path ex_prov (ScmpReturn.PAlert 2 false true) = true /\
  eg_flag ex_prov 2 false true = true /\ in_flag ex_prov 2 false true = false /\
  map (fun s => (t_ia s, t_rtr s)) (fst (ScmpReturn.m_fwd m)) = [(20, 0); (10, 0)] /\
  snd (ScmpReturn.m_fwd m) = Stopped 10 1 KAlert /\
  match ScmpReturn.m_stop m with
  | Some (l, inp, SlowPath rq eg out) =>
    l = ScmpReturn.pos_loc ex_topo ex_prov 2 ScmpReturn.ASib /\
    inp = ScmpReturn.set_alerts 2 false true (ScmpReturn.pos_pkt ex_prov ex_tr_pp 2 ScmpReturn.ASib) /\
    rq = SpAlertEgress /\ eg = 2 /\ out = render ex_prov ex_tr_pp 2 true
  | _ => False
  end /\
  match ScmpReturn.m_reply m, ScmpReturn.m_back m with
  | RouterScmp.SReply r, ScmpReturn.BWalk w =>
    RouterScmp.r_l4 r = [131; 0; 87; 92] ++ ScmpReturn.tr_reply_body 4242 1 10 2 /\
    snd w = Delivered 20 0 [10; 0; 0; 1] 4242 /\ crossed (fst w) = [(10, 1); (20, 1)]
  | _, _ => False
  end /\
  ScmpReturn.c10_ok ex_topo ex_prov ex_tr_pp (ScmpReturn.PAlert 2 false true) 2 2 ScmpReturn.ASib (Some (4242, 1)) 202 92
                    (ScmpReturn.pos_loc ex_topo ex_prov 2 ScmpReturn.ASib)
                    (ScmpReturn.m_reply m) (ScmpReturn.m_back m) = true.
Proof. vm_compute. repeat split; reflexivity. Qed.

(** the egress flag of hop 0: the first router (it owns interface 1 of AS 20) answers the host directly *)
Example C10_traceroute_example_first :
  let m := ex_tr 0 true false in
  eg_flag ex_prov 0 true false = true /\
  snd (ScmpReturn.m_fwd m) = Stopped 20 0 KAlert /\
  ScmpReturn.m_back m = ScmpReturn.BDirect 20 0 /\
  ScmpReturn.c10_ok ex_topo ex_prov ex_tr_pp (ScmpReturn.PAlert 0 true false) 0 0 ScmpReturn.AHost (Some (4242, 1)) 202 92
                    (ScmpReturn.pos_loc ex_topo ex_prov 0 ScmpReturn.AHost)
                    (ScmpReturn.m_reply m) (ScmpReturn.m_back m) = true.
Proof. vm_compute. repeat split; reflexivity. Qed.

(** untouched flags: the ConsEgress bit of the last hop field is the flag of no interface of
    the path — all four routers forward, the packet is delivered with the bit still set;
    the ConsIngress bit of the last hop field (interface 1 of AS 30) passes three routers
    untouched and is answered by 30/r0 *)
Example C10_traceroute_example_untouched :
  ScmpReturn.alert_on_path ex_prov (ScmpReturn.PAlert 3 false true) = false /\
  let sent := ScmpReturn.set_alerts 3 false true (render ex_prov ex_tr_pp 0 false) in
  let w := ScmpReturn.run_x ex_macq ex_topo None ex_now (fuel_for sent) (mkLoc 20 0 InInt) sent in
  map (fun x => (t_ia (fst x), t_rtr (fst x))) (fst w) = [(20, 0); (10, 0); (10, 1); (30, 0)] /\
  snd w = ScmpReturn.XFin (Delivered 30 0 [10; 0; 0; 2] 30041) /\
  Forall (fun x => p_hops (snd x) = p_hops sent) (fst w) /\
  let m := ex_tr 3 true false in
  map (fun s => (t_ia s, t_rtr s)) (fst (ScmpReturn.m_fwd m)) = [(20, 0); (10, 0); (10, 1)] /\
  snd (ScmpReturn.m_fwd m) = Stopped 30 0 KAlert /\
  ScmpReturn.c10_ok ex_topo ex_prov ex_tr_pp (ScmpReturn.PAlert 3 true false) 3 3 ScmpReturn.AExt (Some (4242, 1)) 202 92
                    (ScmpReturn.pos_loc ex_topo ex_prov 3 ScmpReturn.AExt)
                    (ScmpReturn.m_reply m) (ScmpReturn.m_back m) = true.
Proof. vm_compute. repeat split; try reflexivity. repeat constructor. Qed.

(** the hypotheses of the traceroute theorems hold at these positions of [ex_prov] *)
Lemma ex_good : good toy ex_topo ex_prov.
Proof. repeat split; vm_compute; reflexivity. Qed.

Example C10_traceroute_hypotheses :
  endpoints_ok ex_topo ex_prov ex_tr_pp = true /\ all_unexpired ex_now ex_prov = true /\
  (* C10_traceroute_ingress: q k r a e := render .. 1 false, 1, 0, false, true *)
  (view ex_prov ex_tr_pp (nhops ex_prov) (length (pv_segs ex_prov)) (render ex_prov ex_tr_pp 1 false) 1 1 false /\
   (1 < nhops ex_prov)%nat /\ crosses ex_prov (1 - 1) = true /\
   in_flag ex_prov 1 false true = true /\ eg_flag ex_prov 1 false true = false) /\
  (* C10_traceroute_egress: q k ing r a e := render .. 0 false, 0, InInt, 0, true, false *)
  (view ex_prov ex_tr_pp (nhops ex_prov) (length (pv_segs ex_prov)) (render ex_prov ex_tr_pp 0 false) 0 0 false /\
   arrives ex_prov 0 InInt /\ eg_rtr ex_topo ex_prov (eff ex_prov 0) = 0 /\
   eg_flag ex_prov (eff ex_prov 0) true false = true /\ in_flag ex_prov (eff ex_prov 0) true false = false) /\
  (* C10_traceroute_egress_sibling / C10_flag_untouched_sibling: q k k0 := render .. 2 true, 2, 1 *)
  (view ex_prov ex_tr_pp (nhops ex_prov) (length (pv_segs ex_prov)) (render ex_prov ex_tr_pp 2 true) 2 2 true /\
   crosses ex_prov 2 = true /\ entry ex_prov 2 = 1%nat /\ crosses ex_prov (1 - 1) = true /\
   as_of ex_topo ex_prov 1 = as_of ex_topo ex_prov 2 /\
   in_rtr ex_topo ex_prov 1 <> eg_rtr ex_topo ex_prov 2 /\
   eg_flag ex_prov 2 false true = true /\ in_flag ex_prov 2 false true = false /\
   (2%nat <> 3%nat \/ eg_flag ex_prov 2 true false = false)) /\
  (* C10_flag_untouched: 10/r0 with the egress flag of hop 2 (it does not own interface 2):
     q k ing r kx a e := render .. 1 false, 1, InExt 1, 0, 2, false, true *)
  (arrives ex_prov 1 (InExt 1) /\ (1%nat <> 2%nat \/ in_flag ex_prov 1 false true = false \/ InExt 1 = InInt) /\
   (eff ex_prov 1 <> 2%nat \/ eg_flag ex_prov (eff ex_prov 1) false true = false \/
    eg_rtr ex_topo ex_prov (eff ex_prov 1) <> 0)) /\
  (* C10_flag_untouched_last: q k ing r kx a e := render .. 3 false, 3, InExt 1, 0, 3, false, true *)
  (view ex_prov ex_tr_pp (nhops ex_prov) (length (pv_segs ex_prov)) (render ex_prov ex_tr_pp 3 false) 3 3 false /\
   4%nat = nhops ex_prov /\ arrives ex_prov 3 (InExt 1) /\
   (3%nat <> 3%nat \/ in_flag ex_prov 3 false true = false)).
Proof.
  split; [vm_compute; reflexivity|]. split; [vm_compute; reflexivity|].
  split.
  { split; [apply view_render|]. repeat split; vm_compute; auto. }
  split.
  { split; [apply view_render|]. split; [left; auto|]. repeat split; vm_compute; reflexivity. }
  split.
  { split; [apply view_render|]. split; [vm_compute; reflexivity|]. split; [vm_compute; reflexivity|].
    split; [vm_compute; reflexivity|]. split; [vm_compute; reflexivity|].
    split; [vm_compute; discriminate|]. split; [vm_compute; reflexivity|]. split; [vm_compute; reflexivity|].
    left. discriminate. }
  split.
  { split; [right; repeat split; vm_compute; auto|]. split; [left; discriminate|].
    right. right. vm_compute. discriminate. }
  split; [apply view_render|]. split; [reflexivity|]. split; [right; repeat split; vm_compute; auto|].
  right. vm_compute. reflexivity.
Qed.

(** both bits of hop 1 set: 10/r0 answers for the ingress interface (1), the packet it hands over
    keeps the other bit ([C10_traceroute_ingress_any] instantiated and run) *)
Example C10_traceroute_example_both :
  let m := ex_tr 1 true true in
  snd (ScmpReturn.m_fwd m) = Stopped 10 0 KAlert /\
  match ScmpReturn.m_stop m with
  | Some (_, _, SlowPath rq eg out) =>
    rq = SpAlertIngress /\ out = ScmpReturn.set_alerts 1 true false (render ex_prov ex_tr_pp 1 true)
  | _ => False
  end /\
  match ScmpReturn.m_reply m with
  | RouterScmp.SReply r => RouterScmp.r_l4 r = [131; 0; 87; 94] ++ ScmpReturn.tr_reply_body 4242 1 10 1
  | _ => False
  end.
Proof. vm_compute. repeat split; reflexivity. Qed.

(** KNOWN FINDING, refuted on the faithful model.  The sender (or time) makes hop field 1 —
    AS 10's hop field of the up segment, traversed against construction direction —
    expired.  Router 10/r0 answers PathExpired BEFORE it has folded the hop's MAC out
    of the SegID; prepareSCMP folds it in "again" for the external link, and router
    20/r0 rejects the answer (InvalidHopFieldMAC): the source host never learns that
    its path expired. *)
Theorem C10_expired_hop_refuted :
  exists macq t hosts now p pp pf tc flow next qnext qoff srt raw,
    let m := ScmpReturn.model_q macq t hosts now now p pp pf None tc flow next qnext qoff srt raw in
    valid_b macq t now p pp = true /\ ScmpReturn.hop_fault pf = true /\
    ScmpReturn.known_early now p pf = true /\
    snd (ScmpReturn.m_fwd m) = Stopped 10 0 (KScmp 4 52) /\
    match ScmpReturn.m_back m with
    | ScmpReturn.BWalk w => snd w = Stopped 20 0 (KScmp 4 51)
    | _ => False
    end /\
    ScmpReturn.c10_ok t p pp pf 1 1 ScmpReturn.AExt None qnext qoff (mkLoc 10 0 (InExt 1))
                      (ScmpReturn.m_reply m) (ScmpReturn.m_back m) = false.
Proof.
  exists ex_macq, ex_topo, ex_hosts, ex_now, ex_prov, ex_pp, (ScmpReturn.PHop FHopExp 1 0), 0, 0, 17, 17, 92%nat, 0, ex_raw.
  vm_compute. repeat split; reflexivity.
Qed.
Print Assumptions C10_expired_hop_refuted.

(** The full statement for the oracle (every scenario of the check outside the known
    finding: interface faults, altered later hop fields, traceroute requests).  Proved
    above for the interface faults ([C10_oracle_holds_on_model]).  For traceroute requests
    the theorems above give every ingredient per router (who raises the request, in which
    state, what the answer says, that it returns) but not the composition into this
    statement about [model_q]; for altered hop fields the oracle is evaluated on every
    generated case by the correspondence check only. *)
Definition C10_oracle_statement : Prop :=
  forall mac t hosts now now' p pp pf fa tc flow next qnext qoff ka kc how trq srt raw r pt,
  let macq := macq_of mac in
  good mac t p -> endpoints_ok t p pp = true ->
  all_unexpired now p = true -> all_unexpired now' p = true -> ScmpReturn.src_ip_ok pp = true ->
  ScmpReturn.pos_ok t p ka how = true -> (kc < nhops p)%nat -> ScmpReturn.no_revisit p kc = true ->
  ((if ScmpReturn.is_alert pf then ScmpReturn.alert_on_path p pf && ScmpReturn.alert_req_ok pf trq
    else ScmpReturn.clean_fault t p pf fa ka kc how)
   || ScmpReturn.hop_fault pf) = true ->
  ScmpReturn.known_early now p pf = false ->
  let m := ScmpReturn.model_q macq t hosts now now' p pp pf fa tc flow next qnext qoff srt raw in
  (exists res, ScmpReturn.m_stop m =
               Some (ScmpReturn.pos_loc t p ka how,
                     ScmpReturn.apply_pfault pf (ScmpReturn.pos_pkt p pp ka how), res)) ->
  ScmpReturn.m_reply m = RouterScmp.SReply r ->
  ScmpReturn.reply_port (RouterScmp.r_l4 r) qnext qoff = Some pt ->
  ScmpReturn.c10_ok t p pp pf ka kc how trq qnext qoff (ScmpReturn.pos_loc t p ka how)
                    (ScmpReturn.m_reply m) (ScmpReturn.m_back m) = true.

(** THE COMPOSED STATEMENT, strongest proved form (audit follow-up).  [C10_oracle_statement] with
    - the scenario an interface fault OR a traceroute request ([clean_fault]: the case names the
      position of the faulty router / of the owner of the flagged interface; [alert_req_ok]: the
      flagged packet is a traceroute request), i.e. WITHOUT the altered-hop-field scenarios
      ([hop_fault]: no proof; for an expired hop the statement is false, see
      [C10_expired_hop_refuted]) and WITHOUT traceroute cases whose named position is not the
      owner's (the check puts those in scope so that an answer by the wrong router violates the
      oracle; [C10_flag_untouched*] show the model never stops there, but that is not composed);
    - one more hypothesis for traceroute requests, [carries]: the four bytes behind the SCMP
      header that the extension skippers find in [raw] are identifier and sequence number of
      the case (the model takes the bytes the fast path left as an input).
    Still assumed, as in [C10_oracle_holds_on_model]: the model's walk stops at the named
    position with the packet of the path (compared with the real walk on every case). *)
Theorem C10_oracle_partial :
  forall mac t hosts now now' p pp pf fa tc flow next qnext qoff ka kc how trq srt raw r pt,
  let macq := macq_of mac in
  good mac t p -> endpoints_ok t p pp = true ->
  all_unexpired now p = true -> all_unexpired now' p = true -> ScmpReturn.src_ip_ok pp = true ->
  ScmpReturn.pos_ok t p ka how = true -> (kc < nhops p)%nat -> ScmpReturn.no_revisit p kc = true ->
  ScmpReturn.clean_fault t p pf fa ka kc how = true -> ScmpReturn.alert_req_ok pf trq = true ->
  (forall id sq, trq = Some (id, sq) -> carries pp next raw id sq) ->
  let m := ScmpReturn.model_q macq t hosts now now' p pp pf fa tc flow next qnext qoff srt raw in
  (exists res, ScmpReturn.m_stop m =
               Some (ScmpReturn.pos_loc t p ka how,
                     ScmpReturn.apply_pfault pf (ScmpReturn.pos_pkt p pp ka how), res)) ->
  ScmpReturn.m_reply m = RouterScmp.SReply r ->
  ScmpReturn.reply_port (RouterScmp.r_l4 r) qnext qoff = Some pt ->
  ScmpReturn.c10_ok t p pp pf ka kc how trq qnext qoff (ScmpReturn.pos_loc t p ka how)
                    (ScmpReturn.m_reply m) (ScmpReturn.m_back m) = true.
Proof. intros. eapply oracle_partial; eassumption. Qed.
Print Assumptions C10_oracle_partial.

(** its hypotheses hold for the traceroute examples above (so it yields their [c10_ok = true]) *)
Example C10_oracle_partial_hypotheses :
  carries ex_tr_pp 202 ex_tr_raw 4242 1 /\
  ScmpReturn.pos_ok ex_topo ex_prov 1 ScmpReturn.AExt = true /\
  ScmpReturn.clean_fault ex_topo ex_prov (ScmpReturn.PAlert 1 false true) None 1 1 ScmpReturn.AExt = true /\
  ScmpReturn.pos_ok ex_topo ex_prov 2 ScmpReturn.ASib = true /\
  ScmpReturn.clean_fault ex_topo ex_prov (ScmpReturn.PAlert 2 false true) None 2 2 ScmpReturn.ASib = true /\
  ScmpReturn.clean_fault ex_topo ex_prov (ScmpReturn.PAlert 0 true false) None 0 0 ScmpReturn.AHost = true /\
  ScmpReturn.no_revisit ex_prov 1 = true /\ ScmpReturn.no_revisit ex_prov 2 = true /\
  ScmpReturn.src_ip_ok ex_tr_pp = true /\
  match ScmpReturn.m_reply (ex_tr 2 false true) with
  | RouterScmp.SReply r => ScmpReturn.reply_port (RouterScmp.r_l4 r) 202 92 = Some 4242
  | _ => False
  end.
Proof.
  split.
  - intros ll H. vm_compute in H. injection H as <-. reflexivity.
  - vm_compute. repeat split; reflexivity.
Qed.
