(** C38 — signed control-plane messages verify only when untouched.
    Model: Model/Signed.v (pkg/scrypto/signed msg.go, algo.go).  The signature
    scheme ([sign_with], [sig_valid], [pub]), the hash and the serialisation are
    universally quantified; the only assumptions, stated as premises where they
    are needed, are "honest signatures verify" and "what Sign marshals is what
    Verify reads back" (the latter is proved for the real protobuf encoding in
    [C38_serialisation_roundtrip]). *)
From Coq Require Import List NArith ZArith Bool Lia.
From Scion Require Import Lib.Check Lib.Bytes Lib.PBWire Model.Signed Proofs.Signed.
Import ListNotations.
Import Signed.
Local Open Scope N_scope.

(** Sign then Verify under the matching public key, with the same associated
    data, succeeds and returns the signed header and body. *)
Theorem C38_roundtrip :
  forall (SK PK SG : Type) (sign_with : SK -> bytes -> SG) (sig_valid : PK -> bytes -> SG -> bool)
         (pub : SK -> PK) (hash : N -> bytes -> bytes) (kind : PK -> N)
         (ser : header -> bytes -> bytes) (parse : bytes -> option (header * bytes))
         (wf : header -> bytes -> Prop),
    (forall sk m, sig_valid (pub sk) m (sign_with sk m) = true) ->
    (forall h b, wf h b -> parse (ser h b) = Some (h, b)) ->
    forall sk h b ad m,
      wf h b ->
      sign SK PK SG sign_with pub hash kind ser sk h b ad = Ok m ->
      exists k, sk = Some k /\
                verify PK SG sig_valid hash kind parse m (Some (pub k)) ad = Ok (h, b).
Proof. exact roundtrip. Qed.
Print Assumptions C38_roundtrip.

(** Tampering, as a reduction that holds for EVERY scheme (no assumption): if
    Verify accepts (m', pk', ad') and this differs from every message the signer
    produced for the queries Q — in header-and-body, signature, concatenated
    associated data or key — then [sig_valid] accepted the triple
    (pk', input', signature'); and if that triple is one the signer produced (no
    forgery), then either two different (hash, message) pairs collide, or bytes
    moved between header-and-body and associated data ([splice], the known
    finding ad-splice). *)
Theorem C38_tamper_reduction :
  forall (SK PK SG : Type) (sign_with : SK -> bytes -> SG) (sig_valid : PK -> bytes -> SG -> bool)
         (pub : SK -> PK) (hash : N -> bytes -> bytes) (kind : PK -> N)
         (ser : header -> bytes -> bytes) (parse : bytes -> option (header * bytes))
         (sk : SK) (Q : list query) (m' : msg SG) (pk' : PK) (ad' : list bytes) h' b',
    verify PK SG sig_valid hash kind parse m' (Some pk') ad' = Ok (h', b') ->
    (forall h b ad m, In (h, b, ad) Q ->
       sign SK PK SG sign_with pub hash kind ser (Some sk) h b ad = Ok m ->
       (m_hb m', m_sig m', concat ad', pk') <> (m_hb m, m_sig m, concat ad, pub sk)) ->
    let d' := sig_input hash (h_algo h') (m_hb m') ad' in
    sig_valid pk' d' (m_sig m') = true /\
    forall h b ad m, In (h, b, ad) Q ->
      sign SK PK SG sign_with pub hash kind ser (Some sk) h b ad = Ok m ->
      (pk', d', m_sig m') = (pub sk, sig_input hash (h_algo h) (m_hb m) ad, m_sig m) ->
      collision hash (h_algo h) (h_algo h') (m_hb m ++ concat ad) (m_hb m' ++ concat ad')
      \/ splice (m_hb m) (m_hb m') (concat ad) (concat ad').
Proof. exact tamper_reduction. Qed.
Print Assumptions C38_tamper_reduction.

(** An unknown algorithm or a key of an unsupported type makes Sign and Verify fail. *)
Theorem C38_algo_mismatch :
  forall (SK PK SG : Type) (sign_with : SK -> bytes -> SG) (sig_valid : PK -> bytes -> SG -> bool)
         (pub : SK -> PK) (hash : N -> bytes -> bytes) (kind : PK -> N)
         (ser : header -> bytes -> bytes) (parse : bytes -> option (header * bytes)),
    (forall sk h b ad,
        (forall k, sk = Some k -> algo_details (h_algo h) = None \/ kind (pub k) <> 1) ->
        forall m, sign SK PK SG sign_with pub hash kind ser sk h b ad <> Ok m) /\
    (forall m key ad,
        (forall k h b, key = Some k -> parse (m_hb m) = Some (h, b) ->
                       algo_details (h_algo h) = None \/ kind k <> 1) ->
        forall r, verify PK SG sig_valid hash kind parse m key ad <> Ok r).
Proof.
  intros. split.
  - intros. now apply sign_algo_mismatch.
  - intros. now apply verify_algo_mismatch.
Qed.
Print Assumptions C38_algo_mismatch.

(** Sign and Verify depend on the associated-data list only through its
    concatenation (which also fixes the total length). *)
Theorem C38_ad_concat :
  forall (SK PK SG : Type) (sign_with : SK -> bytes -> SG) (sig_valid : PK -> bytes -> SG -> bool)
         (pub : SK -> PK) (hash : N -> bytes -> bytes) (kind : PK -> N)
         (ser : header -> bytes -> bytes) (parse : bytes -> option (header * bytes))
         ad1 ad2,
    concat ad1 = concat ad2 ->
    (forall m k, verify PK SG sig_valid hash kind parse m k ad1
                 = verify PK SG sig_valid hash kind parse m k ad2) /\
    (forall sk h b, sign SK PK SG sign_with pub hash kind ser sk h b ad1
                    = sign SK PK SG sign_with pub hash kind ser sk h b ad2).
Proof.
  intros. split; intros.
  - now apply verify_ad_concat.
  - now apply sign_ad_concat.
Qed.
Print Assumptions C38_ad_concat.

(** A successful verification returns exactly what the verified bytes contain;
    for the header-and-body of a signed message that is the signed header and body. *)
Theorem C38_returns_signed :
  forall (SK PK SG : Type) (sign_with : SK -> bytes -> SG) (sig_valid : PK -> bytes -> SG -> bool)
         (pub : SK -> PK) (hash : N -> bytes -> bytes) (kind : PK -> N)
         (ser : header -> bytes -> bytes) (parse : bytes -> option (header * bytes))
         (wf : header -> bytes -> Prop),
    (forall h b, wf h b -> parse (ser h b) = Some (h, b)) ->
    (forall m key ad h b,
        verify PK SG sig_valid hash kind parse m key ad = Ok (h, b) -> parse (m_hb m) = Some (h, b)) /\
    (forall sk h b ad m sg' key ad' h' b',
        wf h b ->
        sign SK PK SG sign_with pub hash kind ser sk h b ad = Ok m ->
        verify PK SG sig_valid hash kind parse (mkmsg (m_hb m) sg') key ad' = Ok (h', b') ->
        (h', b') = (h, b)).
Proof.
  intros until wf. intros PS. split.
  - intros. eapply returns_parsed; eauto.
  - intros. eapply returns_signed; eauto.
Qed.
Print Assumptions C38_returns_signed.

(** The serialisation premise holds for the protobuf encoding the code uses. *)
Theorem C38_serialisation_roundtrip :
  forall h b, signable h b -> parse_hb (ser_hb h b) = Some (h, b).
Proof. exact parse_ser_hb. Qed.
Print Assumptions C38_serialisation_roundtrip.

(** The premises are satisfiable: the toy scheme "signature of m under k is
    (k, m)" with the real serialisation.  It has neither forgeries nor
    collisions, so there a verifying message that differs from the signed one
    can only be a splice. *)
Theorem C38_toy_instance :
  (forall sk m, Toy.sig_valid (Toy.pub sk) m (Toy.sign_with sk m) = true) /\
  (forall h b, signable h b -> parse_hb (ser_hb h b) = Some (h, b)) /\
  (forall sk h b ad m, signable h b -> Toy.sign sk h b ad = Ok m ->
     exists k, sk = Some k /\ Toy.verify m (Some (Toy.pub k)) ad = Ok (h, b)).
Proof.
  split; [exact Toy.correct|]. split; [exact parse_ser_hb|].
  intros. eapply (roundtrip N N (N * bytes)); eauto using Toy.correct, parse_ser_hb.
Qed.
Print Assumptions C38_toy_instance.

Theorem C38_toy_only_splice :
  forall sk h b ad m m' pk' ad' h' b',
    Toy.sign (Some sk) h b ad = Ok m ->
    Toy.verify m' (Some pk') ad' = Ok (h', b') ->
    (m_hb m', m_sig m', concat ad', pk') <> (m_hb m, m_sig m, concat ad, Toy.pub sk) ->
    (pk', m_sig m') <> (Toy.pub sk, m_sig m)
    \/ splice (m_hb m) (m_hb m') (concat ad) (concat ad').
Proof.
  intros sk h b ad m m' pk' ad' h' b' S V D.
  destruct (N.eq_dec pk' (Toy.pub sk)) as [Ek|Nk]; [|left; intros E; inversion E; contradiction].
  pose proof V as V0. apply verify_ok_inv in V0. destruct V0 as (k & Hk & P & L & A & Sv).
  inversion Hk; subst k. apply Toy.unforgeable in Sv.
  pose proof S as S0. apply sign_ok_inv in S0. destruct S0 as (k0 & Hk0 & L0 & A0 & Em).
  inversion Hk0; subst k0.
  destruct (list_eq_dec N.eq_dec (snd (m_sig m')) (snd (m_sig m))) as [Ed|Nd].
  2:{ left. intros E. inversion E as [[E1 E2]]. apply Nd. now rewrite E2. }
  right.
  assert (Hd : sig_input hash_c (h_algo h') (m_hb m') ad' = sig_input hash_c (h_algo h) (m_hb m) ad).
  { rewrite Sv in Ed. rewrite Em in Ed. cbn [m_sig m_hb Toy.sign_with snd] in Ed.
    rewrite Em. cbn [m_hb]. exact Ed. }
  assert (Hsig : m_sig m' = m_sig m).
  { rewrite Sv, Em. cbn [m_sig m_hb]. unfold Toy.sign_with. rewrite Ek. f_equal.
    rewrite Em in Hd. cbn [m_hb] in Hd. exact Hd. }
  unfold sig_input in Hd.
  assert (Hnz : forall a k, check_algo a k = true -> algo_details a <> None).
  { intros a k. unfold check_algo. destruct (algo_details a); [discriminate|discriminate]. }
  apply hash_c_inj in Hd; [|eapply Hnz; eauto|eapply Hnz; eauto].
  inversion Hd as [[H1 H2]].
  split; [|exact H2].
  intros Hhb. apply D. rewrite Hhb in H2. apply app_inv_head in H2. now rewrite Hhb, Hsig, H2, Ek.
Qed.
Print Assumptions C38_toy_only_splice.

(** ------------------------------------------------------------------
    The oracle evaluated by the correspondence check ([Signed.check]). *)

(** Sign cases: what the model marshals parses back to the requested header and body. *)
Theorem C38_oracle_sign_holds_on_model :
  forall k h body ad, signable h body ->
    let m := model_sign k h body ad in oracle_sign h body (fst m) (snd m) = true.
Proof. exact oracle_sign_model. Qed.
Print Assumptions C38_oracle_sign_holds_on_model.

(** Verify cases, outside the known finding ad-splice and when the supplied
    crypto verdicts contain no forgery (every accepted triple is the honest one):
    the model accepts exactly the untouched message and returns (h, body). *)
Theorem C38_oracle_verify_except_known :
  forall h body cad kid hb sg hb' sg' ad' k' tbl,
    signable h body -> hb = ser_hb h body ->
    ad_len [cad] = h_adlen h -> check_algo (h_algo h) 1 = true ->
    tbl_honest h cad kid hb sg tbl ->
    (unchanged cad kid hb sg hb' sg' ad' k' = true ->
     In (kid, hash_c (hash_of (h_algo h)) (hb ++ cad), sg) tbl) ->
    known_splice cad hb hb' ad' = false ->
    oracle_verify h body cad kid hb sg hb' sg' ad' k'
                  (to_opt (verify_c tbl hb' sg' k' ad')) = true.
Proof. exact oracle_verify_model. Qed.
Print Assumptions C38_oracle_verify_except_known.

(** Hand-marshalled messages: whatever the model accepts satisfies the property's conditions. *)
Theorem C38_oracle_raw_holds_on_model :
  forall hb' sg' ad' k' tbl,
    oracle_raw hb' sg' ad' k' tbl (to_opt (verify_c tbl hb' sg' k' ad')) = true.
Proof. exact oracle_raw_model. Qed.
Print Assumptions C38_oracle_raw_holds_on_model.

(** The finding: the signature input is header-and-body followed by the
    associated data with nothing in between, and the protobuf decoder lets a later
    occurrence of a field override an earlier one.  A message signed with
    associated data X ++ Y, where X is itself a marshalled header-and-body, also
    verifies as header-and-body hb ++ X with associated data Y — and Verify then
    returns the header and body found in X, which nobody signed. *)
Definition wit_h  : header := mkh 1 [7] zero_time [] 20.
Definition wit_b  : bytes := [1; 2].
Definition wit_h' : header := mkh 1 [66] zero_time [9; 9] 2.
Definition wit_b' : bytes := [6; 6; 6].
Definition wit_y  : bytes := [4; 5].
Definition wit_x  : bytes := ser_hb wit_h' wit_b'.
Definition wit_hb : bytes := ser_hb wit_h wit_b.
Definition wit_sg : bytes := [48; 0].
Definition wit_tbl : tbl_t := [(3, hash_c 1 (wit_hb ++ wit_x ++ wit_y), wit_sg)].

Theorem C38_tamper_refuted :
  signable wit_h wit_b /\
  ad_len [wit_x ++ wit_y] = h_adlen wit_h /\ check_algo (h_algo wit_h) 1 = true /\
  tbl_honest wit_h (wit_x ++ wit_y) 3 wit_hb wit_sg wit_tbl /\
  to_opt (verify_c wit_tbl (wit_hb ++ wit_x) wit_sg (Some (1, 3)) [wit_y]) = Some (wit_h', wit_b') /\
  oracle_verify wit_h wit_b (wit_x ++ wit_y) 3 wit_hb wit_sg (wit_hb ++ wit_x) wit_sg [wit_y] (Some (1, 3))
                (to_opt (verify_c wit_tbl (wit_hb ++ wit_x) wit_sg (Some (1, 3)) [wit_y])) = false /\
  known_splice (wit_x ++ wit_y) wit_hb (wit_hb ++ wit_x) [wit_y] = true.
Proof.
  split.
  { unfold signable, small. cbn. repeat split; try lia; auto. }
  split; [reflexivity|]. split; [reflexivity|]. split.
  { intros e [<-|[]]. reflexivity. }
  split; [vm_compute; reflexivity|]. split; vm_compute; reflexivity.
Qed.
Print Assumptions C38_tamper_refuted.

(** The same splice in the toy scheme, end to end: Sign, then Verify of another
    message under the same key succeeds. *)
Theorem C38_toy_splice_accepted :
  exists m, Toy.sign (Some 3) wit_h wit_b [wit_x; wit_y] = Ok m /\
            Toy.verify (mkmsg (m_hb m ++ wit_x) (m_sig m)) (Some 3) [wit_y] = Ok (wit_h', wit_b') /\
            (wit_h', wit_b') <> (wit_h, wit_b).
Proof.
  eexists. split; [vm_compute; reflexivity|]. split; [vm_compute; reflexivity|]. discriminate.
Qed.
Print Assumptions C38_toy_splice_accepted.

(** Non-vacuity: a concrete signed message with a timestamp, metadata and two
    chunks of associated data round-trips in the toy scheme, and flipping one
    body byte is rejected. *)
Example C38_example :
  let h := mkh 2 [1; 2; 3] (1700000000, 5)%Z [9] 5 in
  exists m, Toy.sign (Some 7) h [10; 20] [[1; 2]; [3; 4; 5]] = Ok m /\
            signable h [10; 20] /\
            Toy.verify m (Some 7) [[1; 2; 3]; [4; 5]] = Ok (h, [10; 20]) /\
            Toy.verify (mkmsg (m_hb m) (m_sig m)) (Some 8) [[1; 2; 3]; [4; 5]] = Err ESig /\
            Toy.verify m (Some 7) [[1; 2; 3]; [4; 6]] = Err ESig /\
            Toy.verify m (Some 7) [[1; 2; 3]; [4]] = Err EAdLen.
Proof.
  eexists. split; [vm_compute; reflexivity|]. split.
  { unfold signable, small. cbn. repeat split; try lia; auto. }
  repeat split; vm_compute; reflexivity.
Qed.
