(** C35 — the trust store only advances along verified TRC successions.
    Property theorems only; proofs are in Proofs/TrustStore.v and Proofs/TrustStoreOracle.v.
    [verify] (SignedTRC.Verify) and [fetch] (the remote) are arbitrary functions:
    every failure pattern is covered. *)
From Coq Require Import List NArith ZArith Bool Lia.
From Scion Require Import Lib.Check Model.PKIChain Model.TrustStore Proofs.TrustStore
     Proofs.TrustStoreOracle.
Import ListNotations.
Import PKIChain TrustStore.
Local Open Scope N_scope.

(** One notification of a newer serial: the store grows by TRCs [added] that
    were fetched for serials latest+1, latest+2, ... in this order, each
    verified against the previously latest one; the requests made are exactly
    these serials; the call succeeds iff all missing TRCs were stored, and
    otherwise stops at the first TRC that cannot be fetched or verified, keeping
    what was stored before. *)
Theorem C35_in_order : forall verify fetch, verify_ids verify ->
  forall s isd base serial l r s' req,
  latest_trc s isd = Some l -> t_base l = base -> t_serial l < serial ->
  notify_trc verify fetch true s (isd, base, serial) = (r, s', req) ->
  exists added,
    s' = s ++ added
    /\ chain_ok verify fetch l added
    /\ req = seqN (t_serial l + 1) (length req)
    /\ ((r = NOk /\ N.of_nat (length added) = serial - t_serial l /\ length req = length added)
        \/ (r = NErrFetch /\ length req = S (length added)
            /\ N.of_nat (length added) < serial - t_serial l
            /\ fetch (isd, base, t_serial (last added l) + 1) = None)
        \/ (r = NErrVerify /\ length req = S (length added)
            /\ N.of_nat (length added) < serial - t_serial l
            /\ exists f, fetch (isd, base, t_serial (last added l) + 1) = Some f
                         /\ verify (last added l) f = false)).
Proof.
  intros verify fetch Hids s isd base serial l r s' req L B S N.
  destruct (notify_update verify fetch Hids _ _ _ _ _ _ _ _ L B S N) as (added & E & C & Q & End).
  destruct (latest_in _ _ _ L) as [_ Li].
  exists added. repeat split; auto.
  destruct End as [E1 E2 | E1 E2 E3 | f0 E1 E2 E3 E4].
  - left. repeat split; auto; try congruence. rewrite E1. now rewrite N2Nat.id.
  - right. left. repeat split; auto; try lia. now rewrite <- Li, <- B.
  - right. right. repeat split; auto; try lia. exists f0. rewrite <- Li, <- B. auto.
Qed.
Print Assumptions C35_in_order.

(** The members of such a chain really are serial+1, serial+2, ... of the same ISD and base. *)
Theorem C35_in_order_ids : forall verify fetch, verify_ids verify ->
  forall cur added, chain_ok verify fetch cur added ->
  forall k f, nth_error added k = Some f ->
    t_isd f = t_isd cur /\ t_base f = t_base cur /\ t_serial f = t_serial cur + N.of_nat (S k).
Proof.
  intros verify fetch Hids cur added. revert cur.
  induction added as [|g r IH]; intros cur C k f Hk; [destruct k; discriminate|].
  destruct C as (_ & V & C). destruct (Hids _ _ V) as (I & B & Sg).
  destruct k as [|k]; cbn in Hk.
  - inversion Hk; subst. repeat split; auto; try (rewrite Sg; lia).
  - destruct (IH g C k f Hk) as (I' & B' & S'). repeat split; try congruence.
    rewrite S', Sg. rewrite !Nat2N.inj_succ. lia.
Qed.
Print Assumptions C35_in_order_ids.

(** Nothing happens for a stale or current serial, without a TRC for the ISD,
    or when recursion is refused. *)
Theorem C35_nothing_to_do : forall verify fetch rec s isd base serial,
  (latest_trc s isd = None ->
     notify_trc verify fetch rec s (isd, base, serial) = (NErrNoTRC, s, []))
  /\ (forall l, latest_trc s isd = Some l -> t_base l = base -> serial <= t_serial l ->
        notify_trc verify fetch rec s (isd, base, serial) = (NOk, s, []))
  /\ (forall l, latest_trc s isd = Some l -> t_base l = base -> t_serial l < serial -> rec = false ->
        notify_trc verify fetch rec s (isd, base, serial) = (NErrRec, s, [])).
Proof.
  intros. repeat split; intros.
  - now apply notify_no_trc.
  - eapply notify_stale; eauto.
  - subst rec. eapply notify_no_recursion; eauto.
Qed.
Print Assumptions C35_nothing_to_do.

(** A TRC id with another base number is never accepted: the call fails and
    neither the store nor the network is touched. *)
Theorem C35_base_mismatch : forall verify fetch rec s isd base serial l,
  latest_trc s isd = Some l -> t_base l <> base ->
  notify_trc verify fetch rec s (isd, base, serial) = (NErrBase, s, []).
Proof. intros. eapply notify_base_mismatch; eauto. Qed.
Print Assumptions C35_base_mismatch.

(** Over any history of notifications with arbitrary fetchers and an arbitrary
    verifier: nothing is ever removed and the latest TRC of an ISD never regresses. *)
Theorem C35_no_regress : forall verify ops s isd l,
  latest_trc s isd = Some l ->
  (forall t, In t s -> In t (grun verify s ops))
  /\ exists l', latest_trc (grun verify s ops) isd = Some l' /\ id_le l l' = true.
Proof.
  intros verify ops s isd l L. destruct (grun_grows verify ops s) as (added & E). rewrite E. split.
  - intros t Ht. apply in_or_app. now left.
  - now apply superset_no_regress.
Qed.
Print Assumptions C35_no_regress.

(** Chain invariant over any history: every non-base TRC in the store has its
    predecessor in the store and was verified against it. *)
Theorem C35_chain_invariant : forall verify, verify_ids verify ->
  forall ops s, chain_inv verify s -> chain_inv verify (grun verify s ops).
Proof. intros. now apply grun_chain_inv. Qed.
Print Assumptions C35_chain_invariant.

(** Scripted histories (the form used by the correspondence cases) are such histories,
    and the concrete update check used there guarantees the id discipline. *)
Theorem C35_scripted_instance : forall ops s,
  run verify_update s ops = grun verify_update s (map gop_of ops) /\ verify_ids verify_update.
Proof. intros. split; [apply run_grun | exact verify_update_ids]. Qed.
Print Assumptions C35_scripted_instance.

(** TRCs loaded from disk: whatever is in the store afterwards was there before
    or comes from a file whose validity has started; TRCs from the future are ignored. *)
Theorem C35_future_ignored : forall now files s e l i s',
  load_trcs now files s [] [] = (e, l, i, s') ->
  forall t, In t s' ->
    In t s \/ (exists name, In (name, FTRC t) files /\ (t_nb t <= now)%Z).
Proof. intros. eapply load_trcs_origin; eauto. Qed.
Print Assumptions C35_future_ignored.

(** Loading from disk never removes a stored TRC, so (with [C35_latest_is_greatest])
    the latest TRC of an ISD never regresses through LoadTRCs either. *)
Theorem C35_load_keeps_store : forall now files s e l i s',
  load_trcs now files s [] [] = (e, l, i, s') -> forall t, In t s -> In t s'.
Proof. intros. eapply load_trcs_grows; eauto. Qed.
Print Assumptions C35_load_keeps_store.

Theorem C35_load_no_regress : forall now files s e l i s' isd l0,
  load_trcs now files s [] [] = (e, l, i, s') -> latest_trc s isd = Some l0 ->
  exists l1, latest_trc s' isd = Some l1 /\ id_le l0 l1 = true.
Proof.
  intros now files s e l i s' isd l0 H L. destruct (latest_in _ _ _ L) as [Hin Hi].
  assert (Hin' : In l0 s') by (eapply load_trcs_grows; eauto).
  destruct (latest_some s' isd l0 Hin' Hi) as (l1 & L1). exists l1. split; auto.
  eapply latest_max; eauto.
Qed.
Print Assumptions C35_load_no_regress.

(** The oracles evaluated on the implementation's observations hold on the model. *)
Theorem C35_oracle_history_holds_on_model : forall init ops,
  hist_oracle init ops (trace verify_update init ops) = true.
Proof. intros. apply hist_oracle_model. Qed.
Print Assumptions C35_oracle_history_holds_on_model.

Theorem C35_oracle_load_holds_on_model : forall now files init,
  let s' := snd (load_trcs now files init [] []) in
  load_oracle now init s' (latest_key s' 1) = true.
Proof. intros. apply load_oracle_model. Qed.

(** A "latest" lookup returns the greatest stored TRC of the ISD, whatever the
    order in which the TRCs were inserted. *)
Theorem C35_latest_is_greatest : forall s isd l,
  latest_trc s isd = Some l ->
  In l s /\ t_isd l = isd /\ forall t, In t s -> t_isd t = isd -> id_le t l = true.
Proof.
  intros s isd l L. destruct (latest_in _ _ _ L). repeat split; auto. now apply latest_max.
Qed.
Print Assumptions C35_latest_is_greatest.
Print Assumptions C35_oracle_load_holds_on_model.

(** Non-vacuity: store {1}; the remote has 2, 3 and a 4 with invalid signatures.
    Notifying serial 5 stores 2 and 3, requests 2, 3, 4 and fails; a later
    notification of another base changes nothing. *)
Module Ex.
Definition t (serial sig : N) := mkt (10 + serial) 1 1 serial 0 100 0 [] 1 sig.
Definition script := [((1, 1, 2), t 2 1); ((1, 1, 3), t 3 1); ((1, 1, 4), t 4 0); ((1, 1, 5), t 5 1)].
Definition ops := [mkop 1 1 5 true script; mkop 1 7 9 true script; mkop 1 1 2 true script].
End Ex.
Example C35_example :
  map (fun x => (fst (fst x), snd (fst x), map t_serial (snd x))) (trace verify_update [Ex.t 1 1] Ex.ops)
  = [(false, [2; 3; 4], [1; 2; 3]); (false, [], [1; 2; 3]); (true, [], [1; 2; 3])]
  /\ chain_inv verify_update (run verify_update [Ex.t 1 1] Ex.ops).
Proof.
  split; [vm_compute; reflexivity|].
  destruct (C35_scripted_instance Ex.ops [Ex.t 1 1]) as [-> Hids].
  apply C35_chain_invariant; auto.
  intros x [<-|[]] Hb. vm_compute in Hb. discriminate.
Qed.

(** Non-vacuity of [C35_future_ignored] / [C35_load_keeps_store]: a directory with
    serial 2, a TRC of the future (serial 4, valid from 500), serial 3, a garbage
    file and serial 4, loaded at time 50 into the store {1}: 2 and 3 are loaded,
    the future TRC is ignored, the garbage file stops the load with an error
    (the last file is never read), serial 1 is still there. *)
Example C35_load_example :
  let fut := mkt 99 1 1 4 500 900 0 [] 1 1 in
  (let '(e, l, i, s) := load_trcs 50 [(1, FTRC (Ex.t 2 1)); (2, FTRC fut); (3, FTRC (Ex.t 3 1)); (4, FBad);
                                       (5, FTRC (Ex.t 4 1))] [Ex.t 1 1] [] [] in
   (e, l, i, map t_serial s, latest_key s 1))
  = (true, [1; 3], [2], [1; 2; 3], [1; 1; 3; 13]).
Proof. vm_compute. reflexivity. Qed.
