(** C48 — the ring buffer (private/ringbuf, gateway/dataplane pktRing) is a
    linearizable bounded FIFO queue.  Property theorems only. *)
From Coq Require Import List NArith ZArith Bool Arith Lia Permutation.
From Scion Require Import Lib.Check Model.Ring Model.PktLin Model.RingLin Proofs.Ring Proofs.RingLTS
  Proofs.RingLin Proofs.PktLin.
Import ListNotations.
Import Ring RingLin.

(** A ring made by [New] satisfies the representation invariant and holds the
    initial content; every critical section ([Write], [Read], [Close], with or
    without wrap-around of the two indices) started in a state satisfying the
    invariant preserves it, returns exactly what the bounded FIFO returns
    (count, entries, -1 after close, or "would wait"), and moves the abstract
    queue -- the [readable] cells from [readIndex], wrapping -- as the FIFO does. *)
Theorem C48_refines_fifo :
  (forall c init, Inv (new c init) /\ abs (new c init) = init_queue init /\
                  cap (new c init) = init_cap c init) /\
  forall r o, Inv r ->
    let '(r', x, _) := seq_full r o in
    Inv r' /\ cap r' = cap r /\ spec_step (cap r) (abs_fifo r) o = (abs_fifo r', x).
Proof.
  split.
  - intros c init. split; [apply inv_new | apply abs_new].
  - exact step_refines.
Qed.
Print Assumptions C48_refines_fifo.

(** No call transfers more than the capacity, the requested amount, or the
    stored amount (reads) / free space (writes); the counters move by exactly
    the returned count. *)
Theorem C48_bounds : forall r o r' k got bc,
  Inv r -> seq_full r o = (r', Ret k got, bc) ->
  (k <= Z.of_nat (cap r))%Z /\
  match o with
  | Write es _ => (k <= Z.of_nat (length es))%Z /\ (k <= Z.of_nat (writable r))%Z /\ got = [] /\
                  ((0 <= k)%Z -> readable r' = readable r + Z.to_nat k /\
                                 writable r' = writable r - Z.to_nat k)
  | Read n _ => (k <= Z.of_nat n)%Z /\ (k <= Z.of_nat (readable r))%Z /\
                ((0 <= k)%Z -> Z.of_nat (length got) = k /\
                               readable r' = readable r - Z.to_nat k /\
                               writable r' = writable r + Z.to_nat k)
  | Close => k = 0%Z /\ got = []
  end.
Proof. exact step_bounds. Qed.
Print Assumptions C48_bounds.

(** Every execution of the concurrent system -- any number of threads, any
    schedule of calls, critical sections, broadcasts, spurious wake-ups and
    returns -- has a linearization [l]: the operations in the order of their
    final critical section.  [l] replays on the bounded FIFO from the initial
    content to the current content with exactly the recorded results, respects
    the real-time order of the invocation/response stamps (so each critical
    section lies between its call and its return), and consists of the completed
    history plus the calls that are past their critical section. *)
Theorem C48_linearizable : forall r tr s,
  Inv r -> lrun (init_sys r) tr = Some s ->
  let l := map (close_rec (clock s)) (log s) in
  spec_exec (cap r) (abs_fifo r) l = Some (abs_fifo (rg s)) /\
  rt_ok l /\
  Permutation l (hist s ++ map (close_rec (clock s)) (filter (fun e => negb (l_returned e)) (log s))).
Proof. exact lts_linearization. Qed.
Print Assumptions C48_linearizable.

(** In particular, when no call is between its critical section and its return,
    the completed history is linearizable in the usual sense. *)
Theorem C48_history_linearizable : forall r tr s,
  Inv r -> lrun (init_sys r) tr = Some s -> quiescent s ->
  Linearizable (cap r) (abs_fifo r) (hist s).
Proof. exact lts_linearizable. Qed.
Print Assumptions C48_history_linearizable.

(** Entries are read in write order, each at most once, none is lost: for the
    linearization of any execution, what has been read so far followed by what
    is still stored equals the initial content followed by the accepted
    prefixes of all writes, as sequences. *)
Theorem C48_fifo_order : forall r tr s,
  Inv r -> lrun (init_sys r) tr = Some s ->
  let l := map (close_rec (clock s)) (log s) in
  map Some (abs r) ++ map Some (flat_map written l) =
  flat_map was_read l ++ map Some (abs (rg s)).
Proof.
  intros r tr s HI E l. destruct (lts_linearization r tr s HI E) as (S & _ & _).
  exact (spec_exec_content _ _ _ _ S).
Qed.
Print Assumptions C48_fifo_order.

(** No lost wake-up: in every reachable state a thread sleeping in [Wait] has a
    true wait condition -- the ring is open and (reader) nothing is stored,
    resp. (writer) no space is free.  So data, space and close release blocked
    callers. *)
Theorem C48_no_lost_wakeup : forall r tr s t o i,
  Inv r -> lrun (init_sys r) tr = Some s -> thr s t = Waiting o i ->
  guard (rg s) o = true /\ closed (rg s) = false /\
  match o with
  | Write _ _ => writable (rg s) = 0
  | Read _ _ => readable (rg s) = 0
  | Close => False end.
Proof.
  intros r tr s t o i HI E Et. split.
  - assert (S := lts_no_lost_wakeup r tr s HI E t). unfold stuck in S. rewrite Et in S.
    now apply negb_false_iff in S.
  - eapply lts_waiting_means; eauto.
Qed.
Print Assumptions C48_no_lost_wakeup.

(** The invariant depends on every broadcast the code performs: leave out any
    one of them and some schedule leaves a thread asleep that could proceed. *)
Definition drop_write_bc (o : op) (_ : cond) := match o with Write _ _ => false | _ => true end.
Definition drop_read_bc (o : op) (_ : cond) := match o with Read _ _ => false | _ => true end.
Definition drop_close_rd (o : op) (c : cond) :=
  match o, c with Close, CReadable => false | _, _ => true end.
Definition drop_close_wr (o : op) (c : cond) :=
  match o, c with Close, CWritable => false | _, _ => true end.

Theorem C48_every_broadcast_needed :
  forall keep, In keep [drop_write_bc; drop_read_bc; drop_close_rd; drop_close_wr] ->
  exists tr s t, lrun_gen keep (init_sys (new_empty 1)) tr = Some s /\ stuck s t = true.
Proof.
  intros keep [<-|[<-|[<-|[<-|[]]]]].
  - exists [LCall 0 (Read 1 true); LRun 0; LCall 1 (Write [5%N] false); LRun 1].
    eexists. exists 0. split; [vm_compute; reflexivity | vm_compute; reflexivity].
  - exists [LCall 1 (Write [5%N] false); LRun 1; LRet 1; LCall 0 (Write [6%N] true); LRun 0;
            LCall 2 (Read 1 false); LRun 2].
    eexists. exists 0. split; [vm_compute; reflexivity | vm_compute; reflexivity].
  - exists [LCall 0 (Read 1 true); LRun 0; LCall 1 Close; LRun 1].
    eexists. exists 0. split; [vm_compute; reflexivity | vm_compute; reflexivity].
  - exists [LCall 1 (Write [5%N] false); LRun 1; LRet 1; LCall 0 (Write [6%N] true); LRun 0;
            LCall 2 Close; LRun 2].
    eexists. exists 0. split; [vm_compute; reflexivity | vm_compute; reflexivity].
Qed.
Print Assumptions C48_every_broadcast_needed.

(** After Close: the ring stays closed, writes fail with -1 and change nothing,
    reads return the remaining entries in order and report -1 only once the ring
    is empty; no call ever waits. *)
Theorem C48_close : forall r, Inv r ->
  (closed (fst (seq_step r Close)) = true /\ abs (fst (seq_step r Close)) = abs r) /\
  (closed r = true ->
   (forall es b, exists r', seq_step r (Write es b) = (r', Ret (-1) []) /\
                            abs r' = abs r /\ closed r' = true) /\
   (forall k b, let n := Nat.min (length (abs r)) k in
      exists r', seq_step r (Read k b) =
                 (r', if length (abs r) =? 0 then Ret (-1) []
                      else Ret (Z.of_nat n) (map Some (firstn n (abs r)))) /\
                 abs r' = skipn n (abs r) /\ closed r' = true)).
Proof.
  intros r HI. split.
  - assert (S := seq_step_refines r Close HI). destruct (seq_step r Close) as [r' x].
    destruct S as (_ & _ & S). cbn [spec_step] in S. apply pair_equal_spec in S as [S _].
    unfold abs_fifo in S. injection S as A1 A2. cbn [fst q cl] in *. now split.
  - intros Hc. split.
    + intros es b. assert (S := seq_step_refines r (Write es b) HI).
      destruct (seq_step r (Write es b)) as [r' x]. destruct S as (_ & _ & S).
      rewrite spec_closed_write in S by exact Hc. apply pair_equal_spec in S as [S1 S2]. subst x.
      unfold abs_fifo in S1. injection S1 as A1 A2. exists r'. repeat split; congruence.
    + intros k b n. assert (S := seq_step_refines r (Read k b) HI).
      destruct (seq_step r (Read k b)) as [r' x]. destruct S as (_ & _ & S).
      rewrite spec_closed_read in S by exact Hc. cbn [abs_fifo q cl] in S. fold n in S.
      exists r'. destruct (length (abs r) =? 0) eqn:E0;
        apply pair_equal_spec in S as [S1 S2]; subst x; unfold abs_fifo in S1; injection S1 as A1 A2.
      * split; [reflexivity|]. split; [|congruence].
        apply Nat.eqb_eq in E0. rewrite <- A1. destruct (abs r); [now rewrite skipn_nil | discriminate].
      * split; [reflexivity|]. split; congruence.
Qed.
Print Assumptions C48_close.

(** The checker that decides the recorded histories of the real ring inside Coq
    is correct in both directions: [Found l] exhibits a linearization, [NoLin]
    means none exists (an out-of-fuel answer is reported as inconclusive). *)
Theorem C48_checker_correct : forall fuel c f0 h,
  (forall l, lin_check fuel c f0 h = Found l -> Linearizable c f0 h) /\
  (lin_check fuel c f0 h = NoLin -> ~ Linearizable c f0 h).
Proof. intros. split; [intros l; apply lin_check_found | apply lin_check_nolin]. Qed.
Print Assumptions C48_checker_correct.

(** The oracles used by [RingLin.check] hold on the model: the FIFO oracle
    accepts every sequential run of the model ring, and the history oracle never
    rejects the completed history of an execution of the concurrent model. *)
Theorem C48_oracle_holds_on_model :
  (forall c init ops impl,
     seq_run (new c init) ops = map Some impl -> seq_oracle c init ops impl = true) /\
  (forall fuel c init tr s,
     lrun (init_sys (new c init)) tr = Some s -> quiescent s ->
     lin_check fuel (init_cap c init) (f_init init) (hist s) <> NoLin) /\
  (forall ops impl, pkt_run pkt_new ops = map Some impl -> pkt_oracle ops impl = true).
Proof.
  split; [exact seq_oracle_on_model|]. split.
  - intros fuel c init tr s E Q N.
    apply lin_check_nolin in N. apply N.
    assert (L := lts_linearizable (new c init) tr s (inv_new c init) E Q).
    destruct (abs_new c init) as [A C]. rewrite C in L. unfold abs_fifo in L. rewrite A in L.
    replace (closed (new c init)) with false in L by (destruct init; reflexivity). exact L.
  - intros ops impl E. unfold pkt_oracle. rewrite <- E, pkt_run_new_spec.
    generalize (pkt_spec_run [] 0 false ops). intros l. unfold opobs_eqb.
    induction l as [|x l IH]; [reflexivity|]. cbn [list_eqb]. rewrite IH.
    destruct x as [[k c0]|]; [|reflexivity]. unfold option_eqb, pobs_eqb. cbn [fst snd].
    rewrite Z.eqb_refl, cell_eqb_refl. reflexivity.
Qed.
Print Assumptions C48_oracle_holds_on_model.

(** pktRing (one producer, one consumer): batches of up to 32 entries fetched
    from a 64-entry ring and handed out one by one behave as one FIFO of packets:
    results 1 / 0 / -1 and the packets handed out are those of the list
    specification [pkt_spec_run] for every op list. *)
Theorem C48_pktring_fifo : forall ops, pkt_run pkt_new ops = pkt_spec_run [] 0 false ops.
Proof. exact pkt_run_new_spec. Qed.
Print Assumptions C48_pktring_fifo.

(** Concurrent pktRing histories (several writers, one reader, a close, final
    drain) are decided by the generic search instantiated with the one-step
    pktRing specification [pspec_step], which is what the pktRing model over the
    concrete ring computes. The search is correct in both directions; any
    linearization accounts for every packet -- initial fill followed by the
    accepted packets = delivered packets followed by what is still held, as
    sequences -- so with unique packet identities and the final drain the boolean
    content oracle (every accepted packet delivered exactly once, nothing else
    delivered) holds; and a history that is itself a real-time-ordered legal run
    (every sequential run of the model) is never rejected. *)
Theorem C48_pktring_histories :
  (forall ops qs n c,
     pkt_spec_run qs n c ops =
     match ops with
     | [] => []
     | o :: t =>
       match PktLin.pspec_step {| PktLin.ps_q := qs; PktLin.ps_buf := n; PktLin.ps_cl := c |} o with
       | (s', PRet k x) => Some (k, x) :: pkt_spec_run (PktLin.ps_q s') (PktLin.ps_buf s') (PktLin.ps_cl s') t
       | (_, PBlocks) => [None]
       end
     end) /\
  (forall fuel fill h,
     (forall l, PktLin.plin_check fuel fill h = PktLin.Found l -> PLinearizable fill h) /\
     (PktLin.plin_check fuel fill h = PktLin.NoLin -> ~ PLinearizable fill h)) /\
  (forall l s s',
     PktLin.gexec PktLin.prec PktLin.pst PktLin.pstep_rec s l = Some s' ->
     PktLin.ps_q s ++ flat_map PktLin.accepted l = flat_map PktLin.delivered l ++ PktLin.ps_q s') /\
  (forall fill h l s',
     GIsLin PktLin.prec PktLin.pst PktLin.p_inv PktLin.p_ret PktLin.pstep_rec (PktLin.pst_init fill) h l ->
     PktLin.gexec PktLin.prec PktLin.pst PktLin.pstep_rec (PktLin.pst_init fill) l = Some s' ->
     PktLin.ps_q s' = [] -> NoDup (fill ++ flat_map PktLin.accepted h) ->
     PktLin.content_ok fill h = true) /\
  (forall fuel fill l,
     PktLin.grt_ok PktLin.prec PktLin.p_inv PktLin.p_ret l ->
     PktLin.gexec PktLin.prec PktLin.pst PktLin.pstep_rec (PktLin.pst_init fill) l <> None ->
     PktLin.plin_check fuel fill l <> PktLin.NoLin).
Proof.
  split; [exact pkt_spec_run_step|]. split.
  - intros fuel fill h. split.
    + intros l. apply glin_check_found.
    + apply glin_check_nolin.
  - split; [intros l s s'; apply pexec_content|].
    split; [exact content_ok_of_linearizable | exact plin_check_accepts_runs].
Qed.
Print Assumptions C48_pktring_histories.

(** the overwritten-packet history (a writer parked on the full ring whose packet
    is replaced by that of a later, rejected Write) is rejected by both oracles *)
Example C48_pkt_lost_packet_rejected :
  let fill := map N.of_nat (seq 1 64) in
  let h := [PktLin.P (PWrite 2000 false) 0 None 3 4;
            PktLin.P (PRead true) 1 (Some 1%N) 5 6;
            PktLin.P (PWrite 1000 true) 1 None 1 7;
            PktLin.D (map N.of_nat (seq 2 63) ++ [2000%N]) 8 9] in
  PktLin.content_ok fill h = false /\
  PktLin.plin_check PktLin.default_fuel fill h = PktLin.NoLin /\
  let good := [PktLin.P (PWrite 2000 false) 0 None 3 4;
               PktLin.P (PRead true) 1 (Some 1%N) 5 6;
               PktLin.P (PWrite 1000 true) 1 None 1 7;
               PktLin.D (map N.of_nat (seq 2 63) ++ [1000%N]) 8 9] in
  PktLin.content_ok fill good = true /\
  match PktLin.plin_check PktLin.default_fuel fill good with PktLin.Found _ => True | _ => False end.
Proof. vm_compute. repeat split; reflexivity. Qed.

(** Non-vacuity: a reader blocks on the empty ring of capacity 2, a writer's
    3-entry batch is cut to 2 and wakes it, a second writer waits for space, a
    Close releases it with -1; the completed history is the FIFO run. *)
Example C48_example :
  let tr := [LCall 0 (Read 2 true); LRun 0;                    (* waits *)
             LCall 1 (Write [7; 8; 9]%N true); LRun 1;          (* writes 7 8, wakes 0 *)
             LCall 2 (Write [10]%N true); LRun 2;               (* full: waits *)
             LRet 1; LRun 0; LRet 0;                            (* reader gets 7 8, wakes 2 *)
             LCall 1 Close; LRun 1; LRet 1; LRun 2; LRet 2;     (* writer released: -1 *)
             LCall 0 (Read 2 false); LRun 0; LRet 0] in
  match lrun (init_sys (new_empty 2)) tr with
  | Some s => map (fun e => (h_k e, h_got e)) (hist s) =
              [(2%Z, []); (2%Z, [Some 7%N; Some 8%N]); (0%Z, []); ((-1)%Z, []); ((-1)%Z, [])]
              /\ lin_check default_fuel 2 (f_init None) (hist s) = Found (map l_rec (log s))
  | None => False
  end.
Proof. vm_compute. split; reflexivity. Qed.
