(** C03 — reversed paths carry replies back to the source.

    [Network.reverse_path] / [Network.mk_reply] model scion.Decoded.Reverse (and
    Raw.Reverse / DefaultReplyPather, which call it) plus the address swap done by
    the replying host; [Prov.rev_prov] is the reversed provenance path (slices in
    reverse order, ConsDir flipped, hops reversed; every hop keeps its beta).
    EPIC and one-hop replies: Props/C03_ext.v (on top of the router models of C13 / C12). *)
From Coq Require Import List NArith Bool Arith Lia.
From Scion Require Import Lib.Check Model.Router Model.Network Model.Prov.
From Scion Require Import Proofs.ProvFacts Proofs.Forward Proofs.Reverse Proofs.Reply.
Import ListNotations.
Import Scion.Model.Router.Router Network Prov.
Local Open Scope N_scope.

(** The request is delivered with its pointers at the last hop and with the SegIDs
    forwarding leaves behind: the delivered packet IS [render p pp (n-1) true]. *)
Theorem C03_delivered_packet : forall mac t now p pp,
  good mac t p -> endpoints_ok t p pp = true -> all_unexpired now p = true ->
  exists l tr rtr d,
    start_loc t (render p pp 0 false) = Some l /\
    run (macq_of mac) t now l (render p pp 0 false) = (tr, Delivered (ia p (nhops p - 1)) rtr (fst d) (snd d)) /\
    delivered_pkt (tr, Delivered (ia p (nhops p - 1)) rtr (fst d) (snd d)) = Some (render p pp (nhops p - 1) true).
Proof.
  intros mac t now p pp HG Hep Hexp.
  destruct (run_prov mac t now p pp HG Hep Hexp) as (tr & rtr & d & Er & _ & _ & Dp).
  eexists _, tr, rtr, d. split; [apply (start_loc_render mac t now p pp HG Hep Hexp)|]. split; assumption.
Qed.
Print Assumptions C03_delivered_packet.

(** Reversing that packet (any replying address and payload) gives exactly the
    rendering of the reversed provenance path at its first hop; the reversed
    path is well formed over the same topology and its interface list is the
    reversed one. *)
Theorem C03_reverse_prov : forall mac t p pp st sr pay port,
  good mac t p ->
  mk_reply (render p pp (nhops p - 1) true) st sr pay port =
    Some (render (rev_prov p) (rev_params pp st sr pay port) 0 false) /\
  wf_prov_b (macq_of mac) t (rev_prov p) = true /\
  interfaces (rev_prov p) = rev (interfaces p).
Proof.
  intros mac t p pp st sr pay port HG. split; [apply (reverse_render mac t p HG)|].
  split; [apply (wf_rev mac t p HG)|apply (interfaces_rev mac t p HG)].
Qed.
Print Assumptions C03_reverse_prov.

(** Hence the reply is accepted by every router on the way back, crosses the
    interfaces of the request in reverse order, and is delivered to the original
    source host (address and upper-layer port of the request's source). *)
Theorem C03_reply_delivered : forall mac t now' p pp st sr pay port,
  good mac t p -> endpoints_ok t p pp = true -> all_unexpired now' p = true ->
  reply_ok pp st sr port = true ->
  exists reply tr rtr d,
    mk_reply (render p pp (nhops p - 1) true) st sr pay port = Some reply /\
    walk_from (macq_of mac) t now' reply reply = (tr, Delivered (pp_src_ia pp) rtr (fst d) (snd d)) /\
    crossed tr = rev (interfaces p) /\ reply_target pp port = Some d.
Proof. intros. now apply reply_walk. Qed.
Print Assumptions C03_reply_delivered.

Lemma pair_eqb_refl l : list_eqb pair_eqb l l = true.
Proof.
  induction l as [|[a b] l IH]; [reflexivity|]. cbn [list_eqb]. unfold pair_eqb at 1. cbn [fst snd].
  now rewrite !N.eqb_refl, IH.
Qed.
Lemma bytes_eqb_refl l : list_eqb N.eqb l l = true.
Proof. induction l as [|a l IH]; [reflexivity|]. cbn [list_eqb]. now rewrite N.eqb_refl, IH. Qed.

(** The oracle of the correspondence check holds on the model's reply walk. *)
Theorem C03_oracle_holds_on_model : forall mac t now' p pp st sr pay port reply,
  valid_b (macq_of mac) t now' p pp = true -> reply_ok pp st sr port = true ->
  mk_reply (render p pp (nhops p - 1) true) st sr pay port = Some reply ->
  c03_ok p pp port (walk_from (macq_of mac) t now' reply reply) = true.
Proof.
  intros mac t now' p pp st sr pay port reply V R M. unfold valid_b in V.
  apply andb_true_iff in V as [V Hexp]. apply andb_true_iff in V as [V Hep].
  apply andb_true_iff in V as [V Hwf]. apply andb_true_iff in V as [Hwt Hup].
  assert (HG : good mac t p) by (repeat split; assumption).
  destruct (reply_walk mac t p pp HG Hep now' st sr pay port Hexp R) as (reply' & tr & rtr & d & M' & W & Cr & Rt).
  rewrite M in M'. inversion M'; subst reply'.
  rewrite W. unfold c03_ok. cbn [fst snd]. rewrite Cr, pair_eqb_refl, Rt.
  unfold delivered_to. cbn [snd]. now rewrite !N.eqb_refl, bytes_eqb_refl.
Qed.
Print Assumptions C03_oracle_holds_on_model.

(** Non-vacuity: the path of the C02 example (20 -> 10 -> 30, two routers in AS 10).
    The host 10.0.0.2 in AS 30 answers the delivered packet; the reply crosses the
    same four interfaces in reverse order and reaches 10.0.0.1 in AS 20. *)
Definition toy (k s ts e i g : N) : list N := [k; s; ts; e; i; g].
Definition ex_topo : topology :=
  [ mkAs 10 7 2 [mkNif 1 Child 20 1 0 true; mkNif 2 Child 30 1 1 true] [] 0 0;
    mkAs 20 8 1 [mkNif 1 Parent 10 1 0 true] [] 0 0;
    mkAs 30 9 1 [mkNif 1 Parent 10 2 0 true] [] 0 0 ].
Definition ex_prov : prov :=
  let ts := 1000 in
  let u0 := toy 7 5 ts 63 0 1 in let bu1 := N.lxor 5 (mac_prefix u0) in
  let u1 := toy 8 bu1 ts 63 1 0 in
  let d0 := toy 7 9 ts 63 0 2 in let bd1 := N.lxor 9 (mac_prefix d0) in
  let d1 := toy 9 bd1 ts 63 1 0 in
  of_slices
    [ mkSl KIntra false false ts [mkPh 20 1 0 63 u1 bu1; mkPh 10 0 1 63 u0 5];
      mkSl KIntra true false ts [mkPh 10 0 2 63 d0 9; mkPh 30 1 0 63 d1 bd1] ].
Definition ex_pp : pparams := mkPP 20 30 0 0 [10; 0; 0; 2] [10; 0; 0; 1] 8 (Some 4242).

Example C03_example :
  let macq := macq_of toy in
  let now := 2000000000000 in
  match start_loc ex_topo (render ex_prov ex_pp 0 false) with
  | Some l =>
    match delivered_pkt (run macq ex_topo now l (render ex_prov ex_pp 0 false)) with
    | Some q =>
      match mk_reply q 0 [10; 0; 0; 2] 4 (Some 5151) with
      | Some r =>
        let w := walk_from macq ex_topo now r r in
        snd w = Delivered 20 0 [10; 0; 0; 1] 5151 /\
        crossed (fst w) = [(30, 1); (10, 2); (10, 1); (20, 1)] /\
        reply_ok ex_pp 0 [10; 0; 0; 2] (Some 5151) = true
      | None => False
      end
    | None => False
    end
  | None => False
  end.
Proof. vm_compute. repeat split; reflexivity. Qed.
