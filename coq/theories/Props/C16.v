(** C16 — BFD sessions follow RFC 5880 and always recover.
    Property theorems only.

    KNOWN FINDING C16/recv-admindown (open): Session.Run feeds the received State
    into the state machine as an event, so an accepted control packet carrying
    AdminDown moves the LOCAL session into stateAdminDown, which no generated
    event leaves.  RFC 5880 6.8.6 and the property demand Down.  The faithful
    model carries the defect; the full statements are therefore refuted
    ([…_refuted]) and proved on the complement of the finding ([…_except_known]:
    histories without an accepted AdminDown packet).  Repairing it breaks
    router TestDataPlaneRun/bfd_bootstrap_*, so it is recorded, not fixed. *)
From Coq Require Import List NArith Bool.
From Scion Require Import Lib.Check Model.BFD Proofs.BFD.
Import ListNotations.
Import BFD.
Local Open Scope N_scope.

(** The full statement: every accepted control packet updates the session
    state as RFC 5880 6.8.6 prescribes, for every received state. *)
Definition C16_rfc_reception_statement : Prop := forall s p,
  local s <> AdminDown -> should_discard p = false ->
  local (step s (Recv p)) = rfc_recv (local s) (p_state p).

Theorem C16_rfc_reception_refuted : ~ C16_rfc_reception_statement.
Proof.
  intros H. specialize (H (init 0) (mk AdminDown 5 0)).
  cbn in H. specialize (H ltac:(discriminate) eq_refl). discriminate.
Qed.
Print Assumptions C16_rfc_reception_refuted.

(** ... and it holds for every received state other than AdminDown. *)
Theorem C16_rfc_reception_except_known : forall s p,
  local s <> AdminDown -> should_discard p = false -> p_state p <> AdminDown ->
  local (step s (Recv p)) = rfc_recv (local s) (p_state p).
Proof. exact step_recv_rfc. Qed.
Print Assumptions C16_rfc_reception_except_known.

(** The finding, stated positively: an accepted AdminDown traps the session for
    every continuation of the history. *)
Theorem C16_never_trapped_refuted : forall rd p ops,
  should_discard p = false -> p_state p = AdminDown ->
  local (run (init rd) (Recv p :: ops)) = AdminDown.
Proof.
  intros rd p ops D E. unfold run. cbn [fold_left].
  apply run_admindown_absorbing. now apply step_recv_admindown.
Qed.
Print Assumptions C16_never_trapped_refuted.

(** Detection-timer expiry follows 6.8.4 and always leaves the session Down. *)
Theorem C16_detection_timeout : forall s,
  local s <> AdminDown ->
  local (step s Timeout) = rfc_timer (local s) /\ local (step s Timeout) = Down.
Proof. intros s H. split; [now apply step_timeout_rfc | now apply timeout_down]. Qed.
Print Assumptions C16_detection_timeout.

(** Without an accepted AdminDown packet no history of received packets and
    timer expiries leads into a state the session cannot leave. *)
Theorem C16_never_trapped_except_known : forall rd ops,
  no_rx_admindown ops = true -> local (run (init rd) ops) <> AdminDown.
Proof. intros rd ops K. apply run_not_admindown; [apply init_not_admindown|exact K]. Qed.
Print Assumptions C16_never_trapped_except_known.

(** After any such history a session comes Up again once its peer behaves
    (a peer that restarts sends Down, then Init). *)
Theorem C16_recovers_after_any_history_except_known : forall rd ops my y1 y2,
  no_rx_admindown ops = true -> my <> 0 -> y2 <> 0 ->
  local (run (init rd) (ops ++ [Recv (mk Down my y1); Recv (mk Init my y2)])) = Up.
Proof.
  intros rd ops my y1 y2 K Hm Hy. unfold run. rewrite fold_left_app.
  apply recover_two_packets; try assumption. now apply C16_never_trapped_except_known.
Qed.
Print Assumptions C16_recovers_after_any_history_except_known.

(** Two sessions (full statement, not affected by the finding because scion
    sessions never emit AdminDown): after any history of sends, deliveries,
    losses and timeouts, once the link delivers again (what is in flight
    arrives, then loss-free exchanges) both are Up after three exchanges and
    stay Up for ever. *)
Theorem C16_two_sessions_reach_up_and_stay : forall da0 db0 hist n,
  da0 <> 0 -> db0 <> 0 -> (3 <= n)%nat ->
  let p := prun (pinit da0 db0) hist in
  let q := prun p (flush p ++ rounds n) in
  local (sa q) = Up /\ local (sb q) = Up.
Proof. exact two_sessions_recover. Qed.
Print Assumptions C16_two_sessions_reach_up_and_stay.

(** The oracle evaluated on the implementation's observed histories holds on
    the model outside the known-finding class. *)
Theorem C16_oracle_holds_on_model_except_known : forall rd ops,
  no_rx_admindown ops = true ->
  hist_ok (st_code Down) ops (map obs_of (trace (init rd) ops)) = true.
Proof. intros rd ops K. apply (hist_ok_model ops (init rd)); [apply init_not_admindown|exact K]. Qed.
Print Assumptions C16_oracle_holds_on_model_except_known.

(** Non-vacuity: a concrete lossy history satisfying the hypotheses. *)
Example C16_example :
  let p := prun (pinit 7 9) [SendA; DropAB; SendB; DelivBA; TimeoutA; SendA; SendA; TimeoutB] in
  let q := prun p (flush p ++ rounds 3) in
  (local (sa p), local (sb p)) = (Down, Down) /\ (local (sa q), local (sb q)) = (Up, Up) /\
  no_rx_admindown [Recv (mk Down 3 0); Timeout; Recv (mk Up 3 1)] = true.
Proof. vm_compute. repeat split; reflexivity. Qed.
