(** C16 — BFD sessions follow RFC 5880 and always recover.
    Property theorems only.

    KNOWN FINDING C16/recv-admindown (open): Session.Run feeds the received State
    into the state machine as an event, so an accepted control packet carrying
    AdminDown moves the LOCAL session into stateAdminDown, which no generated
    event leaves.  RFC 5880 6.8.6 and the property demand Down.  The faithful
    model carries the defect; the full statements are therefore refuted
    ([…_refuted]) and proved on the complement of the finding ([…_except_known]:
    histories without an accepted AdminDown packet).  Repairing it breaks
    router TestDataPlaneRun/bfd_bootstrap_*, so it is recorded, not fixed.

    KNOWN FINDING C16/your-discriminator-unchecked (open): neither shouldDiscard nor
    Session.Run compares a non-zero Your Discriminator with the session's local
    discriminator; RFC 5880 6.8.6 demands that such a packet be discarded ("no
    session is found").  [C16_session_lookup_refuted]; everything else of the
    RFC's validation rules is met exactly ([C16_filter_is_rfc_validation]). *)
From Coq Require Import List NArith Bool.
From Scion Require Import Lib.Check Model.BFD Proofs.BFD.
Import ListNotations.
Import BFD.
Local Open Scope N_scope.

(** The full statement: every accepted control packet updates the session
    state as RFC 5880 6.8.6 prescribes, for every received state. *)
Definition C16_rfc_reception_statement : Prop := forall s p,
  local s <> AdminDown -> should_discard p = false ->
  local (step s (Recv p)) = rfc_recv (local s) (p_state p).

Theorem C16_rfc_reception_refuted : ~ C16_rfc_reception_statement.
Proof.
  intros H. specialize (H (init 0) (mk AdminDown 5 0)).
  cbn in H. specialize (H ltac:(discriminate) eq_refl). discriminate.
Qed.
Print Assumptions C16_rfc_reception_refuted.

(** ... and it holds for every received state other than AdminDown. *)
Theorem C16_rfc_reception_except_known : forall s p,
  local s <> AdminDown -> should_discard p = false -> p_state p <> AdminDown ->
  local (step s (Recv p)) = rfc_recv (local s) (p_state p).
Proof. exact step_recv_rfc. Qed.
Print Assumptions C16_rfc_reception_except_known.

(** The finding, stated positively: an accepted AdminDown traps the session for
    every continuation of the history. *)
Theorem C16_never_trapped_refuted : forall rd p ops,
  should_discard p = false -> p_state p = AdminDown ->
  local (run (init rd) (Recv p :: ops)) = AdminDown.
Proof.
  intros rd p ops D E. unfold run. cbn [fold_left].
  apply run_admindown_absorbing. now apply step_recv_admindown.
Qed.
Print Assumptions C16_never_trapped_refuted.

(** Detection-timer expiry follows 6.8.4 and always leaves the session Down. *)
Theorem C16_detection_timeout : forall s,
  local s <> AdminDown ->
  local (step s Timeout) = rfc_timer (local s) /\ local (step s Timeout) = Down.
Proof. intros s H. split; [now apply step_timeout_rfc | now apply timeout_down]. Qed.
Print Assumptions C16_detection_timeout.

(** Without an accepted AdminDown packet no history of received packets and
    timer expiries leads into a state the session cannot leave. *)
Theorem C16_never_trapped_except_known : forall rd ops,
  no_rx_admindown ops = true -> local (run (init rd) ops) <> AdminDown.
Proof. intros rd ops K. apply run_not_admindown; [apply init_not_admindown|exact K]. Qed.
Print Assumptions C16_never_trapped_except_known.

(** After any such history a session comes Up again once its peer behaves
    (a peer that restarts sends Down, then Init). *)
Theorem C16_recovers_after_any_history_except_known : forall rd ops my y1 y2,
  no_rx_admindown ops = true -> my <> 0 -> y2 <> 0 ->
  local (run (init rd) (ops ++ [Recv (mk Down my y1); Recv (mk Init my y2)])) = Up.
Proof.
  intros rd ops my y1 y2 K Hm Hy. unfold run. rewrite fold_left_app.
  apply recover_two_packets; try assumption. now apply C16_never_trapped_except_known.
Qed.
Print Assumptions C16_recovers_after_any_history_except_known.

(** Two sessions (full statement, not affected by the finding because scion
    sessions never emit AdminDown): after any history of sends, deliveries,
    losses and timeouts, once the link delivers again (what is in flight
    arrives, then loss-free exchanges) both are Up after three exchanges and
    stay Up for ever. *)
Theorem C16_two_sessions_reach_up_and_stay : forall da0 db0 hist n,
  da0 <> 0 -> db0 <> 0 -> (3 <= n)%nat ->
  let p := prun (pinit da0 db0) hist in
  let q := prun p (flush p ++ rounds n) in
  local (sa q) = Up /\ local (sb q) = Up.
Proof. exact two_sessions_recover. Qed.
Print Assumptions C16_two_sessions_reach_up_and_stay.

(** The oracle evaluated on the implementation's observed histories holds on
    the model outside the known-finding class. *)
Theorem C16_oracle_holds_on_model_except_known : forall ld rd ops,
  no_rx_admindown ops = true -> no_rx_wrong_your ld ops = true ->
  hist_ok ld (st_code Down) ops (map obs_of (trace (init rd) ops)) = true.
Proof. intros ld rd ops K W. apply (hist_ok_model ld ops (init rd)); [apply init_not_admindown|exact K|exact W]. Qed.
Print Assumptions C16_oracle_holds_on_model_except_known.

(** The reception filter is the RFC's validation rules (6.8.6, authentication not in use) plus the
    rejection of the features scion does not implement -- and nothing else ... *)
Theorem C16_filter_is_rfc_validation : forall p,
  should_discard p = rfc_invalid p || unsupported p.
Proof. exact should_discard_rfc. Qed.
Print Assumptions C16_filter_is_rfc_validation.

(** ... so, against the RFC's own rules: every packet the RFC discards for a format reason leaves
    the session untouched, and every packet the RFC accepts for session [ld] that uses no
    unimplemented feature and does not carry AdminDown updates the state as 6.8.6 prescribes. *)
Theorem C16_rfc_reception_full_except_known : forall ld s p,
  local s <> AdminDown ->
  (rfc_invalid p = true -> step s (Recv p) = s) /\
  (rfc_discard ld p = false -> unsupported p = false -> p_state p <> AdminDown ->
   local (step s (Recv p)) = rfc_recv (local s) (p_state p)).
Proof.
  intros ld s p H. split.
  - intros V. apply step_recv_discard. rewrite should_discard_rfc, V. reflexivity.
  - intros R U A. apply step_recv_rfc; try assumption.
    rewrite should_discard_rfc, U. unfold rfc_discard in R.
    apply orb_false_iff in R as [R _]. now rewrite R.
Qed.
Print Assumptions C16_rfc_reception_full_except_known.

(** Second finding (C16/your-discriminator-unchecked): the session lookup of 6.8.6 is missing. A
    packet whose non-zero Your Discriminator is not the session's discriminator ("no session is
    found, the packet MUST be discarded") is accepted and changes the state. *)
Definition C16_session_lookup_statement : Prop := forall ld s p,
  rfc_discard ld p = true -> step s (Recv p) = s.

Theorem C16_session_lookup_refuted : ~ C16_session_lookup_statement.
Proof.
  intros H. specialize (H 77 (init 0) (mk Down 5 9) eq_refl). discriminate.
Qed.
Print Assumptions C16_session_lookup_refuted.

(** The detection time armed by an accepted packet is the one of RFC 5880 6.8.4. *)
Theorem C16_detection_time_rfc : forall r p,
  detect_time r p = rfc_detect_time (p_mult p) r (p_des_tx p).
Proof. exact detect_time_rfc. Qed.
Print Assumptions C16_detection_time_rfc.

(** "... and stay Up", at full strength: once the link has delivered again (as above), both
    sessions remain Up after EVERY further schedule of sends, deliveries and losses -- any
    interleaving, any number of packets in flight -- in which no detection timer fires. *)
Theorem C16_two_sessions_stay_up_under_any_schedule : forall da0 db0 hist n os,
  da0 <> 0 -> db0 <> 0 -> (3 <= n)%nat -> forallb no_timer os = true ->
  let p := prun (pinit da0 db0) hist in
  let q := prun p (flush p ++ rounds n) in
  local (sa (prun q os)) = Up /\ local (sb (prun q os)) = Up.
Proof.
  intros da0 db0 hist n os Ha Hb Hn NT p q.
  destruct (prun_stable os q (recovered_stable da0 db0 hist n Ha Hb Hn) NT) as (_ & U1 & U2 & _).
  now split.
Qed.
Print Assumptions C16_two_sessions_stay_up_under_any_schedule.

(** Non-vacuity: a concrete lossy history satisfying the hypotheses. *)
Example C16_example :
  let p := prun (pinit 7 9) [SendA; DropAB; SendB; DelivBA; TimeoutA; SendA; SendA; TimeoutB] in
  let q := prun p (flush p ++ rounds 3) in
  (local (sa p), local (sb p)) = (Down, Down) /\ (local (sa q), local (sb q)) = (Up, Up) /\
  no_rx_admindown [Recv (mk Down 3 0); Timeout; Recv (mk Up 3 1)] = true /\
  no_rx_wrong_your 1 [Recv (mk Down 3 0); Timeout; Recv (mk Up 3 1)] = true /\
  (let r := prun q [SendA; SendA; SendB; DropAB; DelivBA; SendB; DelivAB; DelivBA] in
   (local (sa r), local (sb r), length (ab r), length (ba r)) = (Up, Up, 0%nat, 0%nat)) /\
  rfc_discard 77 (mk Init 5 77) = false /\ unsupported (mk Init 5 77) = false /\
  detect_time 20000 (mk Down 5 0) = 60000.
Proof. vm_compute. repeat split; reflexivity. Qed.
