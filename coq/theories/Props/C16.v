(** C16 — BFD sessions follow RFC 5880 and always recover.
    Property theorems only; each is closed by [exact] of a lemma of Proofs/BFD.v. *)
From Coq Require Import List NArith Bool.
From Scion Require Import Lib.Check Model.BFD Proofs.BFD.
Import ListNotations.
Import BFD.
Local Open Scope N_scope.

(** Every accepted control packet updates the session state as RFC 5880 6.8.6
    prescribes, for every received state — a received AdminDown gives Down. *)
Theorem C16_rfc_reception : forall s p,
  local s <> AdminDown -> should_discard p = false ->
  local (step s (Recv p)) = rfc_recv (local s) (p_state p).
Proof. exact step_recv_rfc. Qed.
Print Assumptions C16_rfc_reception.

Theorem C16_received_admindown_gives_down : forall s p,
  local s <> AdminDown -> should_discard p = false -> p_state p = AdminDown ->
  local (step s (Recv p)) = Down.
Proof.
  intros s p H D E. rewrite (step_recv_rfc s p H D), E.
  destruct (local s); try reflexivity. now elim H.
Qed.
Print Assumptions C16_received_admindown_gives_down.

(** Detection-timer expiry follows 6.8.4 and always leaves the session Down. *)
Theorem C16_detection_timeout : forall s,
  local s <> AdminDown ->
  local (step s Timeout) = rfc_timer (local s) /\ local (step s Timeout) = Down.
Proof. intros s H. split; [now apply step_timeout_rfc | now apply timeout_down]. Qed.
Print Assumptions C16_detection_timeout.

(** No history of received packets and timer expiries leads into a state the
    session cannot leave (AdminDown is never entered). *)
Theorem C16_never_trapped : forall rd ops, local (run (init rd) ops) <> AdminDown.
Proof. intros rd ops. apply run_not_admindown. apply init_not_admindown. Qed.
Print Assumptions C16_never_trapped.

(** After any history a session comes Up again once its peer behaves
    (a peer that restarts sends Down, then Init). *)
Theorem C16_recovers_after_any_history : forall rd ops my y1 y2,
  my <> 0 -> y2 <> 0 ->
  local (run (init rd) (ops ++ [Recv (mk Down my y1); Recv (mk Init my y2)])) = Up.
Proof.
  intros rd ops my y1 y2 Hm Hy. unfold run. rewrite fold_left_app.
  apply recover_two_packets; try assumption. apply C16_never_trapped.
Qed.
Print Assumptions C16_recovers_after_any_history.

(** Two sessions: after any history of sends, deliveries, losses and timeouts,
    once the link delivers again (what is in flight arrives, then loss-free
    exchanges) both are Up after three exchanges and stay Up for ever. *)
Theorem C16_two_sessions_reach_up_and_stay : forall da0 db0 hist n,
  da0 <> 0 -> db0 <> 0 -> (3 <= n)%nat ->
  let p := prun (pinit da0 db0) hist in
  let q := prun p (flush p ++ rounds n) in
  local (sa q) = Up /\ local (sb q) = Up.
Proof. exact two_sessions_recover. Qed.
Print Assumptions C16_two_sessions_reach_up_and_stay.

(** The oracle evaluated on the implementation's observed histories holds on the model. *)
Theorem C16_oracle_holds_on_model : forall rd ops,
  hist_ok (st_code Down) ops (map obs_of (trace (init rd) ops)) = true.
Proof. intros rd ops. apply (hist_ok_model ops (init rd)). apply init_not_admindown. Qed.
Print Assumptions C16_oracle_holds_on_model.

(** Non-vacuity: a concrete lossy history satisfying the hypotheses. *)
Example C16_example :
  let p := prun (pinit 7 9) [SendA; DropAB; SendB; DelivBA; TimeoutA; SendA; SendA; TimeoutB] in
  let q := prun p (flush p ++ rounds 3) in
  (local (sa p), local (sb p)) = (Down, Down) /\ (local (sa q), local (sb q)) = (Up, Up).
Proof. vm_compute. split; reflexivity. Qed.
