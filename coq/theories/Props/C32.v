(** C32 — TRC updates are accepted only with the required votes and signatures.
    Property theorems only; each is closed by a lemma of Proofs/PKIUpdate.v.
    [verify pred t sis] models SignedTRC.Verify(pred) on the signed TRC with payload [t] and
    signer infos [sis] (Model/PKI.v). *)
From Coq Require Import List ZArith Bool Lia.
From Scion Require Import Lib.Check Model.PKI Proofs.PKI Proofs.PKIUpdate.
Import ListNotations.
Import PKI.
Local Open Scope Z_scope.

(** Exact characterisation of acceptance of a non-base TRC [t] as successor of [p]
    ([update_accepted], Proofs/PKIUpdate.v): [t] is not a base TRC; its payload is valid; ISD and
    base number are those of [p], the serial number is the next one, noTrustReset is unchanged;
    there are at least quorum(p) votes; every sensitive or regular voting certificate of [t] that
    is not byte-identical to the certificate of the same class and subject in [p] has signed
    ([fully_signed] of [new_voters]); and either every vote is the index of a sensitive voting
    certificate of [p] and these certificates are distinct and have all signed, or the rules of a
    regular update hold ([regular_rules]: every vote is the index of a regular voting certificate
    of [p]; quorum, core and authoritative ASes unchanged; as many sensitive certificates, each
    unchanged; as many root and regular certificates, each with its subject already in [p];
    every replaced regular voter among the votes), the replaced roots of [p] have all signed and
    the voting certificates named by the votes are distinct and have all signed.
    [fully_signed sis L]: every signer info has a supported version, every signer info that names
    a certificate of [L] carries the digest of the payload and a signature valid under that
    certificate's key, the certificates of [L] are distinct, and each is named by a signer info. *)
Theorem C32_update_iff : forall p t sis,
  verify (Some p) t sis = Accept <-> update_accepted p t sis.
Proof. exact verify_update_iff. Qed.
Print Assumptions C32_update_iff.

(** The property as stated, for every valid predecessor: acceptance implies same ISD and base,
    next serial, same trust-reset flag, valid payload, at least quorum(p) votes, and either all
    votes are distinct sensitive voting certificates of [p] that signed, or all votes are distinct
    regular voting certificates of [p] that signed while quorum, core and authoritative ASes and
    the sensitive certificates are unchanged, no root or regular voting certificate is added or
    removed, every replaced regular voter voted and every replaced root signed; and every newly
    introduced voting certificate signed ([update_spec_b], Model/PKI.v). *)
Theorem C32_update_only_if : forall p t sis,
  trc_validate p = None -> t_serial p < two64 ->
  verify (Some p) t sis = Accept -> update_spec_b p t sis = true.
Proof.
  intros p t sis Vp B A. apply update_sound; [assumption|assumption|]. now apply verify_update_iff.
Qed.
Print Assumptions C32_update_only_if.

(** The same statement at Prop level ([update_prop], [regular_update_prop], [signed_distinct],
    [kept], [replaced], [same_subject_in] in Proofs/PKIUpdate.v): same ISD, same base, next
    serial, same noTrustReset, payload satisfying every rule of C33, at least quorum(p) votes,
    every newly introduced voting certificate properly signed, and either all votes name
    pairwise distinct, properly signed sensitive voting certificates of [p], or all votes name
    pairwise distinct, properly signed regular voting certificates of [p] while quorum, core and
    authoritative ASes are equal, every sensitive certificate of [t] is in [p] byte for byte and
    vice versa, roots and regular voters of [p] and [t] have the same subjects in both
    directions, every replaced regular voter is among the votes and every replaced root of [p]
    has properly signed. ([properly_signed sis c]: some signer info of a supported version names
    [c], carries the digest of the payload and verifies under the key of [c].) *)
Theorem C32_update_only_if_prop : forall p t sis,
  trc_validate p = None -> t_serial p < two64 ->
  verify (Some p) t sis = Accept -> update_prop p t sis.
Proof.
  intros p t sis Vp B A. apply update_spec_b_prop, update_sound; [assumption|assumption|].
  now apply verify_update_iff.
Qed.
Print Assumptions C32_update_only_if_prop.

(** Acceptance implies that at least quorum(p) DISTINCT voting certificates of the predecessor,
    all sensitive or all regular, each produced a valid signature over the payload. *)
Theorem C32_distinct_quorum : forall p t sis,
  trc_validate p = None -> t_serial p < two64 -> verify (Some p) t sis = Accept ->
  exists voters : list (Z * acert),
    NoDup (map fst voters) /\ t_quorum p <= len voters /\
    (incl voters (sens_of p) \/ incl voters (reg_of p)) /\
    forall q, In q voters -> properly_signed sis (snd q).
Proof. exact distinct_quorum. Qed.
Print Assumptions C32_distinct_quorum.

(** A base TRC is accepted iff no predecessor is given, the payload is valid and all its voting
    certificates (sensitive and regular) have signed. *)
Theorem C32_base_iff : forall t sis,
  verify None t sis = Accept <->
  is_base t = true /\ trc_validate t = None /\ fully_signed sis (voters_all t).
Proof. exact verify_base_iff. Qed.
Print Assumptions C32_base_iff.

Theorem C32_base_all_voters_signed : forall t sis,
  verify None t sis = Accept ->
  forall q, In q (sens_of t) \/ In q (reg_of t) -> properly_signed sis (snd q).
Proof.
  intros t sis A q Hq. apply verify_base_iff in A as [_ [_ S]].
  apply fully_signed_all_signed, all_signed_iff in S as [_ H]. apply H.
  unfold voters_all. apply in_app_iff. exact Hq.
Qed.
Print Assumptions C32_base_all_voters_signed.

Theorem C32_base_with_predecessor_rejected : forall p t sis,
  is_base t = true -> verify (Some p) t sis <> Accept.
Proof. exact verify_base_with_pred. Qed.
Print Assumptions C32_base_with_predecessor_rejected.

Theorem C32_update_needs_predecessor : forall t sis,
  is_base t = false -> verify None t sis <> Accept.
Proof. intros t sis B A. apply verify_base_iff in A as [A _]. congruence. Qed.
Print Assumptions C32_update_needs_predecessor.

(** With a valid predecessor verification never panics (the index [Votes[0]] is guarded by the
    quorum check because a valid quorum is at least 1). *)
Theorem C32_no_panic : forall p t sis, trc_validate p = None -> verify (Some p) t sis <> Panic.
Proof. exact verify_never_panics_on_valid_pred. Qed.
Print Assumptions C32_no_panic.

(** The oracle of the correspondence check holds on the model for every input. *)
Theorem C32_oracle_holds_on_model : forall pred t sis,
  negb (fst (vres_code (verify pred t sis)) =? 0) || negb (pred_ok pred)
  || accept_spec_b pred t sis = true.
Proof.
  intros pred t sis. destruct (verify pred t sis) as [| |e|e|st e|] eqn:V; try reflexivity.
  - cbn. destruct (pred_ok pred) eqn:P; [|reflexivity]. cbn. now apply accept_sound.
  - destruct e; reflexivity.
Qed.
Print Assumptions C32_oracle_holds_on_model.

(** Non-vacuity: a regular update that replaces one regular voter and the root is accepted with
    exactly the required signatures; voting twice with the same certificate, leaving out the
    root's acknowledgement, or the new voter's signature, or voting with a sensitive certificate
    while a regular voter was replaced is rejected; the same votes cast by the sensitive voters
    are accepted as a sensitive update. *)
Definition ia1 := IASome 1 272.
Definition vcert (k id serial key : Z) : acert :=
  mkcert [k] false false true false false false false (-1) false true key 0
         (mkname id ia1) (mkname id ia1) serial 0 1000 key key.
Definition rcert (id serial key : Z) : acert :=
  mkcert [3] true false true false false true true 1 false true key key
         (mkname id ia1) (mkname id ia1) serial 0 1000 key key.
Definition pred0 : trc :=
  mktrc 1 1 1 2 10 900 3600 false [0; 1] 2 [272; 273] [272]
        [vcert 1 1 1001 1; vcert 1 2 1002 2; vcert 2 3 1003 3; vcert 2 4 1004 4; rcert 5 1005 5].
Definition succ0 (votes : list Z) : trc :=
  mktrc 1 1 1 3 20 900 0 false votes 2 [272; 273] [272]
        [vcert 1 1 1001 1; vcert 1 2 1002 2; vcert 2 3 1003 3; vcert 2 4 2004 44; rcert 5 2005 55].
Definition sig (id serial key : Z) : sinfo := mksi 1 (mkname id ia1) serial 0 true key.

Example C32_example :
  trc_validate pred0 = None /\
  verify (Some pred0) (succ0 [3; 2]) [sig 3 1003 3; sig 4 1004 4; sig 4 2004 44; sig 5 1005 5] = Accept /\
  update_spec_b pred0 (succ0 [3; 2]) [sig 3 1003 3; sig 4 1004 4; sig 4 2004 44; sig 5 1005 5] = true /\
  verify (Some pred0) (succ0 [3; 3]) [sig 3 1003 3; sig 4 1004 4; sig 4 2004 44; sig 5 1005 5]
    = RejSig AtVotes SMissing /\
  verify (Some pred0) (succ0 [3; 2]) [sig 3 1003 3; sig 4 1004 4; sig 4 2004 44]
    = RejSig AtRootAcks SMissing /\
  verify (Some pred0) (succ0 [3; 2]) [sig 3 1003 3; sig 4 1004 4; sig 5 1005 5]
    = RejSig AtNewVoters SMissing /\
  verify (Some pred0) (succ0 [3; 0]) [sig 3 1003 3; sig 1 1001 1; sig 4 2004 44; sig 5 1005 5]
    = RejUpdate (UReg RNonRegularVote) /\
  verify (Some pred0) (succ0 [2]) [sig 3 1003 3; sig 4 2004 44; sig 5 1005 5]
    = RejUpdate UVoteCount /\
  verify (Some pred0) (succ0 [0; 1]) [sig 1 1001 1; sig 2 1002 2; sig 4 2004 44] = Accept /\
  verify (Some pred0) (succ0 [3; 2]) [sig 3 1003 3; sig 4 1004 4; sig 4 2004 44; sig 5 1005 5; sig 3 1003 9]
    = RejSig AtVotes SSignature.
Proof. vm_compute. repeat split; reflexivity. Qed.

(** Non-vacuity of the base-TRC theorems: a base TRC signed by all four voters is accepted (and
    satisfies the property's boolean statement); it is rejected when one voter's signature is
    missing or invalid, when a predecessor is supplied, and when it carries votes.
    ([C32_example] above contains an accepted regular update, votes [3; 2], and an accepted
    sensitive update, votes [0; 1].) *)
Definition base0 : trc :=
  mktrc 1 1 1 1 10 900 0 false [] 2 [272; 273] [272]
        [vcert 1 1 1001 1; vcert 1 2 1002 2; vcert 2 3 1003 3; vcert 2 4 1004 4; rcert 5 1005 5].

Example C32_example_base :
  verify None base0 [sig 1 1001 1; sig 2 1002 2; sig 3 1003 3; sig 4 1004 4] = Accept /\
  base_spec_b base0 [sig 1 1001 1; sig 2 1002 2; sig 3 1003 3; sig 4 1004 4] = true /\
  verify None base0 [sig 1 1001 1; sig 2 1002 2; sig 3 1003 3] = RejSig AtNewVoters SMissing /\
  verify None base0 [sig 1 1001 1; sig 2 1002 2; sig 3 1003 3; sig 4 1004 9]
    = RejSig AtNewVoters SSignature /\
  verify (Some pred0) base0 [sig 1 1001 1; sig 2 1002 2; sig 3 1003 3; sig 4 1004 4]
    = RejPredForBase /\
  verify None (mktrc 1 1 1 1 10 900 0 false [0] 2 [272; 273] [272] (t_certs base0))
         [sig 1 1001 1; sig 2 1002 2; sig 3 1003 3; sig 4 1004 4] = RejValidate EVotesOnBase.
Proof. vm_compute. repeat split; reflexivity. Qed.

(** the Prop-level statement is inhabited by the accepted regular and sensitive updates *)
Example C32_example_update_prop :
  update_prop pred0 (succ0 [3; 2]) [sig 3 1003 3; sig 4 1004 4; sig 4 2004 44; sig 5 1005 5] /\
  update_prop pred0 (succ0 [0; 1]) [sig 1 1001 1; sig 2 1002 2; sig 4 2004 44].
Proof.
  split; apply C32_update_only_if_prop; vm_compute; reflexivity.
Qed.
