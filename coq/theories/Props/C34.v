(** C34 — only properly formed chains rooted in an active TRC are trusted.
    Property theorems only; proofs are in Proofs/PKIChain.v. *)
From Coq Require Import List NArith ZArith Bool.
From Scion Require Import Lib.Check Model.PKIChain Proofs.PKIChain.
Import ListNotations.
Import PKIChain.
Local Open Scope N_scope.

(** A chain is accepted against a TRC at time [now] exactly if it is an AS
    certificate followed by a CA certificate, both class-valid (SCION key usages,
    basic constraints, key identifiers, ISD-AS attributes), the CA validity
    covers the AS validity, the CA certificate issued the AS certificate, a root
    certificate of that TRC issued the CA certificate, all three are valid at
    [now] — plus the technical conditions of the x509 path search (every TRC
    certificate is class-valid, the certificates are distinct entities, one
    extended key usage of the AS certificate is permitted along the path). *)
Theorem C34_chain_iff : forall ch t now,
  verify_chain_trc ch (Some t) now = true <->
  exists a c r, ch = [a; c]
    /\ validate_cert a = Some TAS /\ validate_cert c = Some TCA
    /\ (c_nb c <= c_nb a /\ c_na a <= c_na c)%Z
    /\ (sig_from a c = true /\ c_subject c = c_issuer a)
    /\ In r (t_certs t) /\ validate_cert r = Some TRoot
    /\ (sig_from c r = true /\ c_subject r = c_issuer c)
    /\ (c_nb a <= now <= c_na a)%Z /\ (c_nb c <= now <= c_na c)%Z /\ (c_nb r <= now <= c_na r)%Z
    /\ forallb trc_cert_ok (t_certs t) = true
    /\ same_entity c a = false /\ same_entity r a = false /\ same_entity r c = false
    /\ eku_ok a [a; c; r] = true.
Proof.
  intros ch t now. rewrite verify_chain_trc_iff. split.
  - intros (a & c & r & -> & A). destruct A. exists a, c, r. tauto.
  - intros (a & c & r & -> & H). exists a, c, r. split; [reflexivity|].
    constructor; tauto.
Qed.
Print Assumptions C34_chain_iff.

(** The "only if" of the property text, without the technical conjuncts. *)
Theorem C34_accepted_only_if : forall ch t now,
  verify_chain_trc ch (Some t) now = true ->
  exists a c r, ch = [a; c]
    /\ validate_cert a = Some TAS /\ validate_cert c = Some TCA
    /\ (c_nb c <= c_nb a /\ c_na a <= c_na c)%Z
    /\ sig_from a c = true /\ c_issuer a = c_subject c
    /\ (c_nb a <= now <= c_na a)%Z /\ (c_nb c <= now <= c_na c)%Z
    /\ In r (t_certs t) /\ validate_cert r = Some TRoot
    /\ sig_from c r = true /\ c_issuer c = c_subject r /\ (c_nb r <= now <= c_na r)%Z.
Proof. intros ch t now H. apply spec_chain_ok_iff. now apply verify_chain_trc_spec. Qed.
Print Assumptions C34_accepted_only_if.

(** Class validity of the two certificates spelled out: key usages, extended key
    usages, constraints, key identifiers and ISD-AS attributes. *)
Theorem C34_class_rules : forall a c,
  validate_cert a = Some TAS -> validate_cert c = Some TCA ->
  (c_ku_digsig a = true /\ c_ku_certsign a = false /\ (c_bc_valid a && c_is_ca a) = false
   /\ mem 8 (c_eku a) = true /\ ia_set (c_subject_ia a) = true /\ ia_set (c_issuer_ia a) = true
   /\ c_akid a <> 0 /\ c_skid a <> 0)
  /\ (c_ku_certsign c = true /\ c_ku_digsig c = false /\ c_bc_valid c = true /\ c_is_ca c = true
      /\ c_maxpath c = 0%Z /\ ia_set (c_subject_ia c) = true /\ ia_set (c_issuer_ia c) = true
      /\ c_akid c <> 0 /\ c_skid c <> 0).
Proof.
  intros a c Ha Hc. apply validate_cert_as in Ha. apply validate_cert_ca in Hc.
  unfold validate_as, general_ok in Ha. unfold validate_ca, common_ca_ok, general_ok in Hc.
  bsplit.
  repeat match goal with
         | H : negb _ = true |- _ => apply negb_true_iff in H
         | H : (_ =? _) = false |- _ => apply N.eqb_neq in H
         | H : (_ =? _)%Z = true |- _ => apply Z.eqb_eq in H
         end.
  repeat split; assumption.
Qed.
Print Assumptions C34_class_rules.

(** VerifyChain over several TRCs succeeds iff one of them verifies the chain
    (a nil / zero TRC never does). *)
Theorem C34_verify_any : forall ch trcs now,
  verify_chain ch trcs now = true <->
  exists t, In (Some t) trcs /\ verify_chain_trc ch (Some t) now = true.
Proof. exact verify_chain_iff. Qed.
Print Assumptions C34_verify_any.

(** The trust provider (without AllowInactive) hands out a chain only if the
    ISD's latest TRC is valid now and the chain verifies against it, or — while
    now lies in the latest TRC's grace period — against its predecessor. *)
Theorem C34_provider : forall d q rec_ok fetch now l d',
  get_chains d q false rec_ok fetch now = (Some l, d') ->
  forall ch, In ch l ->
  exists t, latest_trc (d_trcs d) (q_isd q) = Some t
    /\ (t_nb t <= now <= t_na t)%Z
    /\ (verify_chain_trc ch (Some t) now = true
        \/ (in_grace t now = true
            /\ exists g, find_trc (d_trcs d) (q_isd q) (t_base t) (t_serial t - 1) = Some g
                         /\ verify_chain_trc ch (Some g) now = true)).
Proof.
  intros d q rk f now l d' G ch Hin.
  unfold get_chains in G. destruct ((q_isd q =? 0) || (q_as q =? 0)); try discriminate.
  cbn [andb] in G.
  destruct (active_trcs (d_trcs d) (q_isd q) now) as [trcs|] eqn:A; try discriminate.
  assert (Hv : exists cs, In ch (filter_verifiable cs trcs now)).
  { destruct (is_nil (filter_verifiable (db_chains d q) trcs now)); cbn [negb] in G.
    - destruct rk; cbn [negb] in G; try discriminate. destruct f as [fs|]; try discriminate.
      inversion G; subst. eauto.
    - inversion G; subst. eauto. }
  destruct Hv as (cs & Hv). apply filter_verifiable_In in Hv as (_ & t' & Ht' & V).
  apply active_trcs_cases in A as (t & L & C & [[Gr ->]|[Gr (g & F & ->)]]);
    exists t; (split; [exact L|]); (split; [now apply contains_iff|]).
  - destruct Ht' as [<-|[]]. now left.
  - destruct Ht' as [<-|[<-|[]]]; [now left|]. right. split; auto. exists g. auto.
Qed.
Print Assumptions C34_provider.

(** ... and every such chain satisfies the property's reading of "verifies". *)
Theorem C34_provider_spec : forall d q rec_ok fetch now l d',
  get_chains d q false rec_ok fetch now = (Some l, d') ->
  forall ch, In ch l -> spec_provided_ok (d_trcs d) (q_isd q) now ch = true.
Proof. intros. eapply get_chains_spec; eauto. Qed.
Print Assumptions C34_provider_spec.

(** With AllowInactive the only exception is what the DB already holds for the
    query: when it holds nothing, every chain handed out (i.e. fetched from the
    network) is subject to the same rule. *)
Theorem C34_provider_allow_inactive_empty_db : forall d q rec_ok fetch now l d',
  get_chains d q true rec_ok fetch now = (Some l, d') -> db_chains d q = [] ->
  forall ch, In ch l -> spec_provided_ok (d_trcs d) (q_isd q) now ch = true.
Proof. intros d q rk f now l d' G E ch Hin. eapply get_chains_spec_gen; eauto. Qed.
Print Assumptions C34_provider_allow_inactive_empty_db.

(** ... and when it holds something, exactly that is handed out, unverified
    (the documented AllowInactive behaviour, outside the property). *)
Theorem C34_provider_allow_inactive_db : forall d q rec_ok fetch now,
  q_isd q <> 0 -> q_as q <> 0 -> db_chains d q <> [] ->
  get_chains d q true rec_ok fetch now = (Some (db_chains d q), d).
Proof.
  intros d q rk f now Hi Ha Hne. unfold get_chains.
  apply N.eqb_neq in Hi, Ha. rewrite Hi, Ha. cbn [orb andb].
  destruct (db_chains d q); [contradiction | reflexivity].
Qed.
Print Assumptions C34_provider_allow_inactive_db.

(** Nothing is handed out when the latest TRC is absent or not valid now. *)
Theorem C34_provider_inactive : forall d q rec_ok fetch now,
  match latest_trc (d_trcs d) (q_isd q) with
  | None => True | Some t => ~ (t_nb t <= now <= t_na t)%Z end ->
  fst (get_chains d q false rec_ok fetch now) = None.
Proof.
  intros d q rk f now H. apply get_chains_inactive.
  destruct (latest_trc (d_trcs d) (q_isd q)) as [t|]; auto.
  destruct (trc_contains t now) eqn:E; auto. apply contains_iff in E. contradiction.
Qed.
Print Assumptions C34_provider_inactive.

(** Chains loaded from disk (LoadChains) enter the trust DB under the same rule:
    a valid chain, valid now, that verifies against the latest TRC valid now or
    against its predecessor during the grace period; nothing is removed and the
    TRCs are untouched. *)
Theorem C34_load_chains : forall now files d e l i d',
  load_chains now files d [] [] = (e, l, i, d') ->
  d_trcs d' = d_trcs d
  /\ (forall ch, In ch (d_chains d) -> In ch (d_chains d'))
  /\ forall ch, In ch (d_chains d') ->
       In ch (d_chains d) \/ (In ch (file_chains files) /\ spec_loaded_ok (d_trcs d) now ch = true).
Proof. intros. eapply load_chains_spec; eauto. Qed.
Print Assumptions C34_load_chains.

Theorem C34_oracle_load_chains_holds_on_model : forall now files d,
  let d' := snd (load_chains now files d [] []) in
  load_chains_oracle now d files (map chain_ids (d_chains d')) = true.
Proof. exact load_chains_oracle_model. Qed.
Print Assumptions C34_oracle_load_chains_holds_on_model.

(** The oracles evaluated on the implementation's observations hold on the model. *)
Theorem C34_oracle_verify_holds_on_model : forall ch trcs now,
  verify_oracle ch trcs now (verify_chain ch trcs now) = true.
Proof. exact verify_oracle_model. Qed.
Print Assumptions C34_oracle_verify_holds_on_model.

Theorem C34_oracle_provider_holds_on_model : forall d q ai rk f now,
  provider_oracle d q ai f now
    (match fst (get_chains d q ai rk f now) with
     | None => None | Some l => Some (map chain_ids l) end) = true.
Proof. exact provider_oracle_model. Qed.
Print Assumptions C34_oracle_provider_holds_on_model.

(** Non-vacuity: a concrete ISD with a root rotation.  The chain issued under
    the old root verifies against TRC 1, is handed out during the grace period of
    TRC 2 (which carries the new root) and no longer afterwards. *)
Module Ex.
Definition ia110 := IAOk 1 272.
Definition sens := mkc 4 4 4 4 4 3 true true 4 0 false false false false [8] [1] false false 0 false ia110 ia110 (-900) 900.
Definition reg := mkc 5 5 5 5 5 3 true true 5 0 false false false false [8] [2] false false 0 false ia110 ia110 (-900) 900.
Definition rootA := mkc 1 1 1 1 1 3 true true 1 0 false false true false [8] [3] true true 1 false ia110 ia110 (-500) 500.
Definition rootB := mkc 6 6 6 6 6 3 true true 6 0 false false true false [8] [3] true true 1 false ia110 ia110 (-500) 500.
Definition ca := mkc 2 2 1 2 1 3 true true 2 1 false false true false [] [] true true 0 false ia110 ia110 (-300) 300.
Definition asc := mkc 3 3 2 3 2 3 true true 3 2 false false false true [1;2;8] [] false false 0 false (IAOk 1 273) ia110 (-200) 200.
Definition trc1 := mkt 1 1 1 1 (-400) 400 0 [sens; reg; rootA] 0 0.
Definition trc2 := mkt 2 1 1 2 (-10) 400 100 [sens; reg; rootB] 0 0.
Definition d := mkdb [trc1; trc2] [[asc; ca]].
Definition q := mkq 1 273 0 false 0 0.
End Ex.

Example C34_example :
  verify_chain_trc [Ex.asc; Ex.ca] (Some Ex.trc1) 0 = true
  /\ verify_chain_trc [Ex.asc; Ex.ca] (Some Ex.trc1) 201 = false
  /\ verify_chain_trc [Ex.asc; Ex.ca] (Some Ex.trc2) 0 = false
  /\ verify_chain_trc [Ex.ca; Ex.asc] (Some Ex.trc1) 0 = false
  /\ fst (get_chains Ex.d Ex.q false true None 50) = Some [[Ex.asc; Ex.ca]]
  /\ fst (get_chains Ex.d Ex.q false true None 150) = None
  /\ fst (get_chains Ex.d Ex.q false true None 401) = None.
Proof. vm_compute. repeat split; reflexivity. Qed.
