(** C22 — Segment-ID accumulator updates give every hop its construction-time value.
    MAC values are symbolic: [sg] is an arbitrary list of 16-bit MAC prefixes
    (sigma_i), so the statements hold for every MAC function and key. *)
From Coq Require Import List NArith Bool Arith Lia.
From Scion Require Import Lib.Check Model.SegID Proofs.SegID.
Import ListNotations.
Import SegID.
Local Open Scope N_scope.

(** Beaconing: the extender MACs the new hop field with the accumulator over all
    existing entries, and its peer hop fields with that value xor the new hop's
    MAC prefix — i.e. with beta_n and beta_{n+1}. *)
Theorem C22_extender_uses_beta : forall b0 sg s,
  extract_beta b0 sg = construction_segid b0 sg (length sg) false /\
  N.lxor (extract_beta b0 sg) s = construction_segid b0 (sg ++ [s]) (length sg) true.
Proof. intros. split; [apply extender_hop_beta | apply extender_peer_beta]. Qed.
Print Assumptions C22_extender_uses_beta.

(** The same, read off the FINISHED segment: whatever is appended later ([ext]), entry
    [length sg] of the final segment has as construction-time value exactly what the extender
    computed when it appended that entry ([extract_beta] over the entries then present; for
    its peer hop fields folded with the new hop's MAC prefix [s]).  This is what ties the
    extension-time statement above to [construction_segid] on the segments the combinator
    and the routers see. *)
Theorem C22_extension_time_is_final : forall b0 sg s ext,
  construction_segid b0 (sg ++ s :: ext) (length sg) false = extract_beta b0 sg /\
  construction_segid b0 (sg ++ s :: ext) (length sg) true = N.lxor (extract_beta b0 sg) s.
Proof.
  intros. split.
  - unfold construction_segid. rewrite beta_app_prefix by lia. symmetry. apply extract_beta_all.
  - replace (sg ++ s :: ext) with ((sg ++ [s]) ++ ext) by (rewrite <- app_assoc; reflexivity).
    unfold construction_segid. rewrite beta_app_prefix by (rewrite app_length; cbn; lia).
    symmetry. apply extender_peer_beta.
Qed.
Print Assumptions C22_extension_time_is_final.

(** The check of the [CMacIn] cases (SegID found inside the MAC input of the hop fields the real
    extender produced) compares with the extension-time value; by the theorem above that is
    the construction-time value of the finished segment, so model and oracle of those cases
    coincide on every entry of every segment. *)
Theorem C22_macin_model_is_oracle : forall b0 sg (i : nat) (p : bool), (i < length sg)%nat ->
  (if p then N.lxor (extract_beta b0 (firstn i sg)) (nth i sg 0) else extract_beta b0 (firstn i sg)) =
  construction_segid b0 sg i p.
Proof.
  intros b0 sg i p H.
  assert (E : sg = firstn i sg ++ nth i sg 0 :: skipn (S i) sg).
  { rewrite <- (firstn_skipn i sg) at 1. f_equal.
    clear b0 p. revert i H. induction sg as [|x t IH]; intros i H; cbn [length] in H; [lia|].
    destruct i as [|i]; [reflexivity|]. cbn [skipn nth]. apply IH. lia. }
  assert (L : length (firstn i sg) = i) by (apply firstn_length_le; lia).
  destruct (C22_extension_time_is_final b0 (firstn i sg) (nth i sg 0) (skipn (S i) sg)) as [A B].
  rewrite <- E, L in A, B. destruct p; [now rewrite B|now rewrite A].
Qed.
Print Assumptions C22_macin_model_is_oracle.

(** Path combination writes into the info field the construction-time value of
    the first hop field the packet will be verified against: for a segment used
    in construction direction the hop at the entry point (its peer hop field
    for a peering entry); otherwise the last AS entry (its peer hop field when
    the slice consists of that peering hop only). *)
Theorem C22_combinator_initial_value : forall b0 sg (shortcut : nat) (peer : bool),
  ((if peer then S shortcut else shortcut) <= length sg)%nat -> (0 < length sg)%nat ->
  calculate_beta b0 sg true shortcut peer = construction_segid b0 sg shortcut peer /\
  calculate_beta b0 sg false shortcut peer =
    construction_segid b0 sg (length sg - 1) (Nat.eqb (length sg - 1) shortcut && peer).
Proof. intros. split; [now apply calculate_beta_down | now apply calculate_beta_up]. Qed.
Print Assumptions C22_combinator_initial_value.

(** Forwarding in construction direction: from the entry point on (full segment,
    shortcut or peering entry), for any number of hops, any number of routers
    per AS (sibling links), every router verifies every hop field with the value
    that hop field was created with. *)
Theorem C22_sync_construction_direction : forall b0 sg (shortcut : nat) (pr : bool) hs h t,
  hs = h :: t -> idx h = shortcut -> peer h = pr -> wf_cons sg true hs = true ->
  walk_ok b0 sg (fst (walk true (calculate_beta b0 sg true shortcut pr) hs)) = true.
Proof.
  intros b0 sg shortcut pr hs h t E Hi Hp W. subst hs.
  apply walk_cons_ok; [now left|].
  rewrite Hi, Hp. apply calculate_beta_down.
  cbn [wf_cons] in W. apply andb_true_iff in W as [W _]. apply andb_true_iff in W as [W _].
  apply andb_true_iff in W as [_ W]. apply Nat.ltb_lt in W. rewrite Hi in W. destruct pr; lia.
Qed.
Print Assumptions C22_sync_construction_direction.

(** Forwarding against construction direction (up and core segments): starting
    at the last AS entry, down to the exit point (full segment, shortcut, or a
    peering hop field as last hop). *)
Theorem C22_sync_against_construction_direction : forall b0 sg (shortcut : nat) (pr : bool) hs h t,
  hs = h :: t -> idx h = (length sg - 1)%nat ->
  peer h = (Nat.eqb (length sg - 1) shortcut && pr) ->
  wf_rev sg true hs = true ->
  walk_ok b0 sg (fst (walk false (calculate_beta b0 sg false shortcut pr) hs)) = true.
Proof.
  intros b0 sg shortcut pr hs h t E Hi Hp W. subst hs.
  apply (walk_rev_ok b0 sg (h :: t) true); [exact W|].
  rewrite Hi, Hp. apply calculate_beta_up.
  cbn [wf_rev] in W. do 3 (apply andb_true_iff in W as [W _]).
  apply andb_true_iff in W as [_ W]. apply Nat.ltb_lt in W. lia.
Qed.
Print Assumptions C22_sync_against_construction_direction.

(** The oracle evaluated on the SegIDs observed in the real routers is exactly
    [walk_ok]; the two theorems above say it holds on the model for every
    well-formed traversal.  Non-vacuity: a 4-hop segment, shortcut at hop 1,
    two routers in the second AS, both directions, and a peering entry. *)
Example C22_example :
  let sg := [0x1234; 0xabcd; 0x0f0f; 0x7777] in
  let one := [{| in_ext := true; eg_ext := true |}] in
  let two := [{| in_ext := true; eg_ext := false |}; {| in_ext := false; eg_ext := true |}] in
  let src := [{| in_ext := false; eg_ext := true |}] in
  let dst := [{| in_ext := true; eg_ext := false |}] in
  wf_cons sg true [ {| idx := 1; peer := false; sigma := 0xabcd; visits := src |};
                    {| idx := 2; peer := false; sigma := 0x0f0f; visits := two |};
                    {| idx := 3; peer := false; sigma := 0x7777; visits := dst |} ] = true /\
  wf_cons sg true [ {| idx := 1; peer := true; sigma := 0x5555; visits := one |};
                    {| idx := 2; peer := false; sigma := 0x0f0f; visits := dst |} ] = true /\
  wf_rev sg true [ {| idx := 3; peer := false; sigma := 0x7777; visits := src |};
                   {| idx := 2; peer := false; sigma := 0x0f0f; visits := two |};
                   {| idx := 1; peer := true; sigma := 0x5555; visits := one |} ] = true /\
  fst (walk false (calculate_beta 9 sg false 1 true)
         [ {| idx := 3; peer := false; sigma := 0x7777; visits := src |};
           {| idx := 2; peer := false; sigma := 0x0f0f; visits := two |};
           {| idx := 1; peer := true; sigma := 0x5555; visits := one |} ])
  = [ (3%nat, false, [beta 9 sg 3]); (2%nat, false, [beta 9 sg 2; beta 9 sg 2]); (1%nat, true, [beta 9 sg 2]) ].
Proof. vm_compute. repeat split; reflexivity. Qed.
