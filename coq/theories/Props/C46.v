(** C46 — ISD-AS and address text formats round-trip; parsing never returns a
    different value.  Property theorems only (lemmas in Proofs/AddrFmt.v). *)
From Coq Require Import String Ascii.
From Coq Require Import List NArith Bool.
From Scion Require Import Lib.Check Model.AddrFmt Proofs.AddrFmt.
Import ListNotations.
Import AddrFmt.
Local Open Scope N_scope.

(** Every ISD (uint16) formats to text that parses back to it. *)
Theorem C46_isd : forall isd, isd <= max_isd -> parse_isd (fmt_isd isd) = Some isd.
Proof. exact parse_fmt_isd. Qed.
Print Assumptions C46_isd.

(** Every AS number up to 2^48-1 round-trips, for every separator whose first
    character is not a hex digit; the text is decimal iff the AS fits 32 bits. *)
Theorem C46_as : forall sep a, head_ok sep -> a <= max_as ->
  parse_as sep (fmt_as sep a) = Some a /\
  (forallb is_dec (fmt_as sep a) = true <-> a <= max_bgp).
Proof.
  intros sep a Hs Ha. split; [now apply parse_fmt_as|].
  rewrite fmt_as_dec_iff by assumption. apply N.leb_le.
Qed.
Print Assumptions C46_as.

(** Every ISD-AS (all 2^64 values) round-trips through IA.String / ParseIA. *)
Theorem C46_ia : forall ia, ia < 2 ^ 64 -> parse_ia (fmt_ia ia) = Some ia.
Proof. exact parse_fmt_ia. Qed.
Print Assumptions C46_ia.

(** FormatISD / FormatAS / FormatIA with any list of options (prefixes on or off,
    any number of WithSeparator) parse back with the same options, for every
    separator that — after the documented defaulting — is non-empty and contains
    neither a hex digit nor '-'. *)
Theorem C46_prefixes_and_separators : forall l isd a ia,
  sep_ok (o_sep (apply_opts l)) = true -> isd <= max_isd -> a <= max_as -> ia < 2 ^ 64 ->
  parse_formatted_isd l (format_isd l isd) = Some isd /\
  parse_formatted_as l (format_as l a) = Some a /\
  parse_formatted_ia l (format_ia l ia) = Some ia.
Proof.
  intros l isd a ia Hs Hi Ha Hia. repeat split.
  - now apply parse_format_isd.
  - apply parse_format_as; [assumption | now apply sep_ok_head].
  - now apply parse_format_ia.
Qed.
Print Assumptions C46_prefixes_and_separators.

(** The empty separator falls back to ':' (so it round-trips), whatever options precede it. *)
Theorem C46_empty_separator : forall l ia, ia < 2 ^ 64 ->
  let opts := l ++ [WithSeparator []] in
  o_sep (apply_opts opts) = colon /\ parse_formatted_ia opts (format_ia opts ia) = Some ia.
Proof.
  intros l ia Hia opts. pose proof (apply_opts_empty_sep l) as E. split; [exact E|].
  apply parse_format_ia; [assumption|]. subst opts. now rewrite E.
Qed.
Print Assumptions C46_empty_separator.

(** the separator in effect is never empty *)
Theorem C46_separator_never_empty : forall l, o_sep (apply_opts l) <> [].
Proof. exact apply_opts_sep_nonempty. Qed.
Print Assumptions C46_separator_never_empty.

(** Known service addresses (DS, CS, Wildcard, with or without multicast). *)
Theorem C46_svc : forall v, svc_known v = true -> parse_svc (svc_string v) = Some v.
Proof. exact parse_svc_string. Qed.
Print Assumptions C46_svc.

(** Host and full address, for any IP text codec that round-trips and never
    prints a service name (net/netip is that parameter). *)
Theorem C46_host : forall (ip : Type) (ip_print : ip -> str) (ip_parse : str -> option ip),
  (forall a, ip_parse (ip_print a) = Some a) -> (forall a, parse_svc (ip_print a) = None) ->
  forall h, host_valid ip h -> parse_host ip ip_parse (host_string ip ip_print h) = Some h.
Proof. exact parse_host_string. Qed.
Print Assumptions C46_host.

Theorem C46_addr : forall (ip : Type) (ip_print : ip -> str) (ip_parse : str -> option ip),
  (forall a, ip_parse (ip_print a) = Some a) -> (forall a, parse_svc (ip_print a) = None) ->
  forall ia h, ia < 2 ^ 64 -> host_valid ip h ->
  parse_addr ip ip_parse (addr_string ip ip_print ia h) = Some (ia, h).
Proof. exact parse_addr_string. Qed.
Print Assumptions C46_addr.

(** All seven numeric/service codecs at once (this is the statement [check] evaluates). *)
Theorem C46_roundtrip : forall k l v, in_domain k l v = true -> parse_k k l (fmt_k k l v) = Some v.
Proof. exact roundtrip_k. Qed.
Print Assumptions C46_roundtrip.

(** Rejection: whatever a parser accepts is a spelling of the value it returns
    (same digits up to leading zeros and hex letter case, a short AS possibly
    written as three hex groups, an optional _A suffix) with every number in
    range — and a text spells at most one value.  So malformed or out-of-range
    text is rejected rather than mapped to some other value. *)
Theorem C46_reject : forall k l s v,
  parse_k k l s = Some v ->
  text_ok k l s v = true /\ (forall w, text_ok k l s w = true -> w = v).
Proof.
  intros k l s v H. apply parse_k_ok in H. split; [exact H|].
  intros w Hw. now apply (text_ok_inj k l s).
Qed.
Print Assumptions C46_reject.

(** what "spelling" means for a number and for an AS, in words *)
Theorem C46_reject_number : forall b bits s v, b = 10 \/ b = 16 ->
  parse_uint b bits s = Some v ->
  s <> [] /\ canon b s = print_uint b v /\ v < 2 ^ bits.
Proof.
  intros b bits s v Hb H. pose proof (parse_uint_lt _ _ _ _ H) as Hlt.
  apply parse_uint_num_ok in H; [|assumption]. unfold num_ok in H.
  apply andb_true_iff in H. destruct H as [H _]. apply andb_true_iff in H. destruct H as [H1 H2].
  repeat split; [destruct s; [discriminate|discriminate] | now apply str_eqb_eq | assumption].
Qed.
Print Assumptions C46_reject_number.

Theorem C46_reject_as_shape : forall sep s v, sep <> [] -> parse_as sep s = Some v ->
  v <= max_as /\
  (num_ok 10 max_bgp s v = true \/
   exists a b c, s = a ++ sep ++ b ++ sep ++ c /\
     num_ok 16 65535 a (v / 2 ^ 32) = true /\ num_ok 16 65535 b ((v / 2 ^ 16) mod 2 ^ 16) = true /\
     num_ok 16 65535 c (v mod 2 ^ 16) = true).
Proof.
  intros sep s v Hs H. apply parse_as_ok in H. split; [now apply (as_ok_range sep s)|].
  now apply as_ok_shape.
Qed.
Print Assumptions C46_reject_as_shape.

Theorem C46_reject_host_addr : forall (ip : Type) (ip_parse : str -> option ip) s ia h,
  parse_addr ip ip_parse s = Some (ia, h) ->
  exists a b, s = a ++ [44] ++ b /\ ~ In 44 a /\ ia_ok a ia = true /\ host_spells ip ip_parse b h.
Proof. exact parse_addr_sound. Qed.
Print Assumptions C46_reject_host_addr.

(** The oracle of [AddrFmt.check] holds on the model's own output, for every input. *)
Theorem C46_oracle_holds_on_model :
  (forall k l v,
     (if in_domain k l v
      then opt_N_eqb (parse_k k l (fmt_k k l v)) (Some v) && dec_iff_ok k l v (fmt_k k l v)
      else true) = true) /\
  (forall k l s, match parse_k k l s with Some v => text_ok k l s v | None => true end = true) /\
  (forall h, ip_text_ok h ->
     let txt := host_string str (fun a => a) h in
     (if host_known h then option_eqb hostv_eqb (parse_host str (ip_table txt (ip_of h)) txt) (Some h)
      else true) = true) /\
  (forall tbl s, match parse_host str tbl s with Some h => host_ok tbl s h | None => true end = true) /\
  (forall ia h, ip_text_ok h ->
     let txt := addr_string str (fun a => a) ia h in
     let tbl := ip_table (host_string str (fun a => a) h) (ip_of h) in
     (if host_known h && (ia <? 2 ^ 64)
      then option_eqb addr_eqb (parse_addr str tbl txt) (Some (ia, h)) else true) = true) /\
  (forall tbl s, match parse_addr str tbl s with
                 | Some (ia, h) => match cut_comma s with
                                   | Some (a, b) => ia_ok a ia && host_ok tbl b h
                                   | None => false end
                 | None => true end = true).
Proof.
  repeat split.
  - exact oracle_fmt.
  - exact oracle_parse.
  - exact oracle_host_fmt.
  - exact oracle_host_parse.
  - exact oracle_addr_fmt.
  - exact oracle_addr_parse.
Qed.
Print Assumptions C46_oracle_holds_on_model.

(** ---------------------------------------------------------------- audit follow-up: ANY separator
    Known finding (separator-hex-or-dash): the property says "any custom
    separator", but a separator that starts with a hex digit makes formatted AS
    text ambiguous, and one that contains '-' breaks ISD-AS text.  pkg/addr
    (faithfully modelled) then parses its own output to a DIFFERENT value: *)
Theorem C46_separator_ambiguous : exists l a w,
  a <= max_as /\ parse_formatted_as l (format_as l a) = Some w /\ w <> a.
Proof.
  exists [WithSeparator [48]], 10203, 4295098371.
  split; [vm_compute; discriminate|]. split; [vm_compute; reflexivity|discriminate].
Qed.
Print Assumptions C46_separator_ambiguous.

(** ... or rejects it (separator "-", a SCION-only AS) *)
Theorem C46_separator_dash_refuted : exists l ia,
  ia < 2 ^ 64 /\ parse_formatted_ia l (format_ia l ia) <> Some ia.
Proof.
  exists [WithSeparator [45]], 0x1ff0000000110. split; [reflexivity|vm_compute; discriminate].
Qed.
Print Assumptions C46_separator_dash_refuted.

(** the oracle of [check] (round trip demanded for every separator) fails on the faithful model there *)
Theorem C46_oracle_refuted : exists k l v,
  fmt_oracle k l v (fmt_k k l v) (parse_k k l (fmt_k k l v)) = false.
Proof. exists KFAs, [WithSeparator [48]], 10203. vm_compute. reflexivity. Qed.
Print Assumptions C46_oracle_refuted.

(** Outside that class — separator (after defaulting) whose first byte is not a
    hex digit, and for ISD-AS text no '-' in it; nothing else is assumed — every
    value of every codec round-trips, with any option list. *)
Theorem C46_roundtrip_except_known : forall k l v,
  in_range k v = true -> sep_good k l = true -> parse_k k l (fmt_k k l v) = Some v.
Proof. exact roundtrip_k_weak. Qed.
Print Assumptions C46_roundtrip_except_known.

Theorem C46_separators_except_known : forall l isd a ia,
  isd <= max_isd -> a <= max_as -> ia < 2 ^ 64 ->
  parse_formatted_isd l (format_isd l isd) = Some isd /\
  (head_ok (o_sep (apply_opts l)) -> parse_formatted_as l (format_as l a) = Some a) /\
  (head_ok (o_sep (apply_opts l)) -> ~ In 45 (o_sep (apply_opts l)) ->
   parse_formatted_ia l (format_ia l ia) = Some ia).
Proof.
  intros l isd a ia Hi Ha Hia. repeat split.
  - now apply parse_format_isd.
  - intros Hh. now apply parse_format_as.
  - intros Hh Hd. now apply parse_format_ia_weak.
Qed.
Print Assumptions C46_separators_except_known.

(** the separators of the earlier theorems are in the good class *)
Theorem C46_sep_ok_is_good : forall k l, sep_ok (o_sep (apply_opts l)) = true -> sep_good k l = true.
Proof. exact sep_ok_good. Qed.
Print Assumptions C46_sep_ok_is_good.

Theorem C46_oracle_holds_on_model_except_known : forall k l v, sep_good k l = true ->
  fmt_oracle k l v (fmt_k k l v) (parse_k k l (fmt_k k l v)) = true.
Proof. exact fmt_oracle_good. Qed.
Print Assumptions C46_oracle_holds_on_model_except_known.

(** Non-vacuity: concrete values through every codec, with the liberties and the rejections. *)
Example C46_example :
  fmt_ia 0x1ff0000000110 = s2l "1-ff00:0:110" /\
  parse_ia (s2l "1-ff00:0:110") = Some 0x1ff0000000110 /\
  format_ia [WithDefaultPrefix; WithSeparator (s2l "_")] 0x1ff0000000110 = s2l "ISD1-ASff00_0_110" /\
  format_ia [WithSeparator []] 0x1ff0000000110 = s2l "1-ff00:0:110" /\
  parse_as colon (s2l "0FF00:0:0110") = Some 0xff0000000110 /\
  parse_as colon (s2l "0:0:1") = Some 1 /\
  parse_as colon (s2l "4294967296") = None /\ parse_as colon (s2l "10000:0:0") = None /\
  parse_as colon (s2l "1::0") = None /\ parse_isd (s2l "65536") = None /\ parse_isd (s2l "+1") = None /\
  fmt_as colon 4294967295 = s2l "4294967295" /\ fmt_as colon 4294967296 = s2l "1:0:0" /\
  parse_svc (s2l "CS_A") = Some 2 /\ parse_svc (s2l "Wildcard_M") = Some 32784 /\ parse_svc (s2l "CS_A_M") = None.
Proof. vm_compute. repeat split; reflexivity. Qed.
