(** C42 — gateway routing picks the most specific prefix and applies policies in
    order.  Property theorems only; proofs are in Proofs/GwRoute.v. *)
From Coq Require Import List NArith Bool Lia.
From Coq Require String.
From Scion Require Import Lib.Check Model.PktCls Model.GwRoute Proofs.GwRoute.
Import ListNotations.
Import String.StringSyntax.
Import GwRoute.
Local Open Scope N_scope.

(** Tables with distinct prefixes: the entry with the longest prefix among those
    that contain the destination decides (it is unique), and a destination that no
    prefix contains is not routed. *)
Theorem C42_lpm : forall t dst pkt,
  distinct_prefixes t = true ->
  (forall e, In e (t_entries t) -> in_prefix (e_pfx e) dst = true ->
     (forall e', In e' (t_entries t) -> in_prefix (e_pfx e') dst = true ->
                 pf_len (e_pfx e') <= pf_len (e_pfx e)) ->
     route t dst pkt = entry_route (t_classes t) e pkt /\
     (forall e', In e' (t_entries t) -> in_prefix (e_pfx e') dst = true ->
                 pf_len (e_pfx e') = pf_len (e_pfx e) -> e' = e)) /\
  ((forall e, In e (t_entries t) -> in_prefix (e_pfx e) dst = false) -> route t dst pkt = None).
Proof.
  intros t dst pkt D. split.
  - intros e Hin Ce Hmax. split; [now apply route_lpm|].
    intros e' Hin' Ce' El. apply (ulen_unique dst (t_entries t)); try assumption.
    now apply distinct_ulen.
  - apply route_none_outside.
Qed.
Print Assumptions C42_lpm.

(** membership in a prefix is an interval of the address space *)
Theorem C42_prefix_interval : forall p v a,
  pf_v6 p = v ->
  let size := 2 ^ (abits v - pf_len p) in let base := pf_addr p / size * size in
  in_prefix p (v, a) = true <-> base <= a < base + size.
Proof. exact in_prefix_interval. Qed.
Print Assumptions C42_prefix_interval.

(** within the chosen entry the first traffic class that matches decides; its
    session may be absent *)
Theorem C42_first_class : forall cs e pkt,
  entry_route cs e pkt =
  match find (cls_matches cs pkt) (e_ids e) with
  | Some id => cls_session cs id
  | None => None
  end.
Proof. intros. apply ids_route_first. Qed.
Print Assumptions C42_first_class.

(** a packet is dropped by the table exactly if no prefix contains the destination,
    or no class of the longest one matches, or that class has no session *)
Theorem C42_drop_cases : forall t dst pkt,
  distinct_prefixes t = true ->
  (route t dst pkt = None <->
   (forall e, In e (t_entries t) -> in_prefix (e_pfx e) dst = false) \/
   (exists e, In e (t_entries t) /\ in_prefix (e_pfx e) dst = true /\
      (forall e', In e' (t_entries t) -> in_prefix (e_pfx e') dst = true ->
                  pf_len (e_pfx e') <= pf_len (e_pfx e)) /\
      (find (cls_matches (t_classes t) pkt) (e_ids e) = None \/
       exists id, find (cls_matches (t_classes t) pkt) (e_ids e) = Some id /\
                  cls_session (t_classes t) id = None))).
Proof.
  intros t dst pkt D. rewrite (route_spec t dst pkt D). unfold spec_route.
  destruct (best_entry (t_entries t) dst None) as [m|] eqn:B.
  - destruct (best_entry_prop dst _ None m ltac:(discriminate) B) as (Cm & [Im|Im] & M & _); [|discriminate].
    unfold contains, elen in *.
    unfold entry_route. rewrite ids_route_first. split.
    + intros H. right. exists m. repeat split; try assumption.
      destruct (find (cls_matches (t_classes t) pkt) (e_ids m)) as [id|]; [right; eauto|now left].
    + intros [H|(e & Hin & Ce & Hmax & H)].
      * rewrite (H m Im) in Cm. discriminate.
      * assert (e = m) as ->.
        { apply (ulen_unique dst (t_entries t)); try assumption; [now apply distinct_ulen|].
          specialize (M e Hin Ce). specialize (Hmax m Im Cm). unfold elen. lia. }
        destruct H as [->|(id & -> & S)]; [reflexivity|exact S].
  - apply best_entry_none in B as [_ N]. split; [intros _; now left|reflexivity].
Qed.
Print Assumptions C42_drop_cases.

(** the forwarder: only a non-empty read with version 4 / 6 whose IP header decodes
    is routed; IPv4 fragments are dropped; what the packet carries plays no role *)
Theorem C42_forwarder : forall t r,
  (forall s, forward t r = Some s ->
     r_len r <> 0 /\
     ((r_b0 r / 16 = 4 /\ exists p ok, r_dec r = D4 p ok /\ PktCls.p_frag p = false /\ route_pkt t (V4 p) = Some s) \/
      (r_b0 r / 16 = 6 /\ exists d ok, r_dec r = D6 d ok /\ route_pkt t (V6 d) = Some s))) /\
  (forall p ok, r_dec r = D4 p ok -> PktCls.p_frag p = true -> forward t r = None) /\
  (forall p ok ok', r_dec r = D4 p ok -> forward t r = forward t (Raw (r_len r) (r_b0 r) (D4 p ok'))) /\
  (distinct_prefixes t = true -> forward t r = spec_forward t r).
Proof.
  intros t r. repeat split.
  - unfold forward in H. destruct (N.eqb_spec (r_len r) 0); [discriminate|assumption].
  - unfold forward in H. destruct (r_len r =? 0); [discriminate|].
    destruct (r_b0 r / 16) as [|q] eqn:V; [discriminate|].
    destruct (r_dec r) as [|p ok|d ok] eqn:E; [destruct q as [[[|[]|]|[[]|[]|]|]|[[|[]|]|[[]|[]|]|]|]; discriminate| |].
    + left. destruct q as [[[|[]|]|[[]|[]|]|]|[[|[]|]|[[]|[]|]|]|]; try discriminate.
      split; [reflexivity|]. exists p, ok. destruct (PktCls.p_frag p); [discriminate|]. auto.
    + right. destruct q as [[[|[]|]|[[]|[]|]|]|[[|[]|]|[[]|[]|]|]|]; try discriminate.
      split; [reflexivity|]. exists d, ok. auto.
  - intros p ok E F. unfold forward. rewrite E, F. destruct (r_len r =? 0); [reflexivity|].
    destruct (r_b0 r / 16) as [|q]; [reflexivity|].
    destruct q as [[[|[]|]|[[]|[]|]|]|[[|[]|]|[[]|[]|]|]|]; reflexivity.
  - intros p ok ok' E. unfold forward. cbn [r_len r_b0 r_dec]. rewrite E. reflexivity.
  - apply forward_spec.
Qed.
Print Assumptions C42_forwarder.

(** Policy.Match: an address is in the result exactly if it is in the prefix and
    the first accept / reject rule that matches the ISD-AS pair and the address
    accepts, or there is none and the default action is accept *)
Theorem C42_policy_first_rule : forall p from to pref a,
  match_set p from to pref a = true <->
  in_prefix pref a = true /\
  ((exists pre r post, p_rules p = pre ++ r :: post /\ applies r from to a = true /\
        r_action r = AAccept /\
        forall r', In r' pre -> applies r' from to a = false \/
                                (r_action r' <> AAccept /\ r_action r' <> AReject)) \/
   ((forall r, In r (p_rules p) -> applies r from to a = false \/
                                   (r_action r <> AAccept /\ r_action r <> AReject)) /\
    p_default p = AAccept)).
Proof.
  intros p from to pref a. rewrite match_set_spec. unfold spec_match. rewrite andb_true_iff.
  assert (Dn : forall r, decides r = None <-> r_action r <> AAccept /\ r_action r <> AReject).
  { intros r. unfold decides. destruct (r_action r); split; intros H; try discriminate; try reflexivity;
      try (split; discriminate); destruct H; congruence. }
  assert (Da : forall r, decides r = Some true <-> r_action r = AAccept).
  { intros r. unfold decides. destruct (r_action r); split; intros H; try discriminate; reflexivity. }
  split; intros [Hin H]; (split; [exact Hin|]).
  - destruct (first_decision (p_rules p) from to a) as [d|] eqn:F.
    + subst d. left. apply first_decision_spec in F as (pre & r & post & E & A & D & P).
      exists pre, r, post. repeat split; try assumption; [now apply Da|].
      intros r' Hr. destruct (P r' Hr) as [X|X]; [now left|right; now apply Dn].
    + right. split; [|now apply action_eqb_eq].
      intros r Hr. destruct (applies r from to a) eqn:Ap; [right|now left].
      destruct (decides r) as [d|] eqn:Dc; [|now apply Dn]. exfalso.
      destruct (in_split r (p_rules p) Hr) as (l1 & l2 & E).
      (* a deciding applicable rule exists, so a first one does *)
      assert (G : forall rules, In r rules -> first_decision rules from to a <> None).
      { induction rules as [|x rs IH]; intros Hx; [destruct Hx|]. cbn [first_decision]. fold (applies x from to a).
        destruct Hx as [->|Hx].
        - rewrite Ap. unfold decides in Dc. destruct (r_action r); discriminate.
        - destruct (applies x from to a); [destruct (r_action x); try discriminate; now apply IH|now apply IH]. }
      now apply (G (p_rules p) Hr).
  - destruct H as [(pre & r & post & E & A & Ac & P)|[P Df]].
    + assert (F : first_decision (p_rules p) from to a = Some true).
      { apply first_decision_spec. exists pre, r, post. repeat split; try assumption; [now apply Da|].
        intros r' Hr. destruct (P r' Hr) as [X|X]; [now left|right; now apply Dn]. }
      now rewrite F.
    + assert (F : first_decision (p_rules p) from to a = None).
      { destruct (first_decision (p_rules p) from to a) as [d|] eqn:F; [|reflexivity]. exfalso.
        apply first_decision_spec in F as (pre & r & post & E & A & D & _).
        destruct (P r) as [X|X]; [rewrite E; apply in_elt|congruence|].
        apply Dn in X. congruence. }
      rewrite F, Df. reflexivity.
Qed.
Print Assumptions C42_policy_first_rule.

(** AdvertiseList: the prefixes of the advertise rules that match the pair and are not negated *)
Theorem C42_advertise : forall p from to x,
  In x (advertise_list p from to) <->
  exists r, In r (p_rules p) /\ r_action r = AAdvertise /\ ia_match (r_from r) from = true /\
            ia_match (r_to r) to = true /\ n_neg (r_net r) = false /\ In x (n_allowed (r_net r)).
Proof.
  intros p from to x. unfold advertise_list. rewrite in_flat_map. split.
  - intros (r & Hr & Hx). exists r. split; [exact Hr|].
    destruct (action_eqb (r_action r) AAdvertise && ia_match (r_from r) from && ia_match (r_to r) to
              && negb (n_neg (r_net r))) eqn:E; [|destruct Hx].
    apply andb_true_iff in E as [E E4]. apply andb_true_iff in E as [E E3]. apply andb_true_iff in E as [E1 E2].
    apply action_eqb_eq in E1. apply negb_true_iff in E4. auto.
  - intros (r & Hr & A & F & T & Ng & Hx). exists r. split; [exact Hr|].
    rewrite A, F, T, Ng. exact Hx.
Qed.
Print Assumptions C42_advertise.

(** serialising a policy from the image of UnmarshalText and parsing the text again
    succeeds, keeps every rule but for its comment, hence every Match decision and
    the advertise list; the image is characterised by [image_rule] *)
Theorem C42_text_roundtrip : forall tb p s,
  tb_ok tb = true -> forallb image_rule (p_rules p) = true -> marshal tb p = Some s ->
  exists rs, unmarshal tb s = Ok rs /\
    list_eqb rule_same (p_rules p) rs = true /\
    (forall from to pref a, match_set (Policy rs (p_default p)) from to pref a = match_set p from to pref a) /\
    (forall from to, advertise_list (Policy rs (p_default p)) from to = advertise_list p from to).
Proof.
  intros tb p s OK Im M. destruct (marshal_unmarshal tb p s OK Im M) as (rs & U & S).
  exists rs. split; [exact U|]. split; [exact S|].
  destruct (same_rules_same_decisions (p_rules p) rs (p_default p) S) as [A B].
  destruct p as [rules d]. cbn [p_rules p_default] in *. split.
  - intros. symmetry. apply A.
  - intros. symmetry. apply B.
Qed.
Print Assumptions C42_text_roundtrip.

Theorem C42_unmarshal_image : forall tb text rs,
  unmarshal tb text = Ok rs -> forallb image_rule rs = true.
Proof. exact unmarshal_image. Qed.
Print Assumptions C42_unmarshal_image.

(** the oracles evaluated on the implementation's observations hold on the model *)
Theorem C42_oracle_holds_on_model : forall chains ops ps rs p from to pref addrs,
  route_oracle chains ops ps (snd (route_model chains ops ps)) = true /\
  fwd_oracle chains ops rs (fwd_model chains ops rs) = true /\
  match_oracle p from to pref addrs (List.map (match_set p from to pref) addrs) = true.
Proof.
  intros. split; [apply route_oracle_model|]. split; [apply fwd_oracle_model|apply match_oracle_model].
Qed.
Print Assumptions C42_oracle_holds_on_model.

Theorem C42_roundtrip_oracle_holds_on_model : forall tb p s,
  tb_ok tb = true -> forallb image_rule (p_rules p) = true -> marshal tb p = Some s ->
  roundtrip_oracle p (res_opt (unmarshal tb s)) = true.
Proof. exact roundtrip_oracle_model. Qed.
Print Assumptions C42_roundtrip_oracle_holds_on_model.

(** Non-vacuity: nested prefixes 10.0.0.0/8 > 10.1.0.0/16 > 10.1.2.0/24, a class
    list whose first class matches TCP only; a policy whose second rule is shadowed. *)
Example C42_example :
  let t := fst (apply_ops (new_table
      [Chain [Pfx false 167772160 8] [TM 1 (PktCls.CBool true)];
       Chain [Pfx false 167837696 16; Pfx false 167838208 24]
             [TM 2 (PktCls.CProto 6); TM 3 (PktCls.CBool true)]])
      [OSet 1 (Some 101); OSet 2 (Some 102)]) in
  let tcp := PktCls.P 1 167838209 0 6 false (Some (1, 80)) in        (* to 10.1.2.1 *)
  let udp := PktCls.P 1 167838209 0 17 false (Some (1, 53)) in
  let other := PktCls.P 1 168427521 0 6 false (Some (1, 80)) in      (* to 10.10.0.1 *)
  distinct_prefixes t = true /\
  route_pkt t (V4 tcp) = Some 102 /\ route_pkt t (V4 udp) = None /\ route_pkt t (V4 other) = Some 101 /\
  forward t (Raw 40 69 (D4 tcp false)) = Some 102 /\
  forward t (Raw 40 69 (D4 (PktCls.P 1 167838209 0 6 true None) true)) = None /\
  let p := Policy [Rule AReject (IAM false 1 0) (IAM false 0 0) (NetM [Pfx false 167837696 16] false) None [];
                   Rule AAccept (IAM false 0 0) (IAM false 0 0) (NetM [Pfx false 167772160 8] false) None []]
                  AReject in
  match_set p (1, 5) (2, 7) (Pfx false 0 0) (false, 167838209) = false /\
  match_set p (1, 5) (2, 7) (Pfx false 0 0) (false, 168427521) = true /\
  match_set p (2, 5) (2, 7) (Pfx false 0 0) (false, 167838209) = true.
Proof. vm_compute. repeat split; reflexivity. Qed.

(** Non-vacuity of the text round trip: a policy with a negated ISD-AS matcher, a
    negated list of two prefixes, a comment containing '#', and an advertise rule
    with a next hop; its marshalled text (two aligned lines) parses back to the same
    rules, comments included. *)
Example C42_text_roundtrip_example :
  let tb : atoms :=
    [Atom (str "1-0") (Some (1, 0)) None None true;
     Atom (str "0-0") (Some (0, 0)) None None true;
     Atom (str "10.0.0.0/8") None (Some (Pfx false 167772160 8)) None true;
     Atom (str "10.1.0.0/16") None (Some (Pfx false 167837696 16)) None true;
     Atom (str "10.0.0.1") None None (Some (false, 167772161)) true] in
  let p := Policy
    [Rule AReject (IAM true 1 0) (IAM false 0 0)
          (NetM [Pfx false 167837696 16; Pfx false 167772160 8] true) None (str "x # y");
     Rule AAdvertise (IAM false 0 0) (IAM false 0 0)
          (NetM [Pfx false 167772160 8] false) (Some (false, 167772161)) []] AReject in
  tb_ok tb = true /\ forallb image_rule (p_rules p) = true /\
  marshal tb p = Some (str "reject       !1-0    0-0    !10.1.0.0/16,10.0.0.0/8                # x # y
advertise    0-0     0-0    10.0.0.0/8                 10.0.0.1
") /\
  exists s, marshal tb p = Some s /\ unmarshal tb s = Ok (p_rules p) /\
            advertise_list p (2, 2) (3, 3) = [Pfx false 167772160 8].
Proof.
  vm_compute. repeat split; try reflexivity. eexists. repeat split; reflexivity.
Qed.
