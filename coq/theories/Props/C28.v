(** C28 — combined paths are well-formed and their metadata is accurate.
    Property theorems only (about [Combinator.combine], the model of
    combinator.Combine); each is closed by a lemma of Proofs/Combinator*.v.

    Reading guide.  An [edge] is (input segment, cut index [e_sc], peer entry
    [e_peer]); a returned path is rendered from 1..3 edges, one [slice] (info
    field + hop fields, each tagged with its ISD-AS) per edge.  *)
From Coq Require Import List NArith Bool Arith Sorted.
From Scion Require Import Lib.Check Model.Segment Model.CombSpec Model.Combinator.
From Scion Require Import Proofs.CombinatorGraph Proofs.CombinatorRender Proofs.CombinatorFilter
  Proofs.CombinatorPaths Proofs.CombinatorIfs Proofs.CombSpec Proofs.CombinatorSpec
  Proofs.CombinatorSound Proofs.CombinatorComplete Proofs.CombinatorMain
  Proofs.CombinatorProps Proofs.CombinatorOracle Proofs.CombinatorExact.
Import ListNotations.
Import Segment Combinator.
Local Open Scope N_scope.

(** The search never runs out of fuel (at most three segments per solution). *)
Theorem C28_never_out_of_fuel : forall src dst ups cores downs fa,
  combine src dst ups cores downs fa <> OutOfFuel.
Proof. exact combine_not_out_of_fuel. Qed.
Print Assumptions C28_never_out_of_fuel.

(** Shape: every returned path uses at most one up, one core and one down
    segment, in that order, each taken from the matching input list; it has one
    path segment per used input segment whose info field carries that segment's
    timestamp, the SegID [calc_beta], ConsDir = "down segment" and Peer = "a peer
    entry is used"; SegLen = number of hop fields >= 1 = number of AS entries from
    the cut on; the hop fields are, in order, the hop fields of consecutive AS
    entries of the input segment (the peer entry's hop field at a peering cut). *)
Theorem C28_shape : forall src dst ups cores downs fa ps p,
  combine src dst ups cores downs fa = Done ps -> In p ps ->
  exists es : list edge,
    (map ety es = [Up] \/ map ety es = [CoreT] \/ map ety es = [Down] \/
     map ety es = [Up; CoreT] \/ map ety es = [Up; Down] \/ map ety es = [CoreT; Down] \/
     map ety es = [Up; CoreT; Down]) /\
    Forall (seg_in_role ups cores downs) es /\
    Forall2 slice_of_edge es (p_slices p) /\
    p_weight p = sum_w es.
Proof. exact shape_lemma. Qed.
Print Assumptions C28_shape.

(** Interfaces: for validated segments the metadata lists exactly the interfaces
    the rendered hop fields traverse, in traversal order. *)
Theorem C28_interfaces : forall src dst ups cores downs fa ps p,
  valid_input (segs_of ups) (segs_of cores) (segs_of downs) = true ->
  combine src dst ups cores downs fa = Done ps -> In p ps ->
  p_ifs p = flat_map slice_traversed (p_slices p).
Proof. exact interfaces_lemma. Qed.
Print Assumptions C28_interfaces.

(** No returned path passes an AS more than twice. *)
Theorem C28_no_as_thrice : forall src dst ups cores downs fa ps p,
  combine src dst ups cores downs fa = Done ps -> In p ps -> no_as_thrice (p_ifs p).
Proof.
  intros * Hc Hp. destruct (combine_in _ _ _ _ _ _ _ _ Hc Hp) as [es [_ [_ H]]]. exact H.
Qed.
Print Assumptions C28_no_as_thrice.

(** Expiry: the earliest expiry of the hop fields on the path (hop fields with
    8-bit ExpTime). *)
Theorem C28_expiry_min : forall src dst ups cores downs fa ps p,
  fields_ok ups cores downs ->
  combine src dst ups cores downs fa = Done ps -> In p ps ->
  (forall sl x, In sl (p_slices p) -> In x (sl_hops sl) -> p_exp p <= hop_exp (i_ts (sl_info sl)) x) /\
  (exists sl x, In sl (p_slices p) /\ In x (sl_hops sl) /\ p_exp p = hop_exp (i_ts (sl_info sl)) x).
Proof. exact expiry_lemma. Qed.
Print Assumptions C28_expiry_min.

(** MTU: the minimum of 65535 and the MTU values along the used parts
    ([edge_mtu_terms]: internal MTU of every AS entry used, announced ingress-link
    MTU of every entry used except at an inner cut, peering-link MTU at a
    peering cut), each as uint16. *)
Theorem C28_mtu_min : forall src dst ups cores downs fa ps p,
  combine src dst ups cores downs fa = Done ps -> In p ps ->
  exists es, Forall2 slice_of_edge es (p_slices p) /\
    p_mtu p <= 65535 /\
    (forall t, In t (flat_map edge_mtu_terms es) -> p_mtu p <= t) /\
    (p_mtu p = 65535 \/ In (p_mtu p) (flat_map edge_mtu_terms es)).
Proof. exact mtu_lemma. Qed.
Print Assumptions C28_mtu_min.

(** Duplicates: without findAllIdentical no two returned paths share an
    interface sequence, and the one kept expires no earlier than any candidate
    with the same interface sequence that passes no AS more than twice. *)
Theorem C28_dedup : forall src dst ups cores downs ps,
  combine src dst ups cores downs false = Done ps ->
  NoDup (map p_ifs ps) /\
  forall all, all_paths src dst (insegs ups cores downs) = Done all ->
    forall p q, In p ps -> In q all -> no_as_thrice (p_ifs q) -> p_ifs q = p_ifs p -> p_exp q <= p_exp p.
Proof. exact combine_dedup. Qed.
Print Assumptions C28_dedup.

(** Order: weights are non-decreasing. *)
Theorem C28_sorted : forall src dst ups cores downs fa ps,
  combine src dst ups cores downs fa = Done ps ->
  StronglySorted (fun a b => p_weight a <= p_weight b) ps.
Proof. exact combine_sorted. Qed.
Print Assumptions C28_sorted.

(** Converse of C29: every returned interface sequence is a valid combination of
    the supplied segments (validated segments, no wildcard ISD-AS). *)
Theorem C28_sound : forall src dst ups cores downs fa ps p,
  valid_input (segs_of ups) (segs_of cores) (segs_of downs) = true ->
  combine src dst ups cores downs fa = Done ps -> In p ps ->
  valid_combination (segs_of ups) (segs_of cores) (segs_of downs) src dst (p_ifs p).
Proof. exact combine_sound. Qed.
Print Assumptions C28_sound.

(** The oracle evaluated on the implementation's result holds on the model, for every input. *)
Theorem C28_oracle_holds_on_model : forall src dst ups cores downs fa ps,
  combine src dst ups cores downs fa = Done ps ->
  ok28 src dst ups cores downs fa (map obs_of ps) = true.
Proof. exact ok28_model. Qed.
Print Assumptions C28_oracle_holds_on_model.

(** Non-vacuity: leaf Y (12) below X (11) below core A (10); core B (20) with leaf
    Z (21); X and Z peer (X#5 -- Z#6).  From Y to Z there is the path over the
    core segment and the peering shortcut; both are returned, the peering path
    (weight 2) before the core path (weight 4). *)
Definition ex_up : segment :=
  mkSeg 1700000000 7
    [mkAS 10 (mkHop 0 1 63 [1;1;1;1;1;1]) 0 1500 [];
     mkAS 11 (mkHop 1 2 63 [2;2;2;2;2;2]) 1400 1500 [mkPeer 21 6 (mkHop 5 2 63 [3;3;3;3;3;3]) 1300];
     mkAS 12 (mkHop 1 0 50 [4;4;4;4;4;4]) 1450 9000 []].
Definition ex_core : segment :=
  mkSeg 1700000100 9
    [mkAS 20 (mkHop 0 1 63 [5;5;5;5;5;5]) 0 2000 [];
     mkAS 10 (mkHop 2 0 63 [6;6;6;6;6;6]) 1600 1500 []].
Definition ex_down : segment :=
  mkSeg 1700000200 11
    [mkAS 20 (mkHop 0 3 63 [7;7;7;7;7;7]) 0 2000 [];
     mkAS 21 (mkHop 1 0 40 [8;8;8;8;8;8]) 1350 1500 [mkPeer 11 5 (mkHop 6 0 40 [9;9;9;9;9;9]) 1300]].

Example C28_example :
  wf_input [ex_up] [ex_core] [ex_down] = true /\
  match combine 12 21 [(1, ex_up)] [(2, ex_core)] [(3, ex_down)] false with
  | Done ps =>
    map (fun p => (p_ifs p, p_weight p, p_mtu p)) ps =
    [ ([(12, 1); (11, 2); (11, 5); (21, 6)], 2, 1300);
      ([(12, 1); (11, 2); (11, 1); (10, 1); (10, 2); (20, 1); (20, 3); (21, 1)], 4, 1350) ]
  | _ => False
  end.
Proof. vm_compute. split; reflexivity. Qed.

(** Exact rendering (audit follow-up; strengthens C28_shape / C28_mtu_min, which
    leave the edges existential).  ONE sequence [es] of edges, every edge one of
    the AddEdge calls made for the input segments ([all_tuples (insegs ..)]),
    determines the path: weight of an edge = AS hops from the segment's last
    entry to the cut (+1 for the peering link on the down side); the hop fields
    of a path segment are, in construction order, the cut entry's hop field (the
    used peer entry's hop field at a peering cut) followed position by position by
    the hop fields of the entries after the cut; the MTU is the minimum of 65535
    and exactly the MTU fields of those entries ([entry_mtus], [cut_mtus]); the
    weight is the sum of the edge weights. *)
Theorem C28_exact : forall src dst ups cores downs fa ps p,
  combine src dst ups cores downs fa = Done ps -> In p ps ->
  exists (es : list edge) (mts : list (list N)),
    Forall (fun e => In e (all_tuples (insegs ups cores downs))) es /\
    (map ety es = [Up] \/ map ety es = [CoreT] \/ map ety es = [Down] \/
     map ety es = [Up; CoreT] \/ map ety es = [Up; Down] \/ map ety es = [CoreT; Down] \/
     map ety es = [Up; CoreT; Down]) /\
    Forall (fun e => e_w e = edge_weight e) es /\
    exact_slices es (p_slices p) mts /\
    p_mtu p = fold_left N.min (concat mts) 65535 /\
    p_weight p = sum_weight es.
Proof. exact exact_lemma. Qed.
Print Assumptions C28_exact.

(** Order, with the weight pinned down: non-decreasing [p_weight], and [p_weight]
    is the sum of the formula weights of the path's own edges. *)
Theorem C28_sorted_by_edge_weight : forall src dst ups cores downs fa ps,
  combine src dst ups cores downs fa = Done ps ->
  StronglySorted (fun a b => p_weight a <= p_weight b) ps /\
  forall p, In p ps -> exists es,
    Forall (fun e => In e (all_tuples (insegs ups cores downs))) es /\
    (exists mts, exact_slices es (p_slices p) mts) /\ p_weight p = sum_weight es.
Proof.
  intros * Hc. split; [eapply combine_sorted; eauto|]. intros p Hp.
  destruct (exact_lemma _ _ _ _ _ _ _ _ Hc Hp) as [es [mts [H1 [_ [_ [H4 [_ H6]]]]]]]. eauto.
Qed.
Print Assumptions C28_sorted_by_edge_weight.

(** The exact statement pins the example's peering path: MTU 1300, weight 2. *)
Example C28_exact_example :
  let e1 := mkEdge (v_ia 12) (v_peer 11 5 21 6) (mkIn Up 0 1 ex_up) 1 1 1 in
  let e2 := mkEdge (v_peer 11 5 21 6) (v_ia 21) (mkIn Down 0 3 ex_down) 1 1 1 in
  In e1 (all_tuples (insegs [(1, ex_up)] [(2, ex_core)] [(3, ex_down)])) /\
  In e2 (all_tuples (insegs [(1, ex_up)] [(2, ex_core)] [(3, ex_down)])) /\
  sum_weight [e1; e2] = 2 /\
  fold_left N.min (cut_mtus e1 (nth 1 (sg_entries ex_up) (mkAS 0 (mkHop 0 0 0 []) 0 0 [])) ++
                   entry_mtus (nth 2 (sg_entries ex_up) (mkAS 0 (mkHop 0 0 0 []) 0 0 [])) ++
                   cut_mtus e2 (nth 1 (sg_entries ex_down) (mkAS 0 (mkHop 0 0 0 []) 0 0 []))) 65535 = 1300.
Proof.
  cbv zeta. repeat split; try (vm_compute; reflexivity);
    vm_compute; repeat (first [left; reflexivity | right]).
Qed.
