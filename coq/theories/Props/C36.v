(** C36 — signers are backed by a currently verifiable chain and expire in time.
    Property theorems only; proofs are in Proofs/SignerGen.v. *)
From Coq Require Import List NArith ZArith Bool Lia.
From Scion Require Import Lib.Check Model.PKIChain Model.SignerGen Proofs.PKIChain Proofs.SignerGen.
Import ListNotations.
Import PKIChain SignerGen.
Local Open Scope N_scope.

(** Every generated signer belongs to a key [k] of the key ring and is backed by
    a chain from the trust DB for this ISD-AS that certifies exactly this public
    key, is valid now and carries the requested usage; the ISD's latest TRC [t]
    is valid now, and
    - either the chain verifies against [t], it expires last among the key's
      chains that do, and the signer expires at min(chain NotAfter, TRC NotAfter);
    - or (only if none of the key's chains verifies against [t]) now is in the
      grace period of [t], the chain verifies against the predecessor [g], it
      expires last among those that do, and the signer expires at
      min(chain NotAfter, NotAfter of [t], grace-period end, NotAfter of [g]). *)
Theorem C36_backed_latest_expiring_expiry : forall d isd asn eku now ks l s,
  signer_gen d isd asn eku now ks = Some l -> In s l ->
  exists k t, In k ks /\ s_key s = k_h k
    /\ In (s_chain s) (d_chains d)
    /\ chain_matches (mkq isd asn (k_skid k) true now now) (s_chain s) = true
    /\ as_key (s_chain s) = k_h k
    /\ In (s_chain s) (candidates d isd asn eku now k)
    /\ latest_trc (d_trcs d) isd = Some t /\ (t_nb t <= now <= t_na t)%Z
    /\ s_trc s = trc_id t
    /\ ((s_grace s = false
         /\ verify_chain_trc (s_chain s) (Some t) now = true
         /\ (forall c, In c (candidates d isd asn eku now k) ->
               verify_chain_trc c (Some t) now = true -> (as_na c <= as_na (s_chain s))%Z)
         /\ s_expiry s = Z.min (as_na (s_chain s)) (t_na t))
        \/ (s_grace s = true /\ in_grace t now = true
            /\ (forall c, In c (candidates d isd asn eku now k) -> verify_chain_trc c (Some t) now = false)
            /\ exists g, find_trc (d_trcs d) isd (t_base t) (t_serial t - 1) = Some g
               /\ verify_chain_trc (s_chain s) (Some g) now = true
               /\ (forall c, In c (candidates d isd asn eku now k) ->
                     verify_chain_trc c (Some g) now = true -> (as_na c <= as_na (s_chain s))%Z)
               /\ s_expiry s = Z.min (Z.min (as_na (s_chain s)) (t_na t))
                                     (Z.min (grace_end t) (t_na g)))).
Proof.
  intros d isd asn eku now ks l s G Hin.
  destruct (signer_gen_In _ _ _ _ _ _ _ _ G Hin) as (trcs & k & A & Hk & B).
  destruct (best_for_key_got _ _ _ _ _ _ _ _ B) as (Sk & Key & Skid & Hc & t & rest & -> & Tid & Cases).
  destruct (candidates_In _ _ _ _ _ _ _ Hc) as (Hdb & Hm & Hkey).
  apply active_trcs_cases in A as (t' & L & C & Cs).
  assert (t' = t) by (destruct Cs as [[_ E]|[_ (g' & _ & E)]]; now inversion E). subst t'.
  exists k, t. repeat (split; [assumption|]). split; [now apply contains_iff|]. split; [assumption|].
  destruct Cs as [[Gr E]|[Gr (g' & F & E)]]; inversion E; subst rest.
  - destruct Cases as [K|(g & Eg & _)]; [now left | discriminate].
  - destruct Cases as [K|(g & Eg & G1 & Hnone & V & Hmax & Ex)]; [now left|].
    inversion Eg; subst g'. right. repeat split; auto. exists g. auto.
Qed.
Print Assumptions C36_backed_latest_expiring_expiry.

(** In the words of C34: the backing chain is an AS certificate issued by a CA
    certificate that chains to a root of the TRC it was verified against. *)
Theorem C36_backed_spec : forall d isd asn eku now ks l s,
  signer_gen d isd asn eku now ks = Some l -> In s l ->
  exists k, In k ks /\ s_key s = k_h k
    /\ spec_signer_ok d isd asn eku now k (s_chain s) (s_expiry s) (s_grace s) = true.
Proof. exact spec_signer_ok_model. Qed.
Print Assumptions C36_backed_spec.

(** The grace fallback is used only if none of the key's chains verifies
    against the latest TRC (contrapositive form). *)
Theorem C36_prefers_active : forall d isd asn eku now ks l s k c t,
  signer_gen d isd asn eku now ks = Some l -> In s l ->
  In k ks -> s_key s = k_h k -> (forall k', In k' ks -> k_h k' = k_h k -> k' = k) ->
  latest_trc (d_trcs d) isd = Some t ->
  In c (candidates d isd asn eku now k) -> verify_chain_trc c (Some t) now = true ->
  s_grace s = false.
Proof.
  intros d isd asn eku now ks l s k c t G Hin Hk Key Wf L Hc V.
  destruct (C36_backed_latest_expiring_expiry _ _ _ _ _ _ _ _ G Hin)
    as (k' & t' & Hk' & Key' & _ & _ & _ & _ & L' & _ & _ & [(Gr & _)|(Gr & _ & Hnone & _)]); auto.
  assert (k' = k) by (apply Wf; auto; congruence). subst k'.
  rewrite L in L'. inversion L'; subst t'. rewrite (Hnone c Hc) in V. discriminate.
Qed.
Print Assumptions C36_prefers_active.

(** Signing succeeds exactly as long as the signer has not expired. *)
Theorem C36_expired_fails : forall s now, sign_ok s now = false <-> (s_expiry s < now)%Z.
Proof.
  intros s now. unfold sign_ok. rewrite Z.leb_gt. tauto.
Qed.
Print Assumptions C36_expired_fails.

(** Messages of a generated signer verify with a verifier bound to the signer's
    ISD-AS (and with an unbound one), and with no verifier bound to another ISD-AS. *)
Theorem C36_sign_verify : forall d isd asn eku now ks l s,
  isd <> 0 -> asn <> 0 ->
  signer_gen d isd asn eku now ks = Some l -> In s l ->
  verifier_ok d isd asn s isd asn now = true
  /\ verifier_ok d isd asn s 0 0 now = true
  /\ forall bisd basn, (bisd, basn) <> (isd, asn) -> (bisd, basn) <> (0, 0) ->
       verifier_ok d isd asn s bisd basn now = false.
Proof. exact verifier_ok_model. Qed.
Print Assumptions C36_sign_verify.

(** Over the signer's whole lifetime: a message signed at any later time [now']
    at which signing still succeeds verifies at [now'] with a verifier bound to
    the signer's ISD-AS (trust store unchanged).  This is what the expiry formula
    is for.  It needs what cppki.TRC.Validate guarantees for every TRC that can
    be decoded from the trust DB: each certificate of a TRC covers the TRC's
    validity ([trcs_cover]). *)
Theorem C36_sign_verify_lifetime : forall d isd asn eku now ks l s now',
  isd <> 0 -> asn <> 0 ->
  (forall t r, In t (d_trcs d) -> In r (t_certs t) -> (c_nb r <= t_nb t /\ t_na t <= c_na r)%Z) ->
  signer_gen d isd asn eku now ks = Some l -> In s l ->
  (now <= now')%Z -> sign_ok s now' = true ->
  verifier_ok d isd asn s isd asn now' = true.
Proof. exact verifier_ok_later. Qed.
Print Assumptions C36_sign_verify_lifetime.

(** The oracle evaluated on the implementation's observation holds on the model
    (key handles identify the keys of the ring). *)
Definition to_isigner (d : db) (isd asn : N) (now : Z) (s : signer) : isigner :=
  (s_key s, chain_ids (s_chain s), s_expiry s, s_grace s,
   (sign_ok s now, verifier_ok d isd asn s isd asn now, verifier_ok d isd asn s isd (asn + 1) now)).

Theorem C36_oracle_holds_on_model : forall d isd asn eku now ks,
  isd <> 0 -> asn <> 0 ->
  (forall k1 k2, In k1 ks -> In k2 ks -> k_h k1 = k_h k2 -> k1 = k2) ->
  gen_oracle d isd asn eku now ks
    (match signer_gen d isd asn eku now ks with
     | None => None | Some l => Some (map (to_isigner d isd asn now) l) end) = true.
Proof.
  intros d isd asn eku now ks Hi Ha Wf.
  destruct (signer_gen d isd asn eku now ks) as [l|] eqn:G; [|reflexivity].
  unfold gen_oracle. apply forallb_forall. intros i Hi'. apply in_map_iff in Hi' as (s & <- & Hin).
  unfold to_isigner.
  destruct (spec_signer_ok_model _ _ _ _ _ _ _ _ G Hin) as (k & Hk & Key & Spec).
  assert (Fk : find_key ks (s_key s) = Some k).
  { unfold find_key. destruct (find (fun k0 => k_h k0 =? s_key s) ks) as [k0|] eqn:F.
    - apply find_some in F as [Hk0 E]. apply N.eqb_eq in E. f_equal. apply Wf; auto. congruence.
    - exfalso. apply (find_none _ _ F) in Hk. rewrite Key, N.eqb_refl in Hk. discriminate. }
  rewrite Fk.
  destruct (verifier_ok_model _ _ _ _ _ _ _ _ Hi Ha G Hin) as (V1 & _ & V2).
  rewrite V1, (V2 isd (asn + 1)).
  - unfold sign_ok. rewrite eqb_reflx. rewrite orb_true_r, !andb_true_r.
    apply existsb_exists. exists (s_chain s). split.
    + destruct (signer_gen_In _ _ _ _ _ _ _ _ G Hin) as (trcs & k' & _ & _ & B).
      destruct (best_for_key_got _ _ _ _ _ _ _ _ B) as (_ & _ & _ & Hc & _).
      now destruct (candidates_In _ _ _ _ _ _ _ Hc).
    + now rewrite ids_eqb_refl, Spec.
  - intros E. inversion E. lia.
  - intros E. inversion E. contradiction.
Qed.
Print Assumptions C36_oracle_holds_on_model.

(** Non-vacuity: the ISD of C34's example with a root rotation.  Key 3 has a
    chain under the old root only: during the grace period of TRC 2 the signer
    is backed by the predecessor and expires with the grace period; afterwards
    no signer can be generated. *)
Module Ex.
Definition ia110 := IAOk 1 272.
Definition sens := mkc 4 4 4 4 4 3 true true 4 0 false false false false [8] [1] false false 0 false ia110 ia110 (-900) 900.
Definition reg := mkc 5 5 5 5 5 3 true true 5 0 false false false false [8] [2] false false 0 false ia110 ia110 (-900) 900.
Definition rootA := mkc 1 1 1 1 1 3 true true 1 0 false false true false [8] [3] true true 1 false ia110 ia110 (-500) 500.
Definition rootB := mkc 6 6 6 6 6 3 true true 6 0 false false true false [8] [3] true true 1 false ia110 ia110 (-500) 500.
Definition ca := mkc 2 2 1 2 1 3 true true 2 1 false false true false [] [] true true 0 false ia110 ia110 (-300) 300.
Definition asc := mkc 3 3 2 3 2 3 true true 3 2 false false false true [1;2;8] [] false false 0 false (IAOk 1 273) ia110 (-200) 200.
Definition trc1 := mkt 1 1 1 1 (-400) 400 0 [sens; reg; rootA] 0 0.
Definition trc2 := mkt 2 1 1 2 (-10) 400 100 [sens; reg; rootB] 0 0.
Definition d := mkdb [trc1; trc2] [[asc; ca]].
Definition k := mkkey 3 3 true.
End Ex.

Example C36_example :
  (match signer_gen Ex.d 1 273 0 50 [Ex.k] with
   | Some [s] => (s_expiry s, s_grace s, sign_ok s 50, sign_ok s 91,
                  verifier_ok Ex.d 1 273 s 1 273 50, verifier_ok Ex.d 1 273 s 1 274 50)
   | _ => (0%Z, false, false, false, false, false) end)
  = (90%Z, true, true, false, true, false)
  /\ signer_gen Ex.d 1 273 0 150 [Ex.k] = None
  /\ (match signer_gen (mkdb [Ex.trc1] [[Ex.asc; Ex.ca]]) 1 273 0 50 [Ex.k] with
      | Some [s] => (s_expiry s, s_grace s) | _ => (0%Z, true) end) = (200%Z, false).
Proof. vm_compute. repeat split; reflexivity. Qed.

(** The hypothesis of [C36_sign_verify_lifetime] is needed: with a root
    certificate that ends (100) before the TRC that carries it (400) — a TRC that
    cppki.TRC.Validate rejects — the signer (expiry 200) still signs at 150 but
    no verifier accepts the message then. *)
Module ExCover.
Definition rootShort := mkc 1 1 1 1 1 3 true true 1 0 false false true false [8] [3] true true 1 false Ex.ia110 Ex.ia110 (-500) 100.
Definition trc1 := mkt 1 1 1 1 (-400) 400 0 [Ex.sens; Ex.reg; rootShort] 0 0.
Definition d := mkdb [trc1] [[Ex.asc; Ex.ca]].
End ExCover.
Example C36_lifetime_needs_cover :
  (match signer_gen ExCover.d 1 273 0 50 [Ex.k] with
   | Some [s] => (s_expiry s, sign_ok s 150, verifier_ok ExCover.d 1 273 s 1 273 50,
                  verifier_ok ExCover.d 1 273 s 1 273 150)
   | _ => (0%Z, false, false, false) end) = (200%Z, true, true, false)
  /\ ~ (forall t r, In t (d_trcs ExCover.d) -> In r (t_certs t) -> (c_nb r <= t_nb t /\ t_na t <= c_na r)%Z).
Proof.
  split; [vm_compute; reflexivity|].
  intros H. specialize (H ExCover.trc1 ExCover.rootShort (or_introl eq_refl)).
  cbn in H. destruct H as [_ H]; [tauto|]. vm_compute in H. apply H. reflexivity.
Qed.
