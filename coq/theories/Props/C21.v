(** C21 — SPAO packet authenticators cover exactly the immutable packet fields.

    All statements are about [Spao.auth_input p k], the byte string that
    [spao.ComputeAuthCMAC] feeds to the CMAC for packet [p] under an SPI of kind [k]
    (Model/Spao.v follows serializeAuthenticatedData / zeroOutMutablePath /
    zeroOutWithBase byte for byte).  The MAC is a variable: equal input gives an equal
    tag for every MAC function, a different input gives a different tag unless the MAC
    collides on these two inputs.

    [pkt_cov tcrel k p p'] = "p and p' agree in every covered field": version, traffic
    class up to [tcrel], flow ID, path type, address types, the addresses the SPI kind
    includes, the immutable path content (segment lengths, info-field flags/timestamps,
    hop-field ExpTime/interfaces/MACs, EPIC PktID/PHVF/LHVF), algorithm, timestamp,
    upper-layer type and payload (hence its length).  [kind_consistent p p'] = "if the PathType
    fields agree, the path objects are of the same kind" (true for decoded packets, and for
    a change of PathType alone).  Everything else is free to differ:
    CurrINF, CurrHF, SegIDs, router-alert flags, the second hop field of a one-hop path,
    NextHdr, HdrLen, PayloadLen, extension headers, excluded addresses.

    GENUINE DEFECT (known finding "tc-mask").  The specification and the property take
    [tcrel := dscp_eq] (the two ECN bits excluded, the six DSCP bits covered).  The code
    masks the traffic class with 0x3f, i.e. it keeps the ECN bits (0,1) and drops the two
    upper DSCP bits (6,7).  So both halves of the property are false as stated
    ([C21_frame_refuted], [C21_covers_refuted]); they hold for all pairs of packets whose
    traffic classes do not differ in one of the bits {0,1,6,7}
    ([C21_frame_except_known], [C21_covers_except_known]); and what the code does guarantee
    is characterised exactly by [C21_exact_for_the_code]. *)
From Coq Require Import List NArith Bool Lia.
From Scion Require Import Lib.Check Lib.Bytes Model.Spao Proofs.Spao.
Import ListNotations.
Import Spao.
Local Open Scope N_scope.

(** The two halves of the property, over all SPI kinds, path types and packets. *)
Definition C21_frame_statement : Prop := forall k p p',
  wf_pkt p -> wf_pkt p' -> pkt_cov dscp_eq k p p' -> auth_input p k = auth_input p' k.

Definition C21_covers_statement : Prop := forall k p p',
  wf_pkt p -> wf_pkt p' -> kind_consistent p p' ->
  auth_input p k = auth_input p' k -> pkt_cov dscp_eq k p p'.

(** What the code guarantees, exactly: the MAC inputs of two well-formed packets are equal
    iff the packets agree in every covered field, the traffic class being compared under
    the mask 0x3f. *)
Theorem C21_exact_for_the_code : forall k p p', wf_pkt p -> wf_pkt p' -> kind_consistent p p' ->
  (auth_input p k = auth_input p' k <-> pkt_cov mask3f_eq k p p').
Proof.
  intros k p p' W W' KC. rewrite <- pkt_covb_code_iff. now apply auth_input_iff.
Qed.
Print Assumptions C21_exact_for_the_code.

(** Frame: packets that differ only in mutable / excluded fields have the same MAC input —
    for all pairs outside the known-finding class. *)
Theorem C21_frame_except_known : forall k p p', wf_pkt p -> wf_pkt p' ->
  tc_known (p_tc p) (p_tc p') = false ->
  pkt_cov dscp_eq k p p' -> auth_input p k = auth_input p' k.
Proof.
  intros k p p' W W' K C. apply (auth_input_frame k p p' W W').
  rewrite <- (pkt_covb_spec_code k p p' K). now apply pkt_covb_spec_iff.
Qed.
Print Assumptions C21_frame_except_known.

(** Covers: a difference in any covered field changes the MAC input — for all pairs outside
    the known-finding class. *)
Theorem C21_covers_except_known : forall k p p', wf_pkt p -> wf_pkt p' -> kind_consistent p p' ->
  tc_known (p_tc p) (p_tc p') = false ->
  auth_input p k = auth_input p' k -> pkt_cov dscp_eq k p p'.
Proof.
  intros k p p' W W' KC K E. apply pkt_covb_spec_iff. rewrite (pkt_covb_spec_code k p p' K).
  now apply (auth_input_iff k p p' W W' KC).
Qed.
Print Assumptions C21_covers_except_known.

(** The same, field by field: one difference in a covered field suffices. *)
Theorem C21_covers_single_field : forall k p p', wf_pkt p -> wf_pkt p' -> kind_consistent p p' ->
  tc_known (p_tc p) (p_tc p') = false ->
  ( p_version p <> p_version p' \/ ~ dscp_eq (p_tc p) (p_tc p') \/ p_flow p <> p_flow p'
    \/ p_path_type p <> p_path_type p'
    \/ p_dst_type p <> p_dst_type p' \/ p_src_type p <> p_src_type p'
    \/ (incl_ia k = true /\ (p_dst_ia p <> p_dst_ia p' \/ p_src_ia p <> p_src_ia p'))
    \/ (incl_dst k = true /\ p_dst_host p <> p_dst_host p')
    \/ (incl_src k = true /\ p_src_host p <> p_src_host p')
    \/ ~ path_cov (p_path p) (p_path p')
    \/ p_alg p <> p_alg p' \/ p_ts p <> p_ts p' \/ p_l4 p <> p_l4 p'
    \/ length (p_pld p) <> length (p_pld p') \/ p_pld p <> p_pld p' ) ->
  auth_input p k <> auth_input p' k.
Proof.
  intros k p p' W W' KC K D E. pose proof (C21_covers_except_known k p p' W W' KC K E) as C.
  unfold pkt_cov in C. destruct C as (C1&C2&C3&C4&C5&C6&C7&C8&C9&C10&C11&C12&C13&C14).
  assert (L : length (p_pld p) = length (p_pld p')) by now rewrite C14.
  intuition.
Qed.
Print Assumptions C21_covers_single_field.

(** Immutable path content, spelled out for SCION paths: a change of one hop field's MAC,
    ExpTime or interface, or of one info field's timestamp or Peer/ConsDir flag, or of a
    segment length, makes the paths not [path_cov]-related (so, by the theorem above,
    changes the MAC input). *)
Theorem C21_path_content_is_covered : forall m is hs m' is' hs',
  path_cov (PScion m is hs) (PScion m' is' hs') ->
  (m_seg0 m, m_seg1 m, m_seg2 m) = (m_seg0 m', m_seg1 m', m_seg2 m')
  /\ map (fun i => (i_peer i, i_consdir i, i_ts i)) is = map (fun i => (i_peer i, i_consdir i, i_ts i)) is'
  /\ map (fun h => (h_exp h, h_in h, h_eg h, h_mac h)) hs = map (fun h => (h_exp h, h_in h, h_eg h, h_mac h)) hs'.
Proof.
  intros m is hs m' is' hs' (S0 & S1 & S2 & FI & FH). repeat split.
  - now rewrite S0, S1, S2.
  - induction FI as [|i i' l l' (R & P & C & R1 & T) _ IH]; cbn; [reflexivity|]. now rewrite P, C, T, IH.
  - induction FH as [|h h' l l' (X & I & G & M) _ IH]; cbn; [reflexivity|]. now rewrite X, I, G, M, IH.
Qed.
Print Assumptions C21_path_content_is_covered.

(** ------------------------------------------------------------------
    The MAC stays abstract. *)
Section Mac.
Variable mac : bytes -> bytes -> bytes.   (* key -> input -> tag *)
Definition tag (key : bytes) (p : pkt) (k : spi_kind) : bytes := mac key (auth_input p k).

Theorem C21_frame_mac : forall key k p p', wf_pkt p -> wf_pkt p' ->
  tc_known (p_tc p) (p_tc p') = false ->
  pkt_cov dscp_eq k p p' -> tag key p k = tag key p' k.
Proof. intros key k p p' W W' K C. unfold tag. now rewrite (C21_frame_except_known k p p' W W' K C). Qed.

(** if a covered field differs and the tags are nevertheless equal, the MAC collided *)
Theorem C21_covers_mac : forall key k p p', wf_pkt p -> wf_pkt p' -> kind_consistent p p' ->
  tc_known (p_tc p) (p_tc p') = false ->
  ~ pkt_cov dscp_eq k p p' -> tag key p k = tag key p' k ->
  exists x y, x <> y /\ mac key x = mac key y.
Proof.
  intros key k p p' W W' KC K NC T. exists (auth_input p k), (auth_input p' k). split; [|exact T].
  intros E. apply NC. now apply C21_covers_except_known.
Qed.
End Mac.
Print Assumptions C21_frame_mac.
Print Assumptions C21_covers_mac.

(** ------------------------------------------------------------------
    The defect: witnesses. *)
Definition w_hop (a : N) : hop := mkHop false true 63 a (a + 1) [1; 2; 3; 4; 5; 6].
Definition w_path : path :=
  PScion (mkMeta 0 0 2 1 0)
         [mkInfo 0 false true 0 4660 1700000000; mkInfo 0 true false 0 22136 1700000001]
         [w_hop 0; w_hop 2; w_hop 4].
Definition w_pkt (tc : N) (pa : path) : pkt :=
  mkPkt 0 tc 74565 201 0 0 (path_code pa) 0 0 281105609588754 281105609588755
        [10; 1; 1; 12] [10; 1; 1; 11] pa [] 0 6618611909121 202 [115; 111; 109; 101].

(** two packets that differ in one ECN bit only have different MAC inputs *)
Theorem C21_frame_refuted : ~ C21_frame_statement.
Proof.
  intros H. specialize (H ASHostSender (w_pkt 0 w_path) (w_pkt 1 w_path)).
  assert (E : auth_input (w_pkt 0 w_path) ASHostSender = auth_input (w_pkt 1 w_path) ASHostSender).
  { apply H; [reflexivity|reflexivity|]. apply pkt_covb_spec_iff. vm_compute. reflexivity. }
  vm_compute in E. discriminate E.
Qed.
Print Assumptions C21_frame_refuted.

(** two packets that differ in the uppermost DSCP bit have the same MAC input *)
Theorem C21_covers_refuted : ~ C21_covers_statement.
Proof.
  intros H. specialize (H ASHostSender (w_pkt 0 w_path) (w_pkt 128 w_path)).
  assert (C : pkt_cov dscp_eq ASHostSender (w_pkt 0 w_path) (w_pkt 128 w_path)).
  { apply H; [reflexivity|reflexivity|intros _; reflexivity|]. vm_compute. reflexivity. }
  destruct C as (_ & C & _). vm_compute in C. discriminate C.
Qed.
Print Assumptions C21_covers_refuted.

(** ------------------------------------------------------------------
    The oracle of the correspondence check. *)
(** on the model's own observations it holds for every pair outside the known-finding
    class, for every MAC without a collision *)
Theorem C21_oracle_holds_on_model_except_known :
  forall (mac : bytes -> bytes), (forall x y, mac x = mac y -> x = y) ->
  forall k p p', tc_known (p_tc p) (p_tc p') = false ->
  pair_oracle k p p' (auth_result p k) (auth_result p' k)
              (bytes_eqb (mac (auth_input p k)) (mac (auth_input p' k))) = true.
Proof. intros mac Hinj k p p' K. now apply pair_oracle_model. Qed.
Print Assumptions C21_oracle_holds_on_model_except_known.

(** and fails on the two witness pairs (these are the known finding) *)
Theorem C21_oracle_refuted_on_model : exists k p p',
  tc_known (p_tc p) (p_tc p') = true /\
  pair_oracle k p p' (auth_result p k) (auth_result p' k)
              (bytes_eqb (auth_input p k) (auth_input p' k)) = false.
Proof.
  exists ASHostSender, (w_pkt 0 w_path), (w_pkt 1 w_path). split; vm_compute; reflexivity.
Qed.
Print Assumptions C21_oracle_refuted_on_model.

(** Non-vacuity: concrete well-formed packets of every path type; pairs that differ in all
    mutable fields at once have equal MAC input, a pair that differs in one hop-field MAC
    byte has not. *)
Definition w_path_moved : path :=
  PScion (mkMeta 1 2 2 1 0)
         [mkInfo 0 false true 0 1 1700000000; mkInfo 0 true false 0 2 1700000001]
         [mkHop true true 63 0 1 [1; 2; 3; 4; 5; 6]; mkHop true false 63 2 3 [1; 2; 3; 4; 5; 6];
          mkHop false false 63 4 5 [1; 2; 3; 4; 5; 6]].
Definition w_path_mac : path :=
  PScion (mkMeta 0 0 2 1 0)
         [mkInfo 0 false true 0 4660 1700000000; mkInfo 0 true false 0 22136 1700000001]
         [w_hop 0; mkHop false true 63 2 3 [1; 2; 3; 4; 5; 7]; w_hop 4].
Definition w_onehop (seg : N) (h2 : hop) : path :=
  POneHop (mkInfo 0 false true 0 seg 1700000000) (w_hop 0) h2.
Definition w_epic (p : N) : path :=
  PEpic 1 2 [9; 9; 9; p] [8; 8; 8; 8] (mkMeta 0 0 1 0 0) [mkInfo 0 false true 0 7 1700000000] [w_hop 0].

Example C21_example :
  wf_pkt (w_pkt 184 w_path) /\ wf_pkt (w_pkt 184 w_path_moved) /\ wf_pkt (w_pkt 184 PEmpty)
  /\ wf_pkt (w_pkt 184 (w_onehop 5 (w_hop 9))) /\ wf_pkt (w_pkt 184 (w_epic 1))
  /\ auth_input (w_pkt 184 w_path) HostHostReceiver = auth_input (w_pkt 184 w_path_moved) HostHostReceiver
  /\ auth_input (w_pkt 184 w_path) NonDRKey <> auth_input (w_pkt 184 w_path_mac) NonDRKey
  /\ auth_input (w_pkt 184 (w_onehop 5 (w_hop 9))) NonDRKey
     = auth_input (w_pkt 184 (w_onehop 6 (mkHop false false 0 0 0 [0; 0; 0; 0; 0; 0]))) NonDRKey
  /\ auth_input (w_pkt 184 (w_epic 1)) ASHostReceiver <> auth_input (w_pkt 184 (w_epic 2)) ASHostReceiver
  /\ length (auth_input (w_pkt 184 w_path) NonDRKey) = 104%nat.
Proof. vm_compute. repeat split; try reflexivity; discriminate. Qed.
