(** C19 — path pointer arithmetic is correct for every path shape.
    Property theorems only; the work is in Proofs/Meta.v. *)
From Coq Require Import List NArith Bool Lia ZifyBool ZifyN ZifyNat.
From Scion Require Import Lib.Check Model.Meta Proofs.Meta.
Import ListNotations.
Import Meta.
Local Open Scope N_scope.

(** The meta header word: the five fields are the bit fields 31-30, 29-24, 17-12, 11-6, 5-0 of the
    word, and serializing them again gives the word with the reserved bits 23-18 cleared. *)
Theorem C19_meta_word : forall w, w < 2 ^ 32 ->
  let m := meta_decode w in
  wf_meta m /\
  w = curr_inf m * 2 ^ 30 + curr_hf m * 2 ^ 24 + ((w / 2 ^ 18) mod 64) * 2 ^ 18
      + seg0 m * 2 ^ 12 + seg1 m * 2 ^ 6 + seg2 m /\
  meta_encode m + ((w / 2 ^ 18) mod 64) * 2 ^ 18 = w /\
  meta_decode_bits w = m.
Proof.
  intros w H. cbv zeta. repeat split.
  - apply (meta_decode_wf w H).
  - apply (meta_decode_wf w H).
  - apply (meta_decode_wf w H).
  - apply (meta_decode_wf w H).
  - apply (meta_decode_wf w H).
  - exact (meta_decode_fields w H).
  - exact (meta_encode_decode w H).
  - apply meta_decode_bits_eq.
Qed.
Print Assumptions C19_meta_word.

Theorem C19_meta_roundtrip : forall m, wf_meta m -> meta_decode (meta_encode m) = m.
Proof. exact meta_decode_encode. Qed.
Print Assumptions C19_meta_roundtrip.

(** SerializeTo written with the shifts, masks and ors of the Go code is the arithmetic form used
    in the model, for arbitrary field values (each field is truncated to its width). *)
Theorem C19_meta_encode_bits : forall m,
  meta_encode_bits m = meta_encode m /\
  meta_encode m = (curr_inf m mod 4) * 2 ^ 30 + (curr_hf m mod 64) * 2 ^ 24
                  + (seg0 m mod 64) * 2 ^ 12 + (seg1 m mod 64) * 2 ^ 6 + seg2 m mod 64.
Proof. intros m. split; [apply meta_encode_bits_eq | apply meta_encode_trunc]. Qed.
Print Assumptions C19_meta_encode_bits.

(** Decoding accepts exactly the shapes with contiguous non-empty segments of at most 64 hops in
    total; NumINF is then the number of segments and NumHops the total number of hops.
    (For every triple of segment lengths, no range assumption.) *)
Theorem C19_accept_iff : forall m,
  (exists b, base_decode m = Some b) <->
  (seg1 m = 0 -> seg2 m = 0) /\ (seg0 m = 0 -> seg1 m = 0) /\ seg0 m + seg1 m + seg2 m <= 64.
Proof. intros m. rewrite base_decode_accept_iff. apply shape_ok_prop. Qed.
Print Assumptions C19_accept_iff.

Theorem C19_accept_counts : forall m b, base_decode m = Some b ->
  pm b = m /\ num_inf b = count_nonzero m /\ num_hops b = seg0 m + seg1 m + seg2 m /\
  N.of_nat (length (seg_map m)) = num_hops b.
Proof.
  intros m b H. apply base_decode_some in H as [_ ->]. repeat split. apply seg_map_length.
Qed.
Print Assumptions C19_accept_counts.

(** [infIndexForHF] gives, for every hop of an accepted path, the segment that contains it
    ([seg_at] reads it off the layout list 0..0 1..1 2..2). *)
Theorem C19_inf_of_hf : forall m b hf, base_decode m = Some b -> hf < num_hops b ->
  seg_at m hf = Some (inf_index_for_hf m hf).
Proof.
  intros m b hf H L. apply base_decode_some in H as [SH ->]. now apply inf_index_seg_at.
Qed.
Print Assumptions C19_inf_of_hf.

(** CurrINFMatchesCurrHF says exactly that the current info field is the segment containing the
    current hop. *)
Theorem C19_curr_inf_matches_iff : forall m b, base_decode m = Some b -> curr_hf m < num_hops b ->
  (curr_inf_matches b = true <-> seg_at m (curr_hf m) = Some (curr_inf m)).
Proof.
  intros m b H L. apply base_decode_some in H as [SH ->].
  destruct m as [ci ch x y z]. cbn [curr_inf curr_hf decoded_base num_hops seg0 seg1 seg2] in *.
  change (decoded_base _) with (B x y z ci ch).
  change {| curr_inf := ci; curr_hf := ch; seg0 := x; seg1 := y; seg2 := z |} with (mk x y z ci ch).
  rewrite (match_spec x y z SH ci ch L). unfold opt_eqb, option_eqb.
  destruct (seg_at (mk x y z ci ch) ch) as [k|]; [|split; discriminate].
  rewrite N.eqb_eq. split; [now intros -> | now intros [= ->]].
Qed.
Print Assumptions C19_curr_inf_matches_iff.

(** With valid pointers, a cross-over is reported exactly when the next hop exists and lies in
    another segment, i.e. at the last hop of a segment that is not the last hop of the path. *)
Theorem C19_xover_iff_boundary : forall m b, base_decode m = Some b -> valid_ptrs b ->
  (is_xover b = true <->
   exists k, seg_at m (curr_hf m + 1) = Some k /\ k <> curr_inf m) /\
  (is_xover b = true <->
   curr_hf m + 1 = seg_end (seg0 m) (seg1 m) (seg2 m) (curr_inf m) /\ curr_hf m + 1 < num_hops b).
Proof.
  intros m b H V. apply base_decode_some in H as [SH ->]. unfold valid_ptrs in V.
  destruct m as [ci ch x y z]. cbn [curr_inf curr_hf decoded_base num_hops pm seg0 seg1 seg2] in *.
  change (decoded_base _) with (B x y z ci ch).
  change {| curr_inf := ci; curr_hf := ch; seg0 := x; seg1 := y; seg2 := z |} with (mk x y z ci ch) in *.
  split; [|exact (xover_boundary x y z SH ci ch V)].
  pose proof (seg_at_lt _ _ _ V) as [L _]. cbn [mk seg0 seg1 seg2] in L.
  rewrite (xover_spec x y z SH ci ch L).
  destruct (seg_at (mk x y z ci ch) (ch + 1)) as [k|].
  - rewrite negb_true_iff, N.eqb_neq. split; [intros N; exists k; now split|].
    intros (k' & [= <-] & N). exact N.
  - split; [discriminate | intros (k' & E & _); discriminate].
Qed.
Print Assumptions C19_xover_iff_boundary.

(** ... and first-hop-after-cross-over exactly when the previous hop exists and lies in another
    segment, i.e. at the first hop of a segment other than the first. *)
Theorem C19_first_after_xover_iff : forall m b, base_decode m = Some b -> valid_ptrs b ->
  (is_first_hop_after_xover b = true <->
   exists hf k, curr_hf m = hf + 1 /\ seg_at m hf = Some k /\ k <> curr_inf m) /\
  (is_first_hop_after_xover b = true <->
   0 < curr_inf m /\ curr_hf m = seg_start (seg0 m) (seg1 m) (curr_inf m)).
Proof.
  intros m b H V. apply base_decode_some in H as [SH ->]. unfold valid_ptrs in V.
  destruct m as [ci ch x y z]. cbn [curr_inf curr_hf decoded_base num_hops pm seg0 seg1 seg2] in *.
  change (decoded_base _) with (B x y z ci ch).
  change {| curr_inf := ci; curr_hf := ch; seg0 := x; seg1 := y; seg2 := z |} with (mk x y z ci ch) in *.
  split; [|exact (first_boundary x y z SH ci ch V)].
  rewrite (first_spec x y z SH ci ch V).
  destruct (N.eqb_spec ch 0) as [->|NZ].
  - split; [discriminate | intros (hf & k & E & _); lia].
  - destruct (seg_at (mk x y z ci ch) (ch - 1)) as [k|] eqn:P.
    + rewrite negb_true_iff, N.eqb_neq. split.
      * intros N. exists (ch - 1), k. repeat split; [lia | exact P | exact N].
      * intros (hf & k' & E & P' & N). replace (ch - 1) with hf in P by lia. congruence.
    + split; [discriminate|]. intros (hf & k' & E & P' & _). replace (ch - 1) with hf in P by lia. congruence.
Qed.
Print Assumptions C19_first_after_xover_iff.

(** Advancing: before the last hop IncPath moves to the next hop and to the segment containing it
    (the next segment exactly at a cross-over), the pointers stay valid and nothing else changes;
    at the last hop it fails and changes nothing. *)
Theorem C19_inc_path : forall m b, base_decode m = Some b -> valid_ptrs b ->
  (curr_hf m + 1 < num_hops b ->
   exists b', inc_path b = (b', IncOk) /\ valid_ptrs b' /\ base_decode (pm b') = Some b' /\
     curr_hf (pm b') = curr_hf m + 1 /\
     curr_inf (pm b') = (if is_xover b then curr_inf m + 1 else curr_inf m) /\
     seg0 (pm b') = seg0 m /\ seg1 (pm b') = seg1 m /\ seg2 (pm b') = seg2 m) /\
  (curr_hf m + 1 = num_hops b -> inc_path b = (b, IncEnd)).
Proof.
  intros m b H V. apply base_decode_some in H as [SH ->]. unfold valid_ptrs in V.
  destruct m as [ci ch x y z]. cbn [curr_inf curr_hf decoded_base num_hops pm seg0 seg1 seg2] in *.
  change (decoded_base _) with (B x y z ci ch).
  change {| curr_inf := ci; curr_hf := ch; seg0 := x; seg1 := y; seg2 := z |} with (mk x y z ci ch) in *.
  split; [|exact (inc_last x y z SH ci ch)].
  intros L. rewrite (inc_mid x y z SH ci ch L).
  eexists; split; [reflexivity|]. unfold valid_ptrs.
  cbn [B decoded_base pm mk curr_inf curr_hf seg0 seg1 seg2].
  repeat split.
  - exact (seg_at_idx x y z SH _ _ (ch + 1) L).
  - rewrite base_decode_spec. replace (shape_ok _) with true by (symmetry; exact SH). reflexivity.
  - exact (inc_segment x y z SH ci ch V L).
Qed.
Print Assumptions C19_inc_path.

(** Walking a non-empty path from hop 0 with IncPath visits every hop once, in order, with the
    segment index the layout prescribes, and then fails. *)
Theorem C19_walk : forall m b fuel, base_decode m = Some b -> 0 < num_hops b ->
  (N.to_nat (num_hops b) <= fuel)%nat -> walk fuel (start b) = seg_map m.
Proof.
  intros m b fuel H L F. apply base_decode_some in H as [SH ->].
  destruct m as [ci ch x y z]. cbn [decoded_base num_hops seg0 seg1 seg2] in *.
  exact (walk_all x y z SH fuel L F).
Qed.
Print Assumptions C19_walk.

(** Decoded.Reverse is an involution on everything it accepts (any uint8 pointer values), it
    accepts exactly the non-empty paths, and with pointers in range the result is the mirror image:
    segments, info fields and hop fields in opposite order, construction directions flipped, the
    same hop field and the same info field current. *)
Theorem C19_reverse_involutive : forall p q, wf_u8 (pm (pbase p)) ->
  reverse_decoded p = Ok q -> reverse_decoded q = Ok p.
Proof. exact reverse_decoded_invol. Qed.
Print Assumptions C19_reverse_involutive.

Theorem C19_reverse_accepts : forall p, wf_path p ->
  ((exists q, reverse_decoded p = Ok q) <-> num_inf (pbase p) <> 0).
Proof. exact reverse_decoded_ok_iff. Qed.
Print Assumptions C19_reverse_accepts.

Theorem C19_reverse_mirror : forall p, wf_path p -> num_hops (pbase p) < 256 -> ptrs_in_range p = true ->
  reverse_decoded p = Ok (spec_reverse p) /\
  nth_error (hops (spec_reverse p)) (N.to_nat (curr_hf (pm (pbase (spec_reverse p))))) =
    nth_error (hops p) (N.to_nat (curr_hf (pm (pbase p)))) /\
  nth_error (infos (spec_reverse p)) (N.to_nat (curr_inf (pm (pbase (spec_reverse p))))) =
    option_map flip (nth_error (infos p) (N.to_nat (curr_inf (pm (pbase p))))).
Proof.
  intros p W HL PR. split; [now apply reverse_decoded_spec|].
  destruct W as (W1 & W2 & _). unfold ptrs_in_range in PR. apply andb_true_iff in PR as [P1 P2].
  apply N.ltb_lt in P1, P2. unfold spec_reverse. cbn [pbase pm curr_inf curr_hf infos hops].
  split.
  - rewrite nth_error_rev' by lia. f_equal. lia.
  - rewrite nth_error_map, nth_error_rev' by lia. do 2 f_equal. lia.
Qed.
Print Assumptions C19_reverse_mirror.

(** Raw paths (as Raw.DecodeFromBytes delivers them): Raw.Reverse succeeds on non-empty paths,
    gives what Decoded.Reverse gives once serialized, is an involution for all pointer values, and
    with pointers in range raw and decoded reversal are the same path. *)
Theorem C19_raw_decoded_agree : forall p, canonical p -> num_inf (pbase p) <> 0 ->
  exists d r, reverse_decoded p = Ok d /\ reverse_raw p = Ok r /\ to_raw d = Some r /\
              to_decoded p = Some p /\ (ptrs_in_range p = true -> d = r).
Proof.
  intros p C NZ. pose proof C as (W & WM & SH & EB).
  destruct (reverse_raw_canonical p C NZ) as (R1 & C1 & N1 & N2).
  pose proof (reverse_decoded_wf p W NZ) as D1.
  exists (reversed p), (rr p). repeat split; try assumption.
  - unfold reverse_raw, to_decoded in R1. rewrite (to_raw_canonical p C), D1 in R1.
    destruct (to_raw (reversed p)); [now inversion R1 | discriminate].
  - apply (to_raw_canonical p C).
  - intros PR. rewrite (rr_reversed p C PR).
    assert (HL : num_hops (pbase p) < 256).
    { rewrite EB. cbn [decoded_base num_hops]. apply shape_ok_prop in SH. lia. }
    pose proof (reverse_decoded_spec p W HL PR). congruence.
Qed.
Print Assumptions C19_raw_decoded_agree.

Theorem C19_raw_reverse_involutive : forall p, canonical p -> num_inf (pbase p) <> 0 ->
  exists r, reverse_raw p = Ok r /\ reverse_raw r = Ok p.
Proof. exact reverse_raw_invol. Qed.
Print Assumptions C19_raw_reverse_involutive.

(** every path that decoding accepts is canonical, so the above applies to all decoded paths *)
Theorem C19_decoded_paths_canonical : forall w datalen is hs p, w < 2 ^ 32 ->
  path_decode w datalen is hs = Some p ->
  num_inf (pbase p) <= N.of_nat (length is) -> num_hops (pbase p) <= N.of_nat (length hs) ->
  canonical p.
Proof. exact path_decode_canonical. Qed.
Print Assumptions C19_decoded_paths_canonical.

(** Histories.  Whatever sequence of operations (IncPath through Raw or through the embedded Base,
    successful or failing; Reverse; pointers assigned directly within their field widths;
    ToDecoded/ToRaw; SetInfoField/SetHopField) has been applied to a Raw object that came out of
    DecodeFromBytes, the object is again one that DecodeFromBytes could have produced; hence all
    the theorems above apply to it: Raw.Reverse twice restores it, and with pointers in range the
    reversal is the mirror image and coincides with Decoded.Reverse. *)
Definition run_raw (r : path) (ops : list op) : path := fold_left (fun p o => so_path (step true p o)) ops r.
Definition run_dec (d : path) (ops : list op) : path := fold_left (fun p o => so_path (step false p o)) ops d.

Theorem C19_reverse_after_any_history : forall r ops, canonical r -> Forall op_ok ops ->
  let r' := run_raw r ops in
  canonical r' /\
  (num_inf (pbase r') <> 0 -> exists q, reverse_raw r' = Ok q /\ reverse_raw q = Ok r') /\
  (num_inf (pbase r') <> 0 -> ptrs_in_range r' = true ->
   reverse_raw r' = Ok (spec_reverse r') /\ reverse_decoded r' = Ok (spec_reverse r')).
Proof.
  intros r ops C OK. cbv zeta.
  assert (C' : canonical (run_raw r ops)).
  { unfold run_raw. revert r C. induction OK as [|o ops O1 OK IH]; intros r C; [exact C|].
    cbn [fold_left]. apply IH. now apply step_canonical. }
  split; [exact C'|]. split.
  - intros NZ. now apply reverse_raw_invol.
  - intros NZ PR. destruct (reverse_raw_canonical _ C' NZ) as (R & _). rewrite R, (rr_reversed _ C' PR).
    split; [reflexivity|]. pose proof C' as (W & _ & SH & EB).
    apply reverse_decoded_spec; [exact W | | exact PR].
    rewrite EB. cbn [decoded_base num_hops]. apply shape_ok_prop in SH. lia.
Qed.
Print Assumptions C19_reverse_after_any_history.

(** The step-by-step oracle of the sequence cases ([seq_oracle]: after every Reverse the mirror image
    of what was seen before, IncPath to the next hop and segment or failing at the last hop, lossless
    conversion) holds on the model along every sequence, for the Raw and for the Decoded object. *)
Theorem C19_sequence_oracle_holds_on_model : forall w datalen is hs d ops, w < 2 ^ 32 ->
  path_decode w datalen is hs = Some d ->
  num_inf (pbase d) <= N.of_nat (length is) -> num_hops (pbase d) <= N.of_nat (length hs) ->
  Forall op_ok ops ->
  seq_agree d d ops (seq_model d d ops) = true /\ seq_oracle d d ops (seq_model d d ops) = true.
Proof.
  intros w datalen is hs d ops Hw D L1 L2 OK.
  pose proof (path_decode_canonical w datalen is hs d Hw D L1 L2) as C.
  exact (seq_model_ok ops d d C (canonical_sc d C) OK).
Qed.
Print Assumptions C19_sequence_oracle_holds_on_model.

(** The oracles evaluated by [Meta.check] on the implementation's observations hold on the model. *)
Theorem C19_oracle_holds_on_model :
  (forall w, w < 2 ^ 32 -> word_oracle w (word_obs w) = true) /\
  (forall ci ch s0 s1 s2, enc_oracle ci ch s0 s1 s2
     (meta_encode {| curr_inf := ci; curr_hf := ch; seg0 := s0; seg1 := s1; seg2 := s2 |}) = true) /\
  (forall s0, acc_entries acc_pack s0 = acc_entries spec_acc_pack s0) /\
  (forall m, shape_ok m = true ->
     table_oracle m (seg0 m + seg1 m + seg2 m) (model_table (decoded_base m)) = true) /\
  (forall w datalen is hs, w < 2 ^ 32 ->
     (forall d, path_decode w datalen is hs = Some d ->
        num_inf (pbase d) <= N.of_nat (length is) /\ num_hops (pbase d) <= N.of_nat (length hs)) ->
     model_path_oracle w datalen is hs = true) /\
  (forall p, wf_path p -> wf_u8 (pm (pbase p)) ->
     rev_oracle p (reverse_decoded p) (twice reverse_decoded p) = true).
Proof.
  repeat split.
  - exact word_oracle_model.
  - exact enc_oracle_model.
  - exact acc_entries_spec.
  - exact table_oracle_model.
  - exact model_path_oracle_true.
  - exact rev_oracle_model.
Qed.
Print Assumptions C19_oracle_holds_on_model.

(** Non-vacuity: a three-segment path (2, 3, 2 hops) positioned at its first cross-over. *)
Example C19_example :
  let w := 1 * 2 ^ 24 + 2 * 2 ^ 12 + 3 * 2 ^ 6 + 2 in
  let m := meta_decode w in
  exists b, base_decode m = Some b /\ valid_ptrs b /\ num_inf b = 3 /\ num_hops b = 7 /\
    is_xover b = true /\ is_first_hop_after_xover b = false /\
    walk 64 (start b) = [0; 0; 1; 1; 1; 2; 2] /\
    (exists b', inc_path b = (b', IncOk) /\ curr_inf (pm b') = 1 /\ curr_hf (pm b') = 2 /\
                is_first_hop_after_xover b' = true) /\
    let p := {| pbase := b; infos := [mk_info false true 1 10; mk_info false true 2 20; mk_info true false 3 30];
                hops := [100; 101; 102; 103; 104; 105; 106] |} in
    canonical p /\
    reverse_decoded p = Ok (spec_reverse p) /\ reverse_raw p = Ok (spec_reverse p) /\
    hops (spec_reverse p) = [106; 105; 104; 103; 102; 101; 100] /\
    curr_inf (pm (pbase (spec_reverse p))) = 2 /\ curr_hf (pm (pbase (spec_reverse p))) = 5.
Proof.
  cbv zeta. eexists. split; [vm_compute; reflexivity|].
  repeat split; try (vm_compute; reflexivity); try (vm_compute; discriminate).
  eexists. repeat split; vm_compute; reflexivity.
Qed.
