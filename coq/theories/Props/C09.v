(** C09 — SCMP errors are well-formed, addressed to the source, and bounded in size.
    Property theorems only; the work is in Proofs/RouterScmp.v and Proofs/RouterInv.v.

    [slow_path macq c ing req egress x valid_auth ats] is the model of
    slowPathPacketProcessor.processPacket on the packet [x] the fast path left behind with the
    slow-path request [req]; [macq] is the CMAC (any function, also a partial one), [ats] the
    timestamp put into the authenticator option.  All theorems quantify over every
    configuration, ingress link, request and packet. *)
From Coq Require Import List NArith Bool Lia.
From Scion Require Import Lib.Check Lib.Bytes Model.Router Proofs.Router Model.Checksum Proofs.Checksum
     Model.Spao Model.RouterScmp Proofs.RouterInv Proofs.RouterScmp Model.RouterTotal Proofs.RouterTotal.
Import ListNotations.
Import Router.
Import RouterScmp.
Local Open Scope N_scope.

Section C09.
Variable macq : bytes -> option bytes.
Variable c : cfg.
Variable ing : ingress.

(** every SCMP error goes to the offending packet's source ISD-AS and host (type and raw bytes
    copied), and comes from the local ISD-AS and the router's internal address *)
Theorem C09_addressing : forall ty code ptr eg x va ats r,
  slow_path macq c ing (SpScmp ty code ptr) eg x va ats = SReply r ->
  p_dst_ia (r_hdr r) = p_src_ia (sp_pkt x) /\
  p_dst_type (r_hdr r) = p_src_type (sp_pkt x) /\ p_dst_raw (r_hdr r) = p_src_raw (sp_pkt x) /\
  p_src_ia (r_hdr r) = c_ia c /\
  pack_local (c_local_host c) = Some (p_src_type (r_hdr r), p_src_raw (r_hdr r)).
Proof.
  intros ty code ptr eg x va ats r H.
  apply slow_path_scmp_inv in H as (ll & body & _ & _ & _ & H).
  apply prepare_inv in H as (rp & H & _).
  apply build_inv in H as (lt & lraw & ck & PL & _ & _ & _ & HH & _).
  rewrite HH. cbn. auto.
Qed.

(** the message is: type, code, checksum, then the body of that type — for a parameter
    problem two zero bytes and the 16-bit pointer of the request, for "destination
    unreachable" four zero bytes, for "external interface down" the local ISD-AS and the egress
    interface, for "internal connectivity down" the local ISD-AS, the ingress and the egress
    interface (64 bit each) — then the quote.  [slayers.ScmpHeaderSize] is 4 + the body length. *)
Theorem C09_type_code_ptr : forall ty code ptr eg x va ats r,
  slow_path macq c ing (SpScmp ty code ptr) eg x va ats = SReply r ->
  exists body ck,
    scmp_body c ing ty ptr eg = Some body /\
    lenN body + 4 = scmp_header_size ty /\
    r_l4 r = [ty; code] ++ be 2 ck ++ body ++ quote_of ty r.
Proof.
  intros ty code ptr eg x va ats r H.
  apply slow_path_scmp_inv in H as (ll & body & _ & EB & _ & H).
  apply prepare_inv in H as (rp & H & _).
  pose proof (scmp_body_size _ _ _ _ _ _ EB) as HS.
  apply build_inv in H as (lt & lraw & ck & _ & _ & _ & _ & _ & _ & _ & _ & _ & HL & _).
  exists body, ck. split; [exact EB|]. split; [exact HS|].
  unfold quote_of. rewrite HL, reply_l4_quote by exact HS. reflexivity.
Qed.

(** composed with the fast path: the pointer the fast path puts into a parameter-problem request
    designates the offending field of the packet it hands over — the current hop field for
    codes 48..52, the current info field for an invalid segment change, the SrcIA / DstIA field
    or 0 for address problems, 0 for a bad packet size — and the type is one the slow path knows *)
Theorem C09_pointer_designates : forall mq now p ty code ptr eg p',
  process mq c now ing p = SlowPath (SpScmp ty code ptr) eg p' ->
  ty_known ty /\ ptr_ok_pkt 0 p' ty code ptr = true.
Proof.
  intros mq now p ty code ptr eg p' H. pose proof (process_good mq c now ing p) as G.
  unfold process in H. rewrite H in G. cbn in G. tauto.
Qed.

(** the quote is a prefix of the offending packet as the slow path sees it AFTER it has cleared
    the six reserved bits of the path meta header ([Raw.ToDecoded] re-serializes that header into
    the packet buffer) ... *)
Theorem C09_quote_is_prefix_of_cleared : forall ty code ptr eg x va ats r,
  slow_path macq c ing (SpScmp ty code ptr) eg x va ats = SReply r ->
  exists n, quote_of ty r = firstn n (quoted x).
Proof.
  intros ty code ptr eg x va ats r H.
  apply slow_path_scmp_inv in H as (ll & body & _ & EB & _ & H).
  apply prepare_inv in H as (rp & H & _).
  destruct (build_quote _ _ _ _ _ _ _ _ _ _ (scmp_body_size _ _ _ _ _ _ EB) H) as [lt Q].
  eexists. exact Q.
Qed.

(** ... hence a prefix of the offending packet itself whenever those bits are zero in it *)
Theorem C09_quote_prefix_except_known : forall ty code ptr eg x va ats r,
  known_quote x = false ->
  slow_path macq c ing (SpScmp ty code ptr) eg x va ats = SReply r ->
  quote_ok x ty r = true /\ exists n, quote_of ty r = firstn n (sp_raw x).
Proof.
  intros ty code ptr eg x va ats r K H.
  apply slow_path_scmp_inv in H as (ll & body & _ & EB & _ & H).
  apply prepare_inv in H as (rp & H & _).
  pose proof (scmp_body_size _ _ _ _ _ _ EB) as HS.
  split; [exact (build_quote_prefix _ _ _ _ _ _ _ _ _ _ HS K H)|].
  destruct (build_quote _ _ _ _ _ _ _ _ _ _ HS H) as [lt Q]. rewrite (quoted_unknown x K) in Q.
  eexists. exact Q.
Qed.

(** and it is as long as the bound allows: the whole packet, or the reply has exactly 1232 bytes *)
Theorem C09_quote_maximal : forall ty code ptr eg x va ats r,
  slow_path macq c ing (SpScmp ty code ptr) eg x va ats = SReply r ->
  lenN (quote_of ty r) = lenN (sp_raw x) \/ total_len r = MaxSCMPPacketLen.
Proof.
  intros ty code ptr eg x va ats r H.
  apply slow_path_scmp_inv in H as (ll & body & _ & EB & _ & H).
  apply prepare_inv in H as (rp & H & _).
  exact (build_quote_maximal _ _ _ _ _ _ _ _ _ _ (scmp_body_size _ _ _ _ _ _ EB) H).
Qed.

(** the whole message — SCION header (any address types, up to 3 info and 64 hop fields),
    the 32-byte authenticator extension if present, SCMP header, body and quote — never exceeds
    1232 bytes, for every input *)
Theorem C09_size : forall ty code ptr eg x va ats r,
  slow_path macq c ing (SpScmp ty code ptr) eg x va ats = SReply r ->
  total_len r <= MaxSCMPPacketLen.
Proof.
  intros ty code ptr eg x va ats r H.
  apply slow_path_scmp_inv in H as (ll & body & _ & EB & _ & H).
  apply prepare_inv in H as (rp & H & _).
  apply N.leb_le. exact (build_size _ _ _ _ _ _ _ _ _ _ (scmp_body_size _ _ _ _ _ _ EB) H).
Qed.

(** no SCMP error in response to an SCMP error message — also behind HBH / E2E extension
    headers; an SCMP upper layer shorter than its 4-byte header is not answered either *)
Theorem C09_no_error_on_error : forall ty code ptr eg x va ats ll,
  last_layer (sp_next x) (payload x) = Some ll ->
  classify ll = ScmpError \/ classify ll = ScmpTruncated ->
  forall r, slow_path macq c ing (SpScmp ty code ptr) eg x va ats <> SReply r.
Proof.
  intros ty code ptr eg x va ats ll EL EC r H.
  apply slow_path_scmp_inv in H as (ll' & body & EL' & _ & EC' & _).
  rewrite EL in EL'. injection EL' as <-.
  destruct EC as [EC|EC], EC' as [EC'|EC']; rewrite EC in EC'; discriminate.
Qed.

(** header geometry: HdrLen is exactly common + address + path header, PayloadLen is what
    follows (authenticator extension + SCMP message), segment lengths are consistent, CurrHF
    is inside the path and CurrINF is the segment of CurrHF — for every packet the fast path
    can hand over ([pkt_inv], see C09_fast_path_invariant) *)
Theorem C09_wellformed : forall ty code ptr eg x va ats r,
  pkt_inv (sp_pkt x) -> src_addr_ok (sp_pkt x) ->
  slow_path macq c ing (SpScmp ty code ptr) eg x va ats = SReply r ->
  geom_ok r = true.
Proof.
  intros ty code ptr eg x va ats r I SA H.
  apply slow_path_scmp_inv in H as (ll & body & _ & EB & _ & H).
  apply prepare_inv in H as (rp & H & IR).
  exact (build_geom _ _ _ _ _ _ _ _ _ _ _ (scmp_body_size _ _ _ _ _ _ EB) (IR I) SA H).
Qed.

Theorem C09_fast_path_invariant : forall mq now p req eg p',
  process mq c now ing p = SlowPath req eg p' -> pkt_inv p' /\ req_good req p'.
Proof.
  intros mq now p req eg p' H. pose proof (process_good mq c now ing p) as G.
  unfold process in H. rewrite H in G. exact G.
Qed.

(** the checksum verifies: the one's complement sum over the pseudo header of the REPLY
    (its DstIA, SrcIA, hosts, upper-layer length, protocol 202) and the message is 0xFFFF *)
Theorem C09_checksum : forall ty code ptr eg x va ats r,
  wf_input c x -> ty < 256 -> code < 256 ->
  slow_path macq c ing (SpScmp ty code ptr) eg x va ats = SReply r ->
  checksum_ok r = true.
Proof.
  intros ty code ptr eg x va ats r (WR & SA & W1 & W2) T C H.
  apply slow_path_scmp_inv in H as (ll & body & _ & EB & _ & H).
  apply prepare_inv in H as (rp & H & _).
  pose proof (scmp_body_size _ _ _ _ _ _ EB) as HS. pose proof (scmp_header_size_bound ty) as SB.
  refine (build_checksum _ _ _ _ _ _ _ _ _ _ _ T C (scmp_body_wf _ _ _ _ _ _ EB) _ WR SA W1 W2 H). lia.
Qed.

(** authentication enabled: the reply carries an authenticator option with the SCMP DRKey SPI
    (AS-host, sender side), algorithm CMAC, and the MAC of the documented input
    ([Spao.auth_result] of the reply ++ the SCMP message) — disabled: no option *)
Theorem C09_auth : forall ty code ptr eg x va ats r,
  slow_path macq c ing (SpScmp ty code ptr) eg x va ats = SReply r ->
  auth_ok macq c r = true /\
  (c_scmp_auth c = true ->
   exists inp tag, auth_input (r_hdr r) (r_tc r) (r_flow r) ats (r_l4 r) = Some inp /\
                   macq inp = Some tag /\
                   r_auth r = Some (mkAuth E2EAuthHdrLen L4SCMP SpiScmp AlgCMAC ats tag)) /\
  (c_scmp_auth c = false -> r_auth r = None).
Proof.
  intros ty code ptr eg x va ats r H.
  apply slow_path_scmp_inv in H as (ll & body & _ & _ & _ & H).
  apply prepare_inv in H as (rp & H & _).
  split; [exact (build_auth _ _ _ _ _ _ _ _ _ _ H)|].
  apply build_inv in H as (lt & lraw & ck & _ & _ & _ & _ & _ & HT & HF & _ & _ & _ & HA).
  split; intros E; rewrite E in HA.
  - destruct HA as (_ & inp & tag & A & B & C). exists inp, tag. now rewrite HT, HF.
  - tauto.
Qed.

(** The oracle evaluated by [RouterScmp.check] holds on the model for every request the fast
    path can leave (error requests and router alerts), every well-formed input outside the known
    finding ... *)
Theorem C09_oracle_holds_on_model : forall req eg x va ats,
  pkt_inv (sp_pkt x) -> wf_input c x -> req_ok_x req x -> known_quote x = false ->
  c09_ok macq c ing req eg x (slow_path macq c ing req eg x va ats) = true.
Proof.
  intros req eg x va ats I W R K. destruct req as [ty code ptr| |].
  - now apply c09_ok_scmp.
  - apply c09_ok_alert; auto.
  - apply c09_ok_alert; auto.
Qed.

(** ... in particular for every packet with a SCION-type path that the model of the fast path
    hands to the slow path *)
Theorem C09_oracle_holds_after_fast_path : forall mq now p req eg p' x va ats,
  process mq c now ing p = SlowPath req eg p' ->
  sp_pkt x = p' -> sp_epic x = false -> wf_input c x -> known_quote x = false ->
  c09_ok macq c ing req eg x (slow_path macq c ing req eg x va ats) = true.
Proof.
  intros mq now p req eg p' x va ats H E EP W K.
  destruct (C09_fast_path_invariant _ _ _ _ _ _ H) as [I G]. subst p'.
  apply C09_oracle_holds_on_model; try assumption. now apply req_good_x.
Qed.

End C09.
Print Assumptions C09_addressing.
Print Assumptions C09_type_code_ptr.
Print Assumptions C09_pointer_designates.
Print Assumptions C09_quote_is_prefix_of_cleared.
Print Assumptions C09_quote_prefix_except_known.
Print Assumptions C09_quote_maximal.
Print Assumptions C09_size.
Print Assumptions C09_no_error_on_error.
Print Assumptions C09_wellformed.
Print Assumptions C09_fast_path_invariant.
Print Assumptions C09_checksum.
Print Assumptions C09_auth.
Print Assumptions C09_oracle_holds_on_model.
Print Assumptions C09_oracle_holds_after_fast_path.

(** Traceroute replies (router alert) are authenticated exactly when authentication is enabled AND the
    request carried an authenticator the router accepted ([valid_auth] = the outcome of [hasValidAuth]);
    the authenticator then is the MAC of the documented input of the REPLY, with the same SPI / algorithm
    as for SCMP errors.  (Observed on the implementation by the runner's auth-traceroute cases: requests
    with a valid option under the FakeProvider key, a flipped tag, a timestamp outside the acceptance
    window, and routers without authentication.) *)
Theorem C09_traceroute_reply_auth : forall macq c ing req eg x va ats r,
  req = SpAlertIngress \/ req = SpAlertEgress ->
  slow_path macq c ing req eg x va ats = SReply r ->
  if c_scmp_auth c && va
  then exists inp tag, auth_input (r_hdr r) (r_tc r) (r_flow r) ats (r_l4 r) = Some inp /\
                       macq inp = Some tag /\
                       r_auth r = Some (mkAuth E2EAuthHdrLen L4SCMP SpiScmp AlgCMAC ats tag)
  else r_auth r = None.
Proof.
  intros macq c ing req eg x va ats r HR H.
  assert (T : exists ifid ll, traceroute macq c ing x ll ifid va ats = SReply r).
  { unfold slow_path in H. destruct (_ || _); [discriminate|]. destruct (negb _); [discriminate|].
    destruct (last_layer _ _) as [ll|]; [|discriminate].
    destruct HR as [-> | ->]; eauto. }
  destruct T as (ifid & ll & T). apply traceroute_inv in T as (body & _ & T).
  apply prepare_inv in T as (rp & T & _).
  apply build_inv in T as (lt & lraw & ck & _ & _ & _ & _ & _ & HT & HF & _ & _ & _ & HA).
  destruct (c_scmp_auth c && va).
  - destruct HA as (_ & inp & tag & A & B & C). exists inp, tag. now rewrite HT, HF.
  - tauto.
Qed.
Print Assumptions C09_traceroute_reply_auth.

(** Known finding (c09-quote-meta-rsv-cleared): the faithful model quotes the packet with the
    reserved bits of its path meta header cleared; an offending packet that carries such bits is
    therefore not quoted verbatim.  Witness: a two-hop packet with reserved bits 0b000001. *)
Definition ex_cfg : cfg := mkCfg 0x0001ff0000000110 [mkIf 1 External Core 0x0001ff0000000111 true 1] []
                                 [10; 0; 0; 1] 1024 65535 false.
Definition ex_hops : list hop :=
  [mkHop false false 63 0 1 [1; 2; 3; 4; 5; 6] 0; mkHop false false 63 2 0 [6; 5; 4; 3; 2; 1] 0].
Definition ex_pkt (rsv : N) : pkt :=
  mkPkt 0x0001ff0000000110 0x0002ff0000000220 0 0 [10; 0; 0; 9] [172; 16; 0; 7] 12 12 None
        0 1 2 0 0 rsv [mkInfo false true 7 1000 0] ex_hops.
(** the raw bytes: 12 common + 24 address + 4 meta + 8 info + 24 hops + 12 payload (UDP header + 4) *)
Definition ex_raw (rsv : N) : bytes :=
  [0; 0; 0; 1; 17; 18; 0; 12; 1; 0; 0; 0] ++
  be 8 0x0001ff0000000110 ++ be 8 0x0002ff0000000220 ++ [10; 0; 0; 9] ++ [172; 16; 0; 7] ++
  [1; rsv * 4; 32; 0] ++ [1; 0; 0; 7; 0; 0; 3; 232] ++
  [0; 63; 0; 0; 0; 1; 1; 2; 3; 4; 5; 6] ++ [0; 63; 0; 2; 0; 0; 6; 5; 4; 3; 2; 1] ++
  [0; 53; 0; 53; 0; 12; 0; 0; 1; 2; 3; 4].
Definition ex_in (rsv : N) : spin := mkSpin (ex_pkt rsv) false 0 1 17 (ex_raw rsv).
Definition ex_req : spreq := SpScmp ScmpParameterProblem CodeInvalidHopFieldMAC 60.

Theorem C09_quote_prefix_refuted :
  exists macq c ing req eg x va ats,
    c09_ok macq c ing req eg x (slow_path macq c ing req eg x va ats) = false /\
    known_quote x = true.
Proof.
  exists (fun _ => None), ex_cfg, (InExt 1), ex_req, 0, (ex_in 1), false, 0. vm_compute. split; reflexivity.
Qed.
Print Assumptions C09_quote_prefix_refuted.

(** Non-vacuity: the same packet with clean reserved bits is answered with a 164-byte parameter
    problem (code 51, pointer 60 = the second hop field) sent to 2-ff00:0:220,172.16.0.7 from
    1-ff00:0:110,10.0.0.1 over the reversed and advanced path, quoting all 84 bytes, and every
    clause of the property holds for it; with authentication enabled and a MAC the reply is
    32 bytes longer and carries the tag. *)
Example C09_example :
  let r := slow_path (fun _ => Some (repeat 7 16)) ex_cfg (InExt 1) ex_req 0 (ex_in 0) false 0 in
  pkt_inv (ex_pkt 0) /\ known_quote (ex_in 0) = false /\
  c09_ok (fun _ => Some (repeat 7 16)) ex_cfg (InExt 1) ex_req 0 (ex_in 0) r = true /\
  match r with
  | SReply rp =>
    total_len rp = 164 /\ lenN (quote_of ScmpParameterProblem rp) = 84 /\
    p_dst_raw (r_hdr rp) = [172; 16; 0; 7] /\ p_curr_hf (r_hdr rp) = 1 /\
    firstn 2 (r_l4 rp) = [4; 51] /\ firstn 4 (skipn 4 (r_l4 rp)) = [0; 0; 0; 60]
  | _ => False
  end /\
  match slow_path (fun _ => Some (repeat 7 16))
                  (mkCfg (c_ia ex_cfg) (c_ifs ex_cfg) [] [10; 0; 0; 1] 1024 65535 true)
                  (InExt 1) ex_req 0 (ex_in 0) false 99 with
  | SReply rp => total_len rp = 196 /\
                 r_auth rp = Some (mkAuth 32 202 1 0 99 (repeat 7 16))
  | _ => False
  end.
Proof. vm_compute. repeat split; try reflexivity; try (intro; discriminate). Qed.
