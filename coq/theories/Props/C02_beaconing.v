(** C02, layer 4: the hypothesis [beaconed] of the combinator layer (Props/C02_combine.v) is what
    beaconing produces.  [Beaconing.run] (Model/Beaconing.v) iterates the extension step of C23
    ([Extend.extend] = DefaultExtender.Extend) over a topology: origination (ingress 0) at some AS on
    a core / child interface, propagation (the beacon sent on egress interface e arrives at the far
    end of that link of the topology and is extended there with that interface as ingress and an
    egress of the same kind, announcing any of the AS's peering interfaces), termination (egress 0).
    Every AS MACs with its own key ([fullmac (a_key a)], an arbitrary function) and has its own
    control-plane configuration ([ctl]: MTUs, MaxExpTime, signers, clock per step).

    [C02_beaconing_beaconed]: every segment registered by such a run satisfies [CombProv.beaconed]
    for the hop-field MAC [mac6 fullmac] the routers recompute.  [C02_end_to_end]: hence for all
    segments produced by beaconing runs over a well-formed topology with all links up and src <> dst,
    every path of the combinator model is forwarded by every router along exactly its metadata
    interfaces and delivered (= [C02_paths_forward] with its [beaconed] hypotheses discharged).

    Side conditions besides those of C02_paths_forward (Go field widths, not behaviour):
    [mac_ok] the MAC returns >= 6 bytes (< 256 each); [ctl_ok] MaxExpTime is a uint8 and MTUs < 2^31;
    [ids16] interface ids are uint16. *)
From Coq Require Import List NArith ZArith Bool Arith Lia.
From Scion Require Import Lib.Check Model.Router Model.Network Model.Prov.
From Scion Require Import Model.Segment Model.SegID Model.CombSpec Model.Combinator Model.CombProv.
From Scion Require Import Model.Extend Model.Beaconing.
From Scion Require Import Model.BeaconCase Proofs.ProvFacts Proofs.Beaconing Proofs.BeaconCase.
From Scion Require Props.C02_combine.
Import ListNotations.
Import CombProv.
Import Scion.Model.Beaconing.Beaconing.
Import Scion.Model.BeaconCase.BeaconCase.
Local Open Scope N_scope.

(** every registered segment of a beaconing run is [beaconed] *)
Theorem C02_beaconing_beaconed :
  forall fullmac ctl_of t core s,
    mac_ok fullmac -> ctl_ok ctl_of -> Nw.wf_topo t = true -> ids16 t = true ->
    produced fullmac ctl_of t core s ->
    beaconed (mac6 fullmac) t core s.
Proof.
  intros fullmac ctl_of t core s Hm Hc Hwt Hid (origin & ts & segid & cs & Hr).
  exact (beaconing_beaconed fullmac ctl_of t Hm Hc Hwt Hid core origin ts segid cs s Hr).
Qed.
Print Assumptions C02_beaconing_beaconed.

(** C02 end to end: beaconing -> registered segments -> combinator -> packet -> routers -> host *)
Theorem C02_end_to_end :
  forall fullmac ctl_of t now src dst ups cores downs fa ps cp pp,
    mac_ok fullmac -> ctl_ok ctl_of ->
    Nw.wf_topo t = true -> ids16 t = true -> Nw.all_up t = true ->
    Forall (produced fullmac ctl_of t false) (Cb.segs_of ups) ->
    Forall (produced fullmac ctl_of t true) (Cb.segs_of cores) ->
    Forall (produced fullmac ctl_of t false) (Cb.segs_of downs) ->
    Cb.combine src dst ups cores downs fa = Cb.Done ps -> In cp ps ->
    src <> dst -> (length (path_ias cp) <= 64)%nat ->
    path_unexpired now cp -> hosts_ok t src dst pp ->
    exists tr rtr d a,
      Pv.walk_from (macq_of (mac6 fullmac)) t now (pkt_of_path cp pp) (pkt_of_path cp pp) =
        (tr, Nw.Delivered dst rtr (fst d) (snd d)) /\
      Nw.crossed tr = Cb.p_ifs cp /\
      Nw.find_as t dst = Some a /\ Pv.deliver_target a pp = Some d.
Proof.
  intros fullmac ctl_of t now src dst ups cores downs fa ps cp pp Hm Hc Hwt Hid Hup Pu Pc Pd.
  assert (B : forall core l, Forall (produced fullmac ctl_of t core) l ->
                             Forall (beaconed (mac6 fullmac) t core) l).
  { intros core l. apply Forall_impl. intros s. now apply C02_beaconing_beaconed. }
  apply (Props.C02_combine.C02_paths_forward (mac6 fullmac) t now src dst ups cores downs fa ps cp pp Hwt Hup
           (B _ _ Pu) (B _ _ Pc) (B _ _ Pd)).
Qed.
Print Assumptions C02_end_to_end.

(** The correspondence check of the beaconing run (harness/cmd/c02, stream "segment"; Model/BeaconCase.v):
    segments registered by the REAL DefaultExtender over generated topologies are re-run by
    [Beaconing.run] and compared entry by entry; the oracle is the boolean [beaconed_b] on the real
    segment, evaluated with a table of reference MACs under the routers' keys.

    [beaconed_b] is [beaconed]: for a total MAC function the boolean reflects the predicate ... *)
Theorem C02_beaconed_b_reflects :
  forall mac t core s,
    beaconed_b (macq_of mac) t core s = true <-> beaconed mac t core s.
Proof.
  intros mac t core s. split.
  - apply beaconed_b_sound. unfold macq_of. intros k b ts e i g m H. now inversion H.
  - apply beaconed_b_complete.
Qed.
Print Assumptions C02_beaconed_b_reflects.

(** ... and evaluated with a partial MAC (the table of the case) it implies [beaconed] - the
    hypothesis of C02_combine_prov / C02_paths_forward - for every MAC function the table is a part of *)
Theorem C02_beaconed_b_table_sound :
  forall macq mac t core s,
    (forall k b ts e i g m, macq k b ts e i g = Some m -> mac k b ts e i g = m) ->
    beaconed_b macq t core s = true -> beaconed mac t core s.
Proof. intros macq mac t core s H. now apply beaconed_b_sound. Qed.
Print Assumptions C02_beaconed_b_table_sound.

(** the oracle of the segment cases holds on the model: whatever a run registers satisfies [beaconed_b] *)
Theorem C02_seg_oracle_holds_on_model :
  forall fullmac ctl_of t core origin ts segid cs s,
    mac_ok fullmac -> ctl_ok ctl_of -> Nw.wf_topo t = true -> ids16 t = true ->
    run fullmac ctl_of t core origin ts segid cs = Some s ->
    beaconed_b (macq_of (mac6 fullmac)) t core s = true.
Proof.
  intros fullmac ctl_of t core origin ts segid cs s Hm Hc Hwt Hid Hr.
  apply C02_beaconed_b_reflects. apply (C02_beaconing_beaconed fullmac ctl_of t core s Hm Hc Hwt Hid).
  now exists origin, ts, segid, cs.
Qed.
Print Assumptions C02_seg_oracle_holds_on_model.

(** Non-vacuity.  ISD 1: core ASes 10 and 11 joined by a core link, leaf 20 below 10, leaf 30 below
    11, and a peering link between 20 and 30.  Three beaconing runs: intra-ISD from 10 to 20 and from
    11 to 30 (both leaves announce the peering interface), core beaconing from 11 to 10. *)
Definition bx_ia (a : N) : N := as_bits + a.
Definition bx_toy (k : N) (inp : list N) : list N :=
  let h := fold_left (fun a b => (a * 31 + b) mod 65521) inp (k + 1) in
  [(h / 256) mod 256; h mod 256; (h / 7) mod 256; k mod 256; 1; 2].
Definition bx_ctl (_ : N) : ctl :=
  mkCtl 1400 63 [{| Ex.s_nb := 0; Ex.s_na := Ex.ns 100000 |}] (fun _ => 1500).
Definition bx_t : Nw.topology :=
  [ Nw.mkAs (bx_ia 10) 7 1 [Nw.mkNif 1 R.Child (bx_ia 20) 1 0 true; Nw.mkNif 3 R.Core (bx_ia 11) 3 0 true] [] 0 0;
    Nw.mkAs (bx_ia 11) 6 1 [Nw.mkNif 1 R.Child (bx_ia 30) 1 0 true; Nw.mkNif 3 R.Core (bx_ia 10) 3 0 true] [] 0 0;
    Nw.mkAs (bx_ia 20) 8 1 [Nw.mkNif 1 R.Parent (bx_ia 10) 1 0 true; Nw.mkNif 2 R.Peer (bx_ia 30) 2 0 true] [] 0 0;
    Nw.mkAs (bx_ia 30) 9 1 [Nw.mkNif 1 R.Parent (bx_ia 11) 1 0 true; Nw.mkNif 2 R.Peer (bx_ia 20) 2 0 true] [] 0 0 ].
Definition bx_now : Z := Ex.ns 2000.
Definition bx_up := run bx_toy bx_ctl bx_t false (bx_ia 10) 1000 5 [mkCh 1 [] bx_now; mkCh 0 [2] bx_now].
Definition bx_down := run bx_toy bx_ctl bx_t false (bx_ia 11) 1000 9 [mkCh 1 [] bx_now; mkCh 0 [2] bx_now].
Definition bx_core := run bx_toy bx_ctl bx_t true (bx_ia 11) 1000 77 [mkCh 3 [] bx_now; mkCh 0 [] bx_now].
Definition bx_pp : Pv.pparams := Pv.mkPP (bx_ia 20) (bx_ia 30) 0 0 [10; 0; 0; 2] [10; 0; 0; 1] 8 (Some 4242).

Definition bx_seg (o : option Sg.segment) : Sg.segment :=
  match o with Some s => s | None => Sg.mkSeg 0 0 [] end.
Definition bx_ups := [(1, bx_seg bx_up)].
Definition bx_cores := [(2, bx_seg bx_core)].
Definition bx_downs := [(3, bx_seg bx_down)].
Definition bx_wall : N := 2000000000000.

Lemma bx_mac_ok : mac_ok bx_toy.
Proof.
  intros k i. unfold bx_toy. split; [cbn [length]; lia|].
  repeat constructor; try (apply N.mod_lt; discriminate); lia.
Qed.

Lemma bx_ctl_ok : ctl_ok bx_ctl.
Proof. intros a. cbn. repeat split; try lia. Qed.

Example C02_beaconing_example :
  mac_ok bx_toy /\ ctl_ok bx_ctl /\
  Nw.wf_topo bx_t = true /\ ids16 bx_t = true /\ Nw.all_up bx_t = true /\
  Forall (produced bx_toy bx_ctl bx_t false) (Cb.segs_of bx_ups) /\
  Forall (produced bx_toy bx_ctl bx_t true) (Cb.segs_of bx_cores) /\
  Forall (produced bx_toy bx_ctl bx_t false) (Cb.segs_of bx_downs) /\
  map (fun s => length (Sg.sg_entries s)) (Cb.segs_of (bx_ups ++ bx_cores ++ bx_downs)) = [2; 2; 2]%nat /\
  hosts_ok bx_t (bx_ia 20) (bx_ia 30) bx_pp /\
  exists ps, Cb.combine (bx_ia 20) (bx_ia 30) bx_ups bx_cores bx_downs true = Cb.Done ps /\
    map Cb.p_ifs ps =
      [ [(bx_ia 20, 2); (bx_ia 30, 2)];
        [(bx_ia 20, 1); (bx_ia 10, 1); (bx_ia 10, 3); (bx_ia 11, 3); (bx_ia 11, 1); (bx_ia 30, 1)] ] /\
    Forall (fun cp => (length (path_ias cp) <= 64)%nat /\ path_unexpired bx_wall cp) ps /\
    map (fun cp => snd (Pv.walk_from (macq_of (mac6 bx_toy)) bx_t bx_wall (pkt_of_path cp bx_pp) (pkt_of_path cp bx_pp))) ps =
      [ Nw.Delivered (bx_ia 30) 0 [10; 0; 0; 2] 4242; Nw.Delivered (bx_ia 30) 0 [10; 0; 0; 2] 4242 ].
Proof.
  split; [exact bx_mac_ok|]. split; [exact bx_ctl_ok|].
  split; [reflexivity|]. split; [reflexivity|]. split; [reflexivity|].
  split. { constructor; [|constructor].
           exists (bx_ia 10), 1000, 5, [mkCh 1 [] bx_now; mkCh 0 [2] bx_now]. vm_compute. reflexivity. }
  split. { constructor; [|constructor].
           exists (bx_ia 11), 1000, 77, [mkCh 3 [] bx_now; mkCh 0 [] bx_now]. vm_compute. reflexivity. }
  split. { constructor; [|constructor].
           exists (bx_ia 11), 1000, 9, [mkCh 1 [] bx_now; mkCh 0 [2] bx_now]. vm_compute. reflexivity. }
  split; [vm_compute; reflexivity|].
  split.
  { split; [reflexivity|]. split; [reflexivity|]. split; [reflexivity|].
    do 2 eexists. split; vm_compute; reflexivity. }
  exists (match Cb.combine (bx_ia 20) (bx_ia 30) bx_ups bx_cores bx_downs true with Cb.Done ps => ps | _ => [] end).
  split; [vm_compute; reflexivity|]. split; [vm_compute; reflexivity|].
  split; [|vm_compute; reflexivity].
  match goal with |- Forall _ ?l => set (ps := l) end. vm_compute in ps. subst ps.
  repeat (constructor; [split; [cbn; lia|unfold path_unexpired; cbn [Cb.p_slices]; repeat constructor]|]).
  constructor.
Qed.

(** the boolean oracle on the segments of the example, and on one with a foreign SegID *)
Example C02_beaconed_b_example :
  beaconed_b (macq_of (mac6 bx_toy)) bx_t false (bx_seg bx_up) = true /\
  beaconed_b (macq_of (mac6 bx_toy)) bx_t true (bx_seg bx_core) = true /\
  beaconed_b (macq_of (mac6 bx_toy)) bx_t false (bx_seg bx_down) = true /\
  beaconed_b (macq_of (mac6 bx_toy)) bx_t true (bx_seg bx_up) = false /\
  beaconed_b (macq_of (mac6 bx_toy)) bx_t false
    (Sg.mkSeg 1000 6 (Sg.sg_entries (bx_seg bx_up))) = false.
Proof. vm_compute. repeat split. Qed.
