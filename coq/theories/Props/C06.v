(** C06 — forwarding respects the link-type rules of SCION paths.
    Property theorems only (lemmas are in Proofs/Router.v). *)
From Coq Require Import List NArith Bool.
From Scion Require Import Lib.Check Model.Router Proofs.Router.
Import ListNotations.
Import Router.
Local Open Scope N_scope.

(** The specification table of the property, spelled out. Within a segment
    (peering hops included: they are not an effective segment change) exactly
    five (ingress, egress) link-type pairs are admissible for a packet that
    came from another AS ... *)
Theorem C06_within_segment : forall ilt e,
  admissible false ilt (Some e) false = true <->
  In (ilt, if_lt e) [(Core, Core); (Child, Parent); (Parent, Child); (Child, Peer); (Peer, Child)].
Proof.
  intros ilt [id sc lt nbr up lk]. cbn [admissible if_lt].
  destruct ilt, lt; cbn; split; intros H; try reflexivity; try discriminate; auto 10;
    repeat (destruct H as [H|H]; [discriminate H|]); try destruct H.
Qed.
Print Assumptions C06_within_segment.

(** ... at a segment change exactly three ... *)
Theorem C06_segment_change : forall ilt e,
  admissible false ilt (Some e) true = true <->
  In (ilt, if_lt e) [(Core, Child); (Child, Core); (Child, Child)].
Proof.
  intros ilt [id sc lt nbr up lk]. cbn [admissible if_lt].
  destruct ilt, lt; cbn; split; intros H; try reflexivity; try discriminate; auto 10;
    repeat (destruct H as [H|H]; [discriminate H|]); try destruct H.
Qed.
Print Assumptions C06_segment_change.

(** ... and a packet from inside the AS (internal network or sibling router) must leave
    through an external interface of this router, without a segment change; an egress
    interface id unknown to the router is never admissible. *)
Theorem C06_from_inside : forall ilt eg x,
  admissible true ilt eg x = true <->
  exists e, eg = Some e /\ if_scope e = External /\ x = false.
Proof.
  intros ilt [e|] x; cbn.
  - split.
    + intros H. apply andb_true_iff in H as [A B]. apply scope_eqb_eq in A.
      apply negb_true_iff in B. eauto.
    + intros (e' & [= <-] & A & ->). rewrite A. reflexivity.
  - split; [discriminate | intros (e & H & _); discriminate].
Qed.
Print Assumptions C06_from_inside.

Theorem C06_unknown_egress : forall fi ilt x, admissible fi ilt None x = false.
Proof. reflexivity. Qed.
Print Assumptions C06_unknown_egress.

(** The decision taken by validateEgressID equals the specification table, for every
    configuration, ingress link, egress interface id and segment-change flag. *)
Theorem C06_table : forall c ing eid xover,
  validate_egress (from0 ing) (lt_of c (ing_ifid ing)) (get_if c eid) xover = EgOk <->
  admissible (from0 ing) (lt_of c (ing_ifid ing)) (get_if c eid) xover = true.
Proof. intros. apply validate_egress_spec. apply from0_unset. Qed.
Print Assumptions C06_table.

(** Whatever the MAC function, key, time and packet: a packet is only ever forwarded
    to another AS / router along an admissible pair (and otherwise only delivered locally). *)
Theorem C06_never_forwarded : forall mac c now ing p e out d,
  process (total mac) c now ing p = Forward e out d ->
  (p_dst_ia p = c_ia c /\ e = 0) \/
  (p_dst_ia p <> c_ia c /\
   admissible (from0 ing) (lt_of c (ing_ifid ing)) (get_if c e) (eff_xover p) = true).
Proof. exact forward_admissible. Qed.
Print Assumptions C06_never_forwarded.

(** A packet that reaches the egress validation with an inadmissible pair is answered
    with an SCMP parameter problem carrying one of the four codes the implementation uses. *)
Theorem C06_rejected_with_scmp : forall c ing s,
  validate_egress (from0 ing) (lt_of c (ing_ifid ing)) (get_if c (s_eg s)) (s_xover s) <> EgOk ->
  exists code ptr,
    validate_egress_id c ing s =
      Stop (SlowPath (SpScmp ScmpParameterProblem code ptr) (s_eg s) (s_p s)) /\
    In code [CodeInvalidPath; CodeUnknownHopFieldIngress; CodeUnknownHopFieldEgress;
             CodeInvalidSegmentChange].
Proof. exact egress_rejected_scmp. Qed.
Print Assumptions C06_rejected_with_scmp.

(** The oracle evaluated on the implementation's observations holds on the model. *)
Theorem C06_oracle_holds_on_model : forall mac c now ing p,
  c06_ok c ing p (process (total mac) c now ing p) = true.
Proof. exact c06_ok_model. Qed.
Print Assumptions C06_oracle_holds_on_model.

(** Non-vacuity: with validly MACed hop fields a parent->child transit is forwarded, the
    same packet with a parent->core hop is answered with InvalidPath, and from inside the
    AS a hop field whose egress is interface 0 is answered with UnknownHopFieldEgress. *)
Definition ex_mac (sid ts e i g : N) : list N := [sid mod 256; ts mod 256; e; i mod 256; g mod 256; 7].
Definition ex_cfg : cfg :=
  mkCfg 100 [mkIf 1 External Child 200 true 1; mkIf 2 External Parent 300 true 2;
             mkIf 3 External Core 400 true 3] [] [10;0;0;1] 1024 65535 false.
Definition ex_pkt (src_ia eg curr : N) : pkt :=
  mkPkt 500 src_ia 0 0 [1;1;1;1] [2;2;2;2] 8 8 (Some 9) 0 curr 3 0 0 0
        [mkInfo false true 5 1000 0]
        [mkHop false false 63 0 9 [0;0;0;0;0;0] 0;
         mkHop false false 63 2 eg (ex_mac 5 1000 63 2 eg) 0;
         mkHop false false 63 4 0 [0;0;0;0;0;0] 0].
Example C06_example :
  (match process (total ex_mac) ex_cfg 1000000000001 (InExt 2) (ex_pkt 600 1 1) with
   | Forward 1 _ None => True | _ => False end) /\
  (match process (total ex_mac) ex_cfg 1000000000001 (InExt 2) (ex_pkt 600 3 1) with
   | SlowPath (SpScmp 4 48 _) _ _ => True | _ => False end) /\
  (match process (total ex_mac) ex_cfg 1000000000001 InInt
           (mkPkt 500 100 0 0 [1;1;1;1] [2;2;2;2] 8 8 (Some 9) 0 0 2 0 0 0
              [mkInfo false true 5 1000 0]
              [mkHop false false 63 2 0 (ex_mac 5 1000 63 2 0) 0;
               mkHop false false 63 4 0 [0;0;0;0;0;0] 0]) with
   | SlowPath (SpScmp 4 50 _) _ _ => True | _ => False end).
Proof. vm_compute. repeat split. Qed.
