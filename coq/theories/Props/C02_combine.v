(** C02, layer 3: every path the combinator model ([Combinator.combine], C28) returns on segments
    produced by beaconing over a well-formed topology is the rendering of a well-formed
    provenance path whose interface list is the path metadata — PROVED HERE FOR PATHS WITHOUT
    PEERING SLICES (core-only, up-core-down, full segments and shortcuts at a common AS), and
    composed with [C02_forward_prov]: such a path is accepted hop by hop and delivered.

    NOT PROVED: the same for paths over a peering link ([C02_combine_prov_statement] below is the
    full statement, kept as a Definition).  Side conditions: source <> destination (for equal
    ASes segfetcher.Pather.GetPaths answers with the empty path and never calls the combinator;
    the combinator itself would return up-then-down loops) and at most 64 hop fields (the header's limit).
    That the source AS is not the AS of a later hop field and the destination AS not of an
    earlier one ([wf_prov_b] asks for it) is derived from the combinator's own loop filter
    (no AS three times in the interface list, Proofs/ProvLoopFree.v).

    Reading guide (Model/CombProv.v).  [beaconed mac t core s]: what iterating the extender
    guarantees for a segment — [validate], [wf_fields], every entry's hop field is the MAC under
    its AS key over beta_i (C22) and the uint32 timestamp, peer hop fields over beta_{i+1}, and the
    egress of entry i is a child (core) link of the topology to entry i+1's ingress; a core
    segment has at least two entries.  [pkt_of_path cp pp]: the packet a host builds from the
    combinator's slices (CurrINF = CurrHF = 0).  [prov_of es]: one provenance slice per edge of
    the combinator's solution = the entries of its segment from the cut index on. *)
From Coq Require Import List NArith Bool Arith Lia.
From Scion Require Import Lib.Check Model.Router Model.Network Model.Prov.
From Scion Require Import Model.Segment Model.SegID Model.CombSpec Model.Combinator Model.CombProv.
From Scion Require Import Proofs.CombinatorRender Proofs.CombinatorPaths.
From Scion Require Import Proofs.ProvFacts Proofs.Forward Proofs.CombineProv Proofs.CombineProvMain.
Import ListNotations.
Import CombProv.
Local Open Scope N_scope.

(** the full statement (peering included): not proved *)
Definition C02_combine_prov_statement : Prop :=
  forall mac t src dst ups cores downs fa ps cp pp,
    Nw.wf_topo t = true ->
    Forall (beaconed mac t false) (Cb.segs_of ups) ->
    Forall (beaconed mac t true) (Cb.segs_of cores) ->
    Forall (beaconed mac t false) (Cb.segs_of downs) ->
    Cb.combine src dst ups cores downs fa = Cb.Done ps -> In cp ps ->
    src <> dst -> (length (path_ias cp) <= 64)%nat ->
    exists p : Pv.prov,
      Pv.wf_prov_b (macq_of mac) t p = true /\
      Pv.render p pp 0 false = pkt_of_path cp pp /\
      Pv.interfaces p = Cb.p_ifs cp.

Lemma no_peering_edges es : no_peering (path_of es) -> Forall nopeer es.
Proof.
  unfold no_peering. cbn [path_of Cb.p_slices]. rewrite !Forall_forall. intros H e He.
  specialize (H (edge_slice e) (in_map _ _ _ He)).
  cbn [edge_slice Cb.sl_info edge_info Cb.i_peer] in H. unfold nopeer.
  destruct (Cb.e_peer e); [reflexivity|discriminate].
Qed.

(** the statement restricted to paths without peering slices *)
Theorem C02_combine_prov_partial :
  forall mac t src dst ups cores downs fa ps cp pp,
    Nw.wf_topo t = true ->
    Forall (beaconed mac t false) (Cb.segs_of ups) ->
    Forall (beaconed mac t true) (Cb.segs_of cores) ->
    Forall (beaconed mac t false) (Cb.segs_of downs) ->
    Cb.combine src dst ups cores downs fa = Cb.Done ps -> In cp ps ->
    src <> dst -> (length (path_ias cp) <= 64)%nat ->
    no_peering cp ->
    exists p : Pv.prov,
      Pv.wf_prov_b (macq_of mac) t p = true /\
      Pv.render p pp 0 false = pkt_of_path cp pp /\
      Pv.interfaces p = Cb.p_ifs cp.
Proof.
  intros mac t src dst ups cores downs fa ps cp pp Hwt Bu Bc Bd Hc Hin Hsd H64 Hnp.
  destruct (combine_in _ _ _ _ _ _ _ _ Hc Hin) as (es & Hch & -> & N3).
  pose proof (no_peering_edges es Hnp) as Np.
  exists (prov_of es). split; [|split].
  - apply (chain_wf_prov mac t Hwt ups cores downs src dst es); assumption.
  - apply (chain_render mac t Hwt ups cores downs src dst es); assumption.
  - apply (chain_interfaces mac t Hwt ups cores downs src dst es); assumption.
Qed.
Print Assumptions C02_combine_prov_partial.

(** C02 for the combinator's paths without peering slices: the packet built from the path is
    forwarded by every router on the way, crosses exactly the interfaces of the path metadata, in
    that order, and is delivered to the destination host in the destination AS. *)
Theorem C02_paths_forward_partial :
  forall mac t now src dst ups cores downs fa ps cp pp,
    Nw.wf_topo t = true -> Nw.all_up t = true ->
    Forall (beaconed mac t false) (Cb.segs_of ups) ->
    Forall (beaconed mac t true) (Cb.segs_of cores) ->
    Forall (beaconed mac t false) (Cb.segs_of downs) ->
    Cb.combine src dst ups cores downs fa = Cb.Done ps -> In cp ps ->
    src <> dst -> (length (path_ias cp) <= 64)%nat -> no_peering cp ->
    path_unexpired now cp -> hosts_ok t src dst pp ->
    exists tr rtr d a,
      Pv.walk_from (macq_of mac) t now (pkt_of_path cp pp) (pkt_of_path cp pp) =
        (tr, Nw.Delivered dst rtr (fst d) (snd d)) /\
      Nw.crossed tr = Cb.p_ifs cp /\
      Nw.find_as t dst = Some a /\ Pv.deliver_target a pp = Some d.
Proof.
  intros mac t now src dst ups cores downs fa ps cp pp Hwt Hup Bu Bc Bd Hc Hin Hsd H64 Hnp Hex Hh.
  destruct (combine_in _ _ _ _ _ _ _ _ Hc Hin) as (es & Hch & -> & N3).
  pose proof (no_peering_edges es Hnp) as Np.
  assert (W : Pv.wf_prov_b (macq_of mac) t (prov_of es) = true)
    by (apply (chain_wf_prov mac t Hwt ups cores downs src dst es); assumption).
  assert (Rn : Pv.render (prov_of es) pp 0 false = pkt_of_path (path_of es) pp)
    by (apply (chain_render mac t Hwt ups cores downs src dst es); assumption).
  assert (If : Pv.interfaces (prov_of es) = Cb.p_ifs (path_of es))
    by (apply (chain_interfaces mac t Hwt ups cores downs src dst es); assumption).
  assert (Ep : Pv.endpoints_ok t (prov_of es) pp = true)
    by (apply (endpoints_of mac t Hwt ups cores downs src dst es); assumption).
  assert (Ux : Pv.all_unexpired now (prov_of es) = true)
    by (apply (unexpired_of mac t Hwt ups cores downs src dst es); assumption).
  destruct (forward_prov mac t now (prov_of es) pp Hwt Hup W Ep Ux) as (tr & rtr & d & a & Wk & Cr & Fa & Dt).
  destruct Hh as (_ & Dd & _). rewrite Dd in Wk, Fa. rewrite Rn in Wk.
  exists tr, rtr, d, a. rewrite <- If. auto.
Qed.
Print Assumptions C02_paths_forward_partial.
