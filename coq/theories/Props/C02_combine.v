(** C02, layer 3: every path the combinator model ([Combinator.combine], C28) returns on segments
    produced by beaconing over a well-formed topology is the rendering of a well-formed
    provenance path whose interface list is the path metadata ([C02_combine_prov]: core-only,
    up-core-down, full segments, shortcuts at a common AS, and paths over a peering link).
    Composed with [C02_forward_prov] ([C02_paths_forward]): the packet a host builds from such a
    path is accepted hop by hop, crosses exactly the interfaces of the path metadata and is delivered.

    Side conditions: source <> destination (for equal ASes segfetcher.Pather.GetPaths answers with
    the empty path and never calls the combinator; the combinator itself would return
    up-then-down loops) and at most 64 hop fields (the header's limit).  That the source AS is
    not the AS of a later hop field and the destination AS not of an earlier one ([wf_prov_b] asks
    for it) is derived from the combinator's own loop filter (no AS three times in the interface
    list, Proofs/ProvLoopFree.v).

    Reading guide (Model/CombProv.v).  [beaconed mac t core s]: what iterating the extender
    guarantees for a segment — [validate], [wf_fields], every entry's hop field is the MAC under
    its AS key over beta_i (C22) and the uint32 timestamp, peer hop fields over beta_{i+1} with the
    same egress and a peering link of the topology as ingress, and the egress of entry i is a
    child (core) link of the topology to entry i+1's ingress; a core segment has at least two
    entries.  It is a predicate on the segments of Model/Segment.v, not derived here from iterating
    the extender model (C23).  [pkt_of_path cp pp]: the packet a host builds from the combinator's
    slices (CurrINF = CurrHF = 0).  The witness: one provenance slice per edge of the combinator's
    solution = the entries of its segment from the cut index on ([prov_of]); for a solution over
    a peering link the two slices meet at the two peer hop fields ([pair_prov]). *)
From Coq Require Import List NArith Bool Arith Lia.
From Scion Require Import Lib.Check Model.Router Model.Network Model.Prov.
From Scion Require Import Model.Segment Model.SegID Model.CombSpec Model.Combinator Model.CombProv.
From Scion Require Import Proofs.CombinatorRender Proofs.CombinatorPaths.
From Scion Require Import Proofs.ProvFacts Proofs.Forward Proofs.CombineProv Proofs.CombineProvMain
  Proofs.CombinePeerMain.
Import ListNotations.
Import CombProv.
Local Open Scope N_scope.

(** the provenance path of a path of the combinator, with everything the forwarding theorem
    needs to know about it *)
Lemma combine_prov_all mac t src dst ups cores downs fa ps cp :
  Nw.wf_topo t = true ->
  Forall (beaconed mac t false) (Cb.segs_of ups) ->
  Forall (beaconed mac t true) (Cb.segs_of cores) ->
  Forall (beaconed mac t false) (Cb.segs_of downs) ->
  Cb.combine src dst ups cores downs fa = Cb.Done ps -> In cp ps ->
  src <> dst -> (length (path_ias cp) <= 64)%nat ->
  exists p : Pv.prov,
    Pv.wf_prov_b (macq_of mac) t p = true /\
    (forall pp, Pv.render p pp 0 false = pkt_of_path cp pp) /\
    Pv.interfaces p = Cb.p_ifs cp /\
    (forall pp, hosts_ok t src dst pp -> Pv.endpoints_ok t p pp = true) /\
    (forall now, path_unexpired now cp -> Pv.all_unexpired now p = true).
Proof.
  intros Hwt Bu Bc Bd Hc Hin Hsd H64.
  destruct (combine_in _ _ _ _ _ _ _ _ Hc Hin) as (es & Hch & -> & N3).
  destruct (chain_peer_cases mac t Hwt ups cores downs Bu Bc Bd src dst es Hch)
    as [Np|(e1 & e2 & k1 & k2 & -> & P1 & P2 & T1 & T2)].
  - exists (prov_of es). split; [|split; [|split; [|split]]].
    + apply (chain_wf_prov mac t Hwt ups cores downs src dst es); assumption.
    + intros pp. apply (chain_render mac t Hwt ups cores downs src dst es); assumption.
    + apply (chain_interfaces mac t Hwt ups cores downs src dst es); assumption.
    + intros pp. apply (endpoints_of mac t Hwt ups cores downs src dst es); assumption.
    + intros now. apply (unexpired_of mac t Hwt ups cores downs src dst es); assumption.
  - exists (pair_prov e1 e2). split; [|split; [|split; [|split]]].
    + apply (pair_wf_prov mac t Hwt ups cores downs Bu Bc Bd src dst e1 e2 k1 k2); assumption.
    + intros pp. apply (pair_render mac t Hwt ups cores downs Bu Bc Bd src dst e1 e2 k1 k2); assumption.
    + apply (pair_interfaces mac t Hwt ups cores downs Bu Bc Bd src dst e1 e2 k1 k2); assumption.
    + intros pp. apply (pair_endpoints mac t Hwt ups cores downs Bu Bc Bd src dst e1 e2 k1 k2); assumption.
    + intros now. apply (pair_unexpired mac t Hwt ups cores downs Bu Bc Bd src dst e1 e2 k1 k2); assumption.
Qed.

(** every path of the combinator over beaconed segments is a well-formed provenance path *)
Theorem C02_combine_prov :
  forall mac t src dst ups cores downs fa ps cp pp,
    Nw.wf_topo t = true ->
    Forall (beaconed mac t false) (Cb.segs_of ups) ->
    Forall (beaconed mac t true) (Cb.segs_of cores) ->
    Forall (beaconed mac t false) (Cb.segs_of downs) ->
    Cb.combine src dst ups cores downs fa = Cb.Done ps -> In cp ps ->
    src <> dst -> (length (path_ias cp) <= 64)%nat ->
    exists p : Pv.prov,
      Pv.wf_prov_b (macq_of mac) t p = true /\
      Pv.render p pp 0 false = pkt_of_path cp pp /\
      Pv.interfaces p = Cb.p_ifs cp.
Proof.
  intros mac t src dst ups cores downs fa ps cp pp Hwt Bu Bc Bd Hc Hin Hsd H64.
  destruct (combine_prov_all mac t src dst ups cores downs fa ps cp Hwt Bu Bc Bd Hc Hin Hsd H64)
    as (p & W & R & I & _). exists p. auto.
Qed.
Print Assumptions C02_combine_prov.

(** C02 for the combinator's paths: the packet built from the path is forwarded by every router on
    the way, crosses exactly the interfaces of the path metadata, in that order, and is delivered
    to the destination host in the destination AS. *)
Theorem C02_paths_forward :
  forall mac t now src dst ups cores downs fa ps cp pp,
    Nw.wf_topo t = true -> Nw.all_up t = true ->
    Forall (beaconed mac t false) (Cb.segs_of ups) ->
    Forall (beaconed mac t true) (Cb.segs_of cores) ->
    Forall (beaconed mac t false) (Cb.segs_of downs) ->
    Cb.combine src dst ups cores downs fa = Cb.Done ps -> In cp ps ->
    src <> dst -> (length (path_ias cp) <= 64)%nat ->
    path_unexpired now cp -> hosts_ok t src dst pp ->
    exists tr rtr d a,
      Pv.walk_from (macq_of mac) t now (pkt_of_path cp pp) (pkt_of_path cp pp) =
        (tr, Nw.Delivered dst rtr (fst d) (snd d)) /\
      Nw.crossed tr = Cb.p_ifs cp /\
      Nw.find_as t dst = Some a /\ Pv.deliver_target a pp = Some d.
Proof.
  intros mac t now src dst ups cores downs fa ps cp pp Hwt Hup Bu Bc Bd Hc Hin Hsd H64 Hex Hh.
  destruct (combine_prov_all mac t src dst ups cores downs fa ps cp Hwt Bu Bc Bd Hc Hin Hsd H64)
    as (p & W & R & I & Ep & Ux).
  destruct (forward_prov mac t now p pp Hwt Hup W (Ep pp Hh) (Ux now Hex)) as (tr & rtr & d & a & Wk & Cr & Fa & Dt).
  destruct Hh as (_ & Dd & _). rewrite Dd in Wk, Fa. rewrite R in Wk.
  exists tr, rtr, d, a. rewrite <- I. auto.
Qed.
Print Assumptions C02_paths_forward.

(** Non-vacuity of the hypotheses: core AS 10 with two leaves 20 and 30 that also peer with each
    other (interface 2 on both sides); one up segment of 20 and one down segment of 30, each
    announcing the peering link, MACed with a toy 6-byte MAC.  Both segments are [beaconed]; the
    combinator returns the path over the peering link and the path over the core; both satisfy
    the side conditions of [C02_paths_forward]. *)
Definition toy6 (k b ts e i g : N) : list N := [k; b mod 256; (b / 256) mod 256; e; i; g].
Definition ex_t : Nw.topology :=
  [ Nw.mkAs 10 7 1 [Nw.mkNif 1 R.Child 20 1 0 true; Nw.mkNif 2 R.Child 30 1 0 true] [] 0 0;
    Nw.mkAs 20 8 1 [Nw.mkNif 1 R.Parent 10 1 0 true; Nw.mkNif 2 R.Peer 30 2 0 true] [] 0 0;
    Nw.mkAs 30 9 1 [Nw.mkNif 1 R.Parent 10 2 0 true; Nw.mkNif 2 R.Peer 20 2 0 true] [] 0 0 ].
Definition ex_seg (segid key_leaf leaf core_eg peer_ia : N) : Sg.segment :=
  let ts := 1000 in
  let m0 := toy6 7 segid ts 63 0 core_eg in
  let b1 := N.lxor segid (Sg.mac16 m0) in
  let m1 := toy6 key_leaf b1 ts 63 1 0 in
  let b2 := N.lxor b1 (Sg.mac16 m1) in
  let pm := toy6 key_leaf b2 ts 63 2 0 in
  Sg.mkSeg ts segid
    [ Sg.mkAS 10 (Sg.mkHop 0 core_eg 63 m0) 0 1400 [];
      Sg.mkAS leaf (Sg.mkHop 1 0 63 m1) 1400 1400 [Sg.mkPeer peer_ia 2 (Sg.mkHop 2 0 63 pm) 1400] ].
Definition ex_up := ex_seg 5 8 20 1 30.
Definition ex_down := ex_seg 9 9 30 2 20.
Definition ex_pp : Pv.pparams := Pv.mkPP 20 30 0 0 [10; 0; 0; 2] [10; 0; 0; 1] 8 (Some 4242).

Ltac ex_entry :=
  unfold entry_ok; repeat split;
  try (cbv [hop_maced]; eexists; split; [vm_compute; reflexivity|vm_compute; reflexivity]);
  try (repeat constructor; repeat split;
       try (cbv [hop_maced]; eexists; split; [vm_compute; reflexivity|vm_compute; reflexivity]);
       try (vm_compute; reflexivity);
       try (cbv [link_to]; do 2 eexists; repeat split; vm_compute; reflexivity));
  try (cbn [nth_error Sg.sg_entries]; cbv [link_to]; do 2 eexists; repeat split; vm_compute; reflexivity);
  try exact I.

Lemma ex_beaconed segid key leaf eg peer :
  (segid, key, leaf, eg, peer) = (5, 8, 20, 1, 30) \/ (segid, key, leaf, eg, peer) = (9, 9, 30, 2, 20) ->
  beaconed toy6 ex_t false (ex_seg segid key leaf eg peer).
Proof.
  intros [E|E]; inversion E; subst.
  - split; [reflexivity|]. split; [reflexivity|]. split; [discriminate|].
    intros i e H. destruct i as [|[|i]]; [| |destruct i; discriminate]; cbn in H; inversion H; subst e; clear H.
    + ex_entry.
    + ex_entry.
  - split; [reflexivity|]. split; [reflexivity|]. split; [discriminate|].
    intros i e H. destruct i as [|[|i]]; [| |destruct i; discriminate]; cbn in H; inversion H; subst e; clear H.
    + ex_entry.
    + ex_entry.
Qed.

Example C02_combine_example :
  let ups := [(1, ex_up)] in let downs := [(2, ex_down)] in
  Nw.wf_topo ex_t = true /\ Nw.all_up ex_t = true /\
  Forall (beaconed toy6 ex_t false) (Cb.segs_of ups) /\
  Forall (beaconed toy6 ex_t false) (Cb.segs_of downs) /\
  hosts_ok ex_t 20 30 ex_pp /\
  exists ps, Cb.combine 20 30 ups [] downs true = Cb.Done ps /\
    map Cb.p_ifs ps = [[(20, 2); (30, 2)]; [(20, 1); (10, 1); (10, 2); (30, 1)]] /\
    Forall (fun cp => (length (path_ias cp) <= 64)%nat /\ path_unexpired 2000000000000 cp) ps.
Proof.
  cbv zeta. split; [reflexivity|]. split; [reflexivity|].
  split; [repeat constructor; apply ex_beaconed; auto|]. split; [repeat constructor; apply ex_beaconed; auto|].
  split.
  { split; [reflexivity|]. split; [reflexivity|]. split; [reflexivity|].
    do 2 eexists. split; vm_compute; reflexivity. }
  exists (match Cb.combine 20 30 [(1, ex_up)] [] [(2, ex_down)] true with Cb.Done ps => ps | _ => [] end).
  split; [vm_compute; reflexivity|]. split; [vm_compute; reflexivity|].
  match goal with |- Forall _ ?l => set (ps := l) end. vm_compute in ps. subst ps.
  repeat (constructor; [split; [cbn; lia|unfold path_unexpired; cbn [Cb.p_slices]; repeat constructor]|]).
  constructor.
Qed.
