(** C02, layer 3 — STATEMENT ONLY (not proved, neither in full nor for the
    non-peering part): every path the combinator model ([Combinator.combine], C28)
    returns on segments produced by beaconing over a well-formed topology is the
    rendering of a well-formed provenance path whose interface list is the path
    metadata.  Together with [C02_forward_prov] it would give [C02_paths_forward].

    What replaces it: the correspondence check of C02 ships, for every path of the REAL
    combinator over segments of the REAL extender, the provenance reconstructed from the
    beaconed segments, and the model checks [render prov = the packet] and [wf_prov_b]
    on it (notes/C02.md).  The definitions below say what "segments produced by
    beaconing" means at the abstraction of Model/Segment.v. *)
From Coq Require Import List NArith Bool Arith.
From Scion Require Import Lib.Check Model.Router Model.Network Model.Prov.
From Scion Require Import Model.Segment Model.SegID Model.Combinator.
From Scion Require Import Proofs.ProvFacts.
Import ListNotations.
Local Open Scope N_scope.

Module CombineProv.
Module R := Scion.Model.Router.Router.
Module Nw := Scion.Model.Network.Network.
Module Pv := Scion.Model.Prov.Prov.
Module Sg := Scion.Model.Segment.Segment.
Module Cb := Scion.Model.Combinator.Combinator.
Module Sid := Scion.Model.SegID.SegID.

Section Beaconed.
Variable mac : N -> N -> N -> N -> N -> N -> list N.
Variable t : Nw.topology.

(** the MAC prefixes of the regular hop fields, and beta_i (C22) *)
Definition sigmas (s : Sg.segment) : list N := map (fun a => Sg.mac16 (Sg.h_mac (Sg.ae_hop a))) (Sg.sg_entries s).
Definition beta_at (s : Sg.segment) (i : nat) : N := Sid.beta (Sg.sg_segid s) (sigmas s) i.

Definition hop_maced (ia_ : N) (b : N) (ts : N) (h : Sg.hopf) : Prop :=
  exists a, Nw.find_as t ia_ = Some a /\
    Sg.h_mac h = mac (Nw.a_key a) b ts (Sg.h_exp h) (Sg.h_in h) (Sg.h_eg h).

Definition link_to (ia_ ifid : N) (lt : R.linktype) (nbr rem : N) : Prop :=
  exists a f, Nw.find_as t ia_ = Some a /\ Nw.find_nif (Nw.a_ifs a) ifid = Some f /\
    Nw.ni_lt f = lt /\ Nw.ni_nbr f = nbr /\ Nw.ni_remote f = rem.

(** what the extender guarantees for entry [i] of a segment: its hop field is MACed with
    beta_i, its peer hop fields with beta_{i+1} over the same egress and a peering link of
    the AS; its egress leads to the next entry's AS over a child (core) link *)
Definition entry_ok (core : bool) (s : Sg.segment) (i : nat) (e : Sg.as_entry) : Prop :=
  hop_maced (Sg.ae_ia e) (beta_at s i) (Sg.sg_ts s) (Sg.ae_hop e) /\
  Forall (fun pe =>
    hop_maced (Sg.ae_ia e) (beta_at s (S i)) (Sg.sg_ts s) (Sg.pe_hop pe) /\
    Sg.h_eg (Sg.pe_hop pe) = Sg.h_eg (Sg.ae_hop e) /\
    link_to (Sg.ae_ia e) (Sg.h_in (Sg.pe_hop pe)) R.Peer (Sg.pe_ia pe) (Sg.pe_if pe)) (Sg.ae_peers e) /\
  match nth_error (Sg.sg_entries s) (S i) with
  | Some e' => link_to (Sg.ae_ia e) (Sg.h_eg (Sg.ae_hop e)) (if core then R.Core else R.Child)
                       (Sg.ae_ia e') (Sg.h_in (Sg.ae_hop e'))
  | None => True
  end.

Definition beaconed (core : bool) (s : Sg.segment) : Prop :=
  Sg.validate s = true /\ Sg.wf_fields s = true /\
  forall i e, nth_error (Sg.sg_entries s) i = Some e -> entry_ok core s i e.

End Beaconed.

(** the packet a host builds from a combinator path *)
Definition pkt_of_path (cp : Cb.path) (pp : Pv.pparams) : R.pkt :=
  let sls := Cb.p_slices cp in
  let len j := N.of_nat (length (Cb.sl_hops (nth j sls (Cb.mkSlice (Cb.mkInfo 0 0 false false) [] [])))) in
  R.mkPkt (Pv.pp_dst_ia pp) (Pv.pp_src_ia pp) (Pv.pp_dst_type pp) (Pv.pp_src_type pp)
          (Pv.pp_dst_raw pp) (Pv.pp_src_raw pp) (Pv.pp_pay pp) (Pv.pp_pay pp) (Pv.pp_port pp)
          0 0 (len 0%nat) (len 1%nat) (len 2%nat) 0
          (map (fun sl => R.mkInfo (Cb.i_peer (Cb.sl_info sl)) (Cb.i_consdir (Cb.sl_info sl))
                                   (Cb.i_segid (Cb.sl_info sl)) (Cb.i_ts (Cb.sl_info sl)) 0) sls)
          (flat_map (fun sl => map (fun x => R.mkHop false false (Sg.h_exp (snd x)) (Sg.h_in (snd x))
                                                     (Sg.h_eg (snd x)) (Sg.h_mac (snd x)) 0)
                                   (Cb.sl_hops sl)) sls).

Definition C02_combine_prov_statement : Prop :=
  forall mac t src dst ups cores downs fa ps cp pp,
    Nw.wf_topo t = true ->
    Forall (beaconed mac t false) (Cb.segs_of ups) ->
    Forall (beaconed mac t true) (Cb.segs_of cores) ->
    Forall (beaconed mac t false) (Cb.segs_of downs) ->
    Cb.combine src dst ups cores downs fa = Cb.Done ps -> In cp ps ->
    exists p : Pv.prov,
      Pv.wf_prov_b (macq_of mac) t p = true /\
      Pv.render p pp 0 false = pkt_of_path cp pp /\
      Pv.interfaces p = Cb.p_ifs cp.

End CombineProv.
