(** C24 — segment verification detects any alteration of signed content.
    Model: Model/SegVerify.v (segverifier.VerifySegment, seg.VerifyASEntry /
    associatedData, trust.Verifier.Verify) on top of Model/Signed.v.  The
    signature scheme, the hash and the trust engine ([notify], [certs_for]) are
    universally quantified. *)
From Coq Require Import List NArith ZArith Bool Lia.
From Scion Require Import Lib.Check Lib.Bytes Lib.PBWire Model.Signed Proofs.Signed
     Model.SegVerify Proofs.SegVerify.
Import ListNotations.
Import Signed SegVerify.
Local Open Scope N_scope.

(** A segment verifies if and only if every entry (at whatever position: the
    entries before it are [A]) parses, names in its key id the ISD-AS the
    verifier is bound to (the entry's Local), a non-empty subject key id and a
    TRC the engine knows, and its signature is valid, under a key the engine
    certifies for that ISD-AS and subject key id with a validity covering
    [timestamp, timestamp + lifetime(ExpTime)], over
    entry || segment info || all earlier entries and signatures. *)
Theorem C24_sound_complete :
  forall (PK : Type) (sig_valid : PK -> bytes -> bytes -> bool) (hash : N -> bytes -> bytes)
         (kind : PK -> N) (notify : N -> N -> N -> bool)
         (certs_for : N -> bytes -> validity -> option (list PK)) (s : segment),
    verify_segment PK sig_valid hash kind notify certs_for s = true <->
    forall A e S, s_entries s = A ++ e :: S ->
      exists h body kid keys pk,
        parse_hb (e_hb e) = Some (h, body) /\
        parse_keyid (h_keyid h) = Some kid /\
        k_skid kid <> [] /\
        (e_local e = 0 \/ e_local e = k_ia kid) /\
        is_wildcard (k_ia kid) = false /\
        notify (isd_of (k_ia kid)) (k_base kid) (k_serial kid) = true /\
        certs_for (k_ia kid) (k_skid kid)
                  ((s_ts s * 1000)%Z, (s_ts s * 1000 + exp_dur (e_exp e))%Z) = Some keys /\
        In pk keys /\
        ad_len (s_info s :: pairs A) = h_adlen h /\
        check_algo (h_algo h) (kind pk) = true /\
        sig_valid pk (dig hash (h_algo h) (e_hb e ++ s_info s ++ concat (pairs A))) (e_sig e) = true.
Proof. intros. apply sound_complete. Qed.
Print Assumptions C24_sound_complete.

(** Dropping trailing entries leaves a verifiable prefix. *)
Theorem C24_prefix :
  forall (PK : Type) (sig_valid : PK -> bytes -> bytes -> bool) (hash : N -> bytes -> bytes)
         (kind : PK -> N) (notify : N -> N -> N -> bool)
         (certs_for : N -> bytes -> validity -> option (list PK)) info ts A B,
    verify_segment PK sig_valid hash kind notify certs_for (mkseg info ts (A ++ B)) = true ->
    verify_segment PK sig_valid hash kind notify certs_for (mkseg info ts A) = true.
Proof. intros until B. apply verify_segment_prefix. Qed.
Print Assumptions C24_prefix.

(** Tampering as a reduction, for every scheme and engine: in a segment that
    verifies, each entry's signature is accepted under a certified key, and if
    the accepted (key, digest, signature) is one that an honest signer produced
    (any list H of honest signing records), then either two different byte
    strings collide under the hash, or that signer signed exactly the bytes
    entry || info || earlier entries and signatures this entry is verified
    against.  Otherwise the triple is a forgery. *)
Theorem C24_tamper_reduction :
  forall (PK : Type) (sig_valid : PK -> bytes -> bytes -> bool) (hash : N -> bytes -> bytes)
         (kind : PK -> N) (notify : N -> N -> N -> bool)
         (certs_for : N -> bytes -> validity -> option (list PK))
         (SK : Type) (sign_with : SK -> bytes -> bytes) (pub : SK -> PK)
         (H : list (record SK)) (s : segment),
    verify_segment PK sig_valid hash kind notify certs_for s = true ->
    forall A e S, s_entries s = A ++ e :: S ->
      exists h body kid keys pk,
        parse_hb (e_hb e) = Some (h, body) /\ parse_keyid (h_keyid h) = Some kid /\
        certs_for (k_ia kid) (k_skid kid) (entry_validity (s_ts s) e) = Some keys /\ In pk keys /\
        sig_valid pk (dig hash (h_algo h) (raw (s_info s) A e)) (e_sig e) = true /\
        forall r, In r H ->
          (pk, dig hash (h_algo h) (raw (s_info s) A e), e_sig e) = r_triple PK hash SK sign_with pub r ->
          dig_collision hash (h_algo h) (r_algo SK r) (raw (s_info s) A e) (r_raw SK r)
          \/ raw (s_info s) A e = r_raw SK r.
Proof. intros. eapply tamper_reduction; eauto. Qed.
Print Assumptions C24_tamper_reduction.

(** What the mutation classes do to the signed bytes of a retained entry [e]
    (earlier entries [A ++ x :: B] etc.): they change. *)
Theorem C24_mutations_change_signed_bytes :
  (forall info info' X e, info' <> info -> raw info' X e <> raw info X e) /\
  (forall info X e e', e_hb e' <> e_hb e -> raw info X e' <> raw info X e) /\
  (forall info A x x' B e, fl x' <> fl x -> raw info (A ++ x' :: B) e <> raw info (A ++ x :: B) e) /\
  (forall info A x B e, fl x <> [] -> raw info (A ++ B) e <> raw info (A ++ x :: B) e) /\
  (forall info A x B e, fl x <> [] -> raw info (A ++ x :: B) e <> raw info (A ++ B) e).
Proof.
  repeat split.
  - apply raw_info_diff.
  - apply raw_own_hb.
  - apply raw_earlier_replaced.
  - apply raw_earlier_removed.
  - apply raw_earlier_inserted.
Qed.
Print Assumptions C24_mutations_change_signed_bytes.

(** In a world without forgeries and collisions, with pairwise different signer
    keys and an honest PKI, an honestly built segment [s] rejects every such
    alteration.  [s'] is the altered segment; [e] is an honest entry of [s]
    (after [A]) that [s'] retains as [e'] (after [A']). *)
Definition ideal (PK : Type) (sig_valid : PK -> bytes -> bytes -> bool) (hash : N -> bytes -> bytes)
           (certs_for : N -> bytes -> validity -> option (list PK))
           (SK : Type) (sign_with : SK -> bytes -> bytes) (pub : SK -> PK)
           (s : segment) (sks : list SK) : Prop :=
  honest hash SK sign_with s sks /\ unforgeable PK sig_valid hash SK pub s sks /\
  collision_free hash /\ pki_honest PK certs_for SK pub s sks /\ NoDup (map pub sks).

Theorem C24_tamper_rejected :
  forall PK sig_valid hash kind notify certs_for SK sign_with pub s sks,
    ideal PK sig_valid hash certs_for SK sign_with pub s sks ->
    forall s' A e S A' e' S',
      s_entries s = A ++ e :: S -> s_entries s' = A' ++ e' :: S' ->
      e_local e' = e_local e ->
      (raw (s_info s') A' e' <> raw (s_info s) A e \/ e_sig e' <> e_sig e) ->
      verify_segment PK sig_valid hash kind notify certs_for s' = false.
Proof.
  intros until sks. intros (H1 & H2 & H3 & H4 & H5). intros.
  eapply tamper_core; eauto.
Qed.
Print Assumptions C24_tamper_rejected.

(** ... in particular: altered segment info; altered entry (its signed bytes or
    its signature); altered earlier entry or earlier signature; removed,
    inserted, reordered entry. *)
Theorem C24_tamper_classes :
  forall PK sig_valid hash kind notify certs_for SK sign_with pub s sks,
    ideal PK sig_valid hash certs_for SK sign_with pub s sks ->
    let V := verify_segment PK sig_valid hash kind notify certs_for in
    (* segment info altered (timestamp or segment id or any byte) *)
    (forall e S info' ts', s_entries s = e :: S -> info' <> s_info s ->
        V (mkseg info' ts' (e :: S)) = false) /\
    (* an entry's header-and-body altered, signature kept *)
    (forall A e S e' S' ts', s_entries s = A ++ e :: S -> e_local e' = e_local e ->
        e_hb e' <> e_hb e -> V (mkseg (s_info s) ts' (A ++ e' :: S')) = false) /\
    (* an entry's signature altered *)
    (forall A e S e' S' ts', s_entries s = A ++ e :: S -> e_local e' = e_local e ->
        e_sig e' <> e_sig e -> V (mkseg (s_info s) ts' (A ++ e' :: S')) = false) /\
    (* an earlier entry or earlier signature altered *)
    (forall A x B e S x' S' ts', s_entries s = A ++ x :: B ++ e :: S -> fl x' <> fl x ->
        V (mkseg (s_info s) ts' (A ++ x' :: B ++ e :: S')) = false) /\
    (* an entry removed that is not the last one *)
    (forall A x B e S S' ts', s_entries s = A ++ x :: B ++ e :: S -> fl x <> [] ->
        V (mkseg (s_info s) ts' (A ++ B ++ e :: S')) = false) /\
    (* an entry inserted before an existing one *)
    (forall A x B e S S' ts', s_entries s = A ++ B ++ e :: S -> fl x <> [] ->
        V (mkseg (s_info s) ts' (A ++ x :: B ++ e :: S')) = false) /\
    (* two neighbouring entries swapped *)
    (forall A x e S ts', s_entries s = A ++ x :: e :: S -> fl x <> [] ->
        V (mkseg (s_info s) ts' (A ++ e :: x :: S)) = false).
Proof.
  intros until sks. intros Hid V.
  assert (Core := C24_tamper_rejected PK sig_valid hash kind notify certs_for SK sign_with pub s sks Hid).
  repeat split.
  - intros e S info' ts' E D. eapply (Core _ [] e S [] e S); eauto. left. cbn [s_info]. now apply raw_info_diff.
  - intros A e S e' S' ts' E L D. eapply (Core _ A e S A e' S'); eauto. left. cbn [s_info]. now apply raw_own_hb.
  - intros A e S e' S' ts' E L D. eapply (Core _ A e S A e' S'); eauto.
  - intros A x B e S x' S' ts' E D.
    eapply (Core _ (A ++ x :: B) e S (A ++ x' :: B) e S'); eauto.
    + now rewrite <- app_assoc.
    + cbn [s_entries]. now rewrite <- app_assoc.
    + left. cbn [s_info]. now apply raw_earlier_replaced.
  - intros A x B e S S' ts' E D.
    eapply (Core _ (A ++ x :: B) e S (A ++ B) e S'); eauto.
    + now rewrite <- app_assoc.
    + cbn [s_entries]. now rewrite <- app_assoc.
    + left. cbn [s_info]. now apply raw_earlier_removed.
  - intros A x B e S S' ts' E D.
    eapply (Core _ (A ++ B) e S (A ++ x :: B) e S'); eauto.
    + now rewrite <- app_assoc.
    + cbn [s_entries]. now rewrite <- app_assoc.
    + left. cbn [s_info]. now apply raw_earlier_inserted.
  - intros A x e S ts' E D.
    eapply (Core _ (A ++ [x]) e S A e (x :: S)); eauto.
    + rewrite <- app_assoc. exact E.
    + left. cbn [s_info]. rewrite <- (app_nil_r A) at 1.
      replace (A ++ [x]) with (A ++ x :: []) by reflexivity. now apply raw_earlier_removed.
Qed.
Print Assumptions C24_tamper_classes.

(** ------------------------------------------------------------------
    The same in a world described by a list [H] of honest signing records — any
    number of segments and of records per signer — and with NO condition on the
    struct field Local of the altered entry (audit follow-up). *)
Definition worldH (PK : Type) (sig_valid : PK -> bytes -> bytes -> bool) (hash : N -> bytes -> bytes)
           (SK : Type) (sign_with : SK -> bytes -> bytes) (pub : SK -> PK) (H : list (record SK)) : Prop :=
  unforgeableH PK sig_valid hash SK sign_with pub H /\ collision_free hash /\ hashedH SK H.

(** An entry verified against bytes, or carrying a signature, that the holder of
    the only key certified for the ISD-AS it claims never produced makes the
    segment fail — whatever its Local says, wherever the entry came from. *)
Theorem C24_tamper_fresh :
  forall PK sig_valid hash kind notify certs_for SK sign_with pub H,
    worldH PK sig_valid hash SK sign_with pub H ->
    forall s' A' e' S' ia pk0,
      s_entries s' = A' ++ e' :: S' ->
      claimed_ia e' = Some ia -> cert_only PK certs_for ia pk0 ->
      (forall r, In r H -> pub (r_sk SK r) = pk0 ->
         r_raw SK r <> raw (s_info s') A' e' \/ r_sig hash SK sign_with r <> e_sig e') ->
      verify_segment PK sig_valid hash kind notify certs_for s' = false.
Proof. intros until H. intros (H1 & H2 & H3). intros. eapply tamper_fresh; eauto. Qed.
Print Assumptions C24_tamper_fresh.

(** altering only the struct field Local (the signed bytes still claim [ia]) is
    rejected by the verifier's binding, without any cryptographic assumption *)
Theorem C24_local_mismatch_rejected :
  forall PK sig_valid hash kind notify certs_for s' A' e' S' ia,
    s_entries s' = A' ++ e' :: S' -> claimed_ia e' = Some ia ->
    e_local e' <> 0 -> e_local e' <> ia ->
    verify_segment PK sig_valid hash kind notify certs_for s' = false.
Proof. intros. eapply bound_mismatch_rejected; eauto. Qed.
Print Assumptions C24_local_mismatch_rejected.

(** The mutation classes around an honest entry [e] (after [A] in [s], claiming
    [ia], signer [sk] whose key is the only one certified for [ia] and signed
    nothing but this entry; all other signers unrestricted).  The altered entry
    [e'] only has to claim [ia] in its signed header; its Local is arbitrary. *)
Theorem C24_tamper_classes_H :
  forall PK sig_valid hash kind notify certs_for SK sign_with pub H,
    worldH PK sig_valid hash SK sign_with pub H ->
    let V := verify_segment PK sig_valid hash kind notify certs_for in
    let HE := honest_entry PK hash certs_for SK sign_with pub H in
    (* segment info altered *)
    (forall s e sk ia S' info' ts', HE s [] e sk ia -> info' <> s_info s ->
        V (mkseg info' ts' (e :: S')) = false) /\
    (* the entry's signed bytes altered (still claiming ia, e.g. ISD-AS in the body, hop field, MTU) *)
    (forall s A e sk ia e' S' ts', HE s A e sk ia -> claimed_ia e' = Some ia -> e_hb e' <> e_hb e ->
        V (mkseg (s_info s) ts' (A ++ e' :: S')) = false) /\
    (* the entry's signature altered *)
    (forall s A e sk ia e' S' ts', HE s A e sk ia -> claimed_ia e' = Some ia -> e_sig e' <> e_sig e ->
        V (mkseg (s_info s) ts' (A ++ e' :: S')) = false) /\
    (* an earlier entry or earlier signature altered *)
    (forall s A x B e sk ia x' S' ts', HE s (A ++ x :: B) e sk ia -> fl x' <> fl x ->
        V (mkseg (s_info s) ts' (A ++ x' :: B ++ e :: S')) = false) /\
    (* an earlier entry removed *)
    (forall s A x B e sk ia S' ts', HE s (A ++ x :: B) e sk ia -> fl x <> [] ->
        V (mkseg (s_info s) ts' (A ++ B ++ e :: S')) = false) /\
    (* an entry inserted before *)
    (forall s A x B e sk ia S' ts', HE s (A ++ B) e sk ia -> fl x <> [] ->
        V (mkseg (s_info s) ts' (A ++ x :: B ++ e :: S')) = false) /\
    (* reordering: the entry moved in front of a block B of earlier entries *)
    (forall s A B e sk ia S' ts', HE s (A ++ B) e sk ia -> concat (pairs B) <> [] ->
        V (mkseg (s_info s) ts' (A ++ e :: B ++ S')) = false).
Proof.
  intros until H. intros (H1 & H2 & H3) V HE.
  assert (Core := fun s A e sk ia => tamper_coreH PK sig_valid hash kind notify certs_for SK sign_with pub H
                                                  s A e sk ia).
  assert (Cl : forall s A e sk ia, HE s A e sk ia -> claimed_ia e = Some ia) by (intros ? ? ? ? ? (C & _); exact C).
  repeat split.
  - intros s e sk ia S' info' ts' He D. eapply (Core s [] e sk ia _ [] e S'); eauto.
    left. cbn [s_info]. now apply raw_info_diff.
  - intros s A e sk ia e' S' ts' He C D. eapply (Core s A e sk ia _ A e' S'); eauto.
    left. cbn [s_info]. now apply raw_own_hb.
  - intros s A e sk ia e' S' ts' He C D. eapply (Core s A e sk ia _ A e' S'); eauto.
  - intros s A x B e sk ia x' S' ts' He D.
    eapply (Core s (A ++ x :: B) e sk ia _ (A ++ x' :: B) e S'); eauto.
    + cbn [s_entries]. now rewrite <- app_assoc.
    + left. cbn [s_info]. now apply raw_earlier_replaced.
  - intros s A x B e sk ia S' ts' He D.
    eapply (Core s (A ++ x :: B) e sk ia _ (A ++ B) e S'); eauto.
    + cbn [s_entries]. now rewrite <- app_assoc.
    + left. cbn [s_info]. now apply raw_earlier_removed.
  - intros s A x B e sk ia S' ts' He D.
    eapply (Core s (A ++ B) e sk ia _ (A ++ x :: B) e S'); eauto.
    + cbn [s_entries]. now rewrite <- app_assoc.
    + left. cbn [s_info]. now apply raw_earlier_inserted.
  - intros s A B e sk ia S' ts' He D.
    eapply (Core s (A ++ B) e sk ia _ A e (B ++ S')); eauto.
    left. cbn [s_info]. now apply raw_block_removed.
Qed.
Print Assumptions C24_tamper_classes_H.

(** block move in the one-segment world of [ideal] as well *)
Theorem C24_block_move_rejected :
  forall PK sig_valid hash kind notify certs_for SK sign_with pub s sks,
    ideal PK sig_valid hash certs_for SK sign_with pub s sks ->
    forall A B e S S' ts', s_entries s = A ++ B ++ e :: S -> concat (pairs B) <> [] ->
      verify_segment PK sig_valid hash kind notify certs_for (mkseg (s_info s) ts' (A ++ e :: B ++ S')) = false.
Proof.
  intros until sks. intros Hid A B e S S' ts' E D.
  eapply (C24_tamper_rejected PK sig_valid hash kind notify certs_for SK sign_with pub s sks Hid
                              _ (A ++ B) e S A e (B ++ S')); eauto.
  - now rewrite <- app_assoc.
  - left. cbn [s_info]. now apply raw_block_removed.
Qed.
Print Assumptions C24_block_move_rejected.

(** ------------------------------------------------------------------
    The chain cache of trust.Verifier (after the fix: keyed by the whole query
    ISD-AS, subject key id AND validity).  A cache whose key determines the
    query is invisible; one keyed by less is not. *)
Theorem C24_cache_transparent :
  forall (Q K R : Type) (engine : Q -> R) (key : Q -> K) (keqb : K -> K -> bool),
    (forall a b, keqb a b = true <-> a = b) ->
    (forall q1 q2, key q1 = key q2 -> q1 = q2) ->
    forall qs c, cache_ok Q K R engine key c ->
      fst (run Q K R engine key keqb c qs) = map engine qs.
Proof. intros. eapply run_transparent; eauto. Qed.
Print Assumptions C24_cache_transparent.

(** The model of trust.Verifier WITH its cache ([notifyTRC] ids, [getChains]
    lists under the key ISD-AS / subject key id / validity, as since 7016e47):
    for every engine, every reachable cache state and every sequence of segments
    verified on the one verifier, the verdicts are those of the uncached
    VerifySegment, one by one. *)
Theorem C24_cached_verifier_equals_uncached :
  forall (PK : Type) (sig_valid : PK -> bytes -> bytes -> bool) (hash : N -> bytes -> bytes)
         (kind : PK -> N) (notify : N -> N -> N -> bool)
         (certs_for : N -> bytes -> validity -> option (list PK)) (ss : list segment),
    fst (verify_segments_cached PK sig_valid hash kind notify certs_for vc_empty ss)
    = map (verify_segment PK sig_valid hash kind notify certs_for) ss.
Proof. intros. apply verify_segments_cached_ok. apply vc_empty_ok. Qed.
Print Assumptions C24_cached_verifier_equals_uncached.

(** the same from any cache state whose entries are engine answers, and that
    property of the state is preserved by a verification *)
Theorem C24_cached_step_invariant :
  forall (PK : Type) (sig_valid : PK -> bytes -> bytes -> bool) (hash : N -> bytes -> bytes)
         (kind : PK -> N) (notify : N -> N -> N -> bool)
         (certs_for : N -> bytes -> validity -> option (list PK)) c s,
    vcache_ok PK notify certs_for c ->
    fst (verify_segment_cached PK sig_valid hash kind notify certs_for c s)
    = verify_segment PK sig_valid hash kind notify certs_for s /\
    vcache_ok PK notify certs_for (snd (verify_segment_cached PK sig_valid hash kind notify certs_for c s)).
Proof. intros. now apply verify_segment_cached_ok. Qed.
Print Assumptions C24_cached_step_invariant.

(** what [check] evaluates for a sequence: with the cache flag of the case the
    model runs through the cache model; the verdicts do not depend on the flag,
    and the oracle holds on them *)
Theorem C24_seq_oracle_holds_on_model :
  forall pki trcs cache steps,
    map st_impl steps = model_verdicts pki trcs cache steps ->
    model_verdicts pki trcs cache steps = model_verdicts pki trcs false steps /\
    forallb (step_oracle pki trcs) steps = true.
Proof.
  intros pki trcs cache steps E.
  assert (Ei : model_verdicts pki trcs cache steps = model_verdicts pki trcs false steps).
  { destruct cache; [apply model_verdicts_cache_irrelevant|reflexivity]. }
  split; [exact Ei|]. rewrite Ei in E. unfold model_verdicts in E. clear Ei.
  induction steps as [|st t IH]; [reflexivity|].
  cbn [map] in E. inversion E as [[E1 E2]]. cbn [forallb]. rewrite (IH E2), andb_true_r.
  destruct st as [seg fp tbl impl]. cbn [st_impl st_tbl st_seg] in *. subst impl.
  apply step_oracle_model.
Qed.
Print Assumptions C24_seq_oracle_holds_on_model.

(** the defect that was fixed: with the key (ISD-AS, subject key id) the second
    query (other validity) is answered with the chains of the first *)
Theorem C24_cache_key_needs_validity :
  exists (engine : N * N -> list N) (qs : list (N * N)),
    fst (run (N * N) N (list N) engine fst N.eqb [] qs) <> map engine qs.
Proof.
  exists (fun q => if snd q =? 0 then [1] else []), [(7, 0); (7, 1)].
  vm_compute. discriminate.
Qed.
Print Assumptions C24_cache_key_needs_validity.

(** ------------------------------------------------------------------
    The oracle of the correspondence check. *)

(** On segments whose struct fields are what the bytes say (SegmentFromPB), the
    control-flow model decides exactly the property written index by index:
    signed body's ISD-AS, certificate validity covering [ts, ts + lifetime(exp)]
    with ts and exp taken from the signed bytes, signature over
    entry || info || earlier entries and signatures. *)
Theorem C24_spec_equiv :
  forall pki trcs tbl s, consistent s = true ->
    spec_segment pki trcs tbl s = verify_segment_c pki trcs tbl s.
Proof. exact spec_segment_eq. Qed.
Print Assumptions C24_spec_equiv.

Theorem C24_oracle_holds_on_model :
  forall pki trcs tbl seg frompb,
    step_oracle pki trcs (mkstep seg frompb tbl (verify_segment_c pki trcs tbl seg)) = true.
Proof. exact step_oracle_model. Qed.
Print Assumptions C24_oracle_holds_on_model.

(** Verification units (StartVerification / Unit.Verify): a unit is reported as
    verified only if every entry verified — in the model the unit's verdict IS the
    completed VerifySegment verdict, and then the oracle (reported verified =>
    [spec_segment]) holds. *)
Theorem C24_unit_oracle_holds_on_model :
  forall pki trcs tbl seg frompb,
    let v := verify_segment_c pki trcs tbl seg in
    unit_oracle pki trcs (mkstep seg frompb tbl v) v = true.
Proof. exact unit_oracle_model. Qed.
Print Assumptions C24_unit_oracle_holds_on_model.

(** ------------------------------------------------------------------
    Non-vacuity. *)

(** a concrete two-entry segment under the table scheme *)
Definition ex_kid (ia : N) (skid : bytes) : bytes :=
  PB.enc_int 1 ia ++ PB.enc_len 2 skid ++ PB.enc_int 3 1 ++ PB.enc_int 4 1.
Definition ia1 : N := 281474976710656 + 5.
Definition ia2 : N := 281474976710656 + 6.
Definition ex_info : bytes := PB.enc_int 1 1700000000 ++ PB.enc_int 2 7.
Definition ex_hb1 : bytes := ser_hb (mkh 1 (ex_kid ia1 [1; 1]) zero_time [] (Z.of_nat (length ex_info))) [10; 11].
Definition ex_e1 : entry := mkentry ia1 3 ex_hb1 [101].
Definition ex_hb2 : bytes :=
  ser_hb (mkh 2 (ex_kid ia2 [2; 2]) zero_time [] (Z.of_nat (length (ex_info ++ fl ex_e1)))) [20; 21].
Definition ex_e2 : entry := mkentry ia2 5 ex_hb2 [102].
Definition ex_seg : segment := mkseg ex_info 1700000000 [ex_e1; ex_e2].
Definition ex_pki : list cert :=
  [mkcert ia1 [1; 1] 1600000000000 1800000000000 11 true; mkcert ia2 [2; 2] 1699999000000 1700010000000 12 true].
Definition ex_trcs : list trc := [mktrc 1 1 1].
Definition ex_tbl : tbl_t :=
  [(11, hash_c 1 (raw ex_info [] ex_e1), [101]); (12, hash_c 2 (raw ex_info [ex_e1] ex_e2), [102])].
Definition ex_v := verify_segment_c ex_pki ex_trcs ex_tbl.

Example C24_example :
  ex_v ex_seg = true /\
  consistent (mkseg ex_info 1700000000 []) = true /\
  ex_v (mkseg ex_info 1700000000 [ex_e1]) = true /\                             (* trailing entry dropped *)
  ex_v (mkseg (PB.enc_int 1 1700000001 ++ PB.enc_int 2 7) 1700000001 [ex_e1; ex_e2]) = false /\ (* info altered *)
  ex_v (mkseg ex_info 1700000000 [ex_e2; ex_e1]) = false /\                     (* reordered *)
  ex_v (mkseg ex_info 1700000000 [ex_e2]) = false /\                            (* first entry removed *)
  ex_v (mkseg ex_info 1700000000 [ex_e1; ex_e1; ex_e2]) = false /\              (* entry inserted *)
  ex_v (mkseg ex_info 1700000000 [mkentry ia1 3 ex_hb1 [99]; ex_e2]) = false /\ (* earlier signature altered *)
  ex_v (mkseg ex_info 1700000000 [ex_e1; mkentry ia2 255 ex_hb2 [102]]) = false /\ (* lifetime beyond the certificate *)
  ex_v (mkseg ex_info 1700000000 [mkentry ia2 3 ex_hb1 [101]; ex_e2]) = false.   (* verifier bound to another ISD-AS *)
Proof. vm_compute. repeat split; reflexivity. Qed.

(** the hypotheses of the idealised theorems are satisfiable: one honest entry,
    a scheme that accepts exactly the one honest triple *)
Definition id_e : entry := mkentry ia1 3 ex_hb1 [77].
Definition id_seg : segment := mkseg ex_info 1700000000 [id_e].
Definition id_D : bytes := dig hash_c (algo_of id_e) (raw ex_info [] id_e).
Definition id_sig_valid (pk : N) (d sg : bytes) : bool := (pk =? 5) && bytes_eqb d id_D && bytes_eqb sg [77].

Theorem C24_ideal_instance :
  ideal N id_sig_valid hash_c (fun _ _ _ => Some [5]) N (fun _ _ => [77]) (fun k => k) id_seg [5].
Proof.
  assert (Dec : forall A (e : entry) S, [id_e] = A ++ e :: S -> A = [] /\ e = id_e /\ S = []).
  { intros [|a A] e S E; cbn in E.
    - inversion E. auto.
    - inversion E. destruct A; discriminate. }
  unfold ideal. split; [|split; [|split; [|split]]].
  - split; [reflexivity|]. intros A e S sk E _. destruct (Dec A e S E) as (-> & -> & ->).
    split; [vm_compute; discriminate|reflexivity].
  - intros pk d sg Hv. unfold id_sig_valid in Hv.
    apply andb_true_iff in Hv as [Hv H3]. apply andb_true_iff in Hv as [H1 H2].
    apply N.eqb_eq in H1. apply bytes_eqb_eq in H2. apply bytes_eqb_eq in H3. subst.
    exists [], id_e, [], 5. repeat split; reflexivity.
  - intros a a' x x' Ha Ha' E. unfold dig in E.
    destruct (hash_of a =? 0) eqn:Z1; [apply N.eqb_eq in Z1; contradiction|].
    destruct (hash_of a' =? 0) eqn:Z2; [apply N.eqb_eq in Z2; contradiction|].
    unfold hash_c in E. now inversion E.
  - intros A e S sk E Hn. destruct (Dec A e S E) as (-> & -> & ->). split.
    + vm_compute. discriminate.
    + intros skid v keys pk Hc Hin. cbn in Hn. inversion Hn; subst. inversion Hc; subst.
      destruct Hin as [<-|[]]. reflexivity.
  - constructor; [intros []|constructor].
Qed.
Print Assumptions C24_ideal_instance.

(** ------------------------------------------------------------------
    Two-entry instances (audit follow-up): the classes that need an earlier entry
    are not vacuous.  Scheme: exactly the two honest triples of [ex_seg] are
    accepted; key 5 is certified for ia1, key 6 for every other ISD-AS. *)
Definition D1 : bytes := dig hash_c (algo_of ex_e1) (raw ex_info [] ex_e1).
Definition D2 : bytes := dig hash_c (algo_of ex_e2) (raw ex_info [ex_e1] ex_e2).
Definition sv2 (pk : N) (d sg : bytes) : bool :=
  ((pk =? 5) && bytes_eqb d D1 && bytes_eqb sg [101]) || ((pk =? 6) && bytes_eqb d D2 && bytes_eqb sg [102]).
Definition cf2 (ia : N) (_ : bytes) (_ : validity) : option (list N) := if ia =? ia1 then Some [5] else Some [6].
Definition sw2 (sk : N) (_ : bytes) : bytes := if sk =? 5 then [101] else [102].

Lemma Dec2 : forall A (e : entry) S, [ex_e1; ex_e2] = A ++ e :: S ->
  (A = [] /\ e = ex_e1 /\ S = [ex_e2]) \/ (A = [ex_e1] /\ e = ex_e2 /\ S = []).
Proof.
  intros [|a [|b A]] e S E; cbn in E; inversion E; subst; auto.
  destruct A; discriminate.
Qed.

Lemma hash_c_collision_free : collision_free hash_c.
Proof.
  intros a a' x x' Ha Ha' E. unfold dig in E.
  destruct (hash_of a =? 0) eqn:Z1; [apply N.eqb_eq in Z1; contradiction|].
  destruct (hash_of a' =? 0) eqn:Z2; [apply N.eqb_eq in Z2; contradiction|].
  unfold hash_c in E. now inversion E.
Qed.

Theorem C24_ideal_instance_two_entries :
  ideal N sv2 hash_c cf2 N sw2 (fun k => k) ex_seg [5; 6].
Proof.
  unfold ideal. split; [|split; [|split; [|split]]].
  - split; [reflexivity|]. intros A e S sk E Hn. destruct (Dec2 A e S E) as [(-> & -> & ->)|(-> & -> & ->)];
    cbn in Hn; inversion Hn; subst; (split; [vm_compute; discriminate|reflexivity]).
  - intros pk d sg Hv. unfold sv2 in Hv. apply orb_true_iff in Hv as [Hv|Hv];
    apply andb_true_iff in Hv as [Hv H3]; apply andb_true_iff in Hv as [H1 H2];
    apply N.eqb_eq in H1; apply bytes_eqb_eq in H2; apply bytes_eqb_eq in H3; subst.
    + exists [], ex_e1, [ex_e2], 5. repeat split; reflexivity.
    + exists [ex_e1], ex_e2, [], 6. repeat split; reflexivity.
  - exact hash_c_collision_free.
  - intros A e S sk E Hn. destruct (Dec2 A e S E) as [(-> & -> & ->)|(-> & -> & ->)];
    cbn in Hn; inversion Hn; subst; (split; [vm_compute; discriminate|]);
    intros skid v keys pk Hc Hin; vm_compute in Hc; inversion Hc; subst; destruct Hin as [<-|[]]; reflexivity.
  - repeat constructor; cbn; intuition discriminate.
Qed.
Print Assumptions C24_ideal_instance_two_entries.

(** the world [worldH] with the two honest records, both entries honest *)
Definition rec1 : record N := mkrec N 5 (algo_of ex_e1) ex_hb1 (assoc ex_info []).
Definition rec2 : record N := mkrec N 6 (algo_of ex_e2) ex_hb2 (assoc ex_info [ex_e1]).

Theorem C24_worldH_instance :
  worldH N sv2 hash_c N sw2 (fun k => k) [rec1; rec2] /\
  honest_entry N hash_c cf2 N sw2 (fun k => k) [rec1; rec2] ex_seg [] ex_e1 5 ia1 /\
  honest_entry N hash_c cf2 N sw2 (fun k => k) [rec1; rec2] ex_seg [ex_e1] ex_e2 6 ia2.
Proof.
  split; [|split].
  - split; [|split].
    + intros pk d sg Hv. unfold sv2 in Hv. apply orb_true_iff in Hv as [Hv|Hv];
      apply andb_true_iff in Hv as [Hv H3]; apply andb_true_iff in Hv as [H1 H2];
      apply N.eqb_eq in H1; apply bytes_eqb_eq in H2; apply bytes_eqb_eq in H3; subst.
      * exists rec1. split; [now left|reflexivity].
      * exists rec2. split; [right; now left|reflexivity].
    + exact hash_c_collision_free.
    + intros r [<-|[<-|[]]]; vm_compute; discriminate.
  - split; [vm_compute; reflexivity|]. split.
    + intros skid v keys pk Hc Hin. vm_compute in Hc. inversion Hc; subst. destruct Hin as [<-|[]]. reflexivity.
    + intros r [<-|[<-|[]]] Hk; [split; reflexivity|]. cbn in Hk. discriminate.
  - split; [vm_compute; reflexivity|]. split.
    + intros skid v keys pk Hc Hin. vm_compute in Hc. inversion Hc; subst. destruct Hin as [<-|[]]. reflexivity.
    + intros r [<-|[<-|[]]] Hk; [cbn in Hk; discriminate|split; reflexivity].
Qed.
Print Assumptions C24_worldH_instance.
