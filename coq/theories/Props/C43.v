(** C43 — traffic-class expressions evaluate as written and survive printing.
    Property theorems only; proofs are in Proofs/PktCls.v. *)
From Coq Require Import List NArith Bool Lia.
From Coq Require String.
From Scion Require Import Lib.Check Model.PktCls Proofs.PktCls.
Import ListNotations.
Import String.StringSyntax.
Import PktCls.
Local Open Scope N_scope.

(** [eval] (the code's loops and tests) computes the value of the expression
    [sem]: all = conjunction, any = disjunction, not = negation, nets = prefix
    membership as arithmetic, dscp = tos / 4, port ranges inclusive — on every
    layer (nil / non-IPv4 layers included) — for every tree without an empty
    [any].  The code gives any() = true where the empty disjunction is false:
    known finding empty-any-true (reachable through the Go API and the JSON form,
    not through the text grammar). *)
Theorem C43_eval_except_known : forall e v,
  has_empty_any e = false -> wf_cond e = true -> wf_layer v = true -> eval e v = sem e v.
Proof. exact eval_sem. Qed.
Print Assumptions C43_eval_except_known.

Theorem C43_empty_any_refuted :
  exists e v, wf_cond e = true /\ wf_layer v = true /\ eval e v = true /\ sem e v = false.
Proof. exists (CAny []), None. repeat split; reflexivity. Qed.
Print Assumptions C43_empty_any_refuted.

(** the same at the level of the oracle used by [check] *)
Theorem C43_oracle_tree_refuted :
  exists e ps, let '(_, ev, re) := tree_model e ps in tree_oracle e ps ev re = false.
Proof. exists (CAll [CBool true; CAny []]), [None]. vm_compute. reflexivity. Qed.
Print Assumptions C43_oracle_tree_refuted.

(** what the code computes for the connectives (the last conjunct is the finding) *)
Theorem C43_truth_table : forall l c v,
  eval (CAll l) v = forallb (fun x => eval x v) l /\
  eval (CAny l) v = match l with [] => true | _ => existsb (fun x => eval x v) l end /\
  eval (CNot c) v = negb (eval c v) /\
  eval (CAll []) v = true /\ eval (CAny []) v = true.
Proof.
  intros l c v. split; [apply eval_all|]. split; [apply eval_any|]. repeat split; reflexivity.
Qed.
Print Assumptions C43_truth_table.

(** a source-net condition holds exactly for the addresses of the prefix:
    base <= a < base + 2^(32-len) where base = ip with the host bits cleared *)
Theorem C43_net_membership : forall ip len p,
  ip < 4294967296 -> len <= 32 -> p_src p < 4294967296 ->
  let size := 2 ^ (32 - len) in let base := ip / size * size in
  eval (CSrc ip len) (Some p) = true <-> base <= p_src p < base + size.
Proof.
  intros ip len p Hi Hl Hp size base. cbn [eval].
  rewrite contains_div by assumption. fold size. rewrite N.eqb_eq.
  assert (Hs : size <> 0) by (apply N.pow_nonzero; lia).
  unfold base. split.
  - intros E. rewrite <- E.
    pose proof (N.mul_div_le (p_src p) size Hs). pose proof (N.mul_succ_div_gt (p_src p) size Hs). lia.
  - intros [H1 H2]. symmetry. apply N.div_unique with (r := p_src p - ip / size * size); lia.
Qed.
Print Assumptions C43_net_membership.

Theorem C43_dst_membership : forall ip len p,
  ip < 4294967296 -> len <= 32 -> p_dst p < 4294967296 ->
  let size := 2 ^ (32 - len) in let base := ip / size * size in
  eval (CDst ip len) (Some p) = true <-> base <= p_dst p < base + size.
Proof.
  intros ip len p Hi Hl Hp size base. cbn [eval].
  rewrite contains_div by assumption. fold size. rewrite N.eqb_eq.
  assert (Hs : size <> 0) by (apply N.pow_nonzero; lia).
  unfold base. split.
  - intros E. rewrite <- E.
    pose proof (N.mul_div_le (p_dst p) size Hs). pose proof (N.mul_succ_div_gt (p_dst p) size Hs). lia.
  - intros [H1 H2]. symmetry. apply N.div_unique with (r := p_dst p - ip / size * size); lia.
Qed.
Print Assumptions C43_dst_membership.

(** the remaining IPv4 leaves: DSCP is the upper six bits of TOS, TOS and protocol
    are compared as they are; on a nil or non-IPv4 layer every leaf is false *)
Theorem C43_leaves : forall d t n p,
  (eval (CDscp d) (Some p) = true <-> p_tos p / 4 = d) /\
  (eval (CTos t) (Some p) = true <-> p_tos p = t) /\
  (eval (CProto n) (Some p) = true <-> p_proto p = n) /\
  eval (CDscp d) None = false /\ eval (CTos t) None = false /\ eval (CProto n) None = false /\
  (forall ip len, eval (CSrc ip len) None = false /\ eval (CDst ip len) None = false) /\
  (forall lo hi, eval (CSrcPort lo hi) None = false /\ eval (CDstPort lo hi) None = false).
Proof.
  intros d t n p. cbn [eval]. rewrite N.shiftr_div_pow2. change (2 ^ 2) with 4.
  rewrite !N.eqb_eq. repeat split; intros; try reflexivity; congruence.
Qed.
Print Assumptions C43_leaves.

Theorem C43_ports_inclusive : forall lo hi p,
  (eval (CSrcPort lo hi) (Some p) = true <->
     exists s d, ports_of p = Some (s, d) /\ lo <= s <= hi) /\
  (eval (CDstPort lo hi) (Some p) = true <->
     exists s d, ports_of p = Some (s, d) /\ lo <= d <= hi) /\
  (ports_of p <> None <-> p_frag p = false /\ (p_proto p = 17 \/ p_proto p = 6) /\ p_l4 p <> None).
Proof.
  intros lo hi p. cbn [eval]. unfold in_range. repeat split.
  - destruct (ports_of p) as [[s d]|]; [|discriminate]. intros H. exists s, d. split; [reflexivity|lia].
  - intros (s & d & -> & H). lia.
  - destruct (ports_of p) as [[s d]|]; [|discriminate]. intros H. exists s, d. split; [reflexivity|lia].
  - intros (s & d & -> & H). lia.
  - unfold ports_of in H. destruct (p_frag p); [congruence|reflexivity].
  - unfold ports_of in H. destruct (p_frag p); [congruence|].
    destruct ((p_proto p =? 17) || (p_proto p =? 6)) eqn:E; [lia|congruence].
  - unfold ports_of in H. destruct (p_frag p); [congruence|].
    destruct ((p_proto p =? 17) || (p_proto p =? 6)); congruence.
  - intros (F & Pr & L). unfold ports_of. rewrite F.
    replace ((p_proto p =? 17) || (p_proto p =? 6)) with true by lia. exact L.
Qed.
Print Assumptions C43_ports_inclusive.

(** every tree whose leaves the text syntax can express: the printed text is
    accepted and the tree it yields has the same value on every layer *)
Theorem C43_print_parse : forall e, printable e = true ->
  exists e', parse (print e) = Some e' /\ forall v, eval e' v = eval e v.
Proof.
  intros e Hp. exists (norm e). split; [now apply parse_print|]. intros v. apply norm_eval.
Qed.
Print Assumptions C43_print_parse.

(** printing a parsed expression and parsing the text again yields the very same
    expression (so the same value on every packet) *)
Theorem C43_parsed_roundtrip : forall s e, parse s = Some e ->
  parse (print e) = Some e /\ printable e = true.
Proof.
  intros s e H. split; [now apply (parse_print_parse s)|]. now destruct (parse_good s e H).
Qed.
Print Assumptions C43_parsed_roundtrip.

(** the oracles evaluated on the implementation's observations hold on the model *)
Theorem C43_oracle_holds_on_model_tree_except_known : forall e ps,
  has_empty_any e = false -> wf_cond e = true -> forallb wf_layer ps = true ->
  let '(_, ev, re) := tree_model e ps in tree_oracle e ps ev re = true.
Proof. exact tree_oracle_model. Qed.
Print Assumptions C43_oracle_holds_on_model_tree_except_known.

Theorem C43_oracle_holds_on_model_text : forall s ps,
  let '(impl, re) := text_model s ps in text_oracle impl re = true.
Proof. exact text_oracle_model. Qed.
Print Assumptions C43_oracle_holds_on_model_text.

(** Non-vacuity: a depth-4 tree with host bits in a net, printed, parsed back
    (host bits cleared), and evaluated on a TCP packet inside / outside the net. *)
Example C43_example :
  let e := CAny [CAll [CSrc 168430090 8; CNot (CAny [CDscp 46; CTos 16]); CDstPort 80 443];
                 CProto 17; CCls 7] in
  let inside := Some (P 167772161 1 0 6 false (Some (40000, 443))) in
  let outside := Some (P 184549377 1 0 6 false (Some (40000, 443))) in
  printable e = true /\
  print e = str "any(all(src=10.10.10.10/8,not(any(dscp=0x2e,tos=0x10)),dstport=80-443),protocol=UDP,cls=7)" /\
  parse (print e) = Some (norm e) /\ norm e <> e /\
  eval e inside = true /\ eval e outside = false /\ eval (norm e) inside = true.
Proof. vm_compute. repeat split; try reflexivity. discriminate. Qed.
