(** C39 — DRKey keys are derived consistently and with domain separation.
    Property theorems only; each is closed by lemmas of Proofs/DRKey.v.

    [prf] (AES-CBC-MAC), [sv] (the secret value of an AS for a protocol and epoch,
    PBKDF2 of the AS's master secret) and [dur] (epoch length used by the control
    service of an AS) are arbitrary: the statements hold for every choice. *)
From Coq Require Import List NArith ZArith Bool Lia.
From Scion Require Import Lib.Check Lib.Bytes Model.DRKey Proofs.DRKey.
Import ListNotations.
Import DRKey.
Local Open Scope N_scope.

Section Consistency.
  Variable prf : key -> bytes -> key.
  Variable sv : N -> N -> epoch -> key.
  Variable dur : N -> option Z.

  (** Whatever key the control service of AS [loc] serves for (protocol [p], time [t],
      [src] -> [dst], hosts) -- be [loc] the source AS (own secret value) or the
      destination AS (level-1 key fetched from the source AS's service, which derives it
      for the AS of the client certificate) -- is the key a host obtains by the
      documented derivation from the source AS's secret value of the epoch that the
      source AS uses at [t]:
        level 1     PRF_{SV_src^p}(0 || dst)
        AS-host     PRF_{K1}(1 || [p] || type(Hd) || Hd)       K1 from SV_src^{p or generic}
        host-AS     PRF_{K1}(2 || [p] || type(Hs) || Hs)
        host-host   PRF_{host-AS}(3 || type(Hd) || Hd)
      ([p] present exactly for protocols without a predefined derivation). *)
  Theorem C39_consistent : forall loc p t src dst srcHost dstHost,
    (forall k e, engine_get_lvl1 prf sv dur loc p t src dst = ROk k e ->
       exists d, dur src = Some d /\ e = sv_epoch d t /\
                 k = host_lvl1 prf (sv src p e) dst) /\
    (forall k e, engine_as_host prf sv dur loc p t src dst dstHost = ROk k e ->
       exists d, dur src = Some d /\ e = sv_epoch d t /\
                 host_lvl2 prf kt_as_host p (host_lvl1 prf (sv src (lvl1_proto p) e) dst) dstHost = Some k) /\
    (forall k e, engine_host_as prf sv dur loc p t src dst srcHost = ROk k e ->
       exists d, dur src = Some d /\ e = sv_epoch d t /\
                 host_lvl2 prf kt_host_as p (host_lvl1 prf (sv src (lvl1_proto p) e) dst) srcHost = Some k) /\
    (forall k e, engine_host_host prf sv dur loc p t src dst srcHost dstHost = ROk k e ->
       exists d k2, dur src = Some d /\ e = sv_epoch d t /\
                 host_lvl2 prf kt_host_as p (host_lvl1 prf (sv src (lvl1_proto p) e) dst) srcHost = Some k2 /\
                 host_host_host prf k2 dstHost = Some k).
  Proof.
    intros. repeat split.
    - intros k e E. apply engine_get_lvl1_ok in E as (d & D & H1 & H2 & _). eauto.
    - apply engine_as_host_ok.
    - apply engine_host_as_ok.
    - apply engine_host_host_ok.
  Qed.

  (** hence the service of the source AS and the service of the destination AS hand
      out the same key for the same epoch *)
  Theorem C39_both_ends_agree : forall p t src dst dstHost k e k' e',
    engine_as_host prf sv dur src p t src dst dstHost = ROk k e ->
    engine_as_host prf sv dur dst p t src dst dstHost = ROk k' e' ->
    k = k' /\ e = e'.
  Proof.
    intros p t src dst h k e k' e' E1 E2.
    apply engine_as_host_ok in E1 as (d & D & -> & K). apply engine_as_host_ok in E2 as (d' & D' & -> & K').
    rewrite D in D'. inversion D'; subst d'. rewrite K in K'. inversion K'. auto.
  Qed.

  (** and the service is not vacuous: at either end, for every protocol and every
      host that is an address, a key of the source AS's current epoch is served *)
  Theorem C39_served : forall loc p t src dst dstHost d i,
    dur src = Some d -> (loc = src \/ loc = dst) -> lvl2_input kt_as_host p dstHost = Some i ->
    engine_as_host prf sv dur loc p t src dst dstHost =
    ROk (prf (host_lvl1 prf (sv src (lvl1_proto p) (sv_epoch d t)) dst) i) (sv_epoch d t).
  Proof. intros. now apply engine_as_host_serves. Qed.

  (** the oracle of the correspondence check holds on the model, for every input: the check
      instantiates [prf] with a reference AES-CBC-MAC (the documented derivation) and demands
      that the served keys and the keys of the real derivers equal [host_keys_at] *)
  Theorem C39_oracle_holds_on_model : forall loc p t src dst srcHost dstHost,
    let doc := host_keys_at prf sv dur p t src dst srcHost dstHost in
    all2 (served_ok (dur src) t)
         (map obs_of (engine_keys prf sv dur loc p t src dst srcHost dstHost)) doc = true /\
    all2 (option_eqb bytes_eqb) doc doc = true.
  Proof. intros. split; [apply oracle_on_model | apply all2_opt_refl]. Qed.

  (** for a collision-free PRF, two hosts under the same parent key, key type and protocol
      get the same key only if they are the same SCION host address (oracle of the host-pair
      cases, on the model) *)
  Theorem C39_distinct_hosts_distinct_keys : forall fmt kt proto parent h1 h2,
    fmt <> 0 -> (forall i j, prf parent i = prf parent j -> i = j) ->
    let d1 := pair_key prf fmt kt proto parent h1 in
    let d2 := pair_key prf fmt kt proto parent h2 in
    pair_ok h1 h2 d1 d2 d1 d2 = true /\
    (forall k, d1 = Some k -> d2 = Some k -> pack_addr h1 = pack_addr h2).
  Proof.
    intros fmt kt proto parent h1 h2 F Inj d1 d2. split; [now apply pair_ok_model|].
    unfold d1, d2, pair_key. intros k E1 E2.
    destruct (model_input fmt kt proto 0 h1) as [i1|] eqn:M1; [|discriminate].
    destruct (model_input fmt kt proto 0 h2) as [i2|] eqn:M2; [|discriminate].
    cbn in E1, E2. assert (E : prf parent i1 = prf parent i2) by congruence.
    apply Inj in E. subst i2. exact (model_input_same_host _ _ _ _ _ _ F M1 M2).
  Qed.
End Consistency.
Print Assumptions C39_consistent.
Print Assumptions C39_both_ends_agree.
Print Assumptions C39_served.
Print Assumptions C39_oracle_holds_on_model.
Print Assumptions C39_distinct_hosts_distinct_keys.

(** the epoch of a served key contains the requested time (uint32 range) and has the
    configured length *)
Theorem C39_epoch_contains_request_time : forall d t,
  (0 < d)%Z -> (0 <= t)%Z -> (t + d < 2 ^ 32)%Z ->
  (Z.of_N (fst (sv_epoch d t)) <= t < Z.of_N (snd (sv_epoch d t)))%Z /\
  (Z.of_N (snd (sv_epoch d t)) - Z.of_N (fst (sv_epoch d t)) = d)%Z.
Proof. exact sv_epoch_contains. Qed.
Print Assumptions C39_epoch_contains_request_time.

(** *** domain separation: derivation inputs determine (key type, protocol, address type,
    address).  [pack_addr h] is the (type, address) pair of a host. *)
Theorem C39_separation :
  (* level 1: the ISD-AS *)
  (forall a b, a < 2 ^ 64 -> b < 2 ^ 64 -> lvl1_input a = lvl1_input b -> a = b) /\
  (* protocol-specific level 2: key type and host *)
  (forall kt1 kt2 h1 h2 i,
     spec_lvl2_input kt1 h1 = Some i -> spec_lvl2_input kt2 h2 = Some i ->
     kt1 = kt2 /\ pack_addr h1 = pack_addr h2) /\
  (* generic level 2: key type, protocol and host *)
  (forall kt1 kt2 p1 p2 h1 h2 i, p1 < 65536 -> p2 < 65536 ->
     gen_lvl2_input kt1 p1 h1 = Some i -> gen_lvl2_input kt2 p2 h2 = Some i ->
     kt1 = kt2 /\ p1 = p2 /\ pack_addr h1 = pack_addr h2) /\
  (* level 3: the host *)
  (forall h1 h2 i, hh_input h1 = Some i -> hh_input h2 = Some i -> pack_addr h1 = pack_addr h2) /\
  (* every input starts with its key type, so inputs of different key types differ *)
  (forall ia, hd_error (lvl1_input ia) = Some kt_as_as) /\
  (forall kt p h i, lvl2_input kt p h = Some i -> hd_error i = Some kt) /\
  (forall h i, hh_input h = Some i -> hd_error i = Some kt_host_host).
Proof.
  split; [exact lvl1_input_inj|]. split; [exact spec_lvl2_input_inj|].
  split; [exact gen_lvl2_input_inj|]. split; [exact hh_input_inj|].
  split; [exact lvl1_input_hd|]. split; [exact lvl2_input_hd | exact hh_input_hd].
Qed.
Print Assumptions C39_separation.

(** the same, constructively: every input decodes back to its fields (key type, protocol,
    address type, address) and is zero-padded to whole blocks; this is the oracle the
    correspondence check evaluates on the bytes produced by the real serializers *)
Theorem C39_inputs_decodable : forall fmt kt proto ia h,
  input_ok fmt kt proto ia h (model_input fmt kt proto ia h) = true.
Proof. exact input_ok_model. Qed.
Print Assumptions C39_inputs_decodable.

(** what the key service derives under one level-1 key (protocol-specific keys under
    the protocol's own level-1 key, niche protocols under the generic one) never
    coincides for different (key type, protocol, host) -- for the protocols it serves
    level 2/3 keys for, i.e. all but GENERIC = 0 (C40) *)
Theorem C39_separation_service : forall kt1 kt2 p1 p2 h1 h2 i,
  p1 < 65536 -> p2 < 65536 ->
  lvl1_proto p1 = lvl1_proto p2 -> p1 <> generic -> p2 <> generic ->
  lvl2_input kt1 p1 h1 = Some i -> lvl2_input kt2 p2 h2 = Some i ->
  kt1 = kt2 /\ p1 = p2 /\ pack_addr h1 = pack_addr h2.
Proof. exact lvl2_input_inj. Qed.
Print Assumptions C39_separation_service.

(** the exclusion of GENERIC is necessary: identifier 0 is "predefined", so the engine
    would use the protocol-specific layout under the generic level-1 key, where it
    collides with the generic layout of a niche protocol
    (AS-host 7.0.9.9 for protocol 0  =  AS-host 9.9.0.0 for protocol 7) *)
Theorem C39_generic_id_would_collide :
  lvl1_proto 0 = lvl1_proto 7 /\
  lvl2_input kt_as_host 0 (HIP [7;0;9;9]) = lvl2_input kt_as_host 7 (HIP [9;9;0;0]).
Proof. split; reflexivity. Qed.
Print Assumptions C39_generic_id_would_collide.

(** hosts with the same packed address are the same SCION host address
    (IPv4-in-IPv6 is IPv4); distinct plain addresses pack differently *)
Theorem C39_pack_addr_faithful :
  (forall a b, length a = 4%nat -> length b = 4%nat -> pack_addr (HIP a) = pack_addr (HIP b) -> a = b) /\
  (forall a, length a = 4%nat -> pack_addr (HIP (v4in6_prefix ++ a)) = pack_addr (HIP a)) /\
  (forall a b, a < 65536 -> b < 65536 -> pack_addr (HSVC a) = pack_addr (HSVC b) -> a = b) /\
  (forall a s, length a = 4%nat -> pack_addr (HIP a) <> pack_addr (HSVC s)).
Proof.
  repeat split.
  - intros a b A B. cbn [pack_addr]. rewrite A, B. cbn. congruence.
  - intros a A. cbn [pack_addr]. rewrite app_length, A. cbn [length Nat.add Nat.eqb].
    change (firstn 12 (v4in6_prefix ++ a)) with v4in6_prefix.
    change (skipn 12 (v4in6_prefix ++ a)) with a.
    rewrite (proj2 (bytes_eqb_eq _ _) eq_refl). reflexivity.
  - intros a b A B E. cbn [pack_addr] in E.
    assert (E' : be 2 a ++ [0; 0] = be 2 b ++ [0; 0]) by congruence.
    apply app_inv_tail in E'. now apply (be_inj 2).
  - intros a s A. cbn [pack_addr]. rewrite A. cbn. discriminate.
Qed.
Print Assumptions C39_pack_addr_faithful.

(** *** secret values (DeriveSV).  The KDF input
      len(secret):8 || secret || protocol:2 || epoch begin:4 || epoch end:4
    determines the master secret, the protocol and the epoch (the length prefix makes the
    variable-length secret unambiguous) *)
Theorem C39_sv_input_injective : forall ms1 ms2 p1 p2 (e1 e2 : epoch),
  N.of_nat (length ms1) < 2 ^ 64 -> N.of_nat (length ms2) < 2 ^ 64 ->
  p1 < 2 ^ 16 -> p2 < 2 ^ 16 ->
  fst e1 < 2 ^ 32 -> snd e1 < 2 ^ 32 -> fst e2 < 2 ^ 32 -> snd e2 < 2 ^ 32 ->
  sv_input ms1 p1 e1 = sv_input ms2 p2 e2 -> ms1 = ms2 /\ p1 = p2 /\ e1 = e2.
Proof. exact sv_input_inj. Qed.
Print Assumptions C39_sv_input_injective.

(** hence two secret values of one AS coincide only for the same protocol and epoch, unless
    the KDF collides (reduction: equal secret values for different (protocol, epoch) exhibit
    two different KDF inputs with the same output); this is also the oracle of the
    secret-value cases, on the model *)
Theorem C39_sv_separation : forall (kdf : bytes -> key) ms p1 e1 p2 e2,
  N.of_nat (length ms) < 2 ^ 64 -> p1 < 2 ^ 16 -> p2 < 2 ^ 16 ->
  fst e1 < 2 ^ 32 -> snd e1 < 2 ^ 32 -> fst e2 < 2 ^ 32 -> snd e2 < 2 ^ 32 ->
  (forall k, derive_sv kdf ms p1 e1 = Some k -> derive_sv kdf ms p2 e2 = Some k ->
     (p1 = p2 /\ e1 = e2) \/
     (sv_input ms p1 e1 <> sv_input ms p2 e2 /\ kdf (sv_input ms p1 e1) = kdf (sv_input ms p2 e2))) /\
  ((forall i j, kdf i = kdf j -> i = j) ->
   sv_pair_ok p1 e1 p2 e2 (derive_sv kdf ms p1 e1) (derive_sv kdf ms p2 e2)
              (derive_sv kdf ms p1 e1) (derive_sv kdf ms p2 e2) = true).
Proof.
  intros kdf ms p1 e1 p2 e2 L P1 P2 B1 E1 B2 E2. split.
  - intros k D1 D2. unfold derive_sv in D1, D2. destruct ms as [|x ms]; [discriminate|].
    assert (K : kdf (sv_input (x :: ms) p1 e1) = kdf (sv_input (x :: ms) p2 e2)) by congruence.
    destruct (list_eq_dec N.eq_dec (sv_input (x :: ms) p1 e1) (sv_input (x :: ms) p2 e2)) as [E|NE].
    + left. apply sv_input_inj in E as (_ & -> & ->); auto.
    + right. auto.
  - intros Inj. now apply sv_pair_ok_model.
Qed.
Print Assumptions C39_sv_separation.

(** separation along the whole hierarchy: when the secret values are DeriveSV of the ASes'
    master secrets, and neither the KDF nor the PRF collides, an AS-host key served for
    (protocol, time, destination AS, host) can be served again only for the same protocol
    (predefined or niche), the same epoch, the same destination AS and the same host address.
    (For an arbitrary [sv] this fails: a secret value that ignores the protocol makes
    protocol-specific and generic keys coincide.) *)
Theorem C39_separation_full : forall (kdf : bytes -> key) (prf : key -> bytes -> key)
    (ms : N -> bytes) (dur : N -> option Z),
  (forall i j, kdf i = kdf j -> i = j) ->
  (forall k k' i i', prf k i = prf k' i' -> k = k' /\ i = i') ->
  forall loc1 loc2 p1 p2 t1 t2 src dst1 dst2 h1 h2 k e1 e2,
  N.of_nat (length (ms src)) < 2 ^ 64 ->
  p1 < 2 ^ 16 -> p2 < 2 ^ 16 -> p1 <> generic -> p2 <> generic ->
  dst1 < 2 ^ 64 -> dst2 < 2 ^ 64 ->
  engine_as_host prf (sv_of kdf ms) dur loc1 p1 t1 src dst1 h1 = ROk k e1 ->
  engine_as_host prf (sv_of kdf ms) dur loc2 p2 t2 src dst2 h2 = ROk k e2 ->
  p1 = p2 /\ e1 = e2 /\ dst1 = dst2 /\ pack_addr h1 = pack_addr h2.
Proof. intros kdf prf ms dur Hk Hp. exact (as_host_keys_separate kdf prf ms dur Hk Hp). Qed.
Print Assumptions C39_separation_full.

(** the two no-collision hypotheses are satisfiable (toy scheme) *)
Theorem C39_separation_full_hypotheses_satisfiable :
  exists (kdf : bytes -> key) (prf : key -> bytes -> key),
    (forall i j, kdf i = kdf j -> i = j) /\
    (forall k k' i i', prf k i = prf k' i' -> k = k' /\ i = i').
Proof.
  exists (fun i => i), (fun k i => N.of_nat (length k) :: k ++ i).
  split; [auto | exact toy_prf_inj].
Qed.
Print Assumptions C39_separation_full_hypotheses_satisfiable.

(** *** acceptance window: a key selected at time [t] for timestamp [ts] belongs to one of
    the three epochs around [t]; the timestamp's absolute time w.r.t. that epoch lies in
    the acceptance window and in the epoch's validity extended by the grace period *)
Theorem C39_window : forall epoch_dur aw t ts nb na,
  get_key_within_window epoch_dur aw t ts = WKey nb na ->
  let a := abs_time nb ts in
  let d := Z.quot epoch_dur sec in
  (t - Z.quot aw 2 <= a <= t + Z.quot aw 2)%Z /\
  (nb <= a <= na + grace_ns)%Z /\
  exists k, (-1 <= k <= 1)%Z /\ (nb, na) = new_epoch (Z.quot (t / sec) d + k) d.
Proof. exact window_sound. Qed.
Print Assumptions C39_window.

Theorem C39_window_oracle_holds_on_model : forall epoch_dur aw t ts,
  window_ok aw t ts (get_key_within_window epoch_dur aw t ts) = true.
Proof. exact window_ok_model. Qed.
Print Assumptions C39_window_oracle_holds_on_model.

(** epochs are [idx*d, idx*d + d) seconds where uint32 arithmetic does not wrap *)
Theorem C39_window_epochs : forall idx d,
  (0 <= idx * d)%Z -> (0 <= d)%Z -> (idx * d + d < 2 ^ 32)%Z ->
  new_epoch idx d = (idx * d * sec, (idx * d + d) * sec)%Z.
Proof. exact new_epoch_nowrap. Qed.
Print Assumptions C39_window_epochs.

(** a timestamp produced by RelativeTimestamp for a time not before the epoch start
    fits 48 bits and AbsoluteTimestamp recovers the time *)
Theorem C39_timestamp_roundtrip : forall nb t r,
  (nb <= t)%Z -> rel_time nb t = Some r -> abs_time nb r = t /\ r < 2 ^ 48.
Proof. exact timestamp_roundtrip. Qed.
Print Assumptions C39_timestamp_roundtrip.

(** Non-vacuity: with a toy PRF the service of AS 2 (destination) and of AS 1 (source)
    serve the same AS-host key for niche protocol 7; a fresh timestamp selects the current
    epoch, one sent 3 s before the epoch change and verified 2 s after it the previous. *)
Example C39_example :
  let prf := fun (k : key) (i : bytes) => [N.of_nat (length i) + fold_left N.add (k ++ i) 0] in
  let sv := fun ia p (e : epoch) => [ia; p; fst e; snd e] in
  let dur := fun ia => if ia =? 1 then Some 60%Z else if ia =? 2 then Some 3600%Z else None in
  engine_as_host prf sv dur 2 7 1000 1 2 (HIP [10;1;2;3]) =
    engine_as_host prf sv dur 1 7 1000 1 2 (HIP [10;1;2;3]) /\
  engine_as_host prf sv dur 1 7 1000 1 2 (HIP [10;1;2;3]) = ROk [2039] (960, 1020) /\
  engine_as_host prf sv dur 3 7 1000 1 2 (HIP [10;1;2;3]) = RErr /\
  get_key_within_window (60 * sec) (10 * sec) (6001 * sec) (Z.to_N (sec / 2)) =
    WKey (6000 * sec) (6060 * sec) /\
  get_key_within_window (60 * sec) (10 * sec) (6002 * sec) (Z.to_N (57 * sec)) =
    WKey (5940 * sec) (6000 * sec) /\
  get_key_within_window (60 * sec) (10 * sec) (6030 * sec) (Z.to_N (57 * sec)) = WNone.
Proof. vm_compute. repeat split; reflexivity. Qed.
