(** C01 — routers forward only along unexpired hop fields issued by their own AS.
    Property theorems only (lemmas are in Proofs/Router.v).  [mac] is an arbitrary function
    (segid, timestamp, exptime, cons_ingress, cons_egress) -> 6 bytes: the statements need no
    cryptographic assumption ("carries the MAC the AS key gives" = equality with the
    recomputation). SCION-type paths; EPIC is outside this model. *)
From Coq Require Import List NArith Bool.
From Scion Require Import Lib.Check Model.Router Proofs.Router.
Import ListNotations.
Import Router.
Local Open Scope N_scope.

(** A forwarded or locally delivered packet has a current hop field whose 6 MAC bytes equal
    the recomputation for the packet's SegID accumulator (against construction direction, on
    an external ingress and not at a peering hop: after folding in the carried MAC), the
    segment timestamp, expiry and interface pair, and that has not expired; at an effective
    cross-over the same holds for the first hop field of the next segment with that segment's
    own SegID and timestamp. *)
Theorem C01_forward_sound : forall mac c now ing p e out d,
  process (total mac) c now ing p = Forward e out d ->
  exists i h, cur_inf p = Some i /\ cur_hop p = Some h /\
    mac_valid mac (verif_info ing p i h) h /\ expired now i h = false /\
    (p_dst_ia p <> c_ia c -> eff_xover p = true ->
     exists i' h', nthN (p_infos p) (p_curr_inf p + 1) = Some i' /\
                   nthN (p_hops p) (p_curr_hf p + 1) = Some h' /\
                   mac_valid mac i' h' /\ expired now i' h' = false).
Proof. exact forward_sound. Qed.
Print Assumptions C01_forward_sound.

(** Contrapositive: a packet whose current hop field has a wrong MAC or has expired is never
    forwarded nor delivered, on any ingress link, under any configuration ... *)
Theorem C01_bad_never_forwarded : forall mac c now ing p i h,
  cur_inf p = Some i -> cur_hop p = Some h ->
  ~ mac_valid mac (verif_info ing p i h) h \/ expired now i h = true ->
  forall e out d, process (total mac) c now ing p <> Forward e out d.
Proof.
  intros mac c now ing p i h Hi Hh Bad e out d H.
  destruct (C01_forward_sound mac c now ing p e out d H) as (i' & h' & A & B & M & L & _).
  rewrite Hi in A. rewrite Hh in B. injection A as <-. injection B as <-.
  destruct Bad as [Bad | Bad]; [contradiction | congruence].
Qed.
Print Assumptions C01_bad_never_forwarded.

(** ... and neither is a packet crossing over to a segment whose first hop field is bad. *)
Theorem C01_bad_next_never_forwarded : forall mac c now ing p i' h',
  p_dst_ia p <> c_ia c -> eff_xover p = true ->
  nthN (p_infos p) (p_curr_inf p + 1) = Some i' -> nthN (p_hops p) (p_curr_hf p + 1) = Some h' ->
  ~ mac_valid mac i' h' \/ expired now i' h' = true ->
  forall e out d, process (total mac) c now ing p <> Forward e out d.
Proof.
  intros mac c now ing p i' h' ND X Hi Hh Bad e out d H.
  destruct (C01_forward_sound mac c now ing p e out d H) as (i & h & _ & _ & _ & _ & N).
  destruct (N ND X) as (i2 & h2 & A & B & M & L).
  rewrite Hi in A. rewrite Hh in B. injection A as <-. injection B as <-.
  destruct Bad as [Bad | Bad]; [contradiction | congruence].
Qed.
Print Assumptions C01_bad_next_never_forwarded.

(** An SCMP parameter problem InvalidHopFieldMAC / PathExpired designates a hop field of the
    received packet (pointer = CmnHdrLen + addrHdrLen + MetaLen + InfoLen*NumINF + HopLen*k with
    k the hop index the router was looking at), and that hop field really is wrongly MACed /
    expired for the info field the router was looking at. *)
Theorem C01_scmp_designates_hop : forall mac c now ing p code ptr e out,
  process (total mac) c now ing p = SlowPath (SpScmp ScmpParameterProblem code ptr) e out ->
  code = CodeInvalidHopFieldMAC \/ code = CodePathExpired ->
  ptr = CmnHdrLen + addr_len p + MetaLen + InfoLen * num_inf p + HopLen * p_curr_hf out /\
  p_curr_hf out < num_hops p /\
  exists i h, nthN (p_infos out) (p_curr_inf out) = Some i /\
              nthN (p_hops p) (p_curr_hf out) = Some h /\
              (code = CodePathExpired -> expired now i h = true) /\
              (code = CodeInvalidHopFieldMAC -> ~ mac_valid mac i h).
Proof. exact scmp_designates_hop. Qed.
Print Assumptions C01_scmp_designates_hop.

(** When the checks before it pass, an expired current hop field is answered with exactly
    PathExpired pointing at it, and a wrongly MACed one with exactly InvalidHopFieldMAC. *)
Theorem C01_expired_exact : forall mac c now ing p s,
  bind (parse_path p) determine_peer = Ok s ->
  expired now (s_inf s) (s_hop s) = true ->
  process (total mac) c now ing p =
    SlowPath (SpScmp ScmpParameterProblem CodePathExpired (hop_ptr (s_p s))) (s_eg s) (s_p s).
Proof. exact expired_exact. Qed.
Print Assumptions C01_expired_exact.

Theorem C01_bad_mac_exact : forall mac c now ing p s,
  upto_mac c now ing p = Ok s ->
  ~ mac_valid mac (s_inf s) (s_hop s) ->
  process (total mac) c now ing p =
    SlowPath (SpScmp ScmpParameterProblem CodeInvalidHopFieldMAC (hop_ptr (s_p s))) (s_eg s) (s_p s).
Proof. exact bad_mac_exact. Qed.
Print Assumptions C01_bad_mac_exact.

(** The same two answers for the first hop field of the next segment after a cross-over. *)
Theorem C01_next_hop_answers : forall mac now s,
  (expired now (s_inf s) (s_hop s) = true ->
   validate_hop_expiry now s =
     Stop (SlowPath (SpScmp ScmpParameterProblem CodePathExpired (hop_ptr (s_p s))) (s_eg s) (s_p s))) /\
  (~ mac_valid mac (s_inf s) (s_hop s) ->
   verify_current_mac (total mac) s =
     Stop (SlowPath (SpScmp ScmpParameterProblem CodeInvalidHopFieldMAC (hop_ptr (s_p s)))
                    (s_eg s) (s_p s))).
Proof. intros. split; [apply expired_answered | apply bad_mac_answered]. Qed.
Print Assumptions C01_next_hop_answers.

(** The oracle evaluated on the implementation's observations holds on the model. *)
Theorem C01_oracle_holds_on_model : forall mac c now ing p,
  c01_ok (total mac) c now ing p (process (total mac) c now ing p) = true.
Proof. exact c01_ok_model. Qed.
Print Assumptions C01_oracle_holds_on_model.

(** Non-vacuity: a validly MACed transit packet is forwarded; one flipped MAC byte, or a
    timestamp that makes the hop expired (with a MAC recomputed for it), gives the two SCMP
    answers pointing at hop field 1 (12 + 24 + 4 + 8 + 12 = 60); a cross-over whose second
    hop field is wrongly MACed is answered with the pointer at hop field 2 of 4. *)
Definition ex_mac (sid ts e i g : N) : list N := [sid mod 256; ts mod 256; e; i mod 256; g mod 256; 7].
Definition ex_cfg : cfg :=
  mkCfg 100 [mkIf 1 External Child 200 true 1; mkIf 2 External Parent 300 true 2;
             mkIf 3 External Child 400 true 3] [] [10;0;0;1] 1024 65535 false.
Definition ex_pkt (ts : N) (m : list N) : pkt :=
  mkPkt 500 600 0 0 [1;1;1;1] [2;2;2;2] 8 8 (Some 9) 0 1 3 0 0 0
        [mkInfo false true 5 ts 0]
        [mkHop false false 63 0 9 [0;0;0;0;0;0] 0; mkHop false false 63 2 1 m 0;
         mkHop false false 63 4 0 [0;0;0;0;0;0] 0].
Definition ex_xover (m2 : list N) : pkt :=
  mkPkt 500 600 0 0 [1;1;1;1] [2;2;2;2] 8 8 (Some 9) 0 1 2 2 0 0
        [mkInfo false false 5 1000 0; mkInfo false true 77 1000 0]
        [mkHop false false 63 9 8 [0;0;0;0;0;0] 0;
         mkHop false false 63 0 1 (ex_mac (N.lxor 5 (5 * 256 + 232)) 1000 63 0 1) 0;
         mkHop false false 63 0 3 m2 0; mkHop false false 63 4 0 [0;0;0;0;0;0] 0].
Example C01_example :
  (match process (total ex_mac) ex_cfg 1000000000001 (InExt 2) (ex_pkt 1000 (ex_mac 5 1000 63 2 1)) with
   | Forward 1 _ None => True | _ => False end) /\
  (match process (total ex_mac) ex_cfg 1000000000001 (InExt 2) (ex_pkt 1000 [5;232;63;2;1;8]) with
   | SlowPath (SpScmp 4 51 60) _ _ => True | _ => False end) /\
  (match process (total ex_mac) ex_cfg 30000000000000 (InExt 2) (ex_pkt 1000 (ex_mac 5 1000 63 2 1)) with
   | SlowPath (SpScmp 4 52 60) _ _ => True | _ => False end) /\
  (match process (total ex_mac) ex_cfg 1000000000001 (InExt 1) (ex_xover (ex_mac 77 1000 63 0 3)) with
   | Forward 3 _ None => True | _ => False end) /\
  (match process (total ex_mac) ex_cfg 1000000000001 (InExt 1) (ex_xover [0;0;0;0;0;0]) with
   | SlowPath (SpScmp 4 51 ptr) _ out => ptr = 12 + 24 + 4 + 16 + 12 * 2 /\ p_curr_hf out = 2
   | _ => False end).
Proof. vm_compute. repeat split. Qed.
