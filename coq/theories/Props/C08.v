(** C08 — router packet processing never crashes and never forwards malformed packets.
    Property theorems only; the work is in Proofs/RouterInv.v, Proofs/RouterScmp.v and
    Proofs/RouterTotal.v.

    PARTIAL.  The theorems are about the Gallina models of the processing logic on DECODED
    packets: the fast path for SCION-type paths ([Router.process], router/dataplane.go
    [process()] and what it calls) and the slow path ([RouterScmp.slow_path], [processPacket] /
    [packSCMP] / [prepareSCMP] / [handleSCMPTraceRouteRequest], incl. the uint8 arithmetic of
    [Decoded.Reverse], every slice index and the quote-length computation).  Byte-level decoding
    (slayers, gopacket, the path-type dispatch of [processPkt], one-hop / EPIC / BFD handling,
    udpip's [computeProcID] and pkg/stun) is NOT modelled in Coq: for those "no panic" and
    "output decodes consistently" rest on the search of harness/cmd/c08 (valid, mutated and
    random bytes through the real code under [recover]), whose emitted packets are judged by
    [RouterTotal.geo_ok] on the numbers a real-slayers decode yields. *)
From Coq Require Import List NArith Bool Lia.
From Scion Require Import Lib.Check Lib.Bytes Model.Router Proofs.Router Model.RouterScmp Proofs.RouterInv
     Proofs.RouterScmp Model.RouterTotal Proofs.RouterTotal.
Import ListNotations.
Import Router.
Import RouterScmp.
Import RouterTotal.
Local Open Scope N_scope.

(** The fast path never panics: for EVERY packet record (any lengths of the info / hop lists, any
    pointers, any segment lengths, any addresses), every configuration, time, ingress link and MAC
    function (total or partial) — in particular the two list indexings of [ingressInterface()]
    that the Go code guards with [panic(err)] are never out of range. *)
Theorem C08_total_fast : forall mq c now ing p, process mq c now ing p <> Panic.
Proof.
  intros mq c now ing p H. pose proof (process_good mq c now ing p) as G.
  unfold process in H. rewrite H in G. exact G.
Qed.
Print Assumptions C08_total_fast.

(** The slow path never panics on anything the fast path hands it: the request type is one of the
    four it knows (no [panic("unsupported slow-path type")]), the reversed path's CurrINF / CurrHF
    index existing fields although [Decoded.Reverse] computes them in uint8, the quote length is
    never negative (header + SCMP header + authenticator <= 916 < 1232), the checksum loops never
    read past an address.  [src_addr_ok]: the source host has the length its type nibble
    announces (guaranteed by the decoder). *)
Theorem C08_total_slow : forall mq macq c now ing p req eg p' x va ats,
  process mq c now ing p = SlowPath req eg p' ->
  sp_pkt x = p' -> src_addr_ok p' ->
  slow_path macq c ing req eg x va ats <> SPanic.
Proof.
  intros mq macq c now ing p req eg p' x va ats H E SA.
  pose proof (process_good mq c now ing p) as G. unfold process in H. rewrite H in G.
  destruct G as [I R]. subst p'.
  apply slow_path_no_panic; [exact I | exact (req_good_ty _ _ R) | exact SA].
Qed.
Print Assumptions C08_total_slow.

(** the same from the invariant alone (covers EPIC packets, whose embedded SCION path goes
    through the same [process()]) *)
Theorem C08_total_slow_inv : forall macq c ing req eg x va ats,
  pkt_inv (sp_pkt x) -> req_ty_known req -> src_addr_ok (sp_pkt x) ->
  slow_path macq c ing req eg x va ats <> SPanic.
Proof. intros. now apply slow_path_no_panic. Qed.
Print Assumptions C08_total_slow_inv.

(** Every forwarded / delivered packet is well-formed: consistent segment lengths, at most 64
    hop fields, CurrHF inside the path, CurrINF the segment of CurrHF, PayloadLen equal to the
    bytes that follow the header — and hence satisfies the number-level predicate that the
    check evaluates on real-slayers decodes. *)
Theorem C08_output_wf_forward : forall mac c now ing p e out d,
  process (total mac) c now ing p = Forward e out d ->
  fwd_wf out = true /\ geo_ok (geo_of out) = true.
Proof.
  intros mac c now ing p e out d H.
  pose proof (process_good (total mac) c now ing p) as G. unfold process in H. rewrite H in G.
  assert (W : fwd_wf out = true) by (apply fwd_wf_intro; [exact G | exact (forward_paylen _ _ _ _ _ _ _ _ H)]).
  split; [exact W | now apply fwd_wf_geo].
Qed.
Print Assumptions C08_output_wf_forward.

(** Every packet the slow path emits (SCMP error or traceroute reply) is well-formed: HdrLen is
    exactly common + address + path header, PayloadLen what follows, pointers inside the
    reversed path and consistent. *)
Theorem C08_output_wf_scmp : forall mq macq c now ing p req eg p' x va ats r,
  process mq c now ing p = SlowPath req eg p' ->
  sp_pkt x = p' -> src_addr_ok p' ->
  slow_path macq c ing req eg x va ats = SReply r -> geom_ok r = true.
Proof.
  intros mq macq c now ing p req eg p' x va ats r H E SA HR.
  pose proof (process_good mq c now ing p) as G. unfold process in H. rewrite H in G.
  destruct G as [I _]. subst p'. exact (slow_path_geom _ _ _ _ _ _ _ _ _ I SA HR).
Qed.
Print Assumptions C08_output_wf_scmp.

(** The oracle of [RouterTotal.check] holds on the model: for a fast-path case ... *)
Theorem C08_oracle_holds_on_model_fast : forall mac c now ing p,
  fast_ok (process (total mac) c now ing p) = true.
Proof.
  intros mac c now ing p. destruct (process (total mac) c now ing p) as [| | |e out d|r e out| |] eqn:E;
    try reflexivity.
  - exfalso. exact (C08_total_fast _ _ _ _ _ E).
  - exact (proj1 (C08_output_wf_forward _ _ _ _ _ _ _ _ E)).
Qed.
Print Assumptions C08_oracle_holds_on_model_fast.

(** ... and for a slow-path case *)
Theorem C08_oracle_holds_on_model_slow : forall macq c ing req eg x va ats,
  pkt_inv (sp_pkt x) -> req_ty_known req -> src_addr_ok (sp_pkt x) ->
  slow_ok (slow_path macq c ing req eg x va ats) = true.
Proof.
  intros macq c ing req eg x va ats I R SA.
  destruct (slow_path macq c ing req eg x va ats) as [| |r| | | |] eqn:E; try reflexivity.
  - exfalso. exact (slow_path_no_panic _ _ _ _ _ _ _ _ I R SA E).
  - exact (slow_path_geom _ _ _ _ _ _ _ _ _ I SA E).
  - exfalso. exact (slow_path_not_unparsable _ _ _ _ _ _ _ _ E).
Qed.
Print Assumptions C08_oracle_holds_on_model_slow.

(** The three places where Go dereferences [d.interfaces[egress]] without a nil test of their own —
    [handleEgressRouterAlert] ([.Scope()], dataplane.go:1654), [validateEgressUp] ([.IsUp()], :1606) and the
    tail of [process()] ([.Scope()], :1824) — are only reached with an egress id that IS in the interface
    map: [validateEgressID] (which tests [egressLink == nil] first and answers with an SCMP error) has
    accepted it, and nothing in between changes [pkt.egress].  The model's [egress_if] is a total
    function (it falls back to the internal interface for an unknown id); this theorem says the fallback
    is never taken at those points, for EVERY configuration ([get_if c 0] is the internal link, which
    [AddInternalInterface] installs before the dataplane can run; no other assumption on the
    configuration is needed), every packet, ingress link and MAC function. *)
Theorem C08_egress_link_nonnil : forall mq c now ing s,
  match xover_part mq now s >>= set_egress >>= validate_egress_id c ing with
  | Stop _ => True
  | Ok s1 =>
    (* at handleEgressRouterAlert *)
    (exists f, get_if c (s_eg s1) = Some f /\ egress_if c s1 = f) /\
    match handle_egress_router_alert c s1 with
    | Stop _ => True
    | Ok s2 =>
      (* at validateEgressUp *)
      (exists f, get_if c (s_eg s2) = Some f /\ egress_if c s2 = f) /\
      match validate_egress_up c s2 with
      | Stop _ => True
      | Ok s3 =>
        (* at the Scope() test that ends process() *)
        exists f, get_if c (s_eg s3) = Some f /\ egress_if c s3 = f
      end
    end
  end.
Proof.
  intros mq c now ing s.
  destruct (xover_part mq now s >>= set_egress >>= validate_egress_id c ing) as [s1|r] eqn:E; [|exact I].
  apply bind_ok in E as (s0 & _ & E). unfold validate_egress_id in E.
  assert (G : exists f, get_if c (s_eg s1) = Some f /\ egress_if c s1 = f).
  { destruct (get_if c (s_eg s0)) as [f|] eqn:EG.
    - assert (s1 = s0) as ->.
      { destruct (validate_egress _ _ _ _); try discriminate. now injection E as <-. }
      exists f. unfold egress_if. rewrite EG. auto.
    - cbn [validate_egress] in E. discriminate. }
  split; [exact G|].
  destruct (handle_egress_router_alert c s1) as [s2|r2] eqn:E2; [|exact I].
  assert (s2 = s1) as ->.
  { unfold handle_egress_router_alert in E2. destruct (negb _); [now injection E2 as <-|].
    destruct (negb _); [now injection E2 as <-|discriminate]. }
  split; [exact G|].
  destruct (validate_egress_up c s1) as [s3|r3] eqn:E3; [|exact I].
  assert (s3 = s1) as ->.
  { unfold validate_egress_up, slow in E3. destruct (if_up _); [now injection E3 as <-|].
    destruct (scope_eqb _ _); discriminate. }
  exact G.
Qed.
Print Assumptions C08_egress_link_nonnil.

(** the same along [process]: when the egress checks succeed, the egress id handed to the forwarding
    step names an existing link *)
Theorem C08_egress_part_link : forall mq c now ing s s',
  egress_part mq c now ing s = Ok s' -> exists f, get_if c (s_eg s') = Some f /\ egress_if c s' = f.
Proof.
  intros mq c now ing s s' H. unfold egress_part in H.
  apply bind_ok in H as (s2 & H & H3). apply bind_ok in H as (s1 & H & H2).
  pose proof (C08_egress_link_nonnil mq c now ing s) as T. rewrite H in T.
  destruct T as (_ & T). rewrite H2 in T. destruct T as (_ & T). rewrite H3 in T. exact T.
Qed.
Print Assumptions C08_egress_part_link.

(** Non-vacuity: a transit packet is forwarded with a consistent header; the same packet with a
    wrong MAC is answered by a well-formed SCMP error; garbage records (pointer far outside,
    info list shorter than announced) are refused without panic. *)
Definition ex_cfg : cfg :=
  mkCfg 0x0001ff0000000110
        [mkIf 1 External Child 0x0001ff0000000111 true 1; mkIf 2 External Parent 0x0001ff0000000112 true 2]
        [] [10; 0; 0; 1] 1024 65535 false.
Definition ex_mac (sid ts e i g : N) : list N := [sid mod 256; ts mod 256; e; i mod 256; g mod 256; 7].
Definition ex_pkt (m : list N) (chf : N) : pkt :=
  mkPkt 0x0002ff0000000220 0x0003ff0000000330 0 0 [10; 0; 0; 9] [172; 16; 0; 7] 12 12 (Some 53)
        0 chf 3 0 0 0 [mkInfo false true 7 1000 0]
        [mkHop false false 63 0 5 [0; 0; 0; 0; 0; 0] 0; mkHop false false 63 1 2 m 0;
         mkHop false false 63 9 0 [0; 0; 0; 0; 0; 0] 0].
Example C08_example :
  match process (total ex_mac) ex_cfg 2000000000000 (InExt 1) (ex_pkt (ex_mac 7 1000 63 1 2) 1) with
  | Forward 2 out None => fwd_wf out = true /\ p_curr_hf out = 2
  | _ => False
  end /\
  match process (total ex_mac) ex_cfg 2000000000000 (InExt 1) (ex_pkt [1; 1; 1; 1; 1; 1] 1) with
  | SlowPath (SpScmp 4 51 60) 0 p' =>
    match slow_path (fun _ => None) ex_cfg (InExt 1) (SpScmp 4 51 60) 0
                    (mkSpin p' false 0 0 17 (repeat 0 84)) false 0 with
    | SReply r => geom_ok r = true /\ total_len r = 176
    | _ => False
    end
  | _ => False
  end /\
  process (total ex_mac) ex_cfg 2000000000000 (InExt 1) (ex_pkt [] 63) = Discard /\
  process (total ex_mac) ex_cfg 2000000000000 InInt
          (mkPkt 1 2 0 0 [] [] 0 0 None 3 0 2 0 0 0 [] []) = BadInput.
Proof. vm_compute. repeat split; reflexivity. Qed.
