(** C05 — routers reject impossible source or destination ISD-AS and transit spoofing.
    Property theorems only (lemmas are in Proofs/Router.v). *)
From Coq Require Import List NArith Bool.
From Scion Require Import Lib.Check Model.Router Proofs.Router.
Import ListNotations.
Import Router.
Local Open Scope N_scope.

(** A packet entering from another AS (the ingress link has an interface id) is never
    forwarded or delivered when it claims the local AS as source; among the accepted packets,
    being at the last hop, having the local AS as destination and being delivered locally
    (egress 0 = the internal link) are equivalent. For every MAC function, configuration, time. *)
Theorem C05_inbound : forall mac c now ing p e out d,
  from0 ing = false ->
  process (total mac) c now ing p = Forward e out d ->
  p_src_ia p <> c_ia c /\
  (is_last_hop p = true <-> p_dst_ia p = c_ia c) /\
  (e = 0 <-> is_last_hop p = true /\ p_dst_ia p = c_ia c).
Proof. exact forward_from_outside. Qed.
Print Assumptions C05_inbound.

(** A packet from inside the AS (internal network or sibling link) is forwarded only if, on
    its first hop, its source is the local AS, and only if its destination is not the local AS. *)
Theorem C05_outbound : forall mac c now ing p e out d,
  from0 ing = true ->
  process (total mac) c now ing p = Forward e out d ->
  (is_first_hop p = true -> p_src_ia p = c_ia c) /\ p_dst_ia p <> c_ia c.
Proof.
  intros mac c now ing p e out d F H.
  destruct (forward_from_inside mac c now ing p e out d F H) as (A & B & _). auto.
Qed.
Print Assumptions C05_outbound.

(** ... and a packet from inside that is not on its first hop is accepted only if it came over
    the link to the sibling router that owns the interface through which it claims to have
    entered the AS (in particular never over the internal network itself). *)
Theorem C05_transit : forall mac c now ing p e out d,
  from0 ing = true -> is_first_hop p = false ->
  process (total mac) c now ing p = Forward e out d ->
  exists id f, claimed_ingress p = Some id /\ get_if c id = Some f /\
               if_scope f = Sibling /\ if_link f = ing_link ing.
Proof.
  intros mac c now ing p e out d F NF H.
  destruct (forward_from_inside mac c now ing p e out d F H) as (_ & _ & C). auto.
Qed.
Print Assumptions C05_transit.

Corollary C05_internal_network_never_transit : forall mac c now p e out d,
  (forall f, In f (c_ifs c) -> if_scope f = Sibling -> if_link f <> 0) ->
  is_first_hop p = false ->
  process (total mac) c now InInt p <> Forward e out d.
Proof.
  intros mac c now p e out d W NF H.
  destruct (C05_transit mac c now InInt p e out d eq_refl NF H) as (id & f & _ & G & S & L).
  unfold get_if in G. destruct (id =? 0).
  - injection G as <-. discriminate.
  - assert (In f (c_ifs c)).
    { clear - G. induction (c_ifs c) as [|a t IH]; cbn in G; [discriminate|].
      destruct (if_id a =? id); [injection G as <-; now left | right; auto]. }
    now apply (W f H0 S).
Qed.
Print Assumptions C05_internal_network_never_transit.

(** The SCMP answers of the check (when the earlier checks let the packet reach it):
    InvalidSourceAddress pointing at SrcIA, InvalidDestinationAddress pointing at DstIA. *)
Theorem C05_scmp_answers : forall c ing s,
  (from0 ing = false -> p_src_ia (s_p s) = c_ia c ->
   validate_src_dst_ia c ing s =
     Stop (SlowPath (SpScmp ScmpParameterProblem CodeInvalidSourceAddress (CmnHdrLen + IABytes))
                    (s_eg s) (s_p s))) /\
  (from0 ing = false -> p_src_ia (s_p s) <> c_ia c ->
   is_last_hop (s_p s) <> (p_dst_ia (s_p s) =? c_ia c) ->
   validate_src_dst_ia c ing s =
     Stop (SlowPath (SpScmp ScmpParameterProblem CodeInvalidDestinationAddress CmnHdrLen)
                    (s_eg s) (s_p s))) /\
  (from0 ing = true -> is_first_hop (s_p s) = true -> p_src_ia (s_p s) <> c_ia c ->
   validate_src_dst_ia c ing s =
     Stop (SlowPath (SpScmp ScmpParameterProblem CodeInvalidSourceAddress (CmnHdrLen + IABytes))
                    (s_eg s) (s_p s))) /\
  (from0 ing = true -> (is_first_hop (s_p s) = true -> p_src_ia (s_p s) = c_ia c) ->
   p_dst_ia (s_p s) = c_ia c ->
   validate_src_dst_ia c ing s =
     Stop (SlowPath (SpScmp ScmpParameterProblem CodeInvalidDestinationAddress CmnHdrLen)
                    (s_eg s) (s_p s))).
Proof. exact src_dst_ia_answers. Qed.
Print Assumptions C05_scmp_answers.

(** The oracle evaluated on the implementation's observations holds on the model. *)
Theorem C05_oracle_holds_on_model : forall mac c now ing p,
  c05_ok c ing p (process (total mac) c now ing p) = true.
Proof. exact c05_ok_model. Qed.
Print Assumptions C05_oracle_holds_on_model.

(** Non-vacuity: (1) an inbound packet at its last hop is delivered, (2) the same packet
    claiming the local AS as source is answered with InvalidSourceAddress, (3) transit traffic
    arriving over the right sibling link is forwarded, (4) the same packet over the internal
    network is dropped, (5) so is a spoofed packet whose hop field has ingress interface 0. *)
Definition ex_mac (sid ts e i g : N) : list N := [sid mod 256; ts mod 256; e; i mod 256; g mod 256; 7].
Definition ex_cfg : cfg :=
  mkCfg 100 [mkIf 1 External Child 200 true 1; mkIf 2 External Parent 300 true 2;
             mkIf 5 Sibling Parent 300 true 65537] [] [10;0;0;1] 1024 65535 false.
Definition ex_pkt (src dst cin ceg curr : N) : pkt :=
  mkPkt dst src 0 0 [1;1;1;1] [2;2;2;2] 8 8 (Some 9) 0 curr 2 0 0 0
        [mkInfo false true 5 1000 0]
        [mkHop false false 63 0 9 [0;0;0;0;0;0] 0;
         mkHop false false 63 cin ceg (ex_mac 5 1000 63 cin ceg) 0].
Example C05_example :
  (match process (total ex_mac) ex_cfg 1000000000001 (InExt 2) (ex_pkt 600 100 2 0 1) with
   | Forward 0 _ (Some _) => True | _ => False end) /\
  (match process (total ex_mac) ex_cfg 1000000000001 (InExt 2) (ex_pkt 100 100 2 0 1) with
   | SlowPath (SpScmp 4 33 20) _ _ => True | _ => False end) /\
  (match process (total ex_mac) ex_cfg 1000000000001 (InSib 1)
           (mkPkt 500 600 0 0 [1;1;1;1] [2;2;2;2] 8 8 (Some 9) 0 1 3 0 0 0 [mkInfo false true 5 1000 0]
              [mkHop false false 63 0 9 [0;0;0;0;0;0] 0; mkHop false false 63 5 1 (ex_mac 5 1000 63 5 1) 0;
               mkHop false false 63 4 0 [0;0;0;0;0;0] 0]) with
   | Forward 1 _ None => True | _ => False end) /\
  (process (total ex_mac) ex_cfg 1000000000001 InInt
           (mkPkt 500 600 0 0 [1;1;1;1] [2;2;2;2] 8 8 (Some 9) 0 1 3 0 0 0 [mkInfo false true 5 1000 0]
              [mkHop false false 63 0 9 [0;0;0;0;0;0] 0; mkHop false false 63 5 1 (ex_mac 5 1000 63 5 1) 0;
               mkHop false false 63 4 0 [0;0;0;0;0;0] 0]) = Discard) /\
  (process (total ex_mac) ex_cfg 1000000000001 InInt
           (mkPkt 500 600 0 0 [1;1;1;1] [2;2;2;2] 8 8 (Some 9) 0 1 3 0 0 0 [mkInfo false true 5 1000 0]
              [mkHop false false 63 0 9 [0;0;0;0;0;0] 0; mkHop false false 63 0 1 (ex_mac 5 1000 63 0 1) 0;
               mkHop false false 63 4 0 [0;0;0;0;0;0] 0]) = Discard).
Proof. vm_compute. repeat split. Qed.
