(** C03, continued — EPIC and one-hop replies, on top of the EPIC / one-hop router models of
    C13 / C12 (Model/RouterEpic.v, Model/RouterOHP.v).  Kept in a file of its own so that
    Props/C03.v does not depend on those developments. *)
From Coq Require Import List NArith Bool Arith Lia.
From Scion Require Import Lib.Check Model.Router Model.Network Model.Prov.
From Scion Require Import Proofs.ProvFacts Proofs.Forward Proofs.Reverse Proofs.Reply.
From Scion Require Proofs.Router Model.RouterOHP Model.RouterEpic Model.NetWalk Proofs.NetWalk Props.C12.
Import ListNotations.
Import Scion.Model.Router.Router Network Prov.
Module PNW := Scion.Proofs.NetWalk.
Module MNW := Scion.Model.NetWalk.NetWalk.
Module OHP := Scion.Model.RouterOHP.RouterOHP.
Module EPIC := Scion.Model.RouterEpic.RouterEpic.
Module PR := Scion.Proofs.Router.
Local Open Scope N_scope.

(** * EPIC

    The routers process an EPIC packet by processing its embedded SCION path and, at the
    penultimate and last hop, checking the EPIC header ([RouterEpic.process_epic], C13);
    [MNW.run_with (epic_proc ..)] is the walk of C02 with that processing.  The
    destination answers an EPIC packet with the reversed EMBEDDED SCION path
    (snet.DefaultReplyPather: [p = epicPath.ScionPath]), i.e. with [Network.mk_reply] of the
    embedded packet.  If the EPIC packet is delivered at all (whatever the EPIC MAC and
    the freshness window are), the embedded path arrives exactly as a plain SCION packet
    would, and the reply reaches the source. *)
Theorem C03_epic : forall full emacq t now now' p pp ep st sr pay port l tr a r ip pt,
  let mac := fun k s ts e i g => firstn 6 (full k s ts e i g) in
  good mac t p -> endpoints_ok t p pp = true ->
  all_unexpired now p = true -> all_unexpired now' p = true ->
  reply_ok pp st sr port = true ->
  start_loc t (render p pp 0 false) = Some l ->
  MNW.run_with
    (MNW.epic_proc (fun k s ts e i g => Some (full k s ts e i g)) emacq now ep) t
    (fuel_for (render p pp 0 false)) l (render p pp 0 false) = (tr, Delivered a r ip pt) ->
  delivered_pkt (tr, Delivered a r ip pt) = Some (render p pp (nhops p - 1) true) /\
  exists reply tr' rtr d,
    mk_reply (render p pp (nhops p - 1) true) st sr pay port = Some reply /\
    walk_from (macq_of mac) t now' reply reply = (tr', Delivered (pp_src_ia pp) rtr (fst d) (snd d)) /\
    crossed tr' = rev (interfaces p) /\ reply_target pp port = Some d.
Proof.
  intros full emacq t now now' p pp ep st sr pay port l tr a r ip pt mac HG Hep Hexp Hexp' R Sl W.
  split; [|now apply reply_walk].
  apply (PNW.run_with_refines _ _ t (PNW.epic_refines_scion _ emacq now ep)) in W; [|exact I].
  change (MNW.scion_proc (fun k => EPIC.macq (fun s ts e i g => Some (full k s ts e i g))) now)
    with (MNW.scion_proc (macq_of mac) now) in W.
  rewrite PNW.run_with_scion in W.
  destruct (run_prov mac t now p pp HG Hep Hexp) as (tr2 & rtr & d & Er & _ & _ & Dp).
  rewrite (start_loc_render mac t now p pp HG Hep Hexp) in Sl. inversion Sl; subst l.
  unfold run in Er. rewrite W in Er. inversion Er; subst. exact Dp.
Qed.
Print Assumptions C03_epic.

(** * One-hop paths

    A one-hop path completed by the receiving router (second hop field filled in, C12) and
    reversed by the destination ([RouterOHP.ohp_reverse], the model of onehop.Path.Reverse /
    ToSCIONDecoded) is a two-hop SCION path; the reply is accepted by both routers: B (which
    completed the path) sends it out over the interface the request came in, A (which issued
    the first hop) accepts it for local delivery.  This is C12's round-trip theorem. *)
Theorem C03_ohp : forall macA macB cA cB nowB nowA ingA k p0 e p1 d1 e2 p2 d2 rev hdr,
  from0 ingA = true -> from0 (InExt k) = false ->
  OHP.process_ohp (PR.total macA) cA ingA p0 = Forward e p1 d1 ->
  OHP.process_ohp (PR.total macB) cB (InExt k) p1 = Forward e2 p2 d2 ->
  OHP.ohp_reverse p2 = Some rev ->
  OHP.revB_cond cB nowB k (OHP.reply_with hdr rev) = true ->
  OHP.revA_cond cA nowA (inc_path (OHP.reply_with hdr rev)) = true ->
  exists rp s,
    process_scion (PR.total macB) cB nowB InInt (OHP.reply_with hdr rev) =
      Forward k rp None /\
    process_scion (PR.total macA) cA nowA (InExt e) rp = resolve_inbound cA s /\
    OHP.delivery_outcome rp (resolve_inbound cA s) = true.
Proof. exact Scion.Props.C12.C12_reverse_accepted. Qed.
Print Assumptions C03_ohp.

(** Non-vacuity of [C03_epic]: its hypothesis "the EPIC packet is delivered" is satisfiable.  On the
    topology and path of C02's / C03's example (leaf 20 - core 10 with two border routers - leaf
    30), with a 16-byte toy MAC whose first 6 bytes are the hop-field MAC, an EPIC header whose
    validation fields are what the toy EPIC MAC returns, and a time inside the freshness window,
    the walk with the EPIC processing visits four routers and delivers to the host; with a
    wrong validation field the packet is discarded in the core AS (at its first router, where the
    penultimate hop field becomes current). *)
Definition epic_full (k s ts e i g : N) : list N := [k; s; ts; e; i; g; 1;2;3;4;5;6;7;8;9;10].
Definition epic_topo : topology :=
  [ mkAs 10 7 2 [mkNif 1 Child 20 1 0 true; mkNif 2 Child 30 1 1 true] [] 0 0;
    mkAs 20 8 1 [mkNif 1 Parent 10 1 0 true] [] 0 0;
    mkAs 30 9 1 [mkNif 1 Parent 10 2 0 true] [] 0 0 ].
Definition epic_toy k s ts e i g := firstn 6 (epic_full k s ts e i g).
Definition epic_prov : prov :=
  let ts := 1000 in
  let u0 := epic_toy 7 5 ts 63 0 1 in let bu1 := N.lxor 5 (mac_prefix u0) in
  let u1 := epic_toy 8 bu1 ts 63 1 0 in
  let d0 := epic_toy 7 9 ts 63 0 2 in let bd1 := N.lxor 9 (mac_prefix d0) in
  let d1 := epic_toy 9 bd1 ts 63 1 0 in
  of_slices
    [ mkSl KIntra false false ts [mkPh 20 1 0 63 u1 bu1; mkPh 10 0 1 63 u0 5];
      mkSl KIntra true false ts [mkPh 10 0 2 63 d0 9; mkPh 30 1 0 63 d1 bd1] ].
Definition epic_pp : pparams := mkPP 20 30 0 0 [10; 0; 0; 2] [10; 0; 0; 1] 8 (Some 4242).
Definition epic_now := 1001000000000.
Definition epic_hdr := EPIC.mkEpic 0 0 [1;2;3;4] [1;2;3;4].
Definition epic_walk (vf : list N) :=
  let q := render epic_prov epic_pp 0 false in
  match start_loc epic_topo q with
  | Some l => Some (MNW.run_with (MNW.epic_proc (fun k s ts e i g => Some (epic_full k s ts e i g))
                                     (fun _ _ => Some vf) epic_now epic_hdr) epic_topo (fuel_for q) l q)
  | None => None
  end.

Example C03_epic_example :
  let mac := fun k s ts e i g => firstn 6 (epic_full k s ts e i g) in
  good mac epic_topo epic_prov /\ endpoints_ok epic_topo epic_prov epic_pp = true /\
  all_unexpired epic_now epic_prov = true /\ reply_ok epic_pp 0 [10; 0; 0; 2] (Some 5000) = true /\
  option_map snd (epic_walk [1; 2; 3; 4]) = Some (Delivered 30 0 [10; 0; 0; 2] 4242) /\
  option_map (fun w => length (fst w)) (epic_walk [1; 2; 3; 4]) = Some 4%nat /\
  option_map snd (epic_walk [9; 9; 9; 9]) = Some (Stopped 10 0 KDiscard).
Proof. vm_compute. repeat split; reflexivity. Qed.

