(** C03, continued — EPIC and one-hop replies, on top of the EPIC / one-hop router models of
    C13 / C12 (Model/RouterEpic.v, Model/RouterOHP.v).  Kept in a file of its own so that
    Props/C03.v does not depend on those developments. *)
From Coq Require Import List NArith Bool Arith Lia.
From Scion Require Import Lib.Check Model.Router Model.Network Model.Prov.
From Scion Require Import Proofs.ProvFacts Proofs.Forward Proofs.Reverse Proofs.Reply.
From Scion Require Proofs.Router Model.RouterOHP Model.RouterEpic Model.NetWalk Proofs.NetWalk Props.C12.
Import ListNotations.
Import Scion.Model.Router.Router Network Prov.
Module PNW := Scion.Proofs.NetWalk.
Module MNW := Scion.Model.NetWalk.NetWalk.
Module OHP := Scion.Model.RouterOHP.RouterOHP.
Module EPIC := Scion.Model.RouterEpic.RouterEpic.
Module PR := Scion.Proofs.Router.
Local Open Scope N_scope.

(** * EPIC

    The routers process an EPIC packet by processing its embedded SCION path and, at the
    penultimate and last hop, checking the EPIC header ([RouterEpic.process_epic], C13);
    [MNW.run_with (epic_proc ..)] is the walk of C02 with that processing.  The
    destination answers an EPIC packet with the reversed EMBEDDED SCION path
    (snet.DefaultReplyPather: [p = epicPath.ScionPath]), i.e. with [Network.mk_reply] of the
    embedded packet.  If the EPIC packet is delivered at all (whatever the EPIC MAC and
    the freshness window are), the embedded path arrives exactly as a plain SCION packet
    would, and the reply reaches the source. *)
Theorem C03_epic : forall full emacq t now now' p pp ep st sr pay port l tr a r ip pt,
  let mac := fun k s ts e i g => firstn 6 (full k s ts e i g) in
  good mac t p -> endpoints_ok t p pp = true ->
  all_unexpired now p = true -> all_unexpired now' p = true ->
  reply_ok pp st sr port = true ->
  start_loc t (render p pp 0 false) = Some l ->
  MNW.run_with
    (MNW.epic_proc (fun k s ts e i g => Some (full k s ts e i g)) emacq now ep) t
    (fuel_for (render p pp 0 false)) l (render p pp 0 false) = (tr, Delivered a r ip pt) ->
  delivered_pkt (tr, Delivered a r ip pt) = Some (render p pp (nhops p - 1) true) /\
  exists reply tr' rtr d,
    mk_reply (render p pp (nhops p - 1) true) st sr pay port = Some reply /\
    walk_from (macq_of mac) t now' reply reply = (tr', Delivered (pp_src_ia pp) rtr (fst d) (snd d)) /\
    crossed tr' = rev (interfaces p) /\ reply_target pp port = Some d.
Proof.
  intros full emacq t now now' p pp ep st sr pay port l tr a r ip pt mac HG Hep Hexp Hexp' R Sl W.
  split; [|now apply reply_walk].
  apply (PNW.run_with_refines _ _ t (PNW.epic_refines_scion _ emacq now ep)) in W; [|exact I].
  change (MNW.scion_proc (fun k => EPIC.macq (fun s ts e i g => Some (full k s ts e i g))) now)
    with (MNW.scion_proc (macq_of mac) now) in W.
  rewrite PNW.run_with_scion in W.
  destruct (run_prov mac t now p pp HG Hep Hexp) as (tr2 & rtr & d & Er & _ & _ & Dp).
  rewrite (start_loc_render mac t now p pp HG Hep Hexp) in Sl. inversion Sl; subst l.
  unfold run in Er. rewrite W in Er. inversion Er; subst. exact Dp.
Qed.
Print Assumptions C03_epic.

(** * One-hop paths

    A one-hop path completed by the receiving router (second hop field filled in, C12) and
    reversed by the destination ([RouterOHP.ohp_reverse], the model of onehop.Path.Reverse /
    ToSCIONDecoded) is a two-hop SCION path; the reply is accepted by both routers: B (which
    completed the path) sends it out over the interface the request came in, A (which issued
    the first hop) accepts it for local delivery.  This is C12's round-trip theorem. *)
Theorem C03_ohp : forall macA macB cA cB nowB nowA ingA k p0 e p1 d1 e2 p2 d2 rev hdr,
  from0 ingA = true -> from0 (InExt k) = false ->
  OHP.process_ohp (PR.total macA) cA ingA p0 = Forward e p1 d1 ->
  OHP.process_ohp (PR.total macB) cB (InExt k) p1 = Forward e2 p2 d2 ->
  OHP.ohp_reverse p2 = Some rev ->
  OHP.revB_cond cB nowB k (OHP.reply_with hdr rev) = true ->
  OHP.revA_cond cA nowA (inc_path (OHP.reply_with hdr rev)) = true ->
  exists rp s,
    process_scion (PR.total macB) cB nowB InInt (OHP.reply_with hdr rev) =
      Forward k rp None /\
    process_scion (PR.total macA) cA nowA (InExt e) rp = resolve_inbound cA s /\
    OHP.delivery_outcome rp (resolve_inbound cA s) = true.
Proof. exact Scion.Props.C12.C12_reverse_accepted. Qed.
Print Assumptions C03_ohp.

