(** C26 — beacon selection returns the shortest beacons plus the most diverse one.
    Property theorems only. *)
From Coq Require Import List NArith ZArith Bool Lia Sorting.Sorted.
From Scion Require Import Lib.Check Model.Select Proofs.Select.
Import ListNotations.
Import Select.
Local Open Scope Z_scope.

(** For all candidate lists and all k >= 1: all candidates if n <= k; otherwise
    exactly k of them, namely the k-1 first ones and one further candidate [x]
    out of the remaining ones, where [x] is the most link-diverse remaining
    candidate with respect to the first ([md]: maximal diversity, shortest among
    the equally diverse, first among those) if its diversity exceeds the best
    diversity among the k-1 first ones ([max_div], which is -1 for the empty
    list, as in the code), and the first remaining candidate [r0] otherwise. *)
Theorem C26_spec : forall k bs, 1 <= k ->
  (Z.of_nat (length bs) <= k -> select_beacons k bs = Ok bs) /\
  (k < Z.of_nat (length bs) ->
   let k1 := Z.to_nat (k - 1) in
   let heads := firstn k1 bs in
   let rest := skipn k1 bs in
   exists first x md r0,
     hd_error bs = Some first /\
     select_beacons k bs = Ok (heads ++ [x]) /\
     Z.of_nat (length (heads ++ [x])) = k /\
     In x rest /\
     most_diverse_wrt first rest md /\
     nth_error bs k1 = Some r0 /\
     x = (if diversity first md >? max_div first heads then md else r0)).
Proof. exact select_spec. Qed.
Print Assumptions C26_spec.

(** [most_diverse_wrt] determines the candidate uniquely. *)
Theorem C26_most_diverse_unique : forall best bs x y,
  most_diverse_wrt best bs x -> most_diverse_wrt best bs y -> x = y.
Proof. exact most_diverse_wrt_unique. Qed.
Print Assumptions C26_most_diverse_unique.

(** [max_div] is the best diversity among the given candidates (-1 for none). *)
Theorem C26_max_div_is_max : forall best bs,
  (forall y, In y bs -> diversity best y <= max_div best bs) /\
  (bs = [] -> max_div best bs = -1) /\
  (bs <> [] -> exists y, In y bs /\ diversity best y = max_div best bs).
Proof.
  intros best bs. split; [intros y; apply max_div_upper|].
  split; [intros ->; reflexivity|apply max_div_attained].
Qed.
Print Assumptions C26_max_div_is_max.

(** Candidates ordered by length: the fall-back choice is a shortest remaining one. *)
Theorem C26_fallback_is_shortest_remaining : forall bs n r0 rest,
  StronglySorted by_length bs -> skipn n bs = r0 :: rest ->
  forall y, In y (r0 :: rest) -> nentries r0 <= nentries y.
Proof. exact fallback_shortest. Qed.
Print Assumptions C26_fallback_is_shortest_remaining.

(** Selection never panics for k >= 1 (in particular not for k = 1 < n). *)
Theorem C26_total : forall k bs, 1 <= k -> select_beacons k bs <> Panic.
Proof. exact select_total. Qed.
Print Assumptions C26_total.

(** The oracle of the correspondence check holds on the model for every input. *)
Theorem C26_oracle_holds_on_model : forall k bs, oracle k bs (obs (select_beacons k bs)) = true.
Proof. exact oracle_model. Qed.
Print Assumptions C26_oracle_holds_on_model.

(** Non-vacuity: k = 1 and k = 3 out of five candidates; with k = 3 the fourth
    candidate shares no link with the first and is preferred over the third. *)
Example C26_example :
  let bs := mk_beacons [[(1,1)]; [(1,1);(2,1)]; [(1,1);(2,2)]; [(3,1);(2,1)]; [(1,1);(2,1);(3,3)]]%N in
  obs (select_beacons 1 bs) = Some [3]%N /\
  obs (select_beacons 3 bs) = Some [0;1;3]%N /\
  obs (select_beacons 5 bs) = Some [0;1;2;3;4]%N.
Proof. vm_compute. repeat split. Qed.
