(** C45 — hidden segments are registered only by writers and served only to members.
    Property theorems only.  [end_of] (segment id |-> last AS) is universally
    quantified: the id is a hash over the hops, so it determines the destination.

    The faithful model carries one defect of the implementation (open known
    finding "regroup-not-newer"): the path DB ignores a segment whose id is already
    stored in an equal or newer version, so a registration of the same segment
    under a second group is acknowledged but the group is never recorded.  The
    "only if" halves and the soundness of answers hold unconditionally; the
    "exactly" half is refuted by a witness and proved outside that class. *)
From Coq Require Import List NArith ZArith Bool.
From Scion Require Import Lib.Check Model.HiddenPath Proofs.HiddenPath.
Import ListNotations.
Import HiddenPath.
Local Open Scope N_scope.

(** Register stores the segments iff the group exists, the peer is one of its
    writers, the local AS one of its registries, all segments are down segments
    and they verify; otherwise the store is unchanged (all or nothing). *)
Theorem C45_register_iff : forall cfg r st,
  (fst (register true cfg r st) = ROk <-> reg_allowed cfg r)
  /\ (fst (register true cfg r st) = ROk ->
      snd (register true cfg r st) = put true st (r_gid r) (r_segs r))
  /\ (fst (register true cfg r st) <> ROk -> snd (register true cfg r st) = st).
Proof.
  intros cfg r st. split; [|split].
  - rewrite register_fst. apply reg_okb_allowed.
  - intros H. apply register_fst in H. rewrite register_spec, H. reflexivity.
  - intros H. rewrite register_spec. destruct (reg_okb cfg r) eqn:E; [|reflexivity].
    exfalso. apply H. now apply register_fst.
Qed.
Print Assumptions C45_register_iff.

(** Over every history of registrations and requests: a segment is stored for a
    group only if a registration that meets all the conditions registered it
    under that group. *)
Theorem C45_stored_only_if : forall end_of cfg ops s g,
  stored_under (exec end_of true cfg [] ops) s g ->
  exists sg, registered cfg ops g sg /\ s_id sg = s.
Proof.
  intros end_of cfg ops s g [v [gs [F Hg]]]. rewrite exec_puts in F.
  destruct (R_groups_sound _ _ _ _ _ _ F Hg) as [sg [H1 H2]].
  exists sg. split; [now apply In_puts_of | assumption].
Qed.
Print Assumptions C45_stored_only_if.

(** ... and, outside the known defect class, if and only if. *)
Theorem C45_stored_iff_except_known : forall end_of cfg ops s g,
  known cfg ops = false ->
  (stored_under (exec end_of true cfg [] ops) s g <->
   exists sg, registered cfg ops g sg /\ s_id sg = s).
Proof.
  intros end_of cfg ops s g K. split; [apply C45_stored_only_if|].
  intros [sg [H <-]]. apply In_puts_of in H. unfold stored_under. rewrite exec_puts.
  exact (R_groups_complete true _ (fun _ => K) _ _ H).
Qed.
Print Assumptions C45_stored_iff_except_known.

(** The server answers iff at least one group is requested, every requested
    group exists, the peer is its owner, a writer, a reader or a registry, and
    the local AS is one of its registries. *)
Theorem C45_serve_iff : forall end_of cfg q st,
  (exists l, segments end_of cfg q st = SOk l) <-> serve_allowed cfg q.
Proof.
  intros end_of cfg q st. rewrite <- serve_okb_allowed.
  destruct (segments_spec end_of cfg q st) as [[H E]|[H [e E]]]; rewrite E, H; split.
  - reflexivity.
  - eauto.
  - intros [l Hl]. discriminate.
  - discriminate.
Qed.
Print Assumptions C45_serve_iff.

(** Every returned segment was registered under a requested group by an accepted
    registration, ends at the requested destination and is returned once, in
    the newest registered version — after every history. *)
Theorem C45_result_sound : forall end_of cfg ops q l,
  segments end_of cfg q (exec end_of true cfg [] ops) = SOk l ->
  NoDup (map fst l) /\
  forall s v, In (s, v) l ->
    ends_at (q_dst q) (end_of s) = true
    /\ (exists g sg, In g (q_gids q) /\ registered cfg ops g sg /\ s_id sg = s)
    /\ newest cfg ops s v.
Proof.
  intros end_of cfg ops q l E. rewrite exec_puts in E.
  destruct (segments_spec end_of cfg q (run_puts true [] (puts_of cfg ops))) as [[_ E']|[_ [e E']]];
    rewrite E' in E; inversion E; subst l. split.
  - apply NoDup_get, (NoDup_R true).
  - intros s v H. apply answer_spec_exact. now apply get_sound in H.
Qed.
Print Assumptions C45_result_sound.

(** Outside the known defect class the answer is exactly the set the property names. *)
Theorem C45_result_exact_except_known : forall end_of cfg ops q l,
  known cfg ops = false ->
  segments end_of cfg q (exec end_of true cfg [] ops) = SOk l ->
  exact_answer end_of cfg ops q l.
Proof.
  intros end_of cfg ops q l K E s v. split.
  - intros H. now apply (proj2 (C45_result_sound end_of cfg ops q l E)).
  - intros H. rewrite exec_puts in E.
    destruct (segments_spec end_of cfg q (run_puts true [] (puts_of cfg ops))) as [[_ E']|[_ [e E']]];
      rewrite E' in E; inversion E; subst l.
    apply get_complete; [intros _; exact K | now apply answer_spec_exact].
Qed.
Print Assumptions C45_result_exact_except_known.

(** With the store the property presumes (the group of an equal-or-older
    re-registration is recorded) the answer is exact after every history: the
    defect is confined to that one decision of the path DB. *)
Theorem C45_result_exact_if_group_recorded : forall end_of cfg ops q l,
  segments end_of cfg q (exec end_of false cfg [] ops) = SOk l ->
  exact_answer end_of cfg ops q l.
Proof.
  intros end_of cfg ops q l E s v. rewrite exec_puts in E.
  destruct (segments_spec end_of cfg q (run_puts false [] (puts_of cfg ops))) as [[_ E']|[_ [e E']]];
    rewrite E' in E; inversion E; subst l.
  rewrite <- answer_spec_exact. split.
  - apply get_sound.
  - apply get_complete. discriminate.
Qed.
Print Assumptions C45_result_exact_if_group_recorded.

(** The oracle of the correspondence check (every verdict and every answer of
    the history is the one the property prescribes) holds on the model for every
    history outside the tagged class [known_visible] (an ignored re-registration
    shows in some answer of the history), in particular outside [known]. *)
Theorem C45_oracle_except_known : forall end_of cfg ops,
  known_visible end_of cfg ops = false ->
  hist_ok end_of cfg [] ops (model_obs true end_of cfg ops) = true.
Proof. exact hist_ok_not_visible. Qed.
Print Assumptions C45_oracle_except_known.

Theorem C45_oracle_except_known_coarse : forall end_of cfg ops,
  known cfg ops = false ->
  hist_ok end_of cfg [] ops (model_obs true end_of cfg ops) = true.
Proof. intros end_of cfg ops K. apply (hist_ok_model end_of true cfg ops []). intros _. exact K. Qed.
Print Assumptions C45_oracle_except_known_coarse.

(** ---------------------------------------------------------------- shared path DB
    The path DB is the control service's: it also receives public segments
    (group id 0, op [OPub], part of the histories above: [registered _ _ 0 sg]
    means "inserted as a public segment") and DeleteExpired removes rows.  The
    following statements therefore start from an ARBITRARY store [st0]. *)

(** Groups recorded after a history: those of [st0] and those registered, nothing else. *)
Theorem C45_stored_only_if_from : forall end_of cfg st0 ops s g,
  stored_under (exec end_of true cfg st0 ops) s g ->
  stored_under st0 s g \/ exists sg, registered cfg ops g sg /\ s_id sg = s.
Proof.
  intros end_of cfg st0 ops s g H. rewrite exec_puts in H.
  destruct (run_stored_sound _ _ _ _ _ H) as [H'|[sg [H1 H2]]]; [now left|].
  right. exists sg. split; [now apply In_puts_of | assumption].
Qed.
Print Assumptions C45_stored_only_if_from.

(** ... exactly those, unless a registration meets a segment stored in an equal or
    newer version without its group ([known_puts st0]: the defect class relative
    to [st0] — e.g. a public segment with the same id already in the DB). *)
Theorem C45_stored_iff_from_except_known : forall end_of cfg st0 ops s g,
  known_puts st0 (puts_of cfg ops) = false ->
  (stored_under (exec end_of true cfg st0 ops) s g <->
   stored_under st0 s g \/ exists sg, registered cfg ops g sg /\ s_id sg = s).
Proof.
  intros end_of cfg st0 ops s g K. split; [apply C45_stored_only_if_from|].
  rewrite exec_puts. intros [H|[sg [H <-]]].
  - now apply run_stored_mono.
  - apply In_puts_of in H. now apply run_stored_complete.
Qed.
Print Assumptions C45_stored_iff_from_except_known.

(** Answers from an arbitrary store (one row per segment id): every returned
    segment ends at the destination and carries a requested group that [st0]
    had or that was registered; outside the defect class every segment
    registered under a requested group and ending at the destination is returned. *)
Theorem C45_result_from : forall end_of cfg st0 ops q l,
  NoDup (map fst st0) ->
  segments end_of cfg q (exec end_of true cfg st0 ops) = SOk l ->
  (forall s v, In (s, v) l ->
     ends_at (q_dst q) (end_of s) = true /\
     exists g, In g (q_gids q) /\
       (stored_under st0 s g \/ exists sg, registered cfg ops g sg /\ s_id sg = s))
  /\ (known_puts st0 (puts_of cfg ops) = false ->
      forall g sg, In g (q_gids q) -> registered cfg ops g sg ->
        ends_at (q_dst q) (end_of (s_id sg)) = true -> exists v, In (s_id sg, v) l).
Proof.
  intros end_of cfg st0 ops q l ND E.
  assert (ND' : NoDup (keys (exec end_of true cfg st0 ops))).
  { rewrite exec_puts. now apply NoDup_run_puts. }
  destruct (segments_spec end_of cfg q (exec end_of true cfg st0 ops)) as [[_ E']|[_ [e E']]];
    rewrite E' in E; inversion E; subst l. split.
  - intros s v H. apply (In_get end_of _ _ _ _ _ ND') in H as [gs [F [He [g [Hg Hm]]]]].
    split; [assumption|]. exists g. split; [assumption|].
    apply C45_stored_only_if_from with (end_of := end_of). exists v, gs. auto.
  - intros K g sg Hm Hr He.
    assert (S : stored_under (exec end_of true cfg st0 ops) (s_id sg) g).
    { apply C45_stored_iff_from_except_known; [assumption|]. right. eauto. }
    destruct S as [v [gs [F Hg]]]. exists v. apply (In_get end_of _ _ _ _ _ ND'). eauto 8.
Qed.
Print Assumptions C45_result_from.

(** ---------------------------------------------------------------- witnesses *)
Definition w_cfg : config :=
  mkcfg [(1, mkgroup (1, 10) [(1, 11)] [(1, 12)] [(1, 10)]);
         (2, mkgroup (1, 10) [(1, 11)] [(1, 13)] [(1, 10)])] (1, 10).
Definition w_end (s : N) : ia := (1, 11).
Definition w_seg := mkseg 7 5 type_down.
Definition w_ops : list op :=
  [OReg (mkreg (1, 11) 1 [w_seg] true); OReg (mkreg (1, 11) 2 [w_seg] true)].
Definition w_req := mkreq [2] (1, 11) (1, 13).

(** The exact-answer half is refuted on the faithful model: the same segment is
    registered under groups 1 and 2 by accepted registrations, yet a reader of
    group 2 gets an empty answer. *)
Theorem C45_result_exact_refuted : exists end_of cfg ops q l,
  segments end_of cfg q (exec end_of true cfg [] ops) = SOk l /\ ~ exact_answer end_of cfg ops q l.
Proof.
  exists w_end, w_cfg, w_ops, w_req, []. split; [vm_compute; reflexivity|].
  intros H. apply (H 7 5%Z).
  assert (A1 : reg_allowed w_cfg (mkreg (1, 11) 1 [w_seg] true)).
  { apply reg_okb_allowed. vm_compute. reflexivity. }
  assert (A2 : reg_allowed w_cfg (mkreg (1, 11) 2 [w_seg] true)).
  { apply reg_okb_allowed. vm_compute. reflexivity. }
  assert (R2 : registered w_cfg w_ops 2 w_seg).
  { left. eexists. split; [right; left; reflexivity|]. split; [exact A2|]. split; [reflexivity | now left]. }
  split; [reflexivity|]. split.
  - exists 2, w_seg. split; [now left|]. split; [exact R2 | reflexivity].
  - split.
    + exists 2, w_seg. split; [exact R2|]. split; reflexivity.
    + intros g sg [[r [Hin [_ [_ Hs]]]]|[_ Hin]] _.
      * destruct Hin as [E|[E|[]]]; inversion E; subst r; destruct Hs as [<-|[]]; cbn; apply Z.le_refl.
      * destruct Hin as [E|[E|[]]]; discriminate.
Qed.
Print Assumptions C45_result_exact_refuted.

Theorem C45_oracle_refuted : exists end_of cfg ops,
  known_visible end_of cfg ops = true /\
  hist_ok end_of cfg [] ops (model_obs true end_of cfg ops) = false.
Proof. exists w_end, w_cfg, (w_ops ++ [OReq w_req]). split; vm_compute; reflexivity. Qed.
Print Assumptions C45_oracle_refuted.

(** The shared-DB variant of the defect: a public segment with the same id is
    already in the DB in an equal version; the hidden registration is accepted,
    the history is in the defect class and the group's reader gets nothing. *)
Example C45_public_then_register :
  let ops := [OPub w_seg; OReg (mkreg (1, 11) 1 [w_seg] true)] in
  known w_cfg ops = true
  /\ trace w_end true w_cfg [] (ops ++ [OReq (mkreq [1] (1, 11) (1, 12))])
     = [OutPub; OutReg ROk; OutReq (SOk [])].
Proof. vm_compute. split; reflexivity. Qed.

(** Non-vacuity: a history outside the known class in which a writer registers
    two segments under two groups, a newer version replaces one, a non-writer
    and a failed verification are refused, a reader is served exactly its
    group's segment for the destination and a non-member is refused. *)
Example C45_example :
  let ops := [OReg (mkreg (1, 11) 1 [mkseg 7 5 type_down; mkseg 8 5 type_down] true);
              OReg (mkreg (1, 11) 2 [mkseg 7 6 type_down] true);
              OReg (mkreg (1, 12) 1 [mkseg 9 9 type_down] true);
              OReg (mkreg (1, 11) 1 [mkseg 9 9 type_down] false)] in
  known w_cfg ops = false /\ known_visible w_end w_cfg ops = false
  /\ segments w_end w_cfg (mkreq [2] (1, 11) (1, 13)) (exec w_end true w_cfg [] ops) = SOk [(7, 6%Z)]
  /\ segments w_end w_cfg (mkreq [1] (1, 11) (1, 12)) (exec w_end true w_cfg [] ops)
     = SOk [(7, 6%Z); (8, 5%Z)]
  /\ segments w_end w_cfg (mkreq [1] (1, 11) (1, 13)) (exec w_end true w_cfg [] ops) = SErr SNotAllowed.
Proof. vm_compute. repeat split; reflexivity. Qed.
