(** C44 — the shim dispatcher never reflects traffic to unintended hosts.
    Property theorems only; proofs are in Proofs/Dispatcher.v.

    [process cfg datagram outer_dst prev_hop] is the model of
    dispatcher.Server.processMsgNextHop at the decoded level (Model/Dispatcher.v);
    it is a function of the current datagram only, which is what the correspondence
    step checks against a long-lived Server. *)
From Coq Require Import List NArith Bool.
From Scion Require Import Lib.Check Lib.Bytes Model.Dispatcher Proofs.Dispatcher.
Import ListNotations.
Import Dispatcher.
Local Open Scope N_scope.

(** A forwarded datagram goes to a destination named by the datagram itself: the SCION
    destination host with the UDP destination port, with the identifier of an echo /
    traceroute reply, with the UDP source port or the request identifier quoted by an SCMP
    error, or the address registered for the SCION destination service. *)
(*  Audit follow-up: for SCMP replies / errors "the SCION destination host" is here the raw
    destination address bytes read as an IP address; the code does not look at the address type.
    The statement that also demands an IP address type is refuted below
    ([C44_scmp_dst_type_refuted], open finding scmp-dst-type-unchecked) and holds outside that
    class ([C44_dst_strict_except_known]). *)
Theorem C44_dst_only_from_packet : forall c d ul prev a port,
  process c d ul prev = Forward a port ->
  exists p, d = Pkt p /\ legit_dest c p a port.
Proof.
  intros c d ul prev a port H. apply process_forward in H as (p & -> & _ & _ & H).
  exists p. split; [reflexivity|]. apply dest_ok_legit.
  destruct H as [(sp & dp & El4 & Eg)|(ty & code & pl & q & El4 & _ & Eg)].
  - eapply udp_dest_ok; eassumption.
  - eapply scmp_dest_ok; eassumption.
Qed.
Print Assumptions C44_dst_only_from_packet.

(** ... and only if that host is the outer IP destination of the datagram (IPv4-mapped
    IPv6 addresses and IPv4 addresses being the same host). An unknown outer destination
    never matches. *)
Theorem C44_underlay_match : forall c d ul prev a port,
  process c d ul prev = Forward a port ->
  exists u, ul = Some u /\ unmap a = unmap u.
Proof.
  intros c d ul prev a port H. apply process_forward in H as (p & _ & _ & Hs & _).
  unfold same_host in Hs. destruct ul as [u|]; [|discriminate].
  exists u. split; [reflexivity | now apply ip_eqb_eq].
Qed.
Print Assumptions C44_underlay_match.

(** The dispatcher answers only SCMP echo / traceroute requests, towards the previous hop,
    with ISD-AS numbers and hosts exchanged, the path reversed (and announced with the type
    of the path that is carried), the type turned into the reply type, code 0, and the
    identifier, sequence number and data (the SCMP payload) unchanged. *)
Theorem C44_info_reply : forall c d ul prev r,
  process c d ul prev = Reply r ->
  exists p ty code payload q src dst rp,
    d = Pkt p /\ l4p p = L4Scmp ty code payload q /\ (ty = 128 \/ ty = 130) /\
    parse_addr (src_t p) (src_raw p) = Some src /\
    parse_addr (dst_t p) (dst_raw p) = Some dst /\
    reverse_path (pth p) = Some rp /\
    r_to r = prev /\
    r_dst_ia r = src_ia p /\ r_src_ia r = dst_ia p /\
    r_dst r = pack_addr src /\ r_src r = pack_addr dst /\
    r_path r = rp /\ r_path_ty r = path_type rp /\
    r_ty r = ty + 1 /\ r_code r = 0 /\ r_payload r = payload.
Proof.
  intros c d ul prev r H.
  apply process_reply in H as (p & ty & code & pl & q & -> & El4 & Ei & Em).
  apply make_reply_fields in Em as (src & dst & rp & Es & Ed & Er & ->).
  apply is_info_req_iff in Ei.
  exists p, ty, code, pl, q, src, dst, rp.
  cbn [r_to r_dst_ia r_src_ia r_dst r_src r_path r_path_ty r_ty r_code r_payload].
  repeat split; try assumption.
  destruct Ei as [-> | ->]; reflexivity.
Qed.
Print Assumptions C44_info_reply.

(** Conversely a request is answered whenever its addresses and path can be reversed —
    whatever the feature flag and the outer destination. *)
Theorem C44_info_request_answered : forall c p ul prev ty code payload q,
  l4p p = L4Scmp ty code payload q -> (ty = 128 \/ ty = 130) ->
  process c (Pkt p) ul prev =
    match make_reply p prev ty payload with Some r => Reply r | None => Drop end.
Proof.
  intros c p ul prev ty code payload q El4 Ht. eapply process_request; [exact El4|].
  now apply is_info_req_iff.
Qed.
Print Assumptions C44_info_request_answered.

(** For IPv4, SVC and (unmapped) IPv6 hosts "exchanged" is literal; an IPv4-mapped IPv6
    source is answered at its IPv4 address. *)
Theorem C44_reply_hosts : forall raw h,
  wf_bytes raw ->
  (length raw = 4%nat -> parse_addr 0 raw = Some h -> pack_addr h = (0, raw)) /\
  (length raw = 4%nat -> parse_addr 4 raw = Some h -> pack_addr h = (4, firstn 2 raw ++ [0; 0])) /\
  (length raw = 16%nat -> parse_addr 3 raw = Some h ->
     (unbe raw / 4294967296 <> 65535 -> pack_addr h = (3, raw)) /\
     (unbe raw / 4294967296 = 65535 -> pack_addr h = (0, be 4 (unbe raw mod 4294967296)))).
Proof.
  intros raw h W. split; [|split].
  - intros L. now apply pack_parse_v4.
  - intros L. apply pack_parse_svc; [assumption | rewrite L; repeat constructor].
  - intros L H. split; intros M.
    + now apply pack_parse_v6.
    + now apply pack_parse_v6_mapped.
Qed.
Print Assumptions C44_reply_hosts.

(** Reversal is what it says: on a path as the decoder delivers it, the hop fields come in
    the opposite order, the info fields in the opposite order with the construction
    direction flipped, the segment lengths in the opposite order, the current hop / info
    field pointers are mirrored (the reply starts where the request stood), and reversing
    twice gives the path back. *)
Theorem C44_reverse_path : forall p q,
  wf_spath p -> reverse_spath p = Some q ->
  sp_hops q = rev (sp_hops p) /\
  sp_infos q = map flip_info (rev (sp_infos p)) /\
  sp_chf q = num_hops p - 1 - sp_chf p /\
  sp_ci q = num_inf p - 1 - sp_ci p /\
  num_inf q = num_inf p /\ num_hops q = num_hops p /\
  firstn (N.to_nat (num_inf p)) [sp_s0 q; sp_s1 q; sp_s2 q] =
    rev (firstn (N.to_nat (num_inf p)) [sp_s0 p; sp_s1 p; sp_s2 p]) /\
  wf_spath q /\ reverse_spath q = Some p.
Proof.
  intros p q W H. split; [now apply reverse_spath_hops|]. split.
  { apply reverse_spath_infos; [assumption|]. now destruct W as (_ & _ & _ & L & _). }
  destruct (reverse_spath_pointers p q W H) as [P1 P2].
  destruct (reverse_spath_seglens p q W H) as (S1 & S2 & S3).
  repeat (split; [assumption|]). now apply reverse_spath_involutive.
Qed.
Print Assumptions C44_reverse_path.

(** The other path types: a one-hop path (second hop filled in) is answered over the two-hop
    SCION path with the hop fields exchanged, against construction direction, standing at
    hop 0 — and not at all while the second hop is empty; an EPIC path over the reversal of the
    SCION path it contains; an empty path over the empty path; an unregistered type never.
    The answer is always announced as SCION or empty. *)
Theorem C44_reverse_other_paths :
  (forall i h1 h2,
     reverse_path (POneHop i h1 h2) =
       if h_in h2 =? 0 then None else
       Some (PScion {| sp_ci := 0; sp_chf := 0; sp_s0 := 2; sp_s1 := 0; sp_s2 := 0;
                       sp_infos := [ {| i_peer := false; i_cons := false;
                                        i_segid := i_segid i; i_ts := i_ts i |} ];
                       sp_hops := [h2; h1] |})) /\
  (forall s, reverse_path (PEpic s) = reverse_path (PScion s)) /\
  reverse_path PEmpty = Some PEmpty /\
  (forall ty, reverse_path (PRaw ty) = None) /\
  (forall p q, reverse_path p = Some q -> path_type q = 0 \/ path_type q = 1).
Proof.
  split; [exact reverse_onehop|]. split; [exact reverse_epic|]. split; [reflexivity|].
  split; [reflexivity|]. intros p q H.
  destruct (reverse_path_type p q H) as [-> | [s ->]]; [now left | now right].
Qed.
Print Assumptions C44_reverse_other_paths.

(** Everything else is dropped: each outcome is a drop, a forward to a destination the
    datagram names that equals the outer destination (dispatcher function enabled), or the
    answer to an echo / traceroute request.  In particular undecodable datagrams and
    datagrams without UDP / SCMP are dropped. *)
Theorem C44_else_drop : forall c d ul prev,
  match process c d ul prev with
  | Drop => True
  | Forward a port =>
    is_disp c = true /\ same_host a ul = true /\ exists p, d = Pkt p /\ legit_dest c p a port
  | Reply r =>
    r_to r = prev /\
    exists p ty code payload q, d = Pkt p /\ l4p p = L4Scmp ty code payload q /\ (ty = 128 \/ ty = 130)
  end /\
  process c Undecodable ul prev = Drop /\
  (forall p, l4p p = L4None -> process c (Pkt p) ul prev = Drop).
Proof.
  intros c d ul prev. split; [|split].
  - destruct (process c d ul prev) as [|a port|r] eqn:E; [exact I| |].
    + pose proof (C44_dst_only_from_packet _ _ _ _ _ _ E) as L.
      apply process_forward in E as (p & _ & Ed & Es & _). now repeat split.
    + apply C44_info_reply in E as (p & ty & code & pl & q & _ & _ & _ & -> & El4 & Ht & _ & _ & _ & Hto & _).
      split; [exact Hto|]. now exists p, ty, code, pl, q.
  - reflexivity.
  - intros p. apply process_no_l4.
Qed.
Print Assumptions C44_else_drop.

(** With the dispatcher function disabled only echo / traceroute requests are handled:
    every result other than the answer to one is a drop. *)
Theorem C44_disabled_only_info : forall c d ul prev,
  is_disp c = false ->
  process c d ul prev = Drop \/
  exists r p ty code payload q,
    process c d ul prev = Reply r /\ d = Pkt p /\ l4p p = L4Scmp ty code payload q /\
    (ty = 128 \/ ty = 130) /\ r_to r = prev.
Proof.
  intros c d ul prev Ed. destruct (process_disabled c d ul prev Ed) as [H|[r H]]; [now left|].
  right. pose proof H as H'.
  apply C44_info_reply in H' as (p & ty & code & pl & q & _ & _ & _ & -> & El4 & Ht & _ & _ & _ & Hto & _).
  now exists r, p, ty, code, pl, q.
Qed.
Print Assumptions C44_disabled_only_info.

(** The two statements above, for every element of any sequence of received datagrams.
    This is a pointwise statement: [process] has no state.  The real Server reuses its layer
    structs and output buffer from one datagram to the next; that its treatment of a datagram
    does not depend on the datagrams before it is NOT proved here — it is what the
    correspondence step checks on every run, by giving each datagram of the generated sequence
    both to a fresh Server and to the one long-lived Server of the run and demanding
    model = fresh = long-lived (spec/C44.json, assumptions). *)
Theorem C44_no_reflection_pointwise : forall c (h : list (dgram * option ip * (ip * N))),
  Forall (fun x => let '(d, ul, prev) := x in
            forall a port, process c d ul prev = Forward a port ->
              (exists p, d = Pkt p /\ legit_dest c p a port) /\
              (exists u, ul = Some u /\ unmap a = unmap u) /\ is_disp c = true) h.
Proof.
  intros c h. apply Forall_forall. intros [[d ul] prev] _ a port H. split; [|split].
  - eapply C44_dst_only_from_packet; eassumption.
  - eapply C44_underlay_match; eassumption.
  - now apply process_forward in H as (p & _ & Ed & _).
Qed.
Print Assumptions C44_no_reflection_pointwise.

(** Open finding scmp-dst-type-unchecked.  getDstSCMP builds the destination from RawDstAddr
    with netip.AddrFromSlice and never looks at DstAddrType: an SCMP echo / traceroute reply or
    error whose SCION destination is a service address (or of an unassigned 4- or 16-byte
    type) is handed on to the IP address spelled by those bytes.  Witness: an echo reply to the
    service address 0x0a00 0x0001 arriving for 10.0.0.1 goes to 10.0.0.1:4660. *)
Definition kf_pkt : pkt :=
  {| dst_ia := 1; src_ia := 2; dst_t := 4; dst_raw := [10; 0; 0; 1]; src_t := 0; src_raw := [10; 0; 0; 2];
     pth := PEmpty; hbh := false; e2e := None; l4p := L4Scmp 129 0 [18; 52; 0; 1] QBad |}.

Theorem C44_scmp_dst_type_refuted :
  exists c d ul prev a port,
    process c d ul prev = Forward a port /\
    (forall p, d = Pkt p -> ~ legit_dest_strict c p a port) /\
    oracle c d ul prev (to_obs (process c d ul prev)) = false.
Proof.
  exists (MkCfg true []), (Pkt kf_pkt), (Some (V4 167772161)), (V4 1, 1), (V4 167772161), 4660.
  split; [vm_compute; reflexivity|]. split; [|vm_compute; reflexivity].
  intros p E [_ H]. injection E as <-.
  specialize (H 129 0 [18; 52; 0; 1] QBad eq_refl). vm_compute in H. discriminate.
Qed.
Print Assumptions C44_scmp_dst_type_refuted.

(** Outside that class (SCMP non-request with a destination that is not of an IP type) every
    forward goes to a destination the strict specification allows ... *)
Theorem C44_dst_strict_except_known : forall c d ul prev a port,
  known_scmp_dst_type d = false ->
  process c d ul prev = Forward a port ->
  exists p, d = Pkt p /\ legit_dest_strict c p a port.
Proof.
  intros c d ul prev a port K H.
  destruct (forward_strict_except_known c d ul prev a port K H) as (p & -> & D).
  exists p. split; [reflexivity | now apply dest_ok_strict_legit].
Qed.
Print Assumptions C44_dst_strict_except_known.

(** ... and the oracle evaluated on the implementation's observations holds on the model. *)
Theorem C44_oracle_except_known : forall c d ul prev,
  known_scmp_dst_type d = false ->
  oracle c d ul prev (to_obs (process c d ul prev)) = true.
Proof. exact oracle_model_except_known. Qed.
Print Assumptions C44_oracle_except_known.

(** An observed forward the oracle accepts is one the (strict) property allows. *)
Theorem C44_oracle_sound : forall c d ul prev a port same,
  oracle c d ul prev (OForward a port same) = true ->
  same = true /\ is_disp c = true /\
  exists p, d = Pkt p /\ legit_dest_strict c p a port /\ same_host a ul = true.
Proof. exact oracle_forward_sound. Qed.
Print Assumptions C44_oracle_sound.

(** Non-vacuity. 10.0.0.1 = 167772161, ::ffff:10.0.0.1 = 281470849515521. *)
Definition ex_pkt (l : l4) (p : path) : pkt :=
  {| dst_ia := 1; src_ia := 2; dst_t := 0; dst_raw := [10; 0; 0; 1]; src_t := 4; src_raw := [0; 2; 0; 0];
     pth := p; hbh := true; e2e := None; l4p := l |}.
Definition ex_hop (n : N) : hop :=
  {| h_ialert := false; h_ealert := false; h_exp := 63; h_in := n; h_eg := n + 1; h_mac := n |}.
Definition ex_path : spath :=
  {| sp_ci := 1; sp_chf := 2; sp_s0 := 2; sp_s1 := 1; sp_s2 := 0;
     sp_infos := [MkInfo false true 7 100; MkInfo true false 8 200];
     sp_hops := [ex_hop 1; ex_hop 2; ex_hop 3] |}.

Example C44_example :
  let c := MkCfg true [] in
  let prev := (V4 3232235777, 30042) in
  (* UDP to 10.0.0.1:8080 arriving on the IPv4-mapped outer destination is handed on ... *)
  process c (Pkt (ex_pkt (L4Udp 5000 8080) PEmpty)) (Some (V6 281470849515521)) prev
    = Forward (V4 167772161) 8080 /\
  (* ... not when it arrived for another host, not with the function disabled *)
  process c (Pkt (ex_pkt (L4Udp 5000 8080) PEmpty)) (Some (V4 167772162)) prev = Drop /\
  process (MkCfg false []) (Pkt (ex_pkt (L4Udp 5000 8080) PEmpty)) (Some (V4 167772161)) prev = Drop /\
  (* a destination-unreachable error quoting a UDP packet from port 4242 goes to that port *)
  process c (Pkt (ex_pkt (L4Scmp 1 4 [0; 0; 0; 0; 9] (QUdp 4242)) PEmpty)) (Some (V4 167772161)) prev
    = Forward (V4 167772161) 4242 /\
  (* an echo request is answered to the previous hop over the reversed path *)
  (exists r, process (MkCfg false []) (Pkt (ex_pkt (L4Scmp 128 0 [18; 52; 0; 1; 104; 105] QBad) (PScion ex_path)))
               None prev = Reply r /\
             r_to r = prev /\ r_dst r = (4, [0; 2; 0; 0]) /\ r_src r = (0, [10; 0; 0; 1]) /\
             r_ty r = 129 /\ r_payload r = [18; 52; 0; 1; 104; 105] /\
             exists q, r_path r = PScion q /\ sp_hops q = [ex_hop 3; ex_hop 2; ex_hop 1] /\
                       (sp_ci q, sp_chf q, sp_s0 q, sp_s1 q) = (0, 0, 1, 2)) /\
  wf_spath ex_path.
Proof.
  cbv zeta.
  split; [vm_compute; reflexivity|]. split; [vm_compute; reflexivity|].
  split; [vm_compute; reflexivity|]. split; [vm_compute; reflexivity|]. split.
  - eexists. split; [vm_compute; reflexivity|].
    do 5 (split; [reflexivity|]).
    eexists. split; [reflexivity|]. split; reflexivity.
  - unfold wf_spath. vm_compute. intuition (try reflexivity; try discriminate).
Qed.
