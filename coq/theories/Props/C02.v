(** C02 — paths built from beacons are accepted hop by hop and reach the destination.

    Reading guide.  [Network.topology]: ASes with a forwarding key, border
    routers and interfaces (each owned by one router; link type, neighbour,
    remote interface); [Network.forward]/[Prov.walk_from] iterate the router
    model [Router.process_scion] from router to router (external hop: the
    neighbour's router owning the remote interface; sibling hop: the sibling).
    [Prov.prov]: a path as up to three slices of (AS, hop field, beta at
    creation); [Prov.wf_prov_b]: MACs are the recomputation under the AS key
    with that beta, betas chained by the MAC prefixes (C22), consecutive hops
    joined by links of the matching type, slices joined at a common AS or across
    a peering link; [Prov.render]: the packet at a position of the walk.  The MAC
    is an arbitrary function [mac : key -> segid -> ts -> exp -> in -> eg -> bytes]. *)
From Coq Require Import List NArith Bool Arith Lia.
From Scion Require Import Lib.Check Model.Router Model.Network Model.Prov.
From Scion Require Import Proofs.ProvFacts Proofs.Forward.
Import ListNotations.
Import Router Network Prov.
Local Open Scope N_scope.

(** MAIN LEMMA.  For every well-formed topology with all links up, every
    well-formed provenance path over it (any number of ASes, any mix of one or
    several routers per AS, full segments, shortcuts, peering), unexpired hop
    fields and admissible end hosts: the packet handed by the source host to the
    router owning its first interface is forwarded by every router on the way,
    crosses exactly the interfaces [interfaces p], in that order, and is
    delivered to the destination host in the destination AS.  No MAC lookup can
    miss: the statement holds for every total [mac]. *)
Theorem C02_forward_prov : forall mac t now p pp,
  wf_topo t = true -> all_up t = true ->
  wf_prov_b (fun k s ts e i g => Some (mac k s ts e i g)) t p = true ->
  endpoints_ok t p pp = true -> all_unexpired now p = true ->
  exists tr rtr d a,
    walk_from (fun k s ts e i g => Some (mac k s ts e i g)) t now
              (render p pp 0 false) (render p pp 0 false) =
      (tr, Delivered (pp_dst_ia pp) rtr (fst d) (snd d)) /\
    crossed tr = interfaces p /\
    find_as t (pp_dst_ia pp) = Some a /\ deliver_target a pp = Some d.
Proof. exact forward_prov. Qed.
Print Assumptions C02_forward_prov.

Lemma pair_eqb_refl l : list_eqb pair_eqb l l = true.
Proof.
  induction l as [|[a b] l IH]; [reflexivity|]. cbn [list_eqb]. unfold pair_eqb at 1. cbn [fst snd].
  now rewrite !N.eqb_refl, IH.
Qed.

Lemma bytes_eqb_refl l : list_eqb N.eqb l l = true.
Proof. induction l as [|a l IH]; [reflexivity|]. cbn [list_eqb]. now rewrite N.eqb_refl, IH. Qed.

(** The oracle evaluated by the correspondence check on the real routers' walk
    ([negb valid || c02_ok]) holds on the model's walk for every input whose path
    metadata is the interface list of the provenance path. *)
Theorem C02_oracle_holds_on_model : forall mac t now p pp,
  let macq := fun k s ts e i g => Some (mac k s ts e i g) in
  valid_b macq t now p pp = true ->
  c02_ok t p pp (interfaces p) (walk_from macq t now (render p pp 0 false) (render p pp 0 false)) = true.
Proof.
  intros mac t now p pp macq V. unfold valid_b in V.
  apply andb_true_iff in V as [V Hexp]. apply andb_true_iff in V as [V Hep].
  apply andb_true_iff in V as [V Hwf]. apply andb_true_iff in V as [Hwt Hup].
  destruct (forward_prov mac t now p pp Hwt Hup Hwf Hep Hexp) as (tr & rtr & d & a & W & Cr & Fa & Dt).
  subst macq. change (fun k s ts e i g => Some (mac k s ts e i g)) with (macq_of mac).
  rewrite W. unfold c02_ok. cbn [fst snd]. rewrite Cr, !pair_eqb_refl, Fa, Dt.
  unfold delivered_to. cbn [snd]. now rewrite !N.eqb_refl, bytes_eqb_refl.
Qed.
Print Assumptions C02_oracle_holds_on_model.

(** Non-vacuity: leaf 20 below core 10, leaf 30 below core 10; the core AS has two
    border routers (interface 1 on router 0, interface 2 on router 1, joined by a
    sibling link).  The up and down segments are "beaconed" with a toy MAC; the
    combined path 20 -> 10 -> 30 is valid, the walk visits four routers (the
    sibling hop inside AS 10 included) and delivers to the host. *)
Definition toy (k s ts e i g : N) : list N := [k; s; ts; e; i; g].
Definition ex_topo : topology :=
  [ mkAs 10 7 2 [mkNif 1 Child 20 1 0 true; mkNif 2 Child 30 1 1 true] [] 0 0;
    mkAs 20 8 1 [mkNif 1 Parent 10 1 0 true] [] 0 0;
    mkAs 30 9 1 [mkNif 1 Parent 10 2 0 true] [] 0 0 ].
Definition ex_prov : prov :=
  let ts := 1000 in
  (* up segment: 10 (egress 1) -> 20, beta0 = 5 *)
  let u0 := toy 7 5 ts 63 0 1 in let bu1 := N.lxor 5 (mac_prefix u0) in
  let u1 := toy 8 bu1 ts 63 1 0 in
  (* down segment: 10 (egress 2) -> 30, beta0 = 9 *)
  let d0 := toy 7 9 ts 63 0 2 in let bd1 := N.lxor 9 (mac_prefix d0) in
  let d1 := toy 9 bd1 ts 63 1 0 in
  of_slices
    [ mkSl KIntra false false ts [mkPh 20 1 0 63 u1 bu1; mkPh 10 0 1 63 u0 5];
      mkSl KIntra true false ts [mkPh 10 0 2 63 d0 9; mkPh 30 1 0 63 d1 bd1] ].
Definition ex_pp : pparams := mkPP 20 30 0 0 [10; 0; 0; 2] [10; 0; 0; 1] 8 (Some 4242).

Example C02_example :
  let macq := fun k s ts e i g => Some (toy k s ts e i g) in
  let w := walk_from macq ex_topo 2000000000000 (render ex_prov ex_pp 0 false) (render ex_prov ex_pp 0 false) in
  valid_b macq ex_topo 2000000000000 ex_prov ex_pp = true /\
  snd w = Delivered 30 0 [10; 0; 0; 2] 4242 /\
  crossed (fst w) = [(20, 1); (10, 1); (10, 2); (30, 1)] /\
  map (fun s => (t_ia s, t_rtr s)) (fst w) = [(20, 0); (10, 0); (10, 1); (30, 0)].
Proof. vm_compute. repeat split; reflexivity. Qed.
