(** C41 — gateway encapsulation reproduces the IP packet stream.
    Property theorems only; the lemmas are in Proofs/GwFrame{Spec,Enc,Rx,RL,Top}.v.

    Sender = [frames_sched mtu sess stream ops]: the frames a fresh encoder hands out
    under ANY schedule [ops] of packet writes and frame reads (then Close and drain);
    [frames_of] is the schedule "write everything, then read".  Receiver = [ingest] /
    [ingest_ops]: a fresh ingress worker (ingress length/version filter, processFrame,
    per-epoch reassembly lists of capacity 100, ProcessCompletePkts, cleanup ticks).

    The sequence number is modelled without the uint64 wrap, hence the hypothesis that a
    stream has at most 2^64 frames. *)
From Coq Require Import List Arith NArith Bool Lia.
From Scion Require Import Lib.Bytes Lib.Check Model.GwFrame.
From Scion Require Import Proofs.GwFrameSpec Proofs.GwFrameEnc Proofs.GwFrameRx Proofs.GwFrameRL Proofs.GwFrameTop.
Import ListNotations.
Import GwFrame.
Local Open Scope nat_scope.

(** Invalid packets are never encapsulated: whatever is written and however reads are
    scheduled, the frame payloads are, byte for byte and in order, the valid IPv4/IPv6
    packets written — nothing of an invalid packet, no padding. *)
Theorem C41_invalid_never_sent : forall mtu sess stream ops, 56 <= mtu ->
  concat (map payload (frames_sched mtu sess stream ops)) =
  concat (filter valid_pkt (written ops)).
Proof. intros. now apply frames_payload. Qed.
Print Assumptions C41_invalid_never_sent.

(** The full loss-free statement of the property: every frame size the sending gateway
    accepts (sender.go: 57 and up; uint16), every packet list.  It is FALSE for the code as
    it is (next theorem), so it is kept as a definition. *)
Definition C41_lossless_statement : Prop :=
  forall mtu sess stream ps,
    57 <= mtu -> (N.of_nat mtu <= 65535)%N ->
    (N.of_nat (length (frames_of mtu sess stream ps)) <= two64)%N ->
    ingest (frames_of mtu sess stream ps) = filter valid_pkt ps.

(** Genuine defect (known finding "rlist-capacity"): at frame size 57 a valid 4101-byte
    IPv4 packet spans 101 frames; the reassembly list (capacity 100) evicts everything when
    the 101st arrives and the packet is never delivered. *)
Theorem C41_lossless_refuted : ~ C41_lossless_statement.
Proof.
  intros H. apply capacity_refutes. apply H.
  - lia.
  - lia.
  - apply N.leb_le. apply capacity_witness.
Qed.
Print Assumptions C41_lossless_refuted.

(** Outside the known finding the property holds at full strength: for every frame size
    the gateway accepts, every schedule and every list of packets whose valid members each
    span at most 100 frames (length <= 40 + 99 * (mtu - 16); at the minimum frame size 57
    that is 4099 bytes, from frame size 107 on it covers 9000-byte packets), the frames
    delivered in order without loss are decapsulated into exactly the valid packets written,
    in order. *)
Theorem C41_lossless_except_known : forall mtu sess stream ops,
  57 <= mtu -> (N.of_nat mtu <= 65535)%N ->
  (N.of_nat (length (frames_sched mtu sess stream ops)) <= two64)%N ->
  forallb (fits_rlist mtu) (filter valid_pkt (written ops)) = true ->
  ingest (frames_sched mtu sess stream ops) = filter valid_pkt (written ops).
Proof. exact lossless_main. Qed.
Print Assumptions C41_lossless_except_known.

(** Cleanup ticks (worker.cleanup: a list not touched since the previous tick is removed)
    do not disturb loss-free in-order delivery as long as the stream's reassembly list is
    touched between any two consecutive ticks, i.e. there are never two ticks without a
    frame between them: ticks may fall anywhere else, also between the frames of a packet.
    (A list idle for two ticks is dropped with what it holds; by [C41_lossy_safe] that can
    only lose packets.) *)
Theorem C41_lossless_with_ticks : forall mtu sess stream ops (rops : list rop),
  57 <= mtu -> (N.of_nat mtu <= 65535)%N ->
  (N.of_nat (length (frames_sched mtu sess stream ops)) <= two64)%N ->
  forallb (fits_rlist mtu) (filter valid_pkt (written ops)) = true ->
  rframes rops = frames_sched mtu sess stream ops ->
  no_adjacent_ticks rops false = true ->
  ingest_ops rops = filter valid_pkt (written ops).
Proof. exact lossless_ticks_main. Qed.
Print Assumptions C41_lossless_with_ticks.

Lemma written_writes ps : written (map EWrite ps) = ps.
Proof. unfold written. induction ps as [|p ps IH]; cbn; [reflexivity|now f_equal]. Qed.

(** ... in particular for a list of valid packets: ingest (frames_of mtu ps) = ps. *)
Corollary C41_lossless : forall mtu sess stream ps,
  57 <= mtu -> (N.of_nat mtu <= 65535)%N ->
  (N.of_nat (length (frames_of mtu sess stream ps)) <= two64)%N ->
  forallb valid_pkt ps = true -> forallb (fits_rlist mtu) ps = true ->
  ingest (frames_of mtu sess stream ps) = ps.
Proof.
  intros mtu sess stream ps Hm Hu Hl Hv Hf. unfold frames_of in *.
  assert (E : filter valid_pkt ps = ps).
  { clear -Hv. induction ps as [|p ps IH]; [reflexivity|]. cbn in *.
    apply andb_true_iff in Hv as [Hp Hv]. rewrite Hp. f_equal. now apply IH. }
  rewrite lossless_main; rewrite ?written_writes, ?E; auto.
Qed.
Print Assumptions C41_lossless.

(** Loss, duplication, reordering, interleaved streams, cleanup ticks: a worker is fed, in
    ANY order and multiplicity, frames of any number of senders with pairwise distinct
    streams (plus frames the ingress filter rejects, plus cleanup ticks at any point).
    Every packet it emits is byte-identical to a valid packet one of the senders was given.
    No capacity hypothesis is needed here. *)
Theorem C41_lossy_safe : forall (snd : list sender) (ops : list rop),
  (forall s, In s snd -> mtu_ok (sc_mtu s) = true /\
                         (N.of_nat (length (sc_model_frames s)) <= two64)%N) ->
  NoDup (map (fun s => (sc_stream s mod 1048576)%N) snd) ->
  (forall raw, In (RFrame raw) ops ->
     accepted raw = false \/ exists s, In s snd /\ In raw (sc_model_frames s)) ->
  forall p, In p (ingest_ops ops) -> exists s, In s snd /\ In p (sc_sent s).
Proof. exact lossy_main. Qed.
Print Assumptions C41_lossy_safe.

(** The oracles evaluated by the correspondence check on the implementation's
    observations hold on the model for every input outside the known finding. *)
Theorem C41_oracle_holds_on_model : forall (snd : list sender) (plan : list dop),
  forallb sender_fits snd = true ->
  let frames := map sc_model_frames snd in
  e2e_oracle snd frames plan (wrun worker_init (map (rop_of frames) plan)) = true.
Proof. exact e2e_oracle_model. Qed.
Print Assumptions C41_oracle_holds_on_model.

Theorem C41_enc_oracle_holds_on_model : forall mtu sess stream ops, 56 <= mtu ->
  let '(frs, e, q) := enc_run mtu sess stream ops enc_init [] in
  let dr := drain (drain_fuel e q) mtu sess stream e q in
  bytes_eqb (concat (map payload (somes frs ++ dr))) (concat (filter valid_pkt (written ops))) = true.
Proof. exact enc_oracle_model. Qed.
Print Assumptions C41_enc_oracle_holds_on_model.

(** Non-vacuity: two packets spanning several frames of size 57 with an invalid one in
    between (5 frames); in order everything arrives, with the second frame lost only the
    packet that does not touch it arrives, reversed and duplicated deliveries emit sent
    packets only (possibly more than once). *)
Example C41_example :
  let p1 := big_v4 100 in
  let p2 := [96%N; 0%N; 0%N; 0%N; 0%N; 20%N] ++ repeat 7%N 54 in
  let bad := [69%N; 0%N; 0%N; 99%N] ++ repeat 1%N 26 in
  let fs := frames_of 57 3 9 [p1; bad; p2] in
  length fs = 5 /\ ingest fs = [p1; p2] /\
  ingest (nth 0 fs [] :: skipn 2 fs) = [p2] /\
  ingest (rev fs ++ fs ++ rev fs) = [p2] /\
  ingest (fs ++ fs) = [p1; p2; p1; p2] /\
  (* a tick before every frame changes nothing; two ticks in a row inside p1 lose p1 *)
  ingest_ops (flat_map (fun f => [RCleanup; RFrame f]) fs) = [p1; p2] /\
  ingest_ops (RFrame (nth 0 fs []) :: RCleanup :: RCleanup :: map RFrame (skipn 1 fs)) = [p2].
Proof. vm_compute. repeat split. Qed.
