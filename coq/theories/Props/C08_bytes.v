(** C08 at the BYTE level — no crash, no malformed output, from raw datagrams.
    Property theorems only; the work is in Proofs/RouterBytesCodec.v and Proofs/RouterBytes.v.

    Lifts Props/C08.v (totality of the fast path on decoded records) to byte strings by composing
    it with C18's decoder totality ([scion_no_panic], [ext_skip_no_panic], [fmt_decode_no_panic],
    the [read_list] bounds) and round-trip lemmas: for EVERY byte string of ANY length the
    byte-level router ([decodeLayers] with the skipper layers, path-type dispatch, projection of the
    [scion.Raw] path to the record, [dstScionPort], [process()], write-back) never yields a panic
    result, and every forwarded output decodes again with the C18 decoder to a header whose
    HdrLen / PayloadLen / path pointers are consistent.

    Scope: SCION-type paths (fast path).  One-hop, EPIC and empty paths are the distinct result
    [NotScionPath] (their processing is Model/RouterOHP.v, RouterEpic.v, RouterBfd.v); the slow
    path (SCMP construction) stays at record level (Props/C08.v, C09); [getDstPortSCMP]'s gopacket
    run over the quote of an SCMP error message is the parameter [qport]. *)
From Coq Require Import List NArith Bool Lia.
From Scion Require Import Lib.Bytes Lib.BytesX Lib.Check.
From Scion Require Import Model.HdrPath Model.HdrScion Proofs.HdrScion.
From Scion Require Import Model.Router Proofs.Router Proofs.RouterInv Model.RouterTotal Proofs.RouterTotal.
From Scion Require Import Model.RouterBytes Proofs.RouterBytesCodec Proofs.RouterBytes.
Import ListNotations.
Import RouterBytes.
Local Open Scope N_scope.

(** No panic: neither the decoding stage ([abstract_res], incl. every slice expression of the
    decoders, which the model renders as [Panic] when out of range) nor the router as a whole,
    for every byte string, every configuration, ingress, time, quoted-port function and every
    MAC function (total or partial). *)
Theorem C08_bytes_total : forall qport mq c now ing raw,
  wf_bytes raw ->
  abstract_res qport raw <> APanic /\ process_bytes qport mq c now ing raw <> PanicB.
Proof.
  intros qport mq c now ing raw W. split; [now apply abstract_no_panic | now apply process_bytes_no_panic].
Qed.
Print Assumptions C08_bytes_total.

(** No malformed output: whatever is forwarded or delivered is a byte string of the same length
    that the C18 decoder accepts again, as a SCION-path packet whose record [out] is well-formed
    ([fwd_wf]: consistent SegLens, at most 64 hops, CurrHF inside the path, CurrINF the segment of
    CurrHF, PayloadLen = bytes after the header) and whose header numbers satisfy the geometry
    predicate of Model/RouterTotal.v (4*HdrLen covers common + address + path header and lies
    inside the packet, 4*HdrLen + PayloadLen = total length, pointers consistent). *)
Theorem C08_bytes_output_wf : forall qport mac c now ing raw e raw' d,
  wf_bytes raw ->
  process_bytes qport (total mac) c now ing raw = ForwardB e raw' d ->
  wf_bytes raw' /\ length raw' = length raw /\
  exists out g,
    abstract qport raw' = Some out /\ RouterTotal.fwd_wf out = true /\
    geo_of_bytes raw' = Some g /\ RouterTotal.geo_ok g = true.
Proof.
  intros qport mac c now ing raw e raw' d W H.
  destruct (process_bytes_forward_inv qport c now ing _ raw e raw' d H) as (p & out & A & HP & ->).
  destruct (forward_bytes qport mac c now ing raw p e out d W A HP)
    as (_ & _ & _ & _ & _ & _ & _ & G & _ & _ & _ & _ & A' & g & Hg & Gok).
  destruct (immutable_core qport mac c now ing raw p e out d W A HP) as (Len & _).
  split; [eapply forward_wf_bytes; eauto|]. split; [exact Len|].
  exists out, g. unfold abstract. rewrite A'. split; [reflexivity|].
  split; [|split; assumption].
  apply fwd_wf_intro; [exact G | exact (forward_paylen mac c now ing p e out d HP)].
Qed.
Print Assumptions C08_bytes_output_wf.

(** Rejection is explicit: a datagram the C18 SCION decoder rejects — in particular one whose
    HdrLen announces more bytes than there are ([scion_overlong], C18_scion_reject_total) — is
    discarded ... *)
Theorem C08_bytes_reject : forall qport mq c now ing raw,
  wf_bytes raw -> (HdrScion.scion_decode raw = Err \/ HdrScion.scion_overlong raw = true) ->
  process_bytes qport mq c now ing raw = DiscardB.
Proof.
  intros qport mq c now ing raw W H.
  assert (E : HdrScion.scion_decode raw = Err) by (destruct H as [H|H]; [exact H | now apply scion_reject_overlong]).
  unfold process_bytes, abstract_res. now rewrite E.
Qed.
Print Assumptions C08_bytes_reject.

(** ... and a path type the record model does not cover is reported as such, never silently
    discarded: [NotScionPath pt] means the SCION header decoded (strict C18 decoder) with a path
    that is not of the SCION type: pt = its path type <> 1, i.e. empty (0), one-hop (2) or EPIC (3). *)
Theorem C08_bytes_not_scion : forall qport mq c now ing raw pt,
  wf_bytes raw -> process_bytes qport mq c now ing raw = NotScionPath pt ->
  pt <> 1 /\
  exists h pld, HdrScion.scion_decode raw = Ok (h, pld) /\ HdrScion.s_pathtype h = pt /\
                HdrPath.path_type (HdrScion.s_path h) = pt /\
                (forall rp, HdrScion.s_path h <> HdrPath.PScion rp).
Proof.
  intros qport mq c now ing raw pt W. unfold process_bytes, abstract_res.
  destruct (HdrScion.scion_decode raw) as [[h pld]| |] eqn:Es; try discriminate.
  destruct (scion_enc_dec _ _ _ W Es) as (WN & _).
  destruct WN as (_ & _ & _ & _ & Hpt & _ & _ & _ & _ & _ & _ & _ & _ & Wp & ND).
  destruct (skip_exts (HdrScion.s_nexthdr h) pld) as [[proto l4]| |]; try discriminate.
  destruct (HdrScion.s_path h) eqn:Ep;
    try (destruct (path_fields _) as [[[rsv infos] hops]| |]; try discriminate;
         destruct (l4_port qport proto l4); try discriminate;
         destruct (R.process_scion _ _ _ _ _); discriminate);
    intros X; injection X as <-;
    (split; [rewrite Hpt; cbn [HdrPath.path_type]; first [discriminate | exfalso; eapply ND; reflexivity
                                                          | cbn in Wp; destruct Wp; lia]
            | exists h, pld; rewrite Ep; repeat split; first [exact Hpt | now symmetry | discriminate]]).
Qed.
Print Assumptions C08_bytes_not_scion.

(** Non-vacuity: the example packet of Props/C07_bytes.v cut at EVERY length 0..91, and with its
    HdrLen / path-type / CurrHF / SegLen bytes overwritten, never panics: it is discarded,
    answered (slow path) or reported as a non-SCION path type (path type byte 2: the 48 path bytes
    decode as a one-hop path with slack; 0: an empty path must have no bytes, rejected); uncut it is forwarded with a
    consistent geometry. *)
Definition ex_mac (sid ts e i g : N) : list N := [sid mod 256; ts mod 256; e; i mod 256; g mod 256; 7].
Definition ex_cfg : R.cfg :=
  R.mkCfg 100 [R.mkIf 1 R.External R.Child 200 true 1; R.mkIf 2 R.External R.Parent 300 true 2]
          [] [10;0;0;1] 1024 65535 false.
Definition ex_raw : bytes :=
  [0;0;0;0; 17;21;0;8; 1;0;0;0; 0;0;0;0;0;0;1;244; 0;0;0;0;0;0;2;88; 1;1;1;1; 2;2;2;2;
   1;0;48;0; 1;0;0;5;0;0;3;232;
   0;63;0;0;0;9;0;0;0;0;0;0; 0;63;0;2;0;1;5;232;63;2;1;7; 0;63;0;4;0;0;0;0;0;0;0;0;
   0;5;0;9;0;8;0;0].
Definition q0 : N -> bytes -> option N := fun _ _ => None.
Definition run (raw : bytes) : bresult := process_bytes q0 (total ex_mac) ex_cfg 1000000000001 (R.InExt 2) raw.
Definition calm (r : bresult) : bool :=
  match r with PanicB | MacMissB | BadInputB => false | _ => true end.
Example C08_bytes_example :
  forallb (fun k => calm (run (firstn k ex_raw))) (seq 0 92) = true /\
  forallb (fun v => calm (run (set_at ex_raw 5 v)) && calm (run (set_at ex_raw 8 v)) &&
                    calm (run (set_at ex_raw 36 v)) && calm (run (set_at ex_raw 38 v)))
          [0; 1; 2; 3; 4; 20; 21; 22; 63; 64; 65; 128; 255] = true /\
  run (firstn 40 ex_raw) = DiscardB /\ run (set_at ex_raw 8 0) = DiscardB /\
  run (set_at ex_raw 8 2) = NotScionPath 2 /\
  match run ex_raw with
  | ForwardB 1 raw' None =>
    match geo_of_bytes raw' with Some g => RouterTotal.geo_ok g = true | None => False end
  | _ => False
  end.
Proof. vm_compute. repeat split; reflexivity. Qed.
