(** C06 at the BYTE level — only admissible link-type pairs are forwarded.
    Property theorems only: Props/C06.v transported through [RouterBytes.abstract]: whether a
    datagram changes segment ([eff_xover]) is read from the bytes of its path meta header and info
    fields, the egress interface from its hop field bytes. *)
From Coq Require Import List NArith Bool.
From Scion Require Import Lib.Bytes Lib.BytesX Lib.Check.
From Scion Require Import Model.Router Proofs.Router Proofs.RouterInv Model.RouterTotal.
From Scion Require Import Model.RouterBytes Proofs.RouterBytesCodec Proofs.RouterBytes Proofs.RouterBytesLift.
From Scion Require Import Props.C06.
Import ListNotations.
Import RouterBytes.
Local Open Scope N_scope.

(** Whatever the bytes, MAC function, key and time: a datagram is only ever forwarded along an
    admissible pair (and otherwise only delivered locally, egress 0). *)
Theorem C06_bytes_never_forwarded : forall qport mac c now ing raw e raw' d,
  process_bytes qport (total mac) c now ing raw = ForwardB e raw' d ->
  exists p, abstract qport raw = Some p /\
    ((R.p_dst_ia p = R.c_ia c /\ e = 0) \/
     (R.p_dst_ia p <> R.c_ia c /\
      R.admissible (R.from0 ing) (R.lt_of c (R.ing_ifid ing)) (R.get_if c e) (R.eff_xover p) = true)).
Proof.
  intros qport mac c now ing raw e raw' d H.
  destruct (process_bytes_forward_inv qport c now ing _ raw e raw' d H) as (p & out & A & HP & _).
  exists p. unfold abstract. rewrite A. split; [reflexivity|].
  exact (C06_never_forwarded mac c now ing p e out d HP).
Qed.
Print Assumptions C06_bytes_never_forwarded.

(** Spelled out for traffic from another AS that is not delivered locally: at a segment switch
    the (ingress, egress) link types are core-child, child-core or child-child; within a segment
    core-core, child-parent, parent-child, child-peer or peer-child. *)
Theorem C06_bytes_link_types : forall qport mac c now ing raw e raw' d p,
  process_bytes qport (total mac) c now ing raw = ForwardB e raw' d ->
  abstract qport raw = Some p -> R.from0 ing = false -> R.p_dst_ia p <> R.c_ia c ->
  exists f, R.get_if c e = Some f /\
    let pair := (R.lt_of c (R.ing_ifid ing), R.if_lt f) in
    if R.eff_xover p
    then In pair [(R.Core, R.Child); (R.Child, R.Core); (R.Child, R.Child)]
    else In pair [(R.Core, R.Core); (R.Child, R.Parent); (R.Parent, R.Child); (R.Child, R.Peer);
                  (R.Peer, R.Child)].
Proof.
  intros qport mac c now ing raw e raw' d p H Ap F0 ND.
  destruct (C06_bytes_never_forwarded qport mac c now ing raw e raw' d H) as (p' & Ap' & Adm).
  rewrite Ap in Ap'. injection Ap' as <-.
  destruct Adm as [[L _] | [_ Adm]]; [contradiction|]. rewrite F0 in Adm.
  destruct (R.get_if c e) as [f|] eqn:G; [|discriminate Adm].
  exists f. split; [reflexivity|]. cbv zeta.
  destruct (R.eff_xover p); [now apply C06_segment_change | now apply C06_within_segment].
Qed.
Print Assumptions C06_bytes_link_types.

(** From inside the AS a datagram leaves only through an external interface of this router and
    never changes segment here. *)
Theorem C06_bytes_from_inside : forall qport mac c now ing raw e raw' d,
  R.from0 ing = true ->
  process_bytes qport (total mac) c now ing raw = ForwardB e raw' d ->
  exists p f, abstract qport raw = Some p /\ R.p_dst_ia p <> R.c_ia c /\
    R.get_if c e = Some f /\ R.if_scope f = R.External /\ R.eff_xover p = false.
Proof.
  intros qport mac c now ing raw e raw' d F0 H.
  destruct (process_bytes_forward_inv qport c now ing _ raw e raw' d H) as (p & out & A & HP & _).
  pose proof (forward_from_inside mac c now ing p e out d F0 HP) as (_ & ND & _).
  destruct (C06_never_forwarded mac c now ing p e out d HP) as [[L _] | [_ Adm]]; [contradiction|].
  rewrite F0 in Adm. apply C06_from_inside in Adm as (f & G & S & X).
  exists p, f. unfold abstract. rewrite A. auto.
Qed.
Print Assumptions C06_bytes_from_inside.

(** Contrapositive: an inadmissible pair is never forwarded, even with valid MACs. *)
Theorem C06_bytes_inadmissible_never_forwarded : forall qport mac c now ing raw p e,
  abstract qport raw = Some p -> R.p_dst_ia p <> R.c_ia c ->
  R.admissible (R.from0 ing) (R.lt_of c (R.ing_ifid ing)) (R.get_if c e) (R.eff_xover p) = false ->
  forall raw' d, process_bytes qport (total mac) c now ing raw <> ForwardB e raw' d.
Proof.
  intros qport mac c now ing raw p e Ap ND Bad raw' d H.
  destruct (C06_bytes_never_forwarded qport mac c now ing raw e raw' d H) as (p' & Ap' & Adm).
  rewrite Ap in Ap'. injection Ap' as <-.
  destruct Adm as [[L _] | [_ Adm]]; [contradiction | congruence].
Qed.
Print Assumptions C06_bytes_inadmissible_never_forwarded.

(** Non-vacuity, on datagrams: parent->child transit forwarded on interface 1; the same bytes
    with a parent->core hop (validly MACed) answered with InvalidPath; from inside the AS a hop
    field whose egress is interface 0 answered with UnknownHopFieldEgress. *)
Definition run (ing : R.ingress) (raw : bytes) : bresult :=
  process_bytes q0 (total ex_mac) ex_cfg 1000000000001 ing raw.
Example C06_bytes_example :
  abstract q0 (wrap (ex_pkt 600 1 1)) = Some (ex_pkt 600 1 1) /\
  (match run (R.InExt 2) (wrap (ex_pkt 600 1 1)) with ForwardB 1 _ None => True | _ => False end) /\
  (match run (R.InExt 2) (wrap (ex_pkt 600 3 1)) with
   | SlowPathB (R.SpScmp 4 48 _) _ _ => True | _ => False end) /\
  (match run R.InInt (wrap (R.mkPkt 500 100 0 0 [1;1;1;1] [2;2;2;2] 8 8 (Some 9) 0 0 2 0 0 0
              [R.mkInfo false true 5 1000 0]
              [R.mkHop false false 63 2 0 (ex_mac 5 1000 63 2 0) 0;
               R.mkHop false false 63 4 0 [0;0;0;0;0;0] 0])) with
   | SlowPathB (R.SpScmp 4 50 _) _ _ => True | _ => False end).
Proof. vm_compute. repeat split. Qed.
