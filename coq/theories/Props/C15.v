(** C15 - traffic is not sent over links that BFD declares down.
    Property theorems only (lemmas are in Proofs/RouterBfd.v).

    Setting (Model/RouterBfd.v): a router configuration [c], the links that have
    a BFD session with the state of each session ([links]; a link that is not
    listed has no BFD), and a history: any list of BFD events on links (a received
    control packet or the expiry of the detection time, [BFD.op]) and data
    packets, in any interleaving.  [run_history] lists what the fast path does
    with the data packets, each processed by [Router.process_scion] under the
    interface states the sessions have at that moment.  [link_up ls l] is
    [Link.IsUp()]: no session, or local session state Up.

    [up_check_state macq c now ing p = Some s]: the packet is not addressed to the
    local AS and passed everything [process()] checks before [validateEgressUp]
    (path, expiry, ingress id, length, source checks, MAC, ingress router alert,
    cross-over with the second expiry/MAC check, validateEgressID, and the egress
    router alert, which is handled BEFORE the link state is looked at); [s] is
    the processor state there: [s_eg s] the egress interface id of the hop field
    in travel direction, [egress_if c s] that interface's record.

    All theorems hold for every MAC function (also a partial one), key, time,
    configuration and packet.

    SCOPE (audit follow-up).  [run_history] / [process_at] is the SCION-path branch of
    [processPkt] (EPIC packets go through the same [process()]).  The one-hop branch
    ([processOHP]) never calls [validateEgressUp]: a one-hop packet leaves through its
    first hop's egress interface whatever BFD says.  That contradicts the property text
    ("forwards no packet over that link") and is the OPEN KNOWN FINDING
    C15/ohp-ignores-link-state: see the last section ([C15_ohp_ignores_link_state],
    [C15_never_forwarded_statement_refuted], and the [..._except_known] versions of the main
    theorems over the union of both branches, the one-hop branch excluded by name).
    Packets the router ORIGINATES are outside the property as read here: an SCMP reply goes
    back over the link the request arrived on with no IsUp test ([C15_reply_over_ingress_link]),
    and the router's own BFD packets necessarily travel over links that are down. *)
From Coq Require Import List NArith Bool.
From Scion Require Import Lib.Check Model.BFD Model.Router Model.RouterOHP Model.RouterBfd
     Proofs.BFD Proofs.Router Proofs.RouterBfd.
Import ListNotations.
Import Scion.Model.Router.Router.
Import Scion.Model.RouterBfd.RouterBfd.
Local Open Scope N_scope.

(** "BFD declares the link down": it has a session and that session is not Up. *)
Theorem C15_link_down_iff : forall ls l,
  link_up ls l = false <->
  exists sess, find_sess ls l = Some sess /\ BFD.local sess <> BFD.Up.
Proof.
  intros ls l. unfold link_up. destruct (find_sess ls l) as [s|]; split.
  - intros H. exists s. split; [reflexivity|]. intros E. rewrite E in H. discriminate.
  - intros (s' & [= <-] & H). destruct (BFD.local s); try reflexivity. now elim H.
  - discriminate.
  - intros (s' & H & _). discriminate.
Qed.
Print Assumptions C15_link_down_iff.

(** The state of a link's session at any point of a history is the BFD session
    (C16's model) run over the BFD events of that link so far. *)
Theorem C15_session_follows_its_link : forall ls0 pre l,
  find_sess (links_after ls0 pre) l =
  option_map (fun s => BFD.run s (ops_on l pre)) (find_sess ls0 l).
Proof. intros. apply find_sess_after. Qed.
Print Assumptions C15_session_follows_its_link.

(** For ANY history and any data packet in it: if the packet is forwarded to
    another router (no underlay destination: not a local delivery), then the egress
    interface is a configured one and the link behind it is up at that moment.
    Contrapositive: over a link whose session is not up nothing is forwarded. *)
Theorem C15_never_forwarded_over_down_link :
  forall macq c ls0 pre now ing p post e out,
  nth_error (run_history macq c ls0 (pre ++ EvPkt now ing p :: post)) (count_pkts pre)
    = Some (Forward e out None) ->
  exists f, get_if c e = Some f /\ e <> 0 /\
            link_up (links_after ls0 pre) (if_link f) = true.
Proof.
  intros macq c ls0 pre now ing p post e out H.
  rewrite run_history_nth in H. injection H as H. rewrite process_at_char in H.
  destruct (up_check_state macq c now ing p) as [s|] eqn:U.
  - pose proof (up_check_state_facts _ _ _ _ _ _ U) as F.
    destruct (iface_up (links_after ls0 pre) (egress_if c s)) eqn:UP; [|discriminate].
    apply finish_forward in H as [-> _]. exists (egress_if c s).
    split; [apply (uf_if _ _ _ F)|]. split; [apply (uf_nz _ _ _ F)|].
    now rewrite <- (iface_up_at_check _ _ _ _ F).
  - apply no_up_check_forward in H as (s & X & _). congruence.
Qed.
Print Assumptions C15_never_forwarded_over_down_link.

(** For ANY history: a packet that reaches [validateEgressUp] while the link of its
    egress interface is not up is answered through the slow path with
    ExternalInterfaceDown (external egress) or InternalConnectivityDown (egress owned
    by a sibling router), code 0, carrying the egress interface id. *)
Theorem C15_history : forall macq c ls0 pre now ing p post s,
  up_check_state macq c now ing p = Some s ->
  let f := egress_if c s in
  link_up (links_after ls0 pre) (if_link f) = false ->
  nth_error (run_history macq c ls0 (pre ++ EvPkt now ing p :: post)) (count_pkts pre) =
    Some (SlowPath (SpScmp (if scope_eqb (if_scope f) External
                            then ScmpExternalInterfaceDown else ScmpInternalConnectivityDown) 0 0)
                   (s_eg s) (s_p s)) /\
  get_if c (s_eg s) = Some f /\ s_eg s = egress_interface s /\ s_eg s <> 0.
Proof.
  intros macq c ls0 pre now ing p post s U f D.
  pose proof (up_check_state_facts _ _ _ _ _ _ U) as F.
  rewrite run_history_nth, process_at_char, U, (iface_up_at_check _ _ _ _ F). fold f. rewrite D.
  split; [reflexivity|]. split; [apply (uf_if _ _ _ F)|].
  split; [apply (uf_eg _ _ _ F) | apply (uf_nz _ _ _ F)].
Qed.
Print Assumptions C15_history.

(** The SCMP message the slow path builds from that request names the local ISD-AS and the
    affected interface(s): the egress interface for an external link; for a sibling-owned
    egress the interface the packet entered through (necessarily an external interface of
    this router: traffic from inside the AS is never sent to a sibling) and the egress. *)
Theorem C15_scmp_payload : forall macq c ls0 pre now ing p post s r,
  up_check_state macq c now ing p = Some s ->
  link_up (links_after ls0 pre) (if_link (egress_if c s)) = false ->
  nth_error (run_history macq c ls0 (pre ++ EvPkt now ing p :: post)) (count_pkts pre) = Some r ->
  (if_scope (egress_if c s) = External ->
   down_scmp c ing r = Some (ExternalInterfaceDown (c_ia c) (s_eg s))) /\
  (if_scope (egress_if c s) <> External ->
   down_scmp c ing r = Some (InternalConnectivityDown (c_ia c) (ing_ifid ing) (s_eg s)) /\
   exists n, ing = InExt n /\ n <> 0).
Proof.
  intros macq c ls0 pre now ing p post s r U D H.
  destruct (C15_history macq c ls0 pre now ing p post s U D) as (R & _).
  rewrite R in H. injection H as <-.
  pose proof (up_check_state_facts _ _ _ _ _ _ U) as F. split.
  - intros E. rewrite E. reflexivity.
  - intros NE. destruct (scope_eqb (if_scope (egress_if c s)) External) eqn:SE;
      [apply scope_eqb_eq in SE; contradiction|].
    split; [reflexivity|].
    pose proof (uf_adm _ _ _ F) as A. rewrite (uf_if _ _ _ F) in A. unfold validate_egress in A.
    rewrite SE in A. unfold from0 in A. destruct ing as [n| |]; cbn in A; try discriminate.
    exists n. split; [reflexivity|]. intros ->. discriminate.
Qed.
Print Assumptions C15_scmp_payload.

(** Forwarding resumes: at every point of a history at which the egress link is up the
    packet is treated exactly as by a router without BFD ([no_up_check]); unless the path
    ends at this hop (IncPath fails), that is: forwarded over the egress interface. *)
Theorem C15_resumes : forall macq c ls0 pre now ing p post s,
  up_check_state macq c now ing p = Some s ->
  link_up (links_after ls0 pre) (if_link (egress_if c s)) = true ->
  nth_error (run_history macq c ls0 (pre ++ EvPkt now ing p :: post)) (count_pkts pre) =
    Some (no_up_check macq c now ing p) /\
  (if_scope (egress_if c s) <> External \/ p_curr_hf (s_p s) + 1 < num_hops (s_p s) ->
   exists out, no_up_check macq c now ing p = Forward (s_eg s) out None).
Proof.
  intros macq c ls0 pre now ing p post s U UP.
  pose proof (up_check_state_facts _ _ _ _ _ _ U) as F.
  rewrite run_history_nth, process_at_char, U, (iface_up_at_check _ _ _ _ F), UP.
  rewrite (no_up_check_some _ _ _ _ _ _ U). split; [reflexivity|].
  intros H. unfold finish. destruct (scope_eqb (if_scope (egress_if c s)) External) eqn:SE.
  - destruct H as [H|H]; [apply scope_eqb_eq in SE; contradiction|].
    unfold process_egress.
    destruct (i_consdir (s_inf s) && negb (s_peer s));
      cbn [store_inf s_p s_eg with_infos p_curr_hf num_hops p_seg0 p_seg1 p_seg2];
      (destruct (_ <=? _) eqn:L; [apply N.leb_le in L; unfold num_hops in H; exfalso;
                                   apply (N.lt_irrefl (p_curr_hf (s_p s) + 1));
                                   eapply N.lt_le_trans; eassumption|]);
      eexists; reflexivity.
  - eexists; reflexivity.
Qed.
Print Assumptions C15_resumes.

(** ... and the session does come up again: after any history that left the session in
    a state other than AdminDown (see C16's open finding: an accepted AdminDown packet traps
    it), the recovery sequence of a restarting peer (Down, then Init) makes the link usable. *)
Theorem C15_resumes_after_recovery : forall ls0 pre l sess my y1 y2,
  find_sess (links_after ls0 pre) l = Some sess -> BFD.local sess <> BFD.AdminDown ->
  my <> 0 -> y2 <> 0 ->
  link_up (links_after ls0 (pre ++ [EvBfd l (BFD.Recv (BFD.mk BFD.Down my y1));
                                    EvBfd l (BFD.Recv (BFD.mk BFD.Init my y2))])) l = true.
Proof.
  intros ls0 pre l sess my y1 y2 S NA Hm Hy.
  rewrite links_after_app. unfold link_up. rewrite find_sess_after, S.
  cbn [ops_on option_map]. rewrite N.eqb_refl.
  rewrite (recover_two_packets sess my y1 y2 NA Hm Hy). reflexivity.
Qed.
Print Assumptions C15_resumes_after_recovery.

(** When the detection time of a link's session passes, the link is down afterwards,
    whatever the history before. *)
Theorem C15_timeout_takes_link_down : forall ls0 pre l sess,
  find_sess (links_after ls0 pre) l = Some sess ->
  link_up (links_after ls0 (pre ++ [EvBfd l BFD.Timeout])) l = false.
Proof.
  intros ls0 pre l sess S. rewrite links_after_app. unfold link_up.
  rewrite find_sess_after, S. cbn [ops_on option_map]. rewrite N.eqb_refl.
  cbn. destruct (BFD.local sess); reflexivity.
Qed.
Print Assumptions C15_timeout_takes_link_down.

(** Links without BFD are always usable: no history creates a session, the link is up at
    every point, and a packet whose egress link has no BFD is treated as by a router
    without BFD. *)
Theorem C15_no_bfd_always_usable : forall macq c ls0 pre now ing p post s,
  up_check_state macq c now ing p = Some s ->
  find_sess ls0 (if_link (egress_if c s)) = None ->
  (forall evs, link_up (links_after ls0 evs) (if_link (egress_if c s)) = true) /\
  nth_error (run_history macq c ls0 (pre ++ EvPkt now ing p :: post)) (count_pkts pre) =
    Some (no_up_check macq c now ing p).
Proof.
  intros macq c ls0 pre now ing p post s U NS.
  assert (A : forall evs, link_up (links_after ls0 evs) (if_link (egress_if c s)) = true)
    by (intros evs; apply link_up_no_session, no_session_after, NS).
  split; [exact A|]. apply (C15_resumes macq c ls0 pre now ing p post s U (A pre)).
Qed.
Print Assumptions C15_no_bfd_always_usable.

(** The sessions influence nothing else: a packet that does not reach [validateEgressUp]
    (rejected earlier, delivered locally, or taken out by a router alert) gets the same
    treatment whatever the state of any session. *)
Theorem C15_frame : forall macq c ls0 pre now ing p post,
  up_check_state macq c now ing p = None ->
  nth_error (run_history macq c ls0 (pre ++ EvPkt now ing p :: post)) (count_pkts pre) =
    Some (no_up_check macq c now ing p).
Proof.
  intros macq c ls0 pre now ing p post U.
  rewrite run_history_nth, process_at_char, U. reflexivity.
Qed.
Print Assumptions C15_frame.

(** The oracle that the correspondence check evaluates on the implementation's
    observations ([c15_ok] / [fwd_ok], folded over a history by [hist_check]) holds on the model's
    own observations for every configuration, MAC table, packet pool, set of sessions and every
    history without one-hop data packets (known finding C15/ohp-ignores-link-state, below). *)
Theorem C15_oracle_holds_on_model_except_known : forall c ss macs pkts evs,
  no_hohp evs = true ->
  snd (hist_check c macs pkts (init_links ss)
                  (with_model_obs c macs pkts (init_links ss) evs)) = true.
Proof. intros. now apply hist_oracle_model_except_ohp. Qed.
Print Assumptions C15_oracle_holds_on_model_except_known.

(** Non-vacuity: a router with an external child link (interface 2, BFD) and a child link
    owned by sibling router 1 (interface 3, BFD); a transit packet entering through the
    parent link 1.  Sessions start Down: SCMP; peer sends Down, Init: forwarded; detection
    timeout: SCMP again.  The same for the sibling link. *)
Definition ex_mac : N -> N -> N -> N -> N -> option (list N) := fun _ _ _ _ _ => Some [1; 2; 3; 4; 5; 6].
Definition ex_cfg : cfg :=
  mkCfg 100 [mkIf 1 External Parent 200 true 1; mkIf 2 External Child 300 true 2;
             mkIf 3 Sibling Child 400 true (SibBase + 1)] [] [10; 0; 0; 1] 1024 65535 false.
Definition ex_pkt (eg : N) : pkt :=
  mkPkt 999 888 0 0 [10; 1; 1; 1] [10; 2; 2; 2] 8 8 (Some 5000) 0 1 3 0 0 0
        [mkInfo false true 7 1000 0]
        [mkHop false false 63 0 5 [1; 2; 3; 4; 5; 6] 0; mkHop false false 63 1 eg [1; 2; 3; 4; 5; 6] 0;
         mkHop false false 63 9 0 [1; 2; 3; 4; 5; 6] 0].
Definition ex_now : N := 1000 * 1000000000 + 5.
Definition ex_hist (l eg : N) : list event :=
  [EvPkt ex_now (InExt 1) (ex_pkt eg);
   EvBfd l (BFD.Recv (BFD.mk BFD.Down 9 0)); EvBfd l (BFD.Recv (BFD.mk BFD.Init 9 77));
   EvPkt ex_now (InExt 1) (ex_pkt eg);
   EvBfd l BFD.Timeout;
   EvPkt ex_now (InExt 1) (ex_pkt eg)].
Definition ex_links : links := [(2, BFD.init 0); (SibBase + 1, BFD.init 0)].

Example C15_example :
  (exists s, up_check_state ex_mac ex_cfg ex_now (InExt 1) (ex_pkt 2) = Some s /\ s_eg s = 2) /\
  map result_code (run_history ex_mac ex_cfg ex_links (ex_hist 2 2)) =
    [[2; 5; 0; 0; 2]; [1; 2]; [2; 5; 0; 0; 2]] /\
  map result_code (run_history ex_mac ex_cfg ex_links (ex_hist (SibBase + 1) 3)) =
    [[2; 6; 0; 0; 3]; [1; 3]; [2; 6; 0; 0; 3]] /\
  map (down_scmp ex_cfg (InExt 1)) (run_history ex_mac ex_cfg ex_links (ex_hist 2 2)) =
    [Some (ExternalInterfaceDown 100 2); None; Some (ExternalInterfaceDown 100 2)] /\
  map (down_scmp ex_cfg (InExt 1)) (run_history ex_mac ex_cfg ex_links (ex_hist (SibBase + 1) 3)) =
    [Some (InternalConnectivityDown 100 1 3); None; Some (InternalConnectivityDown 100 1 3)] /\
  (* a link without BFD: forwarded throughout *)
  map result_code (run_history ex_mac ex_cfg [(SibBase + 1, BFD.init 0)] (ex_hist 2 2)) =
    [[1; 2]; [1; 2]; [1; 2]].
Proof.
  split; [eexists; split; vm_compute; reflexivity|].
  vm_compute. repeat split; reflexivity.
Qed.

(** * Audit follow-up: one-hop packets and router-originated replies *)

(** One-hop processing does not depend on any session: for every session state the result is
    that of [RouterOHP.process_ohp] on the plain configuration (which has no up check). *)
Theorem C15_ohp_any_link_state : forall macq c ls ing p,
  process_ohp_at macq c ls ing p = RouterOHP.process_ohp macq c ing p.
Proof. exact process_ohp_cfg_at. Qed.
Print Assumptions C15_ohp_any_link_state.

Definition ex_ohp : pkt :=
  mkPkt 300 100 0 0 [10; 1; 1; 1] [10; 2; 2; 2] 8 8 (Some 5000) 0 0 0 0 0 0
        [mkInfo false true 7 1000 0]
        [mkHop false false 63 0 2 [1; 2; 3; 4; 5; 6] 0; mkHop false false 0 0 0 [0; 0; 0; 0; 0; 0] 0].

(** KNOWN FINDING C15/ohp-ignores-link-state, stated positively: there are a configuration, a
    link whose BFD session is not up, and a one-hop packet that is forwarded over that link. *)
Theorem C15_ohp_ignores_link_state :
  exists macq c ls ing p f e out,
    get_if c e = Some f /\ link_up ls (if_link f) = false /\
    if_up (iface_of (cfg_at c ls) e) = false /\
    process_ohp_at macq c ls ing p = Forward e out None.
Proof.
  exists ex_mac, ex_cfg, ex_links, InInt, ex_ohp.
  eexists. exists 2. eexists. vm_compute. repeat split; reflexivity.
Qed.
Print Assumptions C15_ohp_ignores_link_state.

(** The property's first clause over BOTH forwarding branches of [processPkt] ... *)
Definition C15_never_forwarded_statement : Prop :=
  forall macq c ls0 pre ing d post e out,
  nth_error (run_history2 macq c ls0 (pre ++ Ev2Data ing d :: post)) (count_data2 pre)
    = Some (Forward e out None) ->
  exists f, get_if c e = Some f /\ e <> 0 /\ link_up (links_after2 ls0 pre) (if_link f) = true.

(** ... is false for scion as it is (the faithful model carries the deviation) ... *)
Theorem C15_never_forwarded_statement_refuted : ~ C15_never_forwarded_statement.
Proof.
  intros H.
  assert (E : exists out,
             nth_error (run_history2 ex_mac ex_cfg ex_links ([] ++ Ev2Data InInt (DOhp ex_ohp) :: []))
                       (count_data2 []) = Some (Forward 2 out None)).
  { vm_compute. eexists. reflexivity. }
  destruct E as [out E]. destruct (H _ _ _ _ _ _ _ _ _ E) as (f & G & _ & U).
  vm_compute in G. injection G as <-. vm_compute in U. discriminate.
Qed.
Print Assumptions C15_never_forwarded_statement_refuted.

(** ... and holds for every data packet that is not a one-hop packet. *)
Theorem C15_never_forwarded_over_down_link_except_known :
  forall macq c ls0 pre ing d post e out,
  is_ohp d = false ->
  nth_error (run_history2 macq c ls0 (pre ++ Ev2Data ing d :: post)) (count_data2 pre)
    = Some (Forward e out None) ->
  exists f, get_if c e = Some f /\ e <> 0 /\ link_up (links_after2 ls0 pre) (if_link f) = true.
Proof.
  intros macq c ls0 pre ing d post e out K H. rewrite run_history2_nth in H. injection H as H.
  destruct d as [now p|p]; [|discriminate]. cbn [process_any] in H.
  eapply process_at_forward_up; eassumption.
Qed.
Print Assumptions C15_never_forwarded_over_down_link_except_known.

(** Second clause over the union: a SCION-path packet that reaches the up check while its
    egress link is down is answered by the SCMP request, in any history that may also contain
    one-hop packets. *)
Theorem C15_history_except_known : forall macq c ls0 pre now ing p post s,
  up_check_state macq c now ing p = Some s ->
  link_up (links_after2 ls0 pre) (if_link (egress_if c s)) = false ->
  nth_error (run_history2 macq c ls0 (pre ++ Ev2Data ing (DScion now p) :: post)) (count_data2 pre) =
    Some (SlowPath (SpScmp (if scope_eqb (if_scope (egress_if c s)) External
                            then ScmpExternalInterfaceDown else ScmpInternalConnectivityDown) 0 0)
                   (s_eg s) (s_p s)).
Proof.
  intros macq c ls0 pre now ing p post s U D. rewrite run_history2_nth. cbn [process_any].
  rewrite (process_at_down _ _ _ _ _ _ _ U D). reflexivity.
Qed.
Print Assumptions C15_history_except_known.

(** The oracle of the check is refuted on the model by a history with a one-hop packet
    (verdict 2 of the correspondence check, tagged ohp-ignores-link-state). *)
Theorem C15_oracle_holds_on_model_refuted : exists c ss macs pkts evs,
  snd (hist_check c macs pkts (init_links ss)
                  (with_model_obs c macs pkts (init_links ss) evs)) = false.
Proof.
  exists ex_cfg, [(2, 0)], [macc 7 1000 63 0 2 1108152157446], [ex_ohp], [HOhp InInt 0 Discard None].
  vm_compute. reflexivity.
Qed.
Print Assumptions C15_oracle_holds_on_model_refuted.

(** Router-originated replies: whatever the session states, the SCMP reply to a packet that
    the fast path hands to the slow path goes back over the link the packet arrived on; the
    fast-path decision that leads there does not look at that link's session either (a packet
    rejected before the up check: [C15_frame]). *)
Theorem C15_reply_over_ingress_link : forall macq c ls now ing p ty code ptr e out,
  process_at macq c ls now ing p = SlowPath (SpScmp ty code ptr) e out ->
  reply_link ing (process_at macq c ls now ing p) = Some (ing_link ing).
Proof. intros * H. rewrite H. reflexivity. Qed.
Print Assumptions C15_reply_over_ingress_link.
