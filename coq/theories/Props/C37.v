(** C37 — certificate renewal is granted only to the certified AS itself.
    Property theorems only; proofs are in Proofs/Renewal.v. *)
From Coq Require Import List NArith ZArith Bool Lia.
From Scion Require Import Lib.Check Model.PKIChain Model.Renewal Proofs.PKIChain Proofs.Renewal.
Import ListNotations.
Import PKIChain Renewal.
Local Open Scope N_scope.

(** Acceptance, exactly: *)
Theorem C37_accept_iff : forall ts r now,
  renewal_verify ts r now = true <->
  exists a c,
    r_parse_ok r = true
    /\ normalise (r_certs r) = Some [a; c]            (* two certificates forming a valid chain (CA first is swapped) *)
    /\ r_version r = 1 /\ r_nsigners r = 1
    /\ (r_sid r <> 0 /\ r_sid r = c_id a)           (* the SignerInfo names an envelope certificate: the AS certificate *)
    /\ client_chain_ok ts [a; c] now = true
    /\ r_type_data r = true /\ r_digest_ok r = true /\ (r_sig_key r = c_key a /\ r_sig_key r <> 0)
    /\ r_csr_parse r = true /\ ia_eqb (r_csr_ia r) (c_subject_ia a) = true
    /\ (r_csr_sig_key r = r_csr_key r /\ r_csr_sig_key r <> 0).
Proof.
  intros ts r now. rewrite renewal_verify_iff. split.
  - intros (a & c & A). destruct A. exists a, c. tauto.
  - intros (a & c & H). exists a, c.
    assert (V : validate_chain [a; c] = true).
    { destruct H as (_ & Nm & _). now destruct (normalise_some _ _ Nm). }
    constructor; tauto.
Qed.
Print Assumptions C37_accept_iff.

(** accepted only if: a CMS message with a single signer info *)
Theorem C37_accept_only_if_single_signer : forall ts r now,
  renewal_verify ts r now = true -> r_parse_ok r = true /\ r_nsigners r = 1 /\ r_version r = 1.
Proof. intros ts r now H. apply C37_accept_iff in H as (a & c & H). tauto. Qed.
Print Assumptions C37_accept_only_if_single_signer.

(** ... whose certificate is the AS certificate of the included chain (two
    certificates, AS then CA after normalisation, a valid chain) *)
Theorem C37_accept_only_if_signer_is_as : forall ts r now,
  renewal_verify ts r now = true ->
  exists a c, In a (r_certs r) /\ In c (r_certs r) /\ length (r_certs r) = 2%nat
    /\ validate_cert a = Some TAS /\ validate_cert c = Some TCA /\ validate_chain [a; c] = true
    /\ r_sid r = c_id a /\ r_sid r <> 0.
Proof.
  intros ts r now H. apply C37_accept_iff in H as (a & c & _ & Nm & _ & _ & (Snz & Sid) & _).
  destruct (normalise_members _ _ _ Nm) as [Ia Ic].
  destruct (normalise_some _ _ Nm) as (V & x & y & E & _).
  exists a, c. repeat split; auto.
  - now rewrite E.
  - apply validate_chain_iff in V as (a' & c' & Eq & Ha & _). now inversion Eq; subst.
  - apply validate_chain_iff in V as (a' & c' & Eq & _ & Hc & _). now inversion Eq; subst.
Qed.
Print Assumptions C37_accept_only_if_signer_is_as.

(** ... that chain verifies against the ISD's latest TRC, which is valid now, or
    — during its grace period — against the predecessor, which is valid now *)
Theorem C37_accept_only_if_chain_verifies : forall ts r now,
  renewal_verify ts r now = true ->
  exists a c isd asn t, normalise (r_certs r) = Some [a; c] /\ c_subject_ia a = IAOk isd asn
    /\ latest_trc ts isd = Some t /\ (t_nb t <= now <= t_na t)%Z
    /\ (verify_chain_trc [a; c] (Some t) now = true
        \/ (in_grace t now = true
            /\ exists g, find_trc ts isd (t_base t) (t_serial t - 1) = Some g
                 /\ (t_nb g <= now <= t_na g)%Z /\ verify_chain_trc [a; c] (Some g) now = true)).
Proof.
  intros ts r now H. apply C37_accept_iff in H as (a & c & _ & Nm & _ & _ & _ & Cl & _).
  apply client_chain_ok_iff in Cl as (a' & r' & isd & asn & t & Eq & I & L & C & K).
  inversion Eq; subst a' r'. exists a, c, isd, asn, t. repeat split; auto; try lia.
  destruct K as [K|(B & G & g & F & Cg & V)]; [now left|]. right. split.
  - unfold in_grace. rewrite B. cbn. apply contains_iff. lia.
  - exists g. auto.
Qed.
Print Assumptions C37_accept_only_if_chain_verifies.

(** ... the signature covers the request: content type data, the signed
    message digest is the digest of the payload, and the signature verifies under
    the key of the AS certificate *)
Theorem C37_accept_only_if_signature_covers : forall ts r now,
  renewal_verify ts r now = true ->
  exists a c, normalise (r_certs r) = Some [a; c]
    /\ r_type_data r = true /\ r_digest_ok r = true /\ r_sig_key r = c_key a /\ r_sig_key r <> 0.
Proof. intros ts r now H. apply C37_accept_iff in H as (a & c & H). exists a, c. tauto. Qed.
Print Assumptions C37_accept_only_if_signature_covers.

(** ... the request's subject ISD-AS equals the chain's *)
Theorem C37_accept_only_if_same_subject : forall ts r now,
  renewal_verify ts r now = true ->
  exists a c i s, normalise (r_certs r) = Some [a; c]
    /\ r_csr_ia r = IAOk i s /\ c_subject_ia a = IAOk i s.
Proof.
  intros ts r now H. apply C37_accept_iff in H as (a & c & H).
  destruct H as (_ & Nm & _ & _ & _ & _ & _ & _ & _ & _ & Ia & _).
  apply ia_eqb_iff in Ia as (i & s & E1 & E2). exists a, c, i, s. auto.
Qed.
Print Assumptions C37_accept_only_if_same_subject.

(** ... and the request's own signature is valid *)
Theorem C37_accept_only_if_csr_signed : forall ts r now,
  renewal_verify ts r now = true ->
  r_csr_parse r = true /\ r_csr_sig_key r = r_csr_key r /\ r_csr_sig_key r <> 0.
Proof. intros ts r now H. apply C37_accept_iff in H as (a & c & H). tauto. Qed.
Print Assumptions C37_accept_only_if_csr_signed.

(** Chains issued by the CA carry the requested key and subject, are valid
    chains signed with the CA key, start at the signing time and never outlive
    the CA certificate. *)
Theorem C37_issued : forall ca signer_key sig_ok now d q a,
  create_chain ca signer_key sig_ok now d q = Some a ->
  c_key a = q_key q /\ c_subject_ia a = q_ia q /\ c_subject a = q_subject q
  /\ validate_chain [a; ca] = true
  /\ c_signer a = c_key ca /\ c_issuer a = c_subject ca
  /\ c_nb a = now /\ c_na a = (now + d)%Z
  /\ (c_nb ca <= c_nb a)%Z /\ (c_na a <= c_na ca)%Z.
Proof.
  intros ca sk so now d q a H.
  destruct (create_chain_some _ _ _ _ _ _ _ H) as (K & I & Sj & Nb & Na & (B1 & B2) & V & S & Is & _).
  repeat split; auto; lia.
Qed.
Print Assumptions C37_issued.

(** The oracles evaluated on the implementation's observations hold on the model. *)
Theorem C37_oracle_renew_holds_on_model : forall ts r now,
  negb (renewal_verify ts r now) || spec_request_ok ts r now = true.
Proof.
  intros ts r now. destruct (renewal_verify ts r now) eqn:E; auto. cbn. now apply renewal_verify_spec.
Qed.
Print Assumptions C37_oracle_renew_holds_on_model.

Theorem C37_oracle_issue_holds_on_model : forall ca sk so now d q,
  issue_oracle ca q (create_chain ca sk so now d q) true = true.
Proof. exact issue_oracle_model. Qed.
Print Assumptions C37_oracle_issue_holds_on_model.

(** Non-vacuity: a correct request of AS 1-273 is accepted; the same request
    whose CSR names another AS, or that is signed with another key, is not;
    the CA issues a chain for it while its own validity allows. *)
Module Ex.
Definition ia110 := IAOk 1 272.
Definition sens := mkc 4 4 4 4 4 3 true true 4 0 false false false false [8] [1] false false 0 false ia110 ia110 (-900) 900.
Definition reg := mkc 5 5 5 5 5 3 true true 5 0 false false false false [8] [2] false false 0 false ia110 ia110 (-900) 900.
Definition rootA := mkc 1 1 1 1 1 3 true true 1 0 false false true false [8] [3] true true 1 false ia110 ia110 (-500) 500.
Definition ca := mkc 2 2 1 2 1 3 true true 2 1 false false true false [] [] true true 0 false ia110 ia110 (-300) 300.
Definition asc := mkc 3 3 2 3 2 3 true true 3 2 false false false true [1;2;8] [] false false 0 false (IAOk 1 273) ia110 (-200) 200.
Definition trc1 := mkt 1 1 1 1 (-400) 400 0 [sens; reg; rootA] 0 0.
Definition req := mkreq true [ca; asc] 1 1 3 true true 3 true (IAOk 1 273) 9 9.
Definition req_other_as := mkreq true [ca; asc] 1 1 3 true true 3 true (IAOk 1 274) 9 9.
Definition req_other_key := mkreq true [ca; asc] 1 1 3 true true 8 true (IAOk 1 273) 9 9.
Definition q := mkcsr 9 9 7 (IAOk 1 273).
End Ex.
Example C37_example :
  renewal_verify [Ex.trc1] Ex.req 0 = true
  /\ renewal_verify [Ex.trc1] Ex.req_other_as 0 = false
  /\ renewal_verify [Ex.trc1] Ex.req_other_key 0 = false
  /\ renewal_verify [Ex.trc1] Ex.req 201 = false
  /\ (match create_chain Ex.ca 2 true 0 250 Ex.q with Some a => (c_key a, c_na a) | None => (0, 0%Z) end) = (9, 250%Z)
  /\ create_chain Ex.ca 2 true 100 250 Ex.q = None.
Proof. vm_compute. repeat split; reflexivity. Qed.

(** The "no certificate named" sentinel 0 of [r_sid] is never accepted, even
    for an (impossible in the runner) AS certificate with handle 0. *)
Example C37_sid_zero_rejected :
  let asc0 := mkc 0 3 2 3 2 3 true true 3 2 false false false true [1;2;8] [] false false 0 false (IAOk 1 273) Ex.ia110 (-200) 200 in
  renewal_verify [Ex.trc1] (mkreq true [Ex.ca; asc0] 1 1 0 true true 3 true (IAOk 1 273) 9 9) 0 = false
  /\ validate_chain [asc0; Ex.ca] = true.
Proof. vm_compute. split; reflexivity. Qed.
