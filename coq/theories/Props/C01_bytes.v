(** C01 at the BYTE level — forwarded only along unexpired hop fields carrying the AS's MAC.
    Property theorems only: the record-level theorems of Props/C01.v transported through
    [RouterBytes.abstract] (commuting diagram, Props/C07_bytes.v), plus the statements about the
    MAC BYTES of the datagram (Proofs/RouterBytesLift.v).  [mac] is an arbitrary function, [raw]
    any byte string ([wf_bytes]: elements < 256), any configuration, time, ingress. *)
From Coq Require Import List NArith Bool.
From Scion Require Import Lib.Bytes Lib.BytesX Lib.Check.
From Scion Require Import Model.Router Proofs.Router Proofs.RouterInv Model.RouterTotal.
From Scion Require Import Model.RouterBytes Proofs.RouterBytesCodec Proofs.RouterBytes Proofs.RouterBytesLift.
From Scion Require Import Props.C01.
Import ListNotations.
Import RouterBytes.
Local Open Scope N_scope.

(** A byte string that is forwarded or delivered decodes (C18 decoders) to a packet whose current
    hop field is unexpired and whose 6 MAC BYTES in [raw] (offset = current hop pointer + 6) are
    what [mac] gives for the decoded SegID accumulator (after folding, where the router folds),
    timestamp, expiry and interface pair; at an effective cross-over likewise the first hop field
    of the next segment. *)
Theorem C01_bytes_forward_sound : forall qport mac c now ing raw e raw' d,
  wf_bytes raw ->
  process_bytes qport (total mac) c now ing raw = ForwardB e raw' d ->
  exists p i h, abstract qport raw = Some p /\ R.cur_inf p = Some i /\ R.cur_hop p = Some h /\
    firstn 6 (skipn (N.to_nat (R.hop_ptr p) + 6) raw) = R.h_mac h /\
    mac_valid mac (R.verif_info ing p i h) h /\ R.expired now i h = false /\
    (R.p_dst_ia p <> R.c_ia c -> R.eff_xover p = true ->
     exists i' h', R.nthN (R.p_infos p) (R.p_curr_inf p + 1) = Some i' /\
                   R.nthN (R.p_hops p) (R.p_curr_hf p + 1) = Some h' /\
                   firstn 6 (skipn (N.to_nat (R.hop_off p (R.p_curr_hf p + 1)) + 6) raw) = R.h_mac h' /\
                   mac_valid mac i' h' /\ R.expired now i' h' = false).
Proof.
  intros qport mac c now ing raw e raw' d W H.
  destruct (process_bytes_forward_inv qport c now ing _ raw e raw' d H) as (p & out & A & HP & _).
  destruct (C01_forward_sound mac c now ing p e out d HP) as (i & h & Hi & Hh & M & X & Nx).
  exists p, i, h. unfold abstract. rewrite A.
  repeat (split; [first [reflexivity | assumption]|]).
  split; [exact (mac_bytes qport raw p _ h W A Hh)|]. split; [exact M|]. split; [exact X|].
  intros ND XO. destruct (Nx ND XO) as (i' & h' & Hi' & Hh' & M' & X').
  exists i', h'. repeat (split; [assumption|]). split; [exact (mac_bytes qport raw p _ h' W A Hh')|]. auto.
Qed.
Print Assumptions C01_bytes_forward_sound.

(** Contrapositive: a byte string whose current hop field has expired or carries other MAC bytes
    is never forwarded nor delivered. *)
Theorem C01_bytes_bad_never_forwarded : forall qport mac c now ing raw p i h,
  abstract qport raw = Some p -> R.cur_inf p = Some i -> R.cur_hop p = Some h ->
  ~ mac_valid mac (R.verif_info ing p i h) h \/ R.expired now i h = true ->
  forall e raw' d, process_bytes qport (total mac) c now ing raw <> ForwardB e raw' d.
Proof.
  intros qport mac c now ing raw p i h Ap Hi Hh Bad e raw' d H.
  destruct (process_bytes_forward_inv qport c now ing _ raw e raw' d H) as (p' & out & A & HP & _).
  unfold abstract in Ap. rewrite A in Ap. injection Ap as ->.
  exact (C01_bad_never_forwarded mac c now ing p i h Hi Hh Bad e out d HP).
Qed.
Print Assumptions C01_bytes_bad_never_forwarded.

(** Forgery: alter exactly the 6 MAC bytes of the current hop field of ANY byte string that
    decodes ([set_mac]: bytes [hop_ptr+6, hop_ptr+12) replaced by [m], nothing else).  The altered
    datagram decodes to the same packet with that MAC, and it is forwarded or delivered ONLY IF
    [m] equals the MAC recomputed over the decoded fields (the SegID the router verifies against:
    against construction direction from an external link the carried SegID xor the first two
    bytes of [m] itself) — i.e. only if the attacker produced the AS's MAC. *)
Theorem C01_bytes_mac_forgery : forall qport mac c now ing raw p i h m,
  wf_bytes raw -> abstract qport raw = Some p -> R.cur_inf p = Some i -> R.cur_hop p = Some h ->
  length m = 6%nat -> wf_bytes m ->
  let raw2 := set_mac raw (N.to_nat (R.hop_ptr p) + 6) m in
  let p2 := replace_mac p (R.p_curr_hf p) h m in
  abstract qport raw2 = Some p2 /\
  forall e raw' d, process_bytes qport (total mac) c now ing raw2 = ForwardB e raw' d ->
    m = mac (R.i_segid (R.verif_info ing p2 i (with_mac h m))) (R.i_ts i) (R.h_exp h) (R.h_in h) (R.h_eg h) /\
    R.expired now i h = false.
Proof.
  intros qport mac c now ing raw p i h m W Ap Hi Hh Lm Wm raw2 p2.
  assert (A : abstract_res qport raw = ARec p).
  { unfold abstract in Ap. destruct (abstract_res qport raw); try discriminate. now injection Ap as ->. }
  pose proof (set_mac_abstract qport raw p (R.p_curr_hf p) h m W A Hh Lm Wm) as A2.
  fold (R.hop_ptr p) in A2. fold raw2 p2 in A2.
  split; [unfold abstract; now rewrite A2|].
  intros e raw' d H.
  destruct (process_bytes_forward_inv qport c now ing _ raw2 e raw' d H) as (p' & out & A' & HP & _).
  rewrite A2 in A'. injection A' as <-.
  assert (Hi2 : R.cur_inf p2 = Some i) by exact Hi.
  assert (Hh2 : R.cur_hop p2 = Some (with_mac h m)).
  { unfold R.cur_hop, p2, replace_mac. cbn [R.with_hops R.p_hops R.p_curr_hf]. now apply nthN_set_same with (y := h). }
  destruct (C01_forward_sound mac c now ing p2 e out d HP) as (i' & h' & Hi' & Hh' & M & X & _).
  rewrite Hi2 in Hi'. rewrite Hh2 in Hh'. injection Hi' as <-. injection Hh' as <-.
  split; [|exact X]. unfold mac_valid in M. cbn [with_mac R.h_mac R.h_exp R.h_in R.h_eg] in M.
  rewrite M at 1. f_equal. unfold R.verif_info. destruct (_ && _ && _); reflexivity.
Qed.
Print Assumptions C01_bytes_mac_forgery.

(** The SCMP answer designates the offending hop field BY ITS BYTE OFFSET in the datagram:
    an InvalidHopFieldMAC / PathExpired parameter problem carries the pointer
    [hop_off p k] = CmnHdrLen + address header + MetaLen + InfoLen*NumINF + HopLen*k of a hop
    field k of the received bytes that really is wrongly MACed / expired. *)
Theorem C01_bytes_scmp_designates_hop : forall qport mac c now ing raw code ptr e raw',
  process_bytes qport (total mac) c now ing raw =
    SlowPathB (R.SpScmp R.ScmpParameterProblem code ptr) e raw' ->
  code = R.CodeInvalidHopFieldMAC \/ code = R.CodePathExpired ->
  exists p out k, abstract qport raw = Some p /\ raw' = patch raw out /\ k = R.p_curr_hf out /\
    ptr = R.hop_off p k /\ k < R.num_hops p /\
    exists i h, R.nthN (R.p_infos out) (R.p_curr_inf out) = Some i /\ R.nthN (R.p_hops p) k = Some h /\
      (code = R.CodePathExpired -> R.expired now i h = true) /\
      (code = R.CodeInvalidHopFieldMAC -> ~ mac_valid mac i h).
Proof.
  intros qport mac c now ing raw code ptr e raw' H Hc.
  destruct (process_bytes_slow_inv qport _ c now ing raw _ e raw' H) as (p & out & A & HP & ->).
  destruct (C01_scmp_designates_hop mac c now ing p code ptr e out HP Hc) as (Eptr & Lt & i & h & Rest).
  exists p, out, (R.p_curr_hf out). unfold abstract. rewrite A.
  split; [reflexivity|]. split; [reflexivity|]. split; [reflexivity|].
  split; [rewrite Eptr; unfold R.hop_off, R.meta_off; reflexivity|].
  split; [exact Lt|]. exists i, h. exact Rest.
Qed.
Print Assumptions C01_bytes_scmp_designates_hop.

(** Non-vacuity (92-byte datagram around the transit packet of Props/C01.v): forwarded with its
    valid MAC (bytes 66..71 of the datagram); with only those 6 bytes altered ([set_mac]) it is
    answered with InvalidHopFieldMAC pointing at byte 60; with the forged bytes equal to the
    recomputed MAC it is forwarded again; an old timestamp gives PathExpired. *)
Definition good_mac : list N := ex_mac 5 1000 63 2 1.
Definition ex_raw : bytes := wrap (ex_pkt 1000 good_mac).
Definition run (now : N) (raw : bytes) : bresult :=
  process_bytes q0 (total ex_mac) ex_cfg now (R.InExt 2) raw.
Example C01_bytes_example :
  abstract q0 ex_raw = Some (ex_pkt 1000 good_mac) /\
  firstn 6 (skipn 66 ex_raw) = good_mac /\
  (match run 1000000000001 ex_raw with ForwardB 1 _ None => True | _ => False end) /\
  (match run 1000000000001 (set_mac ex_raw 66 [5; 232; 63; 2; 1; 8]) with
   | SlowPathB (R.SpScmp 4 51 60) _ _ => True | _ => False end) /\
  (match run 1000000000001 (set_mac (set_mac ex_raw 66 [0; 0; 0; 0; 0; 0]) 66 good_mac) with
   | ForwardB 1 _ None => True | _ => False end) /\
  (match run 30000000000000 ex_raw with SlowPathB (R.SpScmp 4 52 60) _ _ => True | _ => False end).
Proof. vm_compute. repeat split. Qed.
