(** C07 at the BYTE level — forwarded packets change only in the path's mutable state.
    Property theorems only; the work is in Proofs/RouterBytesCodec.v and Proofs/RouterBytes.v.

    [RouterBytes.process_bytes qport macq cfg now ingress raw] is the composition of the C18 header
    codec (byte strings -> SCION header, [scion.Raw] path, skipped HBH/E2E headers, L4 port) with
    the router core [Router.process_scion] on the decoded record, the output record's path header
    being written back into the ORIGINAL byte string.  All statements below quantify over EVERY
    byte string [raw] ([wf_bytes]: every element < 256), every configuration, time, ingress link,
    hop-field MAC function [mac] and quoted-port function [qport] (the only part of
    [dstScionPort] that is a parameter: the port of the packet quoted in an SCMP error message).

    Reserved bits (known findings c07-meta-rsv-cleared / c07-info-rsv-cleared of Props/C07.v): the
    model is FAITHFUL, i.e. [IncPath] / [SetInfoField] clear them.  [C07_bytes_frame] therefore
    states the frame with the reserved-bit offsets INCLUDED in the allowed set
    ([RouterBytes.rsv_offsets]), [C07_bytes_frame_except_known] states the frame the property
    asks for (allowed = first meta byte + SegID bytes) for packets whose reserved bits are zero,
    and [C07_bytes_frame_refuted] / [C07_bytes_info_rsv_refuted] exhibit byte strings on which
    the property's frame fails. *)
From Coq Require Import List NArith Bool.
From Scion Require Import Lib.Bytes Lib.BytesX Lib.Check.
From Scion Require Import Model.Router Proofs.Router Proofs.RouterInv Model.RouterTotal.
From Scion Require Import Model.RouterBytes Proofs.RouterBytesCodec Proofs.RouterBytes.
From Scion Require Import Props.C01 Props.C07.
Import ListNotations.
Import RouterBytes.
Local Open Scope N_scope.

(** The commuting diagram: on every byte string that abstracts to a record, the router on bytes
    IS the record-level router on that record (output bytes = input bytes with the path header
    of the output record).  Every record-level theorem (C01, C05, C06, C07, C08) therefore
    transfers to bytes. *)
Theorem C07_bytes_commute : forall qport mq c now ing raw p,
  abstract qport raw = Some p ->
  process_bytes qport mq c now ing raw = lift raw (R.process mq c now ing p).
Proof. intros. now apply process_bytes_commute. Qed.
Print Assumptions C07_bytes_commute.

(** The frame, faithful form.  If the router forwards [raw] as [raw'] then: both abstract to
    records [p], [out] related by the record-level router; the LENGTH is unchanged; EVERY byte
    offset at which [raw'] differs from [raw] is the first byte of the path meta header
    (CurrINF|CurrHF), a SegID byte of the info field that is current before / after the step
    ([Router.allowed_offsets]), or one of the reserved-bit bytes the re-serialization clears
    ([rsv_offsets]: second meta byte, first two bytes of those info fields); and the changed
    bytes have the prescribed values: the pointer byte is CurrINF*64+CurrHF of a pointer advanced
    by 0, 1 or 2 hops with CurrINF following, every SegID is the big-endian encoding of the old
    one possibly xor-ed with the first two MAC bytes of a traversed hop field ([exact_ok]). *)
Theorem C07_bytes_frame : forall qport mac c now ing raw e raw' d,
  wf_bytes raw ->
  process_bytes qport (total mac) c now ing raw = ForwardB e raw' d ->
  exists p out,
    abstract qport raw = Some p /\ abstract qport raw' = Some out /\
    R.process (total mac) c now ing p = R.Forward e out d /\
    length raw' = length raw /\
    (forall o, R.nthN raw' o <> R.nthN raw o ->
       R.memN o (R.allowed_offsets p ++ rsv_offsets p) = true) /\
    R.exact_ok p out = true /\
    R.nthN raw' (R.meta_off p) = Some (R.p_curr_inf out * 64 + R.p_curr_hf out) /\
    (forall k i', R.nthN (R.p_infos out) k = Some i' ->
       R.nthN raw' (R.inf_off p k + 2) = Some (R.i_segid i' / 256) /\
       R.nthN raw' (R.inf_off p k + 3) = Some (R.i_segid i' mod 256)).
Proof.
  intros qport mac c now ing raw e raw' d W H.
  destruct (process_bytes_forward_inv qport c now ing _ raw e raw' d H) as (p & out & A & HP & ->).
  destruct (forward_bytes qport mac c now ing raw p e out d W A HP)
    as (_ & _ & _ & _ & _ & _ & Sh & _ & _ & _ & _ & _ & A' & _).
  destruct (immutable_core qport mac c now ing raw p e out d W A HP) as (Len & _).
  destruct (values_core qport mac c now ing raw p e out d W A HP) as (V0 & V1).
  exists p, out. unfold abstract. rewrite A, A'.
  repeat (split; [first [reflexivity | assumption]|]).
  split.
  { intros o Ho. rewrite memN_app.
    destruct (frame_core qport mac c now ing raw p e out d W A HP o Ho) as [F | [F _]]; rewrite F;
      [reflexivity | apply orb_true_r]. }
  split; [now apply shape_exact|]. split; assumption.
Qed.
Print Assumptions C07_bytes_frame.

(** The frame the property asks for: for a packet whose reserved bits (path meta header, info
    fields) are zero, the forwarded bytes differ from the received ones ONLY in the pointer byte
    of the meta header and the two SegID bytes of the info field(s) current before / after. *)
Theorem C07_bytes_frame_except_known : forall qport mac c now ing raw e raw' d p,
  wf_bytes raw ->
  process_bytes qport (total mac) c now ing raw = ForwardB e raw' d ->
  abstract qport raw = Some p -> R.rsv_clear p = true ->
  forall o, R.nthN raw' o <> R.nthN raw o -> R.memN o (R.allowed_offsets p) = true.
Proof.
  intros qport mac c now ing raw e raw' d p W H Ap RC o Ho.
  destruct (process_bytes_forward_inv qport c now ing _ raw e raw' d H) as (p' & out & A & HP & ->).
  unfold abstract in Ap. rewrite A in Ap. injection Ap as ->.
  destruct (frame_core qport mac c now ing raw p e out d W A HP o Ho) as [F | [_ K]]; [exact F|].
  unfold known in K. congruence.
Qed.
Print Assumptions C07_bytes_frame_except_known.

(** Everything else is untouched, as byte ranges: the whole common header (version, traffic
    class, flow id, next header, HdrLen, PayloadLen, path type, address types) and the address
    header (both ISD-AS numbers, both host addresses) = the first [meta_off] bytes; all hop
    fields, any HdrLen slack, the extension headers, the L4 header and the payload = everything
    from the first hop field on; and inside the meta header / info fields every byte outside the
    (faithful) allowed set. *)
Theorem C07_bytes_immutable : forall qport mac c now ing raw e raw' d p,
  wf_bytes raw ->
  process_bytes qport (total mac) c now ing raw = ForwardB e raw' d ->
  abstract qport raw = Some p ->
  firstn (N.to_nat (R.meta_off p)) raw' = firstn (N.to_nat (R.meta_off p)) raw /\
  skipn (N.to_nat (R.hop_off p 0)) raw' = skipn (N.to_nat (R.hop_off p 0)) raw /\
  (forall o, R.memN o (R.allowed_offsets p ++ rsv_offsets p) = false -> R.nthN raw' o = R.nthN raw o).
Proof.
  intros qport mac c now ing raw e raw' d p W H Ap.
  destruct (process_bytes_forward_inv qport c now ing _ raw e raw' d H) as (p' & out & A & HP & ->).
  unfold abstract in Ap. rewrite A in Ap. injection Ap as ->.
  destruct (immutable_core qport mac c now ing raw p e out d W A HP) as (_ & I1 & I2).
  split; [exact I1|]. split; [exact I2|].
  intros o Ho.
  assert (Dec : forall a b : option N, {a = b} + {a <> b}) by (repeat decide equality).
  destruct (Dec (R.nthN (patch raw out) o) (R.nthN raw o)) as [E|NE]; [exact E|]. exfalso.
  rewrite memN_app in Ho. apply orb_false_iff in Ho as [H1 H2].
  destruct (frame_core qport mac c now ing raw p e out d W A HP o NE) as [F | [F _]]; congruence.
Qed.
Print Assumptions C07_bytes_immutable.

(** The oracle that [RouterBytes.bcheck] evaluates on the IMPLEMENTATION's output bytes (same
    length, differing offsets within [allowed_offsets], output decodes again to a record that is
    frame-related with the prescribed values, well-formed, consistent geometry) holds on the
    model's own output for every byte string outside the known-finding class. *)
Theorem C07_bytes_oracle_holds_on_model_except_known : forall qport mac c now ing raw,
  wf_bytes raw ->
  (forall p, abstract qport raw = Some p -> R.rsv_clear p = true) ->
  bytes_ok qport raw (process_bytes qport (total mac) c now ing raw) = true.
Proof.
  intros qport mac c now ing raw W RC.
  pose proof (process_bytes_no_panic qport c now ing (total mac) raw W) as NP.
  unfold process_bytes in *. destruct (abstract_res qport raw) as [| | |p] eqn:A; try reflexivity.
  - congruence.
  - destruct (R.process_scion (total mac) c now ing p) as [| | |e out d| | |] eqn:E; cbn [lift bytes_ok] in *;
      try reflexivity; try congruence.
    apply (forward_ok_model qport mac c now ing raw p e out d W); [|exact A | exact E].
    apply RC. unfold abstract. now rewrite A.
Qed.
Print Assumptions C07_bytes_oracle_holds_on_model_except_known.

(** Transfer of a record-level theorem through the diagram (C01): a byte string the router
    forwards or delivers decodes to a packet whose current hop field carries the MAC the AS key
    gives and has not expired (and likewise the next one at an effective cross-over). *)
Corollary C01_bytes_forward_sound : forall qport mac c now ing raw e raw' d,
  process_bytes qport (total mac) c now ing raw = ForwardB e raw' d ->
  exists p i h, abstract qport raw = Some p /\
    R.cur_inf p = Some i /\ R.cur_hop p = Some h /\
    mac_valid mac (R.verif_info ing p i h) h /\ R.expired now i h = false.
Proof.
  intros qport mac c now ing raw e raw' d H.
  destruct (process_bytes_forward_inv qport c now ing _ raw e raw' d H) as (p & out & A & HP & _).
  destruct (C01_forward_sound mac c now ing p e out d HP) as (i & h & Hi & Hh & M & X & _).
  exists p, i, h. unfold abstract. rewrite A. auto.
Qed.
Print Assumptions C01_bytes_forward_sound.

(** Known findings at the byte level (faithful model): with reserved bits set in the path meta
    header ... *)
Definition ex_raw (mr ir : N) : bytes :=
  be 4 0 ++ [17; 21; 0; 8; 1; 0; 0; 0] ++ be 8 500 ++ be 8 600 ++ [1; 1; 1; 1] ++ [2; 2; 2; 2] ++
  enc_path (ex_pkt mr ir) ++ [0; 5; 0; 9; 0; 8; 0; 0].
Definition q0 : N -> bytes -> option N := fun _ _ => None.

Theorem C07_bytes_frame_refuted : exists qport mac c now ing raw e raw' d p o,
  wf_bytes raw /\ process_bytes qport (total mac) c now ing raw = ForwardB e raw' d /\
  abstract qport raw = Some p /\
  R.nthN raw' o <> R.nthN raw o /\ R.memN o (R.allowed_offsets p) = false.
Proof.
  exists q0, ex_mac, ex_cfg, 1000000000001, (R.InExt 2), (ex_raw 9 0).
  eexists; eexists; eexists; eexists. exists 37.
  split; [apply wf_bytesb_spec; vm_compute; reflexivity|].
  split; [vm_compute; reflexivity|]. split; [vm_compute; reflexivity|].
  split; [vm_compute; discriminate | vm_compute; reflexivity].
Qed.
Print Assumptions C07_bytes_frame_refuted.

(** ... or in the info field whose SegID is updated (meta header clean), the forwarded bytes
    differ from the received ones in those bits as well. *)
Theorem C07_bytes_info_rsv_refuted : exists qport mac c now ing raw e raw' d p o,
  wf_bytes raw /\ process_bytes qport (total mac) c now ing raw = ForwardB e raw' d /\
  abstract qport raw = Some p /\ R.p_meta_rsv p = 0 /\
  R.nthN raw' o <> R.nthN raw o /\ R.memN o (R.allowed_offsets p) = false.
Proof.
  exists q0, ex_mac, ex_cfg, 1000000000001, (R.InExt 2), (ex_raw 0 1025).
  eexists; eexists; eexists; eexists. exists 40.
  split; [apply wf_bytesb_spec; vm_compute; reflexivity|].
  split; [vm_compute; reflexivity|]. split; [vm_compute; reflexivity|]. split; [reflexivity|].
  split; [vm_compute; discriminate | vm_compute; reflexivity].
Qed.
Print Assumptions C07_bytes_info_rsv_refuted.

(** Non-vacuity: the 92-byte packet [ex_raw 0 0] (IPv4 hosts, one segment of three hop fields,
    UDP payload) abstracts to the record of Props/C07.v's example and is forwarded with exactly
    the bytes 36 (pointer), 42, 43 (SegID) changed; the byte-level oracle accepts the output. *)
Example C07_bytes_example :
  abstract q0 (ex_raw 0 0) = Some (ex_pkt 0 0) /\
  match process_bytes q0 (total ex_mac) ex_cfg 1000000000001 (R.InExt 2) (ex_raw 0 0) with
  | ForwardB 1 raw' None =>
    diff_offsets (ex_raw 0 0) raw' = [36; 42; 43] /\ length raw' = 92%nat /\
    bytes_ok q0 (ex_raw 0 0) (ForwardB 1 raw' None) = true
  | _ => False
  end.
Proof. vm_compute. repeat split. Qed.

(* built together with this property: the elaboration hints of the generated case files *)
From Scion Require Lib.RouterBytesCases.
