(** C12 — one-hop paths are issued and completed only between the right neighbours.
    Property theorems only (lemmas: Proofs/RouterOHP.v, Proofs/Router.v).  [mac] is an arbitrary
    function (segid, timestamp, exptime, cons_ingress, cons_egress) -> MAC bytes; "valid MAC" is
    equality of the carried bytes with the recomputation, no cryptographic assumption.
    [process_ohp] = scionPacketProcessor.processOHP followed by the forwarding step of
    runProcessor; [process_scion] = the fast path for SCION-type paths (shared router core). *)
From Coq Require Import List NArith Bool.
From Scion Require Import Lib.Check Model.Router Proofs.Router Model.RouterOHP Proofs.RouterOHP.
Import ListNotations.
Import Router RouterOHP.
Local Open Scope N_scope.

(** A one-hop packet received from inside the AS (internal or sibling link) is sent out only if
    its ConsDir flag is set, its source is the local AS, the first hop field carries the MAC the
    AS key gives for the info field, the destination is the (configured, non-zero) neighbour
    behind the first hop's egress interface; it then leaves through exactly that interface. *)
Theorem C12_out : forall mac c ing p e out d,
  from0 ing = true ->
  process_ohp (total mac) c ing p = Forward e out d ->
  exists i h1 h2, ohp_shape p = Some (i, h1, h2) /\ i_consdir i = true /\
    p_src_ia p = c_ia c /\ mac_valid mac i h1 /\
    nbr_of c (h_eg h1) = p_dst_ia p /\ p_dst_ia p <> 0 /\ e = h_eg h1 /\ d = None.
Proof.
  intros mac c ing p e out d F H.
  destruct (process_ohp_out_only mac c ing p e out d F H)
    as (i & h1 & h2 & A & B & C & D & E & G & I & J & _).
  exists i, h1, h2. repeat split; assumption.
Qed.
Print Assumptions C12_out.

(** Contrapositive, spelled out: wrong source, wrong MAC or a destination that is not the
    neighbour behind the egress interface => never sent. *)
Theorem C12_out_never : forall mac c ing p i h1 h2,
  from0 ing = true -> ohp_shape p = Some (i, h1, h2) ->
  p_src_ia p <> c_ia c \/ ~ mac_valid mac i h1 \/ nbr_of c (h_eg h1) <> p_dst_ia p \/ p_dst_ia p = 0 ->
  forall e out d, process_ohp (total mac) c ing p <> Forward e out d.
Proof.
  intros mac c ing p i h1 h2 F Sh Bad e out d H.
  destruct (C12_out mac c ing p e out d F H) as (i' & h1' & h2' & Sh' & _ & A & B & C & D & _).
  rewrite Sh in Sh'. injection Sh' as <- <- <-.
  destruct Bad as [Bad | [Bad | [Bad | Bad]]]; contradiction.
Qed.
Print Assumptions C12_out_never.

(** Conversely such a packet does leave when its PayloadLen is consistent (the one-hop fast
    path has no further condition: no expiry check, no link-state check). *)
Theorem C12_out_exact : forall mac c ing p i h1 h2 f,
  from0 ing = true -> ohp_shape p = Some (i, h1, h2) -> i_consdir i = true ->
  p_pay_len p = p_pay_actual p ->
  p_src_ia p = c_ia c -> nbr_of c (h_eg h1) = p_dst_ia p -> p_dst_ia p <> 0 ->
  mac_valid mac i h1 -> get_if c (h_eg h1) = Some f ->
  process_ohp (total mac) c ing p = Forward (h_eg h1) (out_pkt p i h1 h2) None.
Proof. exact process_ohp_out_exact. Qed.
Print Assumptions C12_out_exact.

(** A one-hop packet received over an external interface is accepted (delivered inside the AS)
    only if its destination is the local AS and its source is the neighbour configured for the
    receiving interface. *)
Theorem C12_in : forall mac c ing p e out d,
  from0 ing = false ->
  process_ohp (total mac) c ing p = Forward e out d ->
  p_dst_ia p = c_ia c /\ p_src_ia p = nbr_of c (ing_ifid ing) /\ e = 0 /\ d <> None.
Proof.
  intros mac c ing p e out d F H.
  destruct (process_ohp_in_only mac c ing p e out d F H) as (i & h1 & h2 & _ & _ & A & B & C & D & _).
  auto.
Qed.
Print Assumptions C12_in.

(** The second hop field of an accepted packet is a hop field of this AS: ConsIngress = the
    receiving interface, ConsEgress = 0, ExpTime of the first hop, no alert flags, and its MAC
    is the AS key's MAC over the SegID and timestamp left in the info field. *)
Theorem C12_second_hop_valid : forall mac c ing p e out d,
  from0 ing = false ->
  process_ohp (total mac) c ing p = Forward e out d ->
  exists i h1 h2 i' h1' h2',
    ohp_shape p = Some (i, h1, h2) /\ ohp_shape out = Some (i', h1', h2') /\
    h_in h2' = ing_ifid ing /\ h_eg h2' = 0 /\ h_exp h2' = h_exp h1 /\
    h_ialert h2' = false /\ h_ealert h2' = false /\
    mac_valid mac i' h2' /\ i_segid i' = i_segid i /\ i_ts i' = i_ts i.
Proof.
  intros mac c ing p e out d F H.
  destruct (process_ohp_in_only mac c ing p e out d F H) as (i & h1 & h2 & Sh & _ & _ & _ & _ & _ & ->).
  exists i, h1, h2, (ser_info i), (ser_hop h1), (in_second mac ing i h1).
  repeat split; try assumption; reflexivity.
Qed.
Print Assumptions C12_second_hop_valid.

(** The reversed completed path (onehop.Path.Reverse: one segment of two hops, against
    construction direction) is accepted by the router that completed it: a reply sent from
    inside that AS (source = the AS, consistent length, usable source host, hop not expired,
    interface up) leaves through the interface the one-hop packet came in on. *)
Theorem C12_reverse_accepted_second : forall macB cB now k p1 e out d hdr rev,
  from0 (InExt k) = false ->
  process_ohp (total macB) cB (InExt k) p1 = Forward e out d ->
  ohp_reverse out = Some rev ->
  revB_cond cB now k (reply_with hdr rev) = true ->
  process_scion (total macB) cB now InInt (reply_with hdr rev) =
    Forward k (inc_path (reply_with hdr rev)) None.
Proof. intros macB cB. exact (reverse_accepted_B macB cB). Qed.
Print Assumptions C12_reverse_accepted_second.

(** ... and then by the router that issued the first hop field, whatever the keys of the two
    ASes are: every check of the SCION fast path passes (ingress interface, source / destination
    AS, SegID folding, MAC, expiry as assumed) and the result is the local delivery decision. *)
Theorem C12_reverse_accepted_first : forall macA macB cA cB now ingA k p0 e p1 d1 e2 p2 d2 rev hdr,
  from0 ingA = true -> from0 (InExt k) = false ->
  process_ohp (total macA) cA ingA p0 = Forward e p1 d1 ->
  process_ohp (total macB) cB (InExt k) p1 = Forward e2 p2 d2 ->
  ohp_reverse p2 = Some rev ->
  revA_cond cA now (inc_path (reply_with hdr rev)) = true ->
  exists s,
    ingress_part (total macA) cA now (InExt e) (inc_path (reply_with hdr rev)) = Ok s /\
    process_scion (total macA) cA now (InExt e) (inc_path (reply_with hdr rev)) =
      resolve_inbound cA s.
Proof. intros macA macB cA cB. exact (reverse_accepted_A macA macB cA cB). Qed.
Print Assumptions C12_reverse_accepted_first.

(** Both together: the whole exchange A -> B -> (reverse) -> B -> A. *)
Theorem C12_reverse_accepted : forall macA macB cA cB nowB nowA ingA k p0 e p1 d1 e2 p2 d2 rev hdr,
  from0 ingA = true -> from0 (InExt k) = false ->
  process_ohp (total macA) cA ingA p0 = Forward e p1 d1 ->
  process_ohp (total macB) cB (InExt k) p1 = Forward e2 p2 d2 ->
  ohp_reverse p2 = Some rev ->
  revB_cond cB nowB k (reply_with hdr rev) = true ->
  revA_cond cA nowA (inc_path (reply_with hdr rev)) = true ->
  exists rp s,
    process_scion (total macB) cB nowB InInt (reply_with hdr rev) = Forward k rp None /\
    process_scion (total macA) cA nowA (InExt e) rp = resolve_inbound cA s /\
    delivery_outcome rp (resolve_inbound cA s) = true.
Proof.
  intros macA macB cA cB nowB nowA ingA k p0 e p1 d1 e2 p2 d2 rev hdr FA FB HA HB HR CB CA.
  exists (inc_path (reply_with hdr rev)).
  destruct (C12_reverse_accepted_first macA macB cA cB nowA ingA k p0 e p1 d1 e2 p2 d2 rev hdr
              FA FB HA HB HR CA) as (s & I & P).
  exists s. split; [|split].
  - exact (C12_reverse_accepted_second macB cB nowB k p1 e2 p2 d2 hdr rev FB HB HR CB).
  - exact P.
  - destruct (ingress_part_ok _ _ _ _ _ _ I) as (i & h & F).
    apply delivery_outcome_resolve.
    + exact (if_eg _ _ _ _ _ _ _ _ F).
    + rewrite (if_pkt _ _ _ _ _ _ _ _ F). now destruct (folds _ _ _).
Qed.
Print Assumptions C12_reverse_accepted.

(** Frame.  Leaving the AS: addresses, lengths and upper layer unchanged; the path is the
    received one with the first hop's MAC prefix folded into the SegID (and re-serialized:
    reserved bits cleared).  Entering: info field and first hop field as received (re-serialized),
    second hop field replaced. *)
Theorem C12_frame : forall mac c ing p e out d,
  process_ohp (total mac) c ing p = Forward e out d ->
  exists i h1 h2, ohp_shape p = Some (i, h1, h2) /\ same_but_path p out = true /\
    if from0 ing
    then ohp_shape out = Some (ser_info (upd_segid i h1), ser_hop h1, ser_hop h2)
    else ohp_shape out = Some (ser_info i, ser_hop h1, in_second mac ing i h1).
Proof.
  intros mac c ing p e out d H.
  destruct (from0 ing) eqn:F.
  - destruct (process_ohp_out_only mac c ing p e out d F H)
      as (i & h1 & h2 & Sh & _ & _ & _ & _ & _ & _ & _ & ->).
    exists i, h1, h2. split; [assumption|]. split; [apply same_but_path_with_path | reflexivity].
  - destruct (process_ohp_in_only mac c ing p e out d F H) as (i & h1 & h2 & Sh & _ & _ & _ & _ & _ & ->).
    exists i, h1, h2. split; [assumption|]. split; [apply same_but_path_with_path | reflexivity].
Qed.
Print Assumptions C12_frame.

(** With clear reserved bits nothing but the SegID (leaving) resp. the second hop field
    (entering) differs from the received packet. *)
Theorem C12_frame_clear : forall mac c ing p e out d i h1 h2,
  process_ohp (total mac) c ing p = Forward e out d ->
  ohp_shape p = Some (i, h1, h2) -> i_rsv i = 0 -> h_rsv h1 = 0 -> h_rsv h2 = 0 ->
  if from0 ing
  then ohp_shape out = Some (upd_segid i h1, h1, h2)
  else ohp_shape out = Some (i, h1, in_second mac ing i h1).
Proof.
  intros mac c ing p e out d i h1 h2 H Sh Ri R1 R2.
  destruct (C12_frame mac c ing p e out d H) as (i' & h1' & h2' & Sh' & _ & Fr).
  rewrite Sh in Sh'. injection Sh' as <- <- <-.
  rewrite (ser_hop_clear _ R1), (ser_hop_clear _ R2) in Fr.
  assert (ser_info i = i) as Ei by (destruct i; cbn in *; subst; reflexivity).
  assert (ser_info (upd_segid i h1) = upd_segid i h1) as Eu
    by (destruct i; cbn in *; subst; reflexivity).
  rewrite Ei, Eu in Fr. exact Fr.
Qed.
Print Assumptions C12_frame_clear.

(** One-hop packets with a BFD upper layer go to the link's BFD session, and packets whose
    HdrLen announces more than the one-hop path occupies are refused: neither is forwarded. *)
Theorem C12_bfd_and_slack_not_forwarded : forall mac c ing b sl p session e out d,
  (forall e' o' d', session <> Forward e' o' d') ->
  dispatch_ohp (total mac) c ing b session sl p = Forward e out d ->
  b = false /\ sl = 0 /\ process_ohp (total mac) c ing p = Forward e out d.
Proof.
  intros mac c ing b sl p session e out d NS H. unfold dispatch_ohp in H.
  destruct b; [exfalso; eapply NS; eassumption|].
  apply process_ohp_slack_forward in H as [-> H]. auto.
Qed.
Print Assumptions C12_bfd_and_slack_not_forwarded.

(** The one-hop path bfdSend builds for interface [ifid] is one the router lets out: local
    source, ConsDir, valid MAC; with the neighbour as destination it is forwarded through
    [ifid] by [process_ohp] itself. *)
Theorem C12_bfd_packet : forall mac c ing ifid now_s p i h1 h2 f,
  bfd_path (total mac) ifid now_s = Some (i, h1, h2) ->
  from0 ing = true -> p_pay_len p = p_pay_actual p ->
  p_src_ia p = c_ia c -> nbr_of c ifid = p_dst_ia p -> p_dst_ia p <> 0 ->
  get_if c ifid = Some f ->
  bfd_ok (total mac) c ifid (p_dst_ia p) (with_path p i h1 h2) = true /\
  exists out, process_ohp (total mac) c ing (with_path p i h1 h2) = Forward ifid out None.
Proof.
  intros mac c ing ifid now_s p i h1 h2 f B F Hl Hs Hn Hz Hg. split.
  - eapply bfd_path_ok; eauto.
  - unfold bfd_path, mac_of, total in B. injection B as <- <- <-.
    eexists.
    pose proof (process_ohp_out_exact mac c ing
                  (with_path p (bfd_info now_s)
                     (bfd_first ifid (mac 0 (now_s - BfdTsBack) DefaultExpTime 0 ifid)) zero_hop)
                  _ _ _ f F (shape_with_path _ _ _ _)) as L.
    cbn [bfd_first h_eg] in L. apply L; try assumption; reflexivity.
Qed.
Print Assumptions C12_bfd_packet.

(** The oracles evaluated by the correspondence check hold on the model for every input
    (the byte-diff list being the one the records imply). *)
Theorem C12_oracle_holds_on_model : forall macA macB cA cB ing ingA b sl p p0 p1 hdr rp len crsv now k,
  match dispatch_ohp (total macA) cA ing b Discard sl p with
  | Forward e out d =>
    ohp_ok (total macA) cA ing b sl p (Forward e out d) (ohp_record_diff p out) len len crsv = true
  | r => ohp_ok (total macA) cA ing b sl p r [] len len crsv = true
  end /\
  revB_ok (total macB) cB now k p1 rp (model_revB (total macB) cB now k p1 rp) = true /\
  revA_ok (total macA) (total macB) cA cB now k ingA p0 hdr
          (model_revA (total macA) (total macB) cA cB now k ingA p0 hdr) = true.
Proof.
  intros. split; [apply ohp_ok_model|]. split; [apply revB_ok_model | apply revA_ok_model].
Qed.
Print Assumptions C12_oracle_holds_on_model.

(** Non-vacuity: AS 100 (interface 5 towards AS 200) sends a one-hop packet out, AS 200
    (interface 7 towards AS 100) completes it, the reversed path is accepted by both; a
    flipped MAC byte, a foreign source and a wrong neighbour are refused. *)
Definition ex_macA (sid ts e i g : N) : list N := [sid mod 256; ts mod 256; e; i mod 256; g mod 256; 7].
Definition ex_macB (sid ts e i g : N) : list N := [g mod 256; i mod 256; e; ts mod 256; sid mod 256; 9].
Definition ex_cfgA : cfg := mkCfg 100 [mkIf 5 External Child 200 true 5; mkIf 6 External Child 300 true 6]
                                  [] [10;0;0;1] 1024 65535 false.
Definition ex_cfgB : cfg := mkCfg 200 [mkIf 7 External Parent 100 true 7] [(2, ([10;0;9;9], 30252))]
                                  [10;0;0;2] 1024 65535 false.
Definition ex_p0 (src dst : N) (m : list N) : pkt :=
  mkPkt dst src 4 0 [0;2;0;0] [10;1;1;1] 8 8 (Some 2000) 0 0 0 0 0 0
        [mkInfo false true 5 1000 0]
        [mkHop false false 63 0 5 m 0; mkHop false false 0 0 0 [0;0;0;0;0;0] 0].
Definition ex_hdr : pkt :=
  mkPkt 100 200 0 0 [10;1;1;1] [10;0;9;9] 8 8 (Some 4000) 0 0 0 0 0 0 [] [].

Example C12_example :
  (match process_ohp (total ex_macA) ex_cfgA InInt (ex_p0 100 200 (ex_macA 5 1000 63 0 5)) with
   | Forward 5 p1 None =>
     match process_ohp (total ex_macB) ex_cfgB (InExt 7) p1 with
     | Forward 0 p2 (Some ([10;0;9;9], 30252)) =>
       match ohp_reverse p2 with
       | Some rev =>
         revB_cond ex_cfgB 1000000000001 7 (reply_with ex_hdr rev) = true /\
         match process_scion (total ex_macB) ex_cfgB 1000000000001 InInt (reply_with ex_hdr rev) with
         | Forward 7 rp None =>
           revA_cond ex_cfgA 1000000000001 rp = true /\
           match process_scion (total ex_macA) ex_cfgA 1000000000001 (InExt 5) rp with
           | Forward 0 _ (Some ([10;1;1;1], 4000)) => True
           | _ => False
           end
         | _ => False
         end
       | None => False
       end
     | _ => False
     end
   | _ => False
   end) /\
  process_ohp (total ex_macA) ex_cfgA InInt (ex_p0 100 200 [5;232;63;0;5;8]) = Discard /\
  process_ohp (total ex_macA) ex_cfgA InInt (ex_p0 101 200 (ex_macA 5 1000 63 0 5)) = Discard /\
  process_ohp (total ex_macA) ex_cfgA InInt (ex_p0 100 300 (ex_macA 5 1000 63 0 5)) = Discard /\
  process_ohp (total ex_macB) ex_cfgB (InExt 7) (ex_p0 300 200 [1;2;3;4;5;6]) = Discard.
Proof. vm_compute. repeat split. Qed.
