(** C07 — forwarded packets change only in the path's mutable state.
    Property theorems only (lemmas are in Proofs/Router.v).  Record level (decoded packet) plus
    the byte offsets given by the header geometry; SCION-type paths (one-hop paths are C12). *)
From Coq Require Import List NArith Bool.
From Scion Require Import Lib.Check Model.Router Proofs.Router.
Import ListNotations.
Import Router.
Local Open Scope N_scope.

(** Whatever the router forwards or delivers: addresses, address types, payload length fields,
    the L4 part, segment lengths and ALL hop fields are those of the received packet; in every
    info field the flags and the timestamp are unchanged, and an info field that is neither the
    current one nor (at an effective cross-over) the next one is unchanged altogether. No
    hypothesis on reserved bits is needed for this part. *)
Theorem C07_immutable : forall mac c now ing p e out d,
  process (total mac) c now ing p = Forward e out d ->
  p_dst_ia out = p_dst_ia p /\ p_src_ia out = p_src_ia p /\
  p_dst_type out = p_dst_type p /\ p_src_type out = p_src_type p /\
  p_dst_raw out = p_dst_raw p /\ p_src_raw out = p_src_raw p /\
  p_pay_len out = p_pay_len p /\ p_pay_actual out = p_pay_actual p /\ p_l4_port out = p_l4_port p /\
  p_seg0 out = p_seg0 p /\ p_seg1 out = p_seg1 p /\ p_seg2 out = p_seg2 p /\
  p_hops out = p_hops p /\ length (p_infos out) = length (p_infos p) /\
  (forall k x y, nthN (p_infos p) k = Some x -> nthN (p_infos out) k = Some y ->
     i_peer y = i_peer x /\ i_consdir y = i_consdir x /\ i_ts y = i_ts x /\
     (seg_changeable p k = false -> y = x)).
Proof.
  intros mac c now ing p e out d H. pose proof (forward_shape mac c now ing p e out d H) as Sh.
  destruct Sh as [S PI PT] eqn:ESh. destruct S.
  repeat (split; [assumption|]). split; [eapply pw_length; eassumption|].
  intros k x y. apply shape_infos. exact (Build_out_shape p out (Build_same_static p out
    ss1 ss2 ss3 ss4 ss5 ss6 ss7 ss8 ss9 ss10 ss11 ss12 ss13 ss14) PI PT).
Qed.
Print Assumptions C07_immutable.

(** The frame: for a packet whose reserved bits are zero the forwarded record equals the
    received one except for CurrINF/CurrHF and the SegID of the changeable info fields. *)
Theorem C07_frame_except_known : forall mac c now ing p e out d,
  rsv_clear p = true ->
  process (total mac) c now ing p = Forward e out d -> frame_ok p out = true.
Proof.
  intros mac c now ing p e out d R H. apply shape_frame; [|exact R].
  exact (forward_shape mac c now ing p e out d H).
Qed.
Print Assumptions C07_frame_except_known.

(** The changed fields are confined to the prescribed values: the pointer advanced by at most one hop
    (two when this router both crosses over and is the egress router) with CurrINF following
    it, and a SegID is either the old one or the old one xor the first two MAC bytes of a traversed
    hop field.  This is a frame statement: WHEN a SegID must change is not part of it (a router that
    skipped an update would satisfy it); that is decided by the model = implementation comparison of
    every case and, end to end, by C02/C22 (a skipped update breaks the next MAC verification). *)
Theorem C07_exact : forall mac c now ing p e out d,
  process (total mac) c now ing p = Forward e out d -> exact_ok p out = true.
Proof.
  intros mac c now ing p e out d H. apply shape_exact. exact (forward_shape mac c now ing p e out d H).
Qed.
Print Assumptions C07_exact.

(** Byte level: the offsets (by header geometry) of all path-header fields in which the
    forwarded record differs from the received one lie in the allowed set: first byte of the
    path meta header, SegID bytes of the current info field and, at an effective cross-over,
    of the next one. *)
Theorem C07_offsets_except_known : forall mac c now ing p e out d,
  rsv_clear p = true ->
  process (total mac) c now ing p = Forward e out d ->
  forallb (fun o => memN o (allowed_offsets p)) (record_diff_offsets p out) = true.
Proof.
  intros mac c now ing p e out d R H. apply shape_offsets; [|exact R].
  exact (forward_shape mac c now ing p e out d H).
Qed.
Print Assumptions C07_offsets_except_known.

(** The oracle evaluated on the implementation's observations (with the byte diff the runner
    reports) holds on the model, outside the known finding (reserved bits set). *)
Theorem C07_oracle_holds_on_model_except_known : forall mac c now ing p len,
  rsv_clear p = true ->
  match process (total mac) c now ing p with
  | Forward e out d => c07_ok p (Forward e out d) (record_diff_offsets p out) len len = true
  | r => c07_ok p r [] len len = true
  end.
Proof. exact c07_ok_model_except_known. Qed.
Print Assumptions C07_oracle_holds_on_model_except_known.

(** Known finding (faithful model): with reserved bits set in the path meta header or in the
    info field whose SegID is updated, the forwarded packet differs from the received one in
    those bits as well (they are cleared). *)
Definition ex_mac (sid ts e i g : N) : list N := [sid mod 256; ts mod 256; e; i mod 256; g mod 256; 7].
Definition ex_cfg : cfg :=
  mkCfg 100 [mkIf 1 External Child 200 true 1; mkIf 2 External Parent 300 true 2]
        [] [10;0;0;1] 1024 65535 false.
Definition ex_pkt (meta_rsv inf_rsv : N) : pkt :=
  mkPkt 500 600 0 0 [1;1;1;1] [2;2;2;2] 8 8 (Some 9) 0 1 3 0 0 meta_rsv
        [mkInfo false true 5 1000 inf_rsv]
        [mkHop false false 63 0 9 [0;0;0;0;0;0] 0; mkHop false false 63 2 1 (ex_mac 5 1000 63 2 1) 0;
         mkHop false false 63 4 0 [0;0;0;0;0;0] 0].
Theorem C07_frame_refuted : exists mac c now ing p e out d,
  process (total mac) c now ing p = Forward e out d /\ frame_ok p out = false.
Proof.
  exists ex_mac, ex_cfg, 1000000000001, (InExt 2), (ex_pkt 9 0).
  eexists; eexists; eexists. split; [vm_compute; reflexivity | vm_compute; reflexivity].
Qed.
Print Assumptions C07_frame_refuted.

Theorem C07_info_rsv_refuted : exists mac c now ing p e out d,
  p_meta_rsv p = 0 /\ process (total mac) c now ing p = Forward e out d /\ frame_ok p out = false.
Proof.
  exists ex_mac, ex_cfg, 1000000000001, (InExt 2), (ex_pkt 0 513).
  eexists; eexists; eexists. split; [reflexivity|].
  split; [vm_compute; reflexivity | vm_compute; reflexivity].
Qed.
Print Assumptions C07_info_rsv_refuted.

(** Non-vacuity: the same packet without reserved bits is forwarded with exactly the first
    meta byte (offset 36) and the SegID bytes (offsets 42, 43) changed. *)
Example C07_example :
  match process (total ex_mac) ex_cfg 1000000000001 (InExt 2) (ex_pkt 0 0) with
  | Forward 1 out None =>
    frame_ok (ex_pkt 0 0) out = true /\ p_curr_hf out = 2 /\
    record_diff_offsets (ex_pkt 0 0) out = [36; 42; 43] /\ allowed_offsets (ex_pkt 0 0) = [36; 42; 43]
  | _ => False
  end.
Proof. vm_compute. repeat split. Qed.
