(** C04 — tampered hop or info fields prevent delivery.

    [Prov.tamper f idx v q] replaces one MAC-protected value of the packet [q]:
    a hop field's ConsIngress / ConsEgress / ExpTime / MAC ([idx] = hop index) or an
    info field's Timestamp / SegID ([idx] = info index).  [Prov.depends_on p f idx] is the
    first hop field whose MAC input depends on the value (the hop itself; for an
    info field the first hop of that segment slice — its SegID and timestamp
    reach every hop of the slice through the beta chain, C22, and the first one
    traversed is verified first).  [Prov.c04_ok p f idx w]: the walk [w] visits only ASes
    of hops 0..depends_on and ends with a router of one of them stopping the
    packet (discard or SCMP error handed to the slow path) — in particular
    nothing is delivered.

    The MAC is an arbitrary function; tampering is excluded only up to forgery:
    [Tamper.forged] says the router of the AS owning the dependent hop accepted
    the MAC carried by the altered packet for an input that differs from the
    one the AS created the hop field with (an existential forgery, for a
    cryptographic MAC an event of negligible probability; the harness treats
    the 2^-48 accident as not occurring). *)
From Coq Require Import List NArith Bool Arith Lia.
From Scion Require Import Lib.Check Model.Router Model.Network Model.Prov.
From Scion Require Import Proofs.ProvFacts Proofs.Forward Proofs.Tamper.
Import ListNotations.
Import Scion.Model.Router.Router Network Prov.
Local Open Scope N_scope.

(** Reduction: for every valid path, every position and every changed protected
    value — either the packet is stopped no later than at the AS owning the first
    dependent hop (and never delivered), or a forgery event occurred there. *)
Theorem C04_tamper_reduction : forall mac t now p pp f idx v,
  good mac t p -> endpoints_ok t p pp = true -> all_unexpired now p = true ->
  changed f idx v (render p pp 0 false) = true ->
  c04_ok p f idx (walk_from (macq_of mac) t now (render p pp 0 false)
                            (tamper f idx v (render p pp 0 false))) = true \/
  forged mac t p f idx v.
Proof. intros. now apply tamper_reduction. Qed.
Print Assumptions C04_tamper_reduction.

(** Absent a forgery event the packet is dropped or answered with an SCMP error no
    later than at the first router whose MAC input depends on the altered value. *)
Theorem C04_first_dependent_router : forall mac t now p pp f idx v,
  good mac t p -> endpoints_ok t p pp = true -> all_unexpired now p = true ->
  changed f idx v (render p pp 0 false) = true ->
  ~ forged mac t p f idx v ->
  c04_ok p f idx (walk_from (macq_of mac) t now (render p pp 0 false)
                            (tamper f idx v (render p pp 0 false))) = true.
Proof.
  intros mac t now p pp f idx v HG Hep Hexp Hch NF.
  destruct (tamper_reduction mac t now p pp HG Hep Hexp f idx v Hch) as [H|H]; [exact H|contradiction].
Qed.
Print Assumptions C04_first_dependent_router.

(** "never delivered", spelled out *)
Theorem C04_never_delivered : forall mac t now p pp f idx v,
  good mac t p -> endpoints_ok t p pp = true -> all_unexpired now p = true ->
  changed f idx v (render p pp 0 false) = true ->
  ~ forged mac t p f idx v ->
  forall a r ip port,
    snd (walk_from (macq_of mac) t now (render p pp 0 false) (tamper f idx v (render p pp 0 false)))
    <> Delivered a r ip port.
Proof.
  intros mac t now p pp f idx v HG Hep Hexp Hch NF a r ip port X.
  pose proof (C04_first_dependent_router mac t now p pp f idx v HG Hep Hexp Hch NF) as K.
  unfold c04_ok in K. apply andb_true_iff in K as [_ K]. rewrite X in K. discriminate.
Qed.
Print Assumptions C04_never_delivered.

(** * Non-vacuity: a collision-free toy MAC

    [toy] writes its input out (so it is injective) behind a constant two-byte prefix
    (so that the SegID accumulator does not depend on attacker-chosen MAC bytes).
    For it no forgery event is possible, and the conclusion is unconditional. *)
Definition toy (k s ts e i g : N) : list N := [0; 0; k; s; ts; e; i; g].

Lemma toy_inj k s ts e i g s' ts' e' i' g' :
  toy k s ts e i g = toy k s' ts' e' i' g' -> (s, ts, e, i, g) = (s', ts', e', i', g').
Proof. unfold toy. intros H. inversion H. reflexivity. Qed.

Lemma toy_prefix k s ts e i g : mac_prefix (toy k s ts e i g) = 0.
Proof. reflexivity. Qed.

Theorem C04_toy_no_forgery : forall t now p pp f idx v,
  good toy t p -> endpoints_ok t p pp = true -> all_unexpired now p = true ->
  changed f idx v (render p pp 0 false) = true ->
  ~ forged toy t p f idx v.
Proof.
  intros t now p pp f idx v HG Hep Hexp Hch (s' & ts' & M & Ne & Ts & S).
  pose proof (d_lt toy t now p pp HG Hep Hexp f idx v Hch) as Dl.
  pose proof (mac_fact _ _ _ HG (Tamper.d p f idx) Dl) as MF.
  assert (Sg : sigma p (Tamper.d p f idx) = 0) by (unfold sigma; rewrite MF; apply toy_prefix).
  assert (Px : mac_prefix (h_mac (hq p f idx v)) = 0) by (rewrite M; apply toy_prefix).
  assert (S' : s' = beta p (Tamper.d p f idx) \/
               (is_hop_field f = false /\ s' = i_segid (iq p f idx v 0 false))).
  { destruct S as [S|[S|S]]; auto. left. rewrite S, Sg, Px. now rewrite !N.lxor_0_r. }
  clear S. apply Ne.
  destruct (hq_cases p pp f idx v Hch) as [Hm|(Hf & He & Hi & Hg)].
  - (* the carried MAC is the original one: by injectivity the inputs coincide *)
    rewrite Hm, MF in M. apply toy_inj in M. inversion M. reflexivity.
  - (* the MAC bytes were altered: expiry and interfaces are the original ones *)
    rewrite Hf in Ts. destruct S' as [S'|[Hf' _]]; [|congruence].
    now rewrite S', Ts, He, Hi, Hg.
Qed.
Print Assumptions C04_toy_no_forgery.

Corollary C04_toy_unconditional : forall t now p pp f idx v,
  good toy t p -> endpoints_ok t p pp = true -> all_unexpired now p = true ->
  changed f idx v (render p pp 0 false) = true ->
  c04_ok p f idx (walk_from (macq_of toy) t now (render p pp 0 false)
                            (tamper f idx v (render p pp 0 false))) = true.
Proof.
  intros t now p pp f idx v HG Hep Hexp Hch.
  apply C04_first_dependent_router; try assumption.
  now apply (C04_toy_no_forgery t now p pp).
Qed.
Print Assumptions C04_toy_unconditional.

(** The oracle of the correspondence check holds on the model (for a MAC without
    forgery events; the check itself runs on the real MAC's observed values). *)
Theorem C04_oracle_holds_on_model : forall mac t now p pp f idx v,
  valid_b (macq_of mac) t now p pp = true ->
  ~ forged mac t p f idx v ->
  negb (valid_b (macq_of mac) t now p pp && changed f idx v (render p pp 0 false)) ||
  c04_ok p f idx (walk_from (macq_of mac) t now (render p pp 0 false)
                            (tamper f idx v (render p pp 0 false))) = true.
Proof.
  intros mac t now p pp f idx v V NF. rewrite V. cbn [andb].
  destruct (changed f idx v (render p pp 0 false)) eqn:Hch; [|reflexivity]. cbn [negb orb].
  unfold valid_b in V.
  apply andb_true_iff in V as [V Hexp]. apply andb_true_iff in V as [V Hep].
  apply andb_true_iff in V as [V Hwf]. apply andb_true_iff in V as [Hwt Hup].
  apply C04_first_dependent_router; try assumption. repeat split; assumption.
Qed.
Print Assumptions C04_oracle_holds_on_model.

(** Example: the path 20 -> 10 -> 30 of C02 (two routers in AS 10) with the toy MAC; the
    ConsEgress of the second hop of the down segment, the SegID of the second info
    field and one MAC byte of the first hop are altered: each time the packet is stopped
    with an SCMP "invalid hop field MAC" request at the AS owning the first dependent hop. *)
Definition ex_topo : topology :=
  [ mkAs 10 7 2 [mkNif 1 Child 20 1 0 true; mkNif 2 Child 30 1 1 true] [] 0 0;
    mkAs 20 8 1 [mkNif 1 Parent 10 1 0 true] [] 0 0;
    mkAs 30 9 1 [mkNif 1 Parent 10 2 0 true] [] 0 0 ].
Definition ex_prov : prov :=
  let ts := 1000 in
  let u0 := toy 7 5 ts 63 0 1 in let bu1 := N.lxor 5 (mac_prefix u0) in
  let u1 := toy 8 bu1 ts 63 1 0 in
  let d0 := toy 7 9 ts 63 0 2 in let bd1 := N.lxor 9 (mac_prefix d0) in
  let d1 := toy 9 bd1 ts 63 1 0 in
  of_slices
    [ mkSl KIntra false false ts [mkPh 20 1 0 63 u1 bu1; mkPh 10 0 1 63 u0 5];
      mkSl KIntra true false ts [mkPh 10 0 2 63 d0 9; mkPh 30 1 0 63 d1 bd1] ].
Definition ex_pp : pparams := mkPP 20 30 0 0 [10; 0; 0; 2] [10; 0; 0; 1] 8 (Some 4242).

Example C04_example :
  let macq := macq_of toy in
  let now := 2000000000000 in
  let q := render ex_prov ex_pp 0 false in
  valid_b macq ex_topo now ex_prov ex_pp = true /\
  snd (walk_from macq ex_topo now q (tamper FHopEg 3 7 q)) = Stopped 30 0 (KScmp 4 51) /\
  snd (walk_from macq ex_topo now q (tamper FInfoSegID 1 77 q)) = Stopped 10 0 (KScmp 4 51) /\
  snd (walk_from macq ex_topo now q (tamper FHopMac 0 123456 q)) = Stopped 20 0 (KScmp 4 51) /\
  c04_ok ex_prov FHopEg 3 (walk_from macq ex_topo now q (tamper FHopEg 3 7 q)) = true /\
  c04_ok ex_prov FInfoSegID 1 (walk_from macq ex_topo now q (tamper FInfoSegID 1 77 q)) = true.
Proof. vm_compute. repeat split; reflexivity. Qed.
