(** C40 — DRKey keys are only handed to the entities they are bound to.
    Property theorems only; each is closed by a lemma of Proofs/DRKeyACL.v.
    [same_host a h]: the requester's IP [a] and the named host [h] are both IP
    addresses (4 or 16 bytes) and denote the same one (IPv4-in-IPv6 unmapped). *)
From Coq Require Import List NArith ZArith Bool.
From Scion Require Import Lib.Check Model.DRKeyACL Proofs.DRKeyACL.
Import ListNotations.
Import DRKeyACL.
Local Open Scope N_scope.

(** *** the three request validators: accepted iff (not generic) and the local AS is the
    right endpoint and the requester is the host named at that endpoint *)

Theorem C40_as_host : forall proto dstIA dstHost localIA p,
  validate_as_host proto dstIA dstHost localIA p = true <->
  proto <> generic /\ dstIA = localIA /\ exists a, p = PTCP a /\ same_host a dstHost.
Proof. exact validate_as_host_iff. Qed.
Print Assumptions C40_as_host.

Theorem C40_host_as : forall proto srcIA srcHost localIA p,
  validate_host_as proto srcIA srcHost localIA p = true <->
  proto <> generic /\ srcIA = localIA /\ exists a, p = PTCP a /\ same_host a srcHost.
Proof. exact validate_host_as_iff. Qed.
Print Assumptions C40_host_as.

Theorem C40_host_host : forall proto srcIA dstIA srcHost dstHost localIA p,
  validate_host_host proto srcIA dstIA srcHost dstHost localIA p = true <->
  proto <> generic /\ exists a, p = PTCP a /\
    ((srcIA = localIA /\ same_host a srcHost) \/ (dstIA = localIA /\ same_host a dstHost)).
Proof. exact validate_host_host_iff. Qed.
Print Assumptions C40_host_host.

(** "same host" is equality of addresses: bytewise on IPv4 and on IPv6, and an IPv4
    address is the same host as its IPv4-in-IPv6 form *)
Theorem C40_same_host_meaning :
  (forall a b, length a = 4%nat -> length b = 4%nat -> (same_host a b <-> a = b)) /\
  (forall a b, length a = 16%nat -> length b = 16%nat -> (same_host a b <-> a = b)) /\
  (forall a, length a = 4%nat -> same_host a (v4in6_prefix ++ a)) /\
  (forall a b, same_host a b -> same_host b a) /\
  (forall a b c, same_host a b -> same_host b c -> same_host a c).
Proof.
  split; [exact same_host_v4|]. split; [exact same_host_v6|].
  split; [exact same_host_v4_mapped|]. split; [exact same_host_sym | exact same_host_trans].
Qed.
Print Assumptions C40_same_host_meaning.

(** *** the service methods: which engine call is made, and exactly when *)

(** AS-host key: only to the destination host of a request towards the local AS *)
Theorem C40_serve_as_host : forall l p q c,
  serve_as_host l p q = Some c <->
  q_ts_ok q = true /\ c = CallASHost (proto_of_pb (q_proto q)) (q_src q) (q_dst q) (q_dsth q) /\
  proto_of_pb (q_proto q) <> generic /\ q_dst q = l /\
  exists a, p = PTCP a /\ same_host a (q_dsth q).
Proof. exact serve_as_host_iff. Qed.
Print Assumptions C40_serve_as_host.

(** host-AS key: only to the source host of a request from the local AS *)
Theorem C40_serve_host_as : forall l p q c,
  serve_host_as l p q = Some c <->
  q_ts_ok q = true /\ c = CallHostAS (proto_of_pb (q_proto q)) (q_src q) (q_dst q) (q_srch q) /\
  proto_of_pb (q_proto q) <> generic /\ q_src q = l /\
  exists a, p = PTCP a /\ same_host a (q_srch q).
Proof. exact serve_host_as_iff. Qed.
Print Assumptions C40_serve_host_as.

(** host-host key: only to a named host on the local side *)
Theorem C40_serve_host_host : forall l p q c,
  serve_host_host l p q = Some c <->
  q_ts_ok q = true /\ c = CallHostHost (proto_of_pb (q_proto q)) (q_src q) (q_dst q) (q_srch q) (q_dsth q) /\
  proto_of_pb (q_proto q) <> generic /\
  exists a, p = PTCP a /\
    ((q_src q = l /\ same_host a (q_srch q)) \/ (q_dst q = l /\ same_host a (q_dsth q))).
Proof. exact serve_host_host_iff. Qed.
Print Assumptions C40_serve_host_host.

(** level-1 key: derived from the local AS to the AS the verified client
    certificate authenticates, for predefined protocols only ... *)
Theorem C40_lvl1 : forall l p a q c,
  serve_lvl1 l p a q = Some c <->
  present p = true /\ q_ts_ok q = true /\ is_predefined (proto_of_pb (q_proto q)) = true /\
  exists ia, (exists n, a = ATLS (S n) (Some ia)) /\
             c = CallDeriveLvl1 (proto_of_pb (q_proto q)) l ia.
Proof.
  intros. rewrite serve_lvl1_iff. split.
  - intros (P & T & I & ia & C & E). repeat split; auto. exists ia. split; auto. now apply cert_ia_some.
  - intros (P & T & I & ia & C & E). repeat split; auto. exists ia. split; auto. now apply cert_ia_some.
Qed.
Print Assumptions C40_lvl1.

(** ... read off the call: the destination of a derived level-1 key is the AS of the verified
    certificate presented with this request and its source the local AS; without a verified
    certificate nothing is derived *)
Theorem C40_lvl1_only_for_certificate_as : forall l p a q,
  (forall pr s d, serve_lvl1 l p a q = Some (CallDeriveLvl1 pr s d) -> cert_ia a = Some d /\ s = l) /\
  (cert_ia a = None -> serve_lvl1 l p a q = None).
Proof.
  intros l p a q. split.
  - intros pr s d E. apply serve_lvl1_iff in E as (_ & _ & _ & ia & C & E). inversion E; subst. auto.
  - intros C. destruct (serve_lvl1 l p a q) as [c|] eqn:E; [|reflexivity].
    apply serve_lvl1_iff in E as (_ & _ & _ & ia & C' & _). congruence.
Qed.
Print Assumptions C40_lvl1_only_for_certificate_as.

(** the host a level 2/3 key is derived for (the host handed to the engine) is the requester
    itself: its address is the address of the TCP peer *)
Theorem C40_key_for_validated_host : forall l p q,
  (forall pr s d h, serve_as_host l p q = Some (CallASHost pr s d h) ->
     d = l /\ exists a, p = PTCP a /\ same_host a h) /\
  (forall pr s d h, serve_host_as l p q = Some (CallHostAS pr s d h) ->
     s = l /\ exists a, p = PTCP a /\ same_host a h) /\
  (forall pr s d hs hd, serve_host_host l p q = Some (CallHostHost pr s d hs hd) ->
     exists a, p = PTCP a /\ ((s = l /\ same_host a hs) \/ (d = l /\ same_host a hd))).
Proof.
  intros l p q. repeat split.
  - apply serve_as_host_iff in H as (_ & E & _ & D & _). inversion E; subst. reflexivity.
  - apply serve_as_host_iff in H as (_ & E & _ & _ & X). inversion E; subst. exact X.
  - apply serve_host_as_iff in H as (_ & E & _ & D & _). inversion E; subst. reflexivity.
  - apply serve_host_as_iff in H as (_ & E & _ & _ & X). inversion E; subst. exact X.
  - intros pr s d hs hd H. apply serve_host_host_iff in H as (_ & E & _ & X). inversion E; subst. exact X.
Qed.
Print Assumptions C40_key_for_validated_host.

(** secret values: only to a (host, protocol) pair of the configured set *)
Theorem C40_sv : forall s p q c,
  serve_sv s p q = Some c <->
  q_ts_ok q = true /\ c = CallSV (proto_of_pb (q_proto q)) /\
  exists a h, p = PTCP a /\ from_std_ip a = Some h /\ In (h, proto_of_pb (q_proto q)) s.
Proof. exact serve_sv_iff. Qed.
Print Assumptions C40_sv.

(** intra-AS level-1 keys: the same, and only when the local AS is an endpoint *)
Theorem C40_intra_lvl1 : forall l s p q c,
  serve_intra_lvl1 l s p q = Some c <->
  q_ts_ok q = true /\ c = CallGetLvl1 (proto_of_pb (q_proto q)) (q_src q) (q_dst q) /\
  (l = q_src q \/ l = q_dst q) /\
  exists a h, p = PTCP a /\ from_std_ip a = Some h /\ In (h, proto_of_pb (q_proto q)) s.
Proof. exact serve_intra_lvl1_iff. Qed.
Print Assumptions C40_intra_lvl1.

(** a protobuf protocol value that truncates to 0 is the generic protocol: no level 2/3 key *)
Theorem C40_never_generic : forall l p q k,
  proto_of_pb (q_proto q) = generic ->
  serve_as_host l p q = None /\ serve_host_as l p q = None /\ serve_host_host l p q = None /\
  serve_as_host l p (mkReq (q_proto q + k * 65536) (q_ts_ok q) (q_src q) (q_dst q) (q_srch q) (q_dsth q)) = None.
Proof.
  intros l p q k G.
  assert (A : forall q', proto_of_pb (q_proto q') = generic -> serve_as_host l p q' = None).
  { intros q' G'. destruct (serve_as_host l p q') eqn:E; [|reflexivity].
    apply serve_as_host_iff in E. tauto. }
  repeat split.
  - now apply A.
  - destruct (serve_host_as l p q) eqn:E; [|reflexivity]. apply serve_host_as_iff in E. tauto.
  - destruct (serve_host_host l p q) eqn:E; [|reflexivity]. apply serve_host_host_iff in E. tauto.
  - apply A. cbn [q_proto]. unfold proto_of_pb in *. now rewrite Z.mod_add.
Qed.
Print Assumptions C40_never_generic.

(** the oracles used by the correspondence check hold on the model, for every input *)
Theorem C40_oracle_holds_on_model :
  (forall ep l s p a q, serve_ok ep l s p a q (serve ep l s p a q) = true) /\
  (forall k proto src dst srch dsth l p,
     validate_ok k proto src dst srch dsth l p (validate k proto src dst srch dsth l p) = true).
Proof. split; [exact serve_ok_model | exact validate_ok_model]. Qed.
Print Assumptions C40_oracle_holds_on_model.

(** the service is stateless: on a long-lived Server every response of a sequence of
    requests is the one its own request determines, and the oracle holds at every step *)
Theorem C40_sequences : forall l s (reqs : list (endpoint * peer_addr * auth * request)),
  forallb (fun st : endpoint * peer_addr * auth * request * option call =>
             let '(ep, p, a, q, impl) := st in serve_ok ep l s p a q impl)
          (map (fun r => let '(ep, p, a, q) := r in (ep, p, a, q, serve ep l s p a q)) reqs) = true.
Proof. exact seq_ok_model. Qed.
Print Assumptions C40_sequences.

(** Non-vacuity: a host 10.1.2.3 in the local AS 7, connecting from the IPv4-in-IPv6
    form of its address, obtains the AS-host key 5 -> 7:10.1.2.3 for SCMP, not for
    the generic protocol (also not as 65536), not for another host, not for AS 8;
    a level-1 request with certificate for AS 9 derives 7 -> 9 whatever it names. *)
Example C40_example :
  let h := [0;0;0;0;0;0;0;0;0;0;255;255;10;1;2;3] in
  let p := PTCP h in
  serve_as_host 7 p (mkReq 1 true 5 7 [] [10;1;2;3]) = Some (CallASHost 1 5 7 [10;1;2;3]) /\
  serve_as_host 7 p (mkReq 0 true 5 7 [] [10;1;2;3]) = None /\
  serve_as_host 7 p (mkReq 65536 true 5 7 [] [10;1;2;3]) = None /\
  serve_as_host 7 p (mkReq 1 true 5 7 [] [10;1;2;4]) = None /\
  serve_as_host 7 p (mkReq 1 true 5 8 [] [10;1;2;3]) = None /\
  serve_as_host 7 (PTCP []) (mkReq 1 true 5 7 [] []) = None /\
  serve_lvl1 7 p (ATLS 1 (Some 9)) (mkReq 1 true 3 4 [] []) = Some (CallDeriveLvl1 1 7 9) /\
  serve_sv [(NA4 [10;1;2;3], 1)] p (mkReq 1 true 0 0 [] []) = Some (CallSV 1) /\
  serve_sv [(NA4 [10;1;2;3], 1)] p (mkReq 0 true 0 0 [] []) = None.
Proof. vm_compute. repeat split; reflexivity. Qed.
