(** C31 — the revocation cache keeps the newest live revocation per interface.
    Property theorems only.  [run evs] = (cache content, log newest-first) after the
    history [evs] of (clock reading, operation) pairs, a [fold_left]; [mono_evs 0 evs]
    says the clock readings never go back.  [last_acc l k] is the revocation of the
    most recent accepted insertion for interface [k] in the log.

    Boundary instant (both follow the code): Insert refuses a revocation when
    [r_exp r <= now] (time.Until(exp) <= 0), while a stored one is still returned at
    the single instant [now = r_exp r] (zcache expires an item when now > Expiration). *)
From Coq Require Import List NArith Bool Lia.
From Scion Require Import Lib.Check Model.RevCache Proofs.RevCache.
Import ListNotations.
Import RevCache.
Local Open Scope N_scope.

(** A lookup returns the most recently accepted revocation for the interface as
    long as it is unexpired, and nothing otherwise — whatever clean-ups happened. *)
Theorem C31_get_exact : forall evs now k,
  mono_evs 0 evs -> last_time (snd (run evs)) <= now ->
  get now k (fst (run evs)) = live now (last_acc (snd (run evs)) k).
Proof.
  intros evs now k M H. destruct (run_inv evs M) as [I [ML _]].
  exact (get_exact_inv _ _ _ now k I ML H).
Qed.
Print Assumptions C31_get_exact.

(** Insert returns true iff the revocation is unexpired and there is no live
    accepted revocation for its interface or it is strictly newer than that one. *)
Theorem C31_accept_iff : forall evs now r,
  mono_evs 0 evs -> last_time (snd (run evs)) <= now ->
  (snd (insert now r (fst (run evs))) = true <->
   now < r_exp r /\
   match live now (last_acc (snd (run evs)) (r_key r)) with
   | None => True
   | Some o => r_ts o < r_ts r
   end).
Proof.
  intros evs now r M H. destruct (run_inv evs M) as [I [ML _]].
  rewrite (insert_exact_inv _ _ _ now r I ML H). unfold spec_insert, spec_get.
  rewrite andb_true_iff, N.ltb_lt.
  destruct (live now (last_acc (snd (run evs)) (r_key r))) as [o|].
  - now rewrite N.ltb_lt.
  - tauto.
Qed.
Print Assumptions C31_accept_iff.

(** The same, in terms of what a lookup at the same instant returns (any cache content). *)
Theorem C31_accept_iff_lookup : forall s now r,
  snd (insert now r s) = true <->
  now < r_exp r /\
  (get now (r_key r) s = None \/ exists o, get now (r_key r) s = Some o /\ r_ts o < r_ts r).
Proof.
  intros s now r. unfold insert, get.
  destruct (r_exp r <=? now) eqn:E; cbn [snd].
  - apply N.leb_le in E. split; [discriminate|]. intros [H _]. lia.
  - apply N.leb_gt in E. destruct (cache_get now (r_key r) s) as [o|]; cbn [snd].
    + destruct (r_ts o <? r_ts r) eqn:T; cbn [snd].
      * apply N.ltb_lt in T. split; [|reflexivity]. intros _. split; [exact E|].
        right. exists o. auto.
      * apply N.ltb_ge in T. split; [discriminate|]. intros [_ [H|[o' [H1 H2]]]]; [discriminate|].
        inversion H1; subst. lia.
    + split; [|reflexivity]. intros _. split; [exact E|now left].
Qed.
Print Assumptions C31_accept_iff_lookup.

(** Whatever a lookup returns is unexpired, is for the requested interface and is
    a revocation whose insertion was accepted earlier in the history. *)
Theorem C31_never_expired : forall evs now k r,
  mono_evs 0 evs -> last_time (snd (run evs)) <= now ->
  get now k (fst (run evs)) = Some r ->
  now <= r_exp r /\ r_key r = k /\ exists tm, In (tm, Insert r, RIns true) (snd (run evs)).
Proof.
  intros evs now k r M H G. rewrite (C31_get_exact evs now k M H) in G.
  apply live_some in G as [G X]. unfold expired in X. apply N.ltb_ge in X.
  split; [exact X|]. split; [eapply last_acc_key; eauto|eapply last_acc_in_log; eauto].
Qed.
Print Assumptions C31_never_expired.

(** An older (or equally old) revocation never replaces a newer live one: the
    insertion is refused and the cache is unchanged ... *)
Theorem C31_newer_wins : forall evs now r o,
  get now (r_key r) (fst (run evs)) = Some o -> r_ts r <= r_ts o ->
  snd (insert now r (fst (run evs))) = false /\
  fst (run (evs ++ [(now, Insert r)])) = fst (run evs).
Proof.
  intros evs now r o G T.
  assert (E : insert now r (fst (run evs)) = (fst (run evs), false)).
  { unfold insert. unfold get in G. rewrite G. destruct (r_exp r <=? now); [reflexivity|].
    assert (X : (r_ts o <? r_ts r) = false) by (apply N.ltb_ge; exact T). now rewrite X. }
  split; [now rewrite E|].
  unfold run, run_from. rewrite fold_left_app. cbn [fold_left]. unfold exec at 1.
  unfold step. cbn [fst snd]. fold (run_from ([], []) evs). fold (run evs). now rewrite E.
Qed.
Print Assumptions C31_newer_wins.

(** ... and, over whole histories: every accepted insertion either found no
    accepted revocation for the interface, or one that was expired by then, or a
    strictly older one. *)
Theorem C31_replacements_are_newer : forall evs post tm r pre,
  mono_evs 0 evs -> snd (run evs) = post ++ (tm, Insert r, RIns true) :: pre ->
  tm < r_exp r /\
  match last_acc pre (r_key r) with
  | None => True
  | Some o => r_exp o < tm \/ r_ts o < r_ts r
  end.
Proof.
  intros evs post tm r pre M E. destruct (run_inv evs M) as [_ [_ L]].
  pose proof (log_ok_split _ L post tm (Insert r) (RIns true) pre E) as R.
  cbn [res_ok] in R. apply eqb_prop in R. symmetry in R. unfold spec_insert, spec_get in R.
  apply andb_true_iff in R as [R1 R2]. apply N.ltb_lt in R1. split; [exact R1|].
  destruct (last_acc pre (r_key r)) as [o|]; [|exact I]. cbn [live] in R2.
  destruct (expired tm o) eqn:X.
  - left. unfold expired in X. now apply N.ltb_lt in X.
  - right. now apply N.ltb_lt in R2.
Qed.
Print Assumptions C31_replacements_are_newer.

(** Clean-up removes exactly the expired entries, reports how many there were and
    is invisible to every lookup from then on. *)
Theorem C31_cleanup_exact : forall evs now,
  mono_evs 0 evs ->
  let s := fst (run evs) in
  let s' := fst (delete_expired now s) in
  (forall r, In r s' <-> In r s /\ now <= r_exp r) /\
  snd (delete_expired now s) = N.of_nat (length (spec_garbage (snd (run evs)) now)) /\
  (forall now' k, now <= now' -> get now' k s' = get now' k s).
Proof.
  intros evs now M s s'. destruct (run_inv evs M) as [Inv _]. subst s s'.
  unfold delete_expired. cbn [fst snd]. split; [|split].
  - intros r. rewrite filter_In, negb_true_iff. unfold expired. rewrite N.ltb_ge. tauto.
  - f_equal. now apply garbage_count.
  - intros now' k H. destruct Inv as [W _]. exact (view_cleanup now now' _ k W H).
Qed.
Print Assumptions C31_cleanup_exact.

(** Refinement to the simplest abstract store, a partial map from interface to its
    live revocation ([view now s]): insertion is the map update guarded by
    "unexpired and newer", clean-up is the identity, the passing of time drops what
    expired, and GetAll lists exactly the map's bindings. *)
Theorem C31_refines_live_map : forall evs now k,
  let s := fst (run evs) in
  (forall r, view now (fst (insert now r s)) k = fst (a_insert now r (view now s)) k /\
             snd (insert now r s) = snd (a_insert now r (view now s))) /\
  (forall now', now <= now' -> view now' (fst (delete_expired now s)) k = view now' s k) /\
  (forall now', now <= now' -> view now' s k = a_expire now' (view now s) k) /\
  (forall r, In r (get_all now s) <-> view now s (r_key r) = Some r).
Proof.
  intros evs now k s.
  assert (W : wf s).
  { subst s. unfold run, run_from. generalize (@nil entry).
    assert (G : forall acc, wf (fst acc) -> wf (fst (fold_left exec evs acc))).
    { induction evs as [|e t IH]; intros acc Wa; cbn [fold_left]; [exact Wa|]. apply IH.
      unfold exec. pose proof (step_wf (fst acc) e Wa) as S.
      now destruct (step (fst acc) e). }
    intros l. apply G. constructor. }
  split; [|split; [|split]].
  - intros r. apply view_insert.
  - intros now' H. now apply view_cleanup.
  - intros now' H. now apply view_time.
  - intros r. now apply get_all_view.
Qed.
Print Assumptions C31_refines_live_map.

(** The oracle used by [check] holds on the model, for every history. *)
Theorem C31_oracle_holds_on_model : forall evs,
  mono_evs 0 evs ->
  log_ok (impl_log evs (results evs)) = true /\ check (CHist evs (results evs)) = 0.
Proof.
  intros evs M. split; [|now apply check_model].
  rewrite impl_log_model. now destruct (run_inv evs M) as [_ [_ L]].
Qed.
Print Assumptions C31_oracle_holds_on_model.

(** Non-vacuity: interface (1,5); a revocation accepted at 100 and living until 130;
    an older one refused; a newer one accepted; clean-up at 160 collects it; an
    older one is then accepted again because nothing live is stored. *)
Example C31_example :
  let a := {| r_ia := 1; r_if := 5; r_ts := 90; r_ttl := 40; r_id := 1 |} in
  let b := {| r_ia := 1; r_if := 5; r_ts := 80; r_ttl := 90; r_id := 2 |} in
  let c := {| r_ia := 1; r_if := 5; r_ts := 95; r_ttl := 55; r_id := 3 |} in
  let evs := [(100, Insert a); (101, Insert b); (102, Get (1, 5)); (103, Insert c);
              (140, Get (1, 5)); (155, Get (1, 5)); (160, DeleteExpired); (160, Insert b);
              (165, GetAll)] in
  mono_evs 0 evs /\
  results evs = [RIns true; RIns false; RGet (Some a); RIns true; RGet (Some c); RGet None;
                 RDel 1; RIns true; RAll [b]].
Proof. vm_compute. repeat split; intros H; discriminate H. Qed.

(** The reading of "keeps the newest live revocation per interface": the cache holds
    ONE revocation per interface, the most recently accepted one.  A (timestamp 90,
    expires 200) is accepted; C (timestamp 95, expires 100) is newer, is accepted and
    replaces A.  At 150 C has expired and A is no longer stored, so the lookup returns
    nothing although A was accepted and is unexpired; offering A again succeeds.  This
    is what memRevCache does (Insert "inserts or updates", one cache item per key) and
    what [C31_get_exact] states through [last_acc]. *)
Example C31_replaced_revocation_is_gone :
  let a := {| r_ia := 1; r_if := 5; r_ts := 90; r_ttl := 110; r_id := 1 |} in
  let c := {| r_ia := 1; r_if := 5; r_ts := 95; r_ttl := 5; r_id := 3 |} in
  let evs := [(96, Insert a); (97, Insert c); (98, Get (1, 5)); (150, Get (1, 5)); (150, GetAll);
              (150, Insert a); (151, Get (1, 5))] in
  mono_evs 0 evs /\
  results evs = [RIns true; RIns true; RGet (Some c); RGet None; RAll []; RIns true; RGet (Some a)] /\
  check (CHist evs (results evs)) = 0.
Proof. vm_compute. repeat split; intros H; discriminate H. Qed.
