(** C13 — EPIC packets need fresh timestamps and valid hop validation fields.
    Property theorems only (lemmas: Proofs/RouterEpic.v, Proofs/Router.v).
    [full] is the hop-field MAC as an arbitrary function (segid, timestamp, exptime,
    cons_ingress, cons_egress) -> bytes (its 6-byte prefix is what the SCION checks compare),
    [emac] the EPIC MAC as an arbitrary function authenticator -> input block -> bytes; no
    cryptographic assumption is used except where a statement is a reduction to a collision of
    [emac].  [process_epic] = scionPacketProcessor.processEPIC; [process_scion] = process() on
    the embedded SCION path (shared router core); all times in ns. *)
From Coq Require Import List NArith Bool Lia.
From Scion Require Import Lib.Check Model.Router Proofs.Router Model.RouterEpic Proofs.RouterEpic.
Import ListNotations.
Import Router RouterEpic.
Local Open Scope N_scope.

(** At every hop field but the penultimate and the last one an EPIC packet is processed exactly like
    its embedded SCION path: same disposition, same egress, same rewritten path, same slow-path
    request ([epic_view] = the identity up to the constant offset of the SCMP pointers that
    designate a path field). *)
Theorem C13_other_hops : forall fullq emacq c now ing ep p,
  epic_checked c p = false ->
  process_epic fullq emacq c now ing ep p = epic_view (process_scion (macq fullq) c now ing p).
Proof. exact process_epic_other. Qed.
Print Assumptions C13_other_hops.

(** "At the penultimate / last hop" is meant by hop FIELD, not by the pointer of the received
    packet: the EPIC checks are applied exactly when the hop field the router verifies last
    (the current one, or the first one of the next segment when it crosses over) is the
    penultimate or the last hop field of the path ... *)
Theorem C13_checked_iff_penultimate_or_last_hop_field : forall c p,
  epic_checked c p =
  (verified_index c p + 2 =? num_hops p) || (verified_index c p + 1 =? num_hops p).
Proof. exact epic_checked_iff. Qed.
Print Assumptions C13_checked_iff_penultimate_or_last_hop_field.

(** ... and that hop field is the one whose full MAC keys the EPIC MAC. *)
Theorem C13_verified_hop_field : forall full c now ing p i h,
  last_verified (fullt full) c now ing p = Some (i, h) ->
  nthN (p_hops p) (verified_index c p) = Some h /\ h_mac h = firstn 6 (auth_of full i h).
Proof.
  intros full c now ing p i h L. split.
  - eapply last_verified_index; eassumption.
  - destruct (last_verified_valid _ _ _ _ _ _ _ L) as [MV _]. exact MV.
Qed.
Print Assumptions C13_verified_hop_field.

(** At any hop: an EPIC packet is forwarded only if its embedded SCION path is, with the same
    egress and the same rewritten path (so everything proved about [process_scion] carries
    over), and any other outcome is the embedded path's outcome or a plain discard. *)
Theorem C13_accepts_only_what_scion_accepts : forall fullq emacq c now ing ep p e out d,
  process_epic fullq emacq c now ing ep p = Forward e out d ->
  process_scion (macq fullq) c now ing p = Forward e out d.
Proof. exact process_epic_only_if_scion. Qed.
Print Assumptions C13_accepts_only_what_scion_accepts.

(** Freshness: accepted at the penultimate or last hop => the sending time encoded by the
    timestamp of the first info field and the packet timestamp offset,
      tsSender = Timestamp * 1 s + (PktID.Timestamp + 1) * 21 us,
    satisfies  now - (2 s + 1 s) <= tsSender <= now + 1 s. *)
Theorem C13_fresh : forall full emac c now ing ep p e out d,
  epic_checked c p = true ->
  process_epic (fullt full) (emact emac) c now ing ep p = Forward e out d ->
  exists fi0, nthN (p_infos p) 0 = Some fi0 /\
    ts_sender (i_ts fi0) (e_ts ep) <= now + MaxClockSkewNs /\
    now <= ts_sender (i_ts fi0) (e_ts ep) + MaxPacketLifetimeNs + MaxClockSkewNs.
Proof.
  intros full emac c now ing ep p e out d PL H.
  apply process_epic_forward in H as [S C]. specialize (C PL).
  apply epic_checks_ok in C as (fi & i & h & Hfi & T & _).
  rewrite macq_total in S. pose proof (forward_shape _ _ _ _ _ _ _ _ S) as Sh.
  pose proof (os_infos _ _ Sh) as PW.
  unfold nthN in Hfi |- *. cbn [N.to_nat nth_error] in Hfi |- *.
  destruct (p_infos out) as [|y t]; [discriminate|]. injection Hfi as ->.
  inversion PW as [|k a b ta tb R _ EA EB]; subst.
  exists a. split; [reflexivity|].
  assert (i_ts fi = i_ts a) as <-
    by (destruct R as [-> | (_ & hh & _ & ->)]; reflexivity).
  apply verify_timestamp_spec. exact T.
Qed.
Print Assumptions C13_fresh.

(** Contrapositive with the numbers spelled out. *)
Theorem C13_stale_or_future_never_forwarded : forall full emac c now ing ep p fi0,
  epic_checked c p = true ->
  nthN (p_infos p) 0 = Some fi0 ->
  now + 1000000000 < i_ts fi0 * 1000000000 + (e_ts ep + 1) * 21000 \/
  i_ts fi0 * 1000000000 + (e_ts ep + 1) * 21000 + 3000000000 < now ->
  forall e out d, process_epic (fullt full) (emact emac) c now ing ep p <> Forward e out d.
Proof.
  intros full emac c now ing ep p fi0 PL H0 Bad e out d H.
  destruct (C13_fresh full emac c now ing ep p e out d PL H) as (fi & Hfi & A & B).
  rewrite H0 in Hfi. injection Hfi as <-.
  unfold ts_sender, MaxClockSkewNs, MaxPacketLifetimeNs, TimestampResolutionNs in *. lia.
Qed.
Print Assumptions C13_stale_or_future_never_forwarded.

(** Hop validation field: accepted at the penultimate (resp. last) hop => the PHVF (resp.
    LHVF) is the EPIC MAC, keyed with the full 16-byte MAC of the hop field the router
    verified (a hop field of the received packet whose 6 carried MAC bytes are that MAC's
    prefix), of the block built from the first info field's timestamp, the packet identifier,
    SrcIA, the source host address (length bits and bytes) and PayloadLen. *)
Theorem C13_hvf : forall full emac c now ing ep p e out d,
  epic_checked c p = true ->
  process_epic (fullt full) (emact emac) c now ing ep p = Forward e out d ->
  exists i h fi0,
    last_verified (fullt full) c now ing p = Some (i, h) /\
    (cur_hop p = Some h \/ nthN (p_hops p) (p_curr_hf p + 1) = Some h) /\
    h_mac h = firstn 6 (auth_of full i h) /\
    N.of_nat (length (auth_of full i h)) = 16 /\
    nthN (p_infos p) 0 = Some fi0 /\
    (if is_last_hop p then e_lhvf ep else e_phvf ep) =
      emac (auth_of full i h)
           (mac_input (p_src_type p) (i_ts fi0) (e_ts ep) (e_ctr ep) (p_src_ia p) (p_src_raw p)
                      (p_pay_len p)).
Proof.
  intros full emac c now ing ep p e out d PL H.
  apply process_epic_forward in H as [S C]. specialize (C PL).
  apply epic_checks_ok in C as (fi & i & h & Hfi & _ & LV & AL & HV).
  destruct (last_verified_valid _ _ _ _ _ _ _ LV) as [MV Hop].
  rewrite macq_total in S. pose proof (forward_shape _ _ _ _ _ _ _ _ S) as Sh.
  pose proof (os_infos _ _ Sh) as PW.
  unfold nthN in Hfi |- *. cbn [N.to_nat nth_error] in Hfi |- *.
  destruct (p_infos out) as [|y t]; [discriminate|]. injection Hfi as ->.
  inversion PW as [|k a b ta tb R _ EA EB]; subst.
  exists i, h, a. repeat split; try assumption.
  assert (i_ts fi = i_ts a) as <-
    by (destruct R as [-> | (_ & hh & _ & ->)]; reflexivity).
  exact HV.
Qed.
Print Assumptions C13_hvf.

(** The input block determines every field it is built from (byte layout of
    prepareMacInput): flags (length bits of the source address type), info-field timestamp,
    packet timestamp and counter, SrcIA, source host bytes, PayloadLen. *)
Theorem C13_mac_input_injective : forall st its pts ctr ia raw pl st' its' pts' ctr' ia' raw' pl',
  its < 2 ^ 32 -> its' < 2 ^ 32 -> pts < 2 ^ 32 -> pts' < 2 ^ 32 -> ctr < 2 ^ 32 -> ctr' < 2 ^ 32 ->
  ia < 2 ^ 64 -> ia' < 2 ^ 64 -> pl < 2 ^ 16 -> pl' < 2 ^ 16 ->
  src_len_ok st raw -> src_len_ok st' raw' ->
  mac_input st its pts ctr ia raw pl = mac_input st' its' pts' ctr' ia' raw' pl' ->
  N.land st 3 = N.land st' 3 /\ its = its' /\ pts = pts' /\ ctr = ctr' /\ ia = ia' /\ raw = raw' /\
  pl = pl'.
Proof. exact mac_input_inj. Qed.
Print Assumptions C13_mac_input_injective.

(** Tamper reduction.  [fields_of] are the authenticated fields of a packet; two packets that
    are both accepted at their penultimate / last hop under the same authenticator with the
    same hop validation field but differ in an authenticated field exhibit a collision of the
    EPIC MAC (two different input blocks with the same tag under one key). *)
Definition fields_of (ep : epic) (p : pkt) (ts0 : N) :=
  (ts0, e_ts ep, e_ctr ep, p_src_ia p, p_src_raw p, p_pay_len p).
Definition wf_fields (ep : epic) (p : pkt) (ts0 : N) : Prop :=
  ts0 < 2 ^ 32 /\ e_ts ep < 2 ^ 32 /\ e_ctr ep < 2 ^ 32 /\ p_src_ia p < 2 ^ 64 /\ p_pay_len p < 2 ^ 16 /\
  src_len_ok (p_src_type p) (p_src_raw p).

Theorem C13_tamper : forall full emac c now ing ep p e out d c' now' ing' ep' p' e' out' d' i h i' h' f f',
  epic_checked c p = true -> epic_checked c' p' = true ->
  process_epic (fullt full) (emact emac) c now ing ep p = Forward e out d ->
  process_epic (fullt full) (emact emac) c' now' ing' ep' p' = Forward e' out' d' ->
  last_verified (fullt full) c now ing p = Some (i, h) ->
  last_verified (fullt full) c' now' ing' p' = Some (i', h') ->
  auth_of full i h = auth_of full i' h' ->
  (if is_last_hop p then e_lhvf ep else e_phvf ep) = (if is_last_hop p' then e_lhvf ep' else e_phvf ep') ->
  nthN (p_infos p) 0 = Some f -> nthN (p_infos p') 0 = Some f' ->
  wf_fields ep p (i_ts f) -> wf_fields ep' p' (i_ts f') ->
  fields_of ep p (i_ts f) <> fields_of ep' p' (i_ts f') ->
  exists x x', x <> x' /\ emac (auth_of full i h) x = emac (auth_of full i h) x'.
Proof.
  intros full emac c now ing ep p e out d c' now' ing' ep' p' e' out' d' i h i' h' f f'
         PL PL' H H' LV LV' EA EH F F' W W' D.
  destruct (C13_hvf full emac c now ing ep p e out d PL H) as (i1 & h1 & f1 & L1 & _ & _ & _ & F1 & V1).
  destruct (C13_hvf full emac c' now' ing' ep' p' e' out' d' PL' H') as (i2 & h2 & f2 & L2 & _ & _ & _ & F2 & V2).
  rewrite LV in L1. injection L1 as <- <-. rewrite LV' in L2. injection L2 as <- <-.
  rewrite F in F1. injection F1 as <-. rewrite F' in F2. injection F2 as <-.
  rewrite <- EA in V2.
  eexists. eexists. split; [|rewrite <- V1, <- V2; exact EH].
  intros E. destruct W as (A1 & A2 & A3 & A4 & A5 & A6). destruct W' as (B1 & B2 & B3 & B4 & B5 & B6).
  destruct (mac_input_inj _ _ _ _ _ _ _ _ _ _ _ _ _ _ A1 B1 A2 B2 A3 B3 A4 B4 A5 B5 A6 B6 E)
    as (_ & E1 & E2 & E3 & E4 & E5 & E6).
  apply D. unfold fields_of. congruence.
Qed.
Print Assumptions C13_tamper.

(** The oracles of the correspondence check hold on the model (packet cases; timestamp cases:
    an accepting VerifyTimestamp implies the window). *)
Theorem C13_oracle_holds_on_model : forall full emac c now ing ep p its ets n,
  c13_ok (fullt full) (emact emac) c now ing ep p
         (process_epic (fullt full) (emact emac) c now ing ep p) = true /\
  oracle (CTs its ets n (verify_timestamp its ets n)) = true.
Proof.
  intros. split; [apply c13_ok_model|].
  cbn [oracle]. unfold verify_timestamp. destruct (_ && _); reflexivity.
Qed.
Print Assumptions C13_oracle_holds_on_model.

(** Non-vacuity: a two-hop path into AS 100; at the last hop the packet is delivered when
    fresh and carrying the right LHVF, discarded when stale, from the future, or with another
    LHVF / counter; the same embedded path with a bad hop MAC gets the SCION answer; a packet
    at the first of four hops is forwarded without any EPIC check. *)
Definition ex_full (sid ts e i g : N) : list N :=
  [sid mod 256; ts mod 256; e; i mod 256; g mod 256; 7; 1; 2; 3; 4; 5; 6; 7; 8; 9; 10].
Definition ex_emac (auth input : list N) : list N :=
  [fold_left N.add auth 0 mod 256; fold_left N.add input 0 mod 256; N.of_nat (length input); 42].
Definition ex_cfg : cfg :=
  mkCfg 100 [mkIf 1 External Parent 200 true 1; mkIf 2 External Child 300 true 2] []
        [10;0;0;1] 1024 65535 false.
Definition ex_last (m : list N) : pkt :=
  mkPkt 100 600 0 0 [10;1;1;1] [2;2;2;2] 8 8 (Some 9) 0 1 2 0 0 0
        [mkInfo false true 5 1000 0]
        [mkHop false false 63 0 9 [0;0;0;0;0;0] 0; mkHop false false 63 1 0 m 0].
Definition ex_now : N := 1000000000000 + 2000000000.   (* 2 s after the segment timestamp *)
Definition ex_lhvf (pts ctr : N) : list N :=
  ex_emac (ex_full 5 1000 63 1 0) (mac_input 0 1000 pts ctr 600 [2;2;2;2] 8).
Definition ex_first : pkt :=
  mkPkt 500 100 0 0 [1;1;1;1] [10;0;0;9] 8 8 (Some 9) 0 0 4 0 0 0
        [mkInfo false true 5 1000 0]
        [mkHop false false 63 0 2 (firstn 6 (ex_full 5 1000 63 0 2)) 0; mkHop false false 63 4 5 [0;0;0;0;0;0] 0;
         mkHop false false 63 6 7 [0;0;0;0;0;0] 0; mkHop false false 63 8 0 [0;0;0;0;0;0] 0].

Example C13_example :
  let run := process_epic (fullt ex_full) (emact ex_emac) ex_cfg in
  (* tsSender = 1000 s + 47620 * 21 us ~ 1001.0 s, now = 1002 s: fresh *)
  (match run ex_now (InExt 1) (mkEpic 47619 77 [0;0;0;0] (ex_lhvf 47619 77))
             (ex_last (firstn 6 (ex_full 5 1000 63 1 0))) with
   | Forward 0 _ (Some ([10;1;1;1], 9)) => True | _ => False end) /\
  (* 3.5 s later: expired *)
  run (ex_now + 3500000000) (InExt 1) (mkEpic 47619 77 [0;0;0;0] (ex_lhvf 47619 77))
      (ex_last (firstn 6 (ex_full 5 1000 63 1 0))) = Discard /\
  (* sender 1.1 s ahead of the router's clock *)
  run 999900000000 (InExt 1) (mkEpic 47619 77 [0;0;0;0] (ex_lhvf 47619 77))
      (ex_last (firstn 6 (ex_full 5 1000 63 1 0))) = Discard /\
  (* LHVF computed for another counter *)
  run ex_now (InExt 1) (mkEpic 47619 78 [0;0;0;0] (ex_lhvf 47619 77))
      (ex_last (firstn 6 (ex_full 5 1000 63 1 0))) = Discard /\
  (* the right value in the wrong field *)
  run ex_now (InExt 1) (mkEpic 47619 77 (ex_lhvf 47619 77) [0;0;0;0])
      (ex_last (firstn 6 (ex_full 5 1000 63 1 0))) = Discard /\
  (* embedded path refused: the SCION answer *)
  (match run ex_now (InExt 1) (mkEpic 47619 77 [0;0;0;0] (ex_lhvf 47619 77)) (ex_last [9;9;9;9;9;9]) with
   | SlowPath (SpScmp 4 51 _) _ _ => True | _ => False end) /\
  (* first of four hops: no EPIC check at all *)
  (match run ex_now InInt (mkEpic 0 0 [0;0;0;0] [0;0;0;0]) ex_first with
   | Forward 2 _ None => True | _ => False end).
Proof. vm_compute. repeat split. Qed.

(** Non-vacuity of the cross-over case: an up segment and a down segment of two hop fields
    each meet in AS 100; the router receives the packet on the last hop field of the up segment
    (pointer 1 of 4), crosses over to hop field 2 = the penultimate one, and only forwards
    the packet if the PHVF is the EPIC MAC under that hop field's full MAC. *)
Definition ex_full2 (sid ts e i g : N) : list N :=
  [e; i mod 256; g mod 256; ts mod 256; 1; 2; 3; 4; 5; 6; 7; 8; 9; 10; 11; 12].
Definition ex_cfg2 : cfg :=
  mkCfg 100 [mkIf 3 External Child 200 true 3; mkIf 2 External Child 300 true 2] []
        [10;0;0;1] 1024 65535 false.
Definition ex_xover_pkt : pkt :=
  mkPkt 300 200 0 0 [1;1;1;1] [2;2;2;2] 8 8 (Some 9) 0 1 2 2 0 0
        [mkInfo false false 5 1000 0; mkInfo false true 77 1000 0]
        [mkHop false false 63 9 8 [0;0;0;0;0;0] 0;
         mkHop false false 63 0 3 (firstn 6 (ex_full2 0 1000 63 0 3)) 0;
         mkHop false false 63 0 2 (firstn 6 (ex_full2 0 1000 63 0 2)) 0;
         mkHop false false 63 4 0 [0;0;0;0;0;0] 0].
Definition ex_phvf : list N :=
  ex_emac (ex_full2 77 1000 63 0 2) (mac_input 0 1000 47619 77 200 [2;2;2;2] 8).

Example C13_example_crossover :
  epic_checked ex_cfg2 ex_xover_pkt = true /\ is_penultimate ex_xover_pkt = false /\
  verified_index ex_cfg2 ex_xover_pkt = 2 /\
  (match process_epic (fullt ex_full2) (emact ex_emac) ex_cfg2 ex_now (InExt 3)
                      (mkEpic 47619 77 ex_phvf [0;0;0;0]) ex_xover_pkt with
   | Forward 2 out None => p_curr_hf out = 3 | _ => False end) /\
  process_epic (fullt ex_full2) (emact ex_emac) ex_cfg2 ex_now (InExt 3)
               (mkEpic 47619 77 [1;2;3;4] [0;0;0;0]) ex_xover_pkt = Discard /\
  process_epic (fullt ex_full2) (emact ex_emac) ex_cfg2 (ex_now + 3500000000) (InExt 3)
               (mkEpic 47619 77 ex_phvf [0;0;0;0]) ex_xover_pkt = Discard.
Proof. vm_compute. repeat split. Qed.
