(** C29 — path combination finds every valid segment combination.
    [valid_combination] (Model/CombSpec.v) is the declarative statement of which
    interface sequences are obtainable from the supplied segments; it does not
    mention the combinator's graph.  [wf_input]: the segments pass seg.Validate
    and have the shape beaconing gives them (no wildcard ISD-AS, no AS twice in
    a segment, non-zero interfaces on the links inside a segment, distinct peer
    links over non-zero interfaces, core segments with two or more entries). *)
From Coq Require Import List NArith Bool Arith.
From Scion Require Import Lib.Check Model.Segment Model.CombSpec Model.Combinator.
From Scion Require Import Proofs.CombinatorGraph Proofs.CombinatorRender Proofs.CombinatorFilter
  Proofs.CombinatorPaths Proofs.CombinatorIfs Proofs.CombSpec Proofs.CombinatorSpec
  Proofs.CombinatorSound Proofs.CombinatorComplete Proofs.CombinatorMain
  Proofs.CombinatorProps Proofs.CombinatorOracle.
Import ListNotations.
Import Segment Combinator.
Local Open Scope N_scope.

(** The boolean enumerator used by the oracle lists exactly the valid combinations. *)
Theorem C29_enumerator_correct : forall ups cores downs src dst ifs,
  In ifs (all_combinations ups cores downs src dst) <-> valid_combination ups cores downs src dst ifs.
Proof. exact all_combinations_spec. Qed.
Print Assumptions C29_enumerator_correct.

(** On well-formed segment sets the combinator returns (it does not panic). *)
Theorem C29_returns : forall src dst ups cores downs fa,
  wf_input (segs_of ups) (segs_of cores) (segs_of downs) = true ->
  exists ps, combine src dst ups cores downs fa = Done ps.
Proof. exact combine_no_panic. Qed.
Print Assumptions C29_returns.

(** Completeness: every valid combination that passes no AS more than twice is
    among the returned paths (core joins, shortcuts, on-path cuts and peering
    links alike; with or without findAllIdentical). *)
Theorem C29_complete : forall src dst ups cores downs fa ps ifs,
  wf_input (segs_of ups) (segs_of cores) (segs_of downs) = true ->
  combine src dst ups cores downs fa = Done ps ->
  valid_combination (segs_of ups) (segs_of cores) (segs_of downs) src dst ifs ->
  no_as_thrice ifs ->
  exists p, In p ps /\ p_ifs p = ifs.
Proof. exact combine_complete. Qed.
Print Assumptions C29_complete.

(** The oracle evaluated on the implementation's result holds on the model, for
    every input; the model panics only on input that is not well-formed. *)
Theorem C29_oracle_holds_on_model : forall src dst ups cores downs fa,
  match combine src dst ups cores downs fa with
  | Done ps => ok29 src dst ups cores downs (map obs_of ps) = true
  | Panic => wf_input (segs_of ups) (segs_of cores) (segs_of downs) = false
  | OutOfFuel => False
  end.
Proof.
  intros. destruct (combine src dst ups cores downs fa) as [ps| |] eqn:E.
  - eapply ok29_model; eauto.
  - now apply combine_not_out_of_fuel in E.
  - eapply panic_only_ill_formed; eauto.
Qed.
Print Assumptions C29_oracle_holds_on_model.

(** Non-vacuity: the segment set of Props/C28.v is well-formed; it has exactly two
    valid combinations from 12 to 21, both pass no AS more than twice, both are returned. *)
Definition ex_up : segment :=
  mkSeg 1700000000 7
    [mkAS 10 (mkHop 0 1 63 [1;1;1;1;1;1]) 0 1500 [];
     mkAS 11 (mkHop 1 2 63 [2;2;2;2;2;2]) 1400 1500 [mkPeer 21 6 (mkHop 5 2 63 [3;3;3;3;3;3]) 1300];
     mkAS 12 (mkHop 1 0 50 [4;4;4;4;4;4]) 1450 9000 []].
Definition ex_core : segment :=
  mkSeg 1700000100 9
    [mkAS 20 (mkHop 0 1 63 [5;5;5;5;5;5]) 0 2000 [];
     mkAS 10 (mkHop 2 0 63 [6;6;6;6;6;6]) 1600 1500 []].
Definition ex_down : segment :=
  mkSeg 1700000200 11
    [mkAS 20 (mkHop 0 3 63 [7;7;7;7;7;7]) 0 2000 [];
     mkAS 21 (mkHop 1 0 40 [8;8;8;8;8;8]) 1350 1500 [mkPeer 11 5 (mkHop 6 0 40 [9;9;9;9;9;9]) 1300]].

Example C29_example :
  wf_input [ex_up] [ex_core] [ex_down] = true /\
  all_combinations [ex_up] [ex_core] [ex_down] 12 21 =
    [ [(12, 1); (11, 2); (11, 1); (10, 1); (10, 2); (20, 1); (20, 3); (21, 1)];
      [(12, 1); (11, 2); (11, 5); (21, 6)] ] /\
  forallb (fun ifs => negb (is_long ifs)) (all_combinations [ex_up] [ex_core] [ex_down] 12 21) = true /\
  match combine 12 21 [(1, ex_up)] [(2, ex_core)] [(3, ex_down)] false with
  | Done ps => length ps = 2%nat | _ => False end.
Proof. vm_compute. repeat split; reflexivity. Qed.

(** The hypothesis "no AS twice in one segment" is needed: the up segment below
    passes AS 11 twice (a loop beaconing never produces); leaving it at its second
    visit (index 3) is a valid combination [12#1 11#4] to AS 11 that passes no AS
    more than twice, but AddEdge replaces that edge by the one for index 1 (same
    vertices, same segment), so it is not returned. *)
Definition loop_up : segment :=
  mkSeg 1700000000 7
    [mkAS 10 (mkHop 0 1 63 [1;1;1;1;1;1]) 0 1500 [];
     mkAS 11 (mkHop 1 2 63 [2;2;2;2;2;2]) 1400 1500 [];
     mkAS 13 (mkHop 1 2 63 [3;3;3;3;3;3]) 1400 1500 [];
     mkAS 11 (mkHop 3 4 63 [4;4;4;4;4;4]) 1400 1500 [];
     mkAS 12 (mkHop 1 0 63 [5;5;5;5;5;5]) 1400 1500 []].

Example C29_loop_segment_loses_a_combination :
  wf_input [loop_up] [] [] = false /\
  valid_input [loop_up] [] [] = true /\
  In [(12, 1); (11, 4)] (all_combinations [loop_up] [] [] 12 11) /\
  is_long [(12, 1); (11, 4)] = false /\
  match combine 12 11 [(1, loop_up)] [] [] false with
  | Done ps => forallb (fun p => negb (ifs_eqb (p_ifs p) [(12, 1); (11, 4)])) ps = true
  | _ => False end.
Proof. vm_compute. repeat split; try reflexivity. right. now left. Qed.

(** Non-vacuity for shortcuts and on-path cuts: a down segment through X (11) to
    W (14).  From Y (12) to W the only combination is the shortcut at X (an inner
    cut of both segments: VC_up_down with i = 1, j = 1); from Y to X the up
    segment is left at X (VC_up with i = 1).  Both are valid, short and returned. *)
Definition ex_down2 : segment :=
  mkSeg 1700000300 13
    [mkAS 10 (mkHop 0 1 63 [1;2;1;2;1;2]) 0 1500 [];
     mkAS 11 (mkHop 1 3 63 [2;3;2;3;2;3]) 1400 1500 [];
     mkAS 14 (mkHop 1 0 63 [3;4;3;4;3;4]) 1250 1500 []].

Example C29_example_shortcut :
  wf_input [ex_up] [ex_core] [ex_down2] = true /\
  valid_combination [ex_up] [ex_core] [ex_down2] 12 14 [(12, 1); (11, 2); (11, 3); (14, 1)] /\
  valid_combination [ex_up] [ex_core] [ex_down2] 12 11 [(12, 1); (11, 2)] /\
  all_combinations [ex_up] [ex_core] [ex_down2] 12 14 =
    [ [(12, 1); (11, 2); (11, 1); (10, 1); (10, 1); (11, 1); (11, 3); (14, 1)];
      [(12, 1); (11, 2); (11, 3); (14, 1)] ] /\
  match combine 12 14 [(1, ex_up)] [(2, ex_core)] [(3, ex_down2)] false,
        combine 12 11 [(1, ex_up)] [(2, ex_core)] [(3, ex_down2)] false with
  | Done ps, Done qs =>
    map p_ifs ps = [[(12, 1); (11, 2); (11, 3); (14, 1)]] /\     (* the join at the core AS passes 11 four times *)
    map p_ifs qs = [[(12, 1); (11, 2)]]
  | _, _ => False end.
Proof.
  split; [vm_compute; reflexivity|]. split.
  - apply all_combinations_spec. vm_compute. right. now left.
  - split; [apply all_combinations_spec; vm_compute; now left|].
    vm_compute. repeat split; reflexivity.
Qed.
