(** C47 — path-policy sequences match exactly the paths their expression
    describes; ACL and policy filters return, in input order, exactly the paths
    they accept.  Property theorems only (lemmas in Lib/Regex.v, Proofs/PathPol.v). *)
From Coq Require Import String Ascii.
From Coq Require Import List NArith ZArith Bool Lia.
From Scion Require Import Lib.Check Lib.Regex Model.AddrFmt Model.PathPol Proofs.PathPol Proofs.PathPolShow.
Import ListNotations.
Import AddrFmt PathPol.
Local Open Scope N_scope.

(** The executable matcher decides the language of the expression: ? + * | and
    juxtaposition have their regular-expression meaning, for every AST and hop list. *)
Theorem C47_matches_iff_language : forall e hs, seq_matches e hs = true <-> Lseq e hs.
Proof. exact seq_matches_iff. Qed.
Print Assumptions C47_matches_iff_language.

(** The four hop-predicate forms: isd, isd-as, isd-as#if (either direction),
    isd-as#in,out; 0 is the wildcard, all comparisons are on numbers. *)
Theorem C47_hp_semantics : forall p h,
  hp_match p h = true <->
  match p with
  | HPIsd isd => weq isd (h_isd h)
  | HPIsdAs isd a => weq isd (h_isd h) /\ as_weq a (h_as h)
  | HPIf isd a i => weq isd (h_isd h) /\ as_weq a (h_as h) /\ (weq i (h_in h) \/ weq i (h_out h))
  | HPInOut isd a i o => weq isd (h_isd h) /\ as_weq a (h_as h) /\ weq i (h_in h) /\ weq o (h_out h)
  end.
Proof. exact hp_match_iff. Qed.
Print Assumptions C47_hp_semantics.

(** Sequence filter for the specification parser (regular-expression precedence):
    the kept paths are, in input order, exactly the input paths whose hop list
    is in the language of the expression. *)
Theorem C47_sequence_filter_exact : forall txt e ps,
  new_sequence_spec txt = SSeq e ->
  seq_eval (new_sequence_spec txt) ps = filter (seq_accepts e) ps /\
  forall p, In p (seq_eval (new_sequence_spec txt) ps) <->
            In p ps /\ exists hs, path_hops (p_ifs p) = Some hs /\ Lseq e hs.
Proof.
  intros txt e ps ->. rewrite seq_eval_filter. split; [reflexivity|].
  intros p. rewrite filter_In, seq_accepts_iff. reflexivity.
Qed.
Print Assumptions C47_sequence_filter_exact.

(** ACL: with a default entry (NewACL) and hop predicates that come from
    HopPredicateFromString, Eval never panics and keeps, in input order, exactly
    the paths all of whose interfaces are allowed by their first matching entry. *)
Theorem C47_acl_filter_exact : forall es ps,
  validate_acl es = true -> Forall entry_wf es ->
  acl_eval (Some es) ps = Some (filter (acl_accepts es) ps).
Proof.
  intros es ps Hv Hwf. apply acl_eval_filter;
    [now apply validate_nonempty | assumption | now apply validate_has_default].
Qed.
Print Assumptions C47_acl_filter_exact.

Theorem C47_hop_predicate_from_string_wf : forall s hp, hp_from_string s = Some hp -> hp_wf hp.
Proof. exact hp_from_string_wf. Qed.
Print Assumptions C47_hop_predicate_from_string_wf.

(** Policy.Filter = one order-preserving filter: local ISD-AS, remote ISD-AS, ACL and
    sequence predicates, then the options stage on what is left. *)
Theorem C47_filter_exact : forall c lo re acl sq opts ps,
  acl_ok acl ->
  let base := base_pred c lo re acl sq in
  let subs := map (fun wq => match wq with (w, q) => (w, pol_filter c q) end) opts in
  pol_filter c (Pol lo re acl sq opts) ps = eval_options subs (filter base ps) /\
  (opts = [] -> pol_filter c (Pol lo re acl sq opts) ps = filter base ps) /\
  (opts <> [] -> desc subs ->
   exists sel, pol_filter c (Pol lo re acl sq opts) ps = filter (fun p => base p && sel p) ps /\
               forall p, sel p = true <-> opt_selects subs (filter base ps) p).
Proof.
  intros c lo re acl sq opts ps Ha base subs.
  pose proof (pol_filter_base c lo re acl sq opts ps Ha) as E. fold base subs in E.
  split; [exact E|]. split.
  - intros ->. exact E.
  - intros Hne Hd.
    destruct (eval_options_spec subs (filter base ps) Hd) as (sel & E2 & Hsel).
    { subst subs. destruct opts; [congruence|discriminate]. }
    exists sel. split; [|exact Hsel]. rewrite E, E2. apply filter_filter.
Qed.
Print Assumptions C47_filter_exact.

(** Known finding (or-precedence): the generated parser gives '|' a higher
    precedence than juxtaposition.  The faithful model differs from the
    specification on a concrete expression and path ... *)
Theorem C47_precedence_refuted : exists txt ps,
  seq_result (new_sequence_impl txt) ps <> seq_result (new_sequence_spec txt) ps.
Proof.
  exists (s2l "1-1 1-2 | 1-3").
  exists [mk_path (0, 0, 0, [(1 * 2 ^ 48 + 1, 2); (1 * 2 ^ 48 + 3, 1)])].
  vm_compute. discriminate.
Qed.
Print Assumptions C47_precedence_refuted.

(** ... and on every expression outside that class (the two parsers build the
    same tree) the implementation-side model is the specification. *)
Theorem C47_matches_iff_language_except_known : forall txt ps,
  or_precedence txt = false ->
  seq_result (new_sequence_impl txt) ps = seq_result (new_sequence_spec txt) ps /\
  forall e, new_sequence_impl txt = SSeq e ->
    forall p, In p (seq_eval (new_sequence_impl txt) ps) <->
              In p ps /\ exists hs, path_hops (p_ifs p) = Some hs /\ Lseq e hs.
Proof.
  intros txt ps Hk. pose proof (not_known_same txt Hk) as E. split; [now rewrite E|].
  intros e He p. rewrite He, seq_eval_filter, filter_In, seq_accepts_iff. reflexivity.
Qed.
Print Assumptions C47_matches_iff_language_except_known.

Theorem C47_policy_except_known : forall p ps,
  (forall s, In s (pol_texts p) -> or_precedence s = false) ->
  pol_filter new_sequence_impl p ps = pol_filter new_sequence_spec p ps.
Proof.
  intros p ps H. apply pol_filter_ext. intros s Hin. now apply not_known_same, H.
Qed.
Print Assumptions C47_policy_except_known.

(** The oracles of [PathPol.check] on the model's own output. *)
Theorem C47_oracle_holds_on_model_except_known :
  (forall txt ps, or_precedence txt = false ->
     opt_ids_eqb (seq_result (new_sequence_spec txt) ps) (seq_result (new_sequence_impl txt) ps) = true) /\
  (forall es validated ps, Forall entry_wf es ->
     (if validate_acl es
      then aclres_eqb (acl_result es validated ps) (AKept (ids (filter (acl_accepts es) ps)))
      else if validated then aclres_eqb (acl_result es validated ps) AErr else true) = true) /\
  (forall p ps, (forall s, In s (pol_texts p) -> or_precedence s = false) ->
     ids_eqb (ids (pol_filter new_sequence_spec p ps)) (ids (pol_filter new_sequence_impl p ps)) = true).
Proof.
  repeat split.
  - intros txt ps Hk. rewrite (not_known_same txt Hk). apply opt_ids_eqb_refl.
  - exact oracle_acl.
  - intros p ps H. rewrite (C47_policy_except_known p ps H). apply ids_eqb_refl.
Qed.
Print Assumptions C47_oracle_holds_on_model_except_known.

Theorem C47_oracle_refuted : exists txt ps,
  opt_ids_eqb (seq_result (new_sequence_spec txt) ps) (seq_result (new_sequence_impl txt) ps) = false.
Proof.
  exists (s2l "1-1 1-2 | 1-3").
  exists [mk_path (0, 0, 0, [(1 * 2 ^ 48 + 1, 2); (1 * 2 ^ 48 + 3, 1)])].
  vm_compute. reflexivity.
Qed.
Print Assumptions C47_oracle_refuted.

(** ---------------------------------------------------------------- audit follow-up: text <-> language
    [show] prints an expression with every sub-expression in parentheses.  The
    specification parser — lexer, hop parser, precedence climbing with the fuel
    [2 * length ts + 4] — reads the printed text back as exactly the same
    expression, for every expression whose AS numbers have a text (<= 2^48-1; no
    path contains any other AS).  So the fuel is adequate on the image of [show],
    and the language of a TEXT is tied to the denotation [Lseq] of the
    expression it prints. *)
Theorem C47_show_parses : forall e, seq_wf e -> new_sequence_spec (show e) = SSeq e.
Proof. exact new_sequence_show. Qed.
Print Assumptions C47_show_parses.

Theorem C47_show_language : forall e, seq_wf e ->
  exists e', new_sequence_spec (show e) = SSeq e' /\ forall w, Lseq e' w <-> Lseq e w.
Proof. intros e Hw. exists e. split; [now apply new_sequence_show|reflexivity]. Qed.
Print Assumptions C47_show_language.

(** hence, without any hypothesis about what the parser returned: the sequence
    filter built from the text of [e] keeps exactly the paths in the language of [e] *)
Theorem C47_sequence_filter_exact_text : forall e ps, seq_wf e ->
  seq_eval (new_sequence_spec (show e)) ps = filter (seq_accepts e) ps /\
  forall p, In p (seq_eval (new_sequence_spec (show e)) ps) <->
            In p ps /\ exists hs, path_hops (p_ifs p) = Some hs /\ Lseq e hs.
Proof. intros e ps Hw. apply C47_sequence_filter_exact. now apply new_sequence_show. Qed.
Print Assumptions C47_sequence_filter_exact_text.

(** the token-level statement needs no text: any fuel from [cost e] on suffices *)
Theorem C47_parser_fuel_adequate : forall e, seq_wf e ->
  parse 3 4 (2 * length (atom_toks e) + 4) 0 (atom_toks e) = Some (e, []) /\
  tokenize (show e) = Some (atom_toks e).
Proof.
  intros e Hw. split; [now apply parse_atom_toks|].
  pose proof (new_sequence_show e Hw) as H. unfold new_sequence_spec, new_sequence in H.
  destruct (show e) eqn:Es; [discriminate|]. rewrite <- Es in *.
  destruct (tokenize (show e)) as [ts|] eqn:Et; [|discriminate].
  unfold tokenize in Et. pose proof (atom_text_len e) as Hl.
  assert (E : lex (S (length (show e))) (show e) = Some (atom_toks e)).
  { replace (S (length (show e))) with (length (atom_toks e) + S (length (show e) - length (atom_toks e)))%nat by lia.
    rewrite <- (app_nil_r (show e)) at 2. rewrite lex_atom by assumption. cbn [lex tapp]. now rewrite app_nil_r. }
  congruence.
Qed.
Print Assumptions C47_parser_fuel_adequate.

(** Non-vacuity: the specification parser has the regular-expression precedence,
    AS numbers are compared by value, and the filters do filter. *)
Example C47_example :
  let a := SHop (HPIsdAs 1 (Some 1)) in let b := SHop (HPIsdAs 1 (Some 2)) in
  let c := SHop (HPIsdAs 1 (Some 3)) in
  new_sequence_spec (s2l "1-1 1-2 | 1-3") = SSeq (SOr (SCat a b) c) /\
  new_sequence_impl (s2l "1-1 1-2 | 1-3") = SSeq (SCat a (SOr b c)) /\
  new_sequence_spec (s2l "1-1 1-2*") = SSeq (SCat a (SStar b)) /\
  new_sequence_spec (s2l "(1-1 1-2)*") = SSeq (SStar (SCat a b)) /\
  new_sequence_spec (s2l "1-FF00:0:110#1,2") = new_sequence_spec (s2l "1-ff00:0:110#1,2") /\
  new_sequence_spec (s2l "1-0:0:1") = SSeq a /\
  new_sequence_spec (s2l "1#0") = SErr /\ or_precedence (s2l "1-1 (1-2 | 1-3)") = false /\
  let ps := map mk_path [(0, 0, 0, [(1 * 2 ^ 48 + 1, 2); (1 * 2 ^ 48 + 3, 1)]);
                         (1, 0, 0, [(1 * 2 ^ 48 + 1, 2); (1 * 2 ^ 48 + 2, 1)]);
                         (2, 0, 0, [])] in
  seq_result (new_sequence_spec (s2l "1-0:0:1#2 0+")) ps = Some [0; 1] /\
  seq_result (new_sequence_spec (s2l "0*")) ps = Some [0; 1; 2] /\
  acl_result (mk_entries [(false, Some (1, 3, [0])); (true, None)]) true ps = AKept [1; 2].
Proof. vm_compute. repeat split; reflexivity. Qed.

(** Non-vacuity of C47_filter_exact: an actual policy with an ACL, a sequence and
    weighted options; its hypotheses hold and the filter does what the theorem says. *)
Example C47_filter_exact_example :
  let acl := mk_entries [(false, Some (1, 3, [0])); (true, None)] in            (* - 1-3 ; + *)
  let three := Pol None None None (Some (s2l "0 0 0")) [] in
  let two := Pol None None None (Some (s2l "0 0")) [] in
  let P := Pol None None (Some acl) (Some (s2l "1-1 0+")) [(2%Z, three); (1%Z, two)] in
  let ia a := 1 * 2 ^ 48 + a in
  let p0 := mk_path (0, ia 1, ia 2, [(ia 1, 1); (ia 2, 1)]) in
  let p1 := mk_path (1, ia 1, ia 3, [(ia 1, 2); (ia 3, 1)]) in
  let p2 := mk_path (2, ia 1, ia 4, [(ia 1, 1); (ia 2, 1); (ia 2, 2); (ia 4, 1)]) in
  let p3 := mk_path (3, ia 2, ia 4, [(ia 2, 2); (ia 4, 1)]) in
  acl_ok (Some acl) /\
  desc (map (fun wq => match wq with (w, q) => (w, pol_filter new_sequence_spec q) end) [(2%Z, three); (1%Z, two)]) /\
  ids (pol_filter new_sequence_spec P [p0; p1; p2; p3]) = [2] /\      (* the heavier option wins *)
  ids (pol_filter new_sequence_spec P [p0; p1; p3]) = [0] /\          (* it keeps nothing: next weight *)
  ids (filter (base_pred new_sequence_spec None None (Some acl) (Some (s2l "1-1 0+"))) [p0; p1; p2; p3]) = [0; 2] /\
  new_sequence_spec (show (SCat (SHop (HPIsdAs 1 (Some 1))) (SPlus (SHop (HPIsd 0))))) =
    SSeq (SCat (SHop (HPIsdAs 1 (Some 1))) (SPlus (SHop (HPIsd 0)))).
Proof.
  cbv zeta. split; [|split].
  - cbn. split.
    + repeat constructor; cbn; try discriminate; try (intros H; discriminate H).
    + exists (true, None). split; [cbn; auto|reflexivity].
  - cbn. split; [|split; [|exact I]].
    + intros w' f' [[= <- <-]|[]]. lia.
    + intros w' f' [].
  - vm_compute. repeat split; reflexivity.
Qed.
