(** C30 — paths handed to applications are live, unrevoked and end at the destination.
    Property theorems only.

    [fetch] (Fetcher.Fetch), [combine] (combinator.Combine), [rev_active]
    (RevCache.Get <> nil) and [nexthop] are arbitrary functions.  Two hypotheses
    are made where needed and nowhere else:
      [comb_ok]  every path the combinator returns lists at least one interface,
                 starts at the source and ends at the destination.  This is NOT
                 true of the combinator for arbitrary validated segments (an inner
                 AS entry without ingress interface, Proofs/CombinatorEndpoints.v
                 [zero_ingress_witness]); it is proved for the combinator model on
                 segments of the shape beaconing produces ([CombSpec.wf_input],
                 [combine_endpoints]) and C30_endpoints_combinator below states the
                 end points with [combine := Combinator.combine] under that
                 assumption on the fetched segments instead of [comb_ok];
      [fetch_ok] the Fetcher returns only segments that answer one of the
                 requests (the Fetcher contract, recorded in the trusted base). *)
From Coq Require Import List NArith ZArith Bool.
From Scion Require Import Lib.Check Model.Segment Model.CombSpec Model.Combinator Model.Pather.
From Scion Require Import Proofs.Pather Proofs.PatherComb.
Import ListNotations.
Import Scion.Model.Pather.Pather.
Local Open Scope N_scope.

(** Every returned path starts at the local AS and ends at the requested ISD-AS;
    for an ISD wildcard it ends in that ISD, at the AS that starts a fetched core
    segment (or, for the local ISD, a fetched up segment) — a core AS. *)
Theorem C30_endpoints : forall fetch combine rev_active nexthop sp now dst l r,
  comb_ok combine (sp_local sp) -> fetch_ok fetch -> wildcard (sp_local sp) = false ->
  get_paths fetch combine rev_active nexthop sp now dst = GOk l -> In r l ->
  r_src r = sp_local sp
  /\ (wildcard dst = false -> r_dst r = dst)
  /\ (wildcard dst = true ->
      isd (r_dst r) = isd dst /\
      exists s, In s (fst (fetch (requests sp dst))) /\ sg_first s = r_dst r /\
                (sg_type s = Core \/ (sg_type s = Up /\ isd dst = isd (sp_local sp)))).
Proof. exact endpoints. Qed.
Print Assumptions C30_endpoints.

(** The same with the combinator model plugged in ([comb_inst]: Combinator.combine
    on the contents [body id] of the fetched segments, ISD-AS numbers translated by
    [enc]/[dec]) in place of the hypothesis on [combine]: it suffices that the
    fetched segments are beaconing-shaped ([shaped] = CombSpec.wf_input). *)
Theorem C30_endpoints_combinator : forall enc dec body fetch rev_active nexthop sp now dst l r,
  (forall x, dec (enc x) = x) ->
  fetched_sat fetch (shaped body) -> fetch_ok fetch -> wildcard (sp_local sp) = false ->
  get_paths fetch (comb_inst enc dec body) rev_active nexthop sp now dst = GOk l -> In r l ->
  r_src r = sp_local sp
  /\ (wildcard dst = false -> r_dst r = dst)
  /\ (wildcard dst = true ->
      isd (r_dst r) = isd dst /\
      exists s, In s (fst (fetch (requests sp dst))) /\ sg_first s = r_dst r /\
                (sg_type s = Core \/ (sg_type s = Up /\ isd dst = isd (sp_local sp)))).
Proof. intros enc dec body fetch rv nh sp now dst l r De. now apply endpoints_combinator. Qed.
Print Assumptions C30_endpoints_combinator.

(** Wildcard destinations end at a core AS of the requested ISD, given that up
    segments start at and core segments connect core ASes ([segs_core_ok] for the
    predicate [is_core]). *)
Theorem C30_wildcard_core : forall fetch combine rev_active nexthop is_core P sp now dst l r,
  comb_ok_on combine P (sp_local sp) -> fetched_sat fetch P -> fetch_ok fetch ->
  segs_core_ok fetch is_core -> wildcard (sp_local sp) = false ->
  get_paths fetch combine rev_active nexthop sp now dst = GOk l -> In r l ->
  wildcard dst = true -> isd (r_dst r) = isd dst /\ is_core (r_dst r) = true.
Proof. exact wildcard_core. Qed.
Print Assumptions C30_wildcard_core.

(** No returned path has expired. *)
Theorem C30_live : forall fetch combine rev_active nexthop sp now dst l r,
  get_paths fetch combine rev_active nexthop sp now dst = GOk l -> In r l -> (r_exp r > now)%Z.
Proof. exact live. Qed.
Print Assumptions C30_live.

(** No returned path traverses an interface with an active revocation. *)
Theorem C30_unrevoked : forall fetch combine rev_active nexthop sp now dst l r i,
  get_paths fetch combine rev_active nexthop sp now dst = GOk l -> In r l ->
  In i (r_ifs r) -> rev_active i = false.
Proof. exact unrevoked. Qed.
Print Assumptions C30_unrevoked.

(** A lookup for the local AS yields exactly one empty path (no segment request). *)
Theorem C30_local : forall fetch combine rev_active nexthop sp now,
  isd (sp_local sp) <> 0 ->
  get_paths fetch combine rev_active nexthop sp now (sp_local sp)
    = GOk [mkrpath (sp_local sp) (sp_local sp) [] (now + max_ttl)]
  /\ requests sp (sp_local sp) = [].
Proof.
  intros. split; [now apply local_path|].
  unfold requests. now rewrite ia_eqb_refl, orb_true_r.
Qed.
Print Assumptions C30_local.

(** The segment requests are those of the specification table [table] (with an
    inspector) / [table_basic] (without) for the kinds of source and destination
    ([classify]); the inspector is consulted exactly when [needs_lookup]. *)
Theorem C30_split_table : forall sp dst,
  isd (sp_local sp) <> 0 -> isd dst <> 0 -> split sp dst = split_spec sp dst.
Proof. exact split_eq_spec. Qed.
Print Assumptions C30_split_table.

(** What the table means, stated without it: with an inspector the requests form
    a chain of at most three segments from the local AS to the destination — each
    request starts where the previous one ended, at most one segment of a kind,
    up before core before down —, an up segment is requested iff the source is
    not core, a down segment iff the destination is neither core nor a wildcard. *)
Theorem C30_split_chain : forall sp insp dst reqs,
  sp_insp sp = Some insp -> isd (sp_local sp) <> 0 -> isd dst <> 0 ->
  split sp dst = SplitOk reqs ->
  reqs <> [] /\ chain_from (sp_local sp) 0 reqs dst
  /\ has_type Up reqs = negb (sp_core sp)
  /\ has_type Down reqs = negb (wildcard dst || mem_ia dst (i_cores insp))
  /\ (length reqs <= 3)%nat.
Proof. exact split_chain. Qed.
Print Assumptions C30_split_chain.

(** The finite part of the table, row by row, for all 2^7 kinds. *)
Theorem C30_split_table_rows : forall sc dc same wild hs ss sd,
  let k := mkkinds sc dc same wild hs ss sd in
  table k =
  match sc, dc with
  | false, false => if hs then [(Up, ESrc, ESingle); (Down, ESingle, EDst)]
                    else [(Up, ESrc, EWildSrc); (Core, EWildSrc, EWildDst); (Down, EWildDst, EDst)]
  | false, true => if (same && wild) || (hs && sd) then [(Up, ESrc, EDst)]
                   else [(Up, ESrc, EWildSrc); (Core, EWildSrc, EDst)]
  | true, false => if hs && ss then [(Down, ESrc, EDst)]
                   else [(Core, ESrc, EWildDst); (Down, EWildDst, EDst)]
  | true, true => [(Core, ESrc, EDst)]
  end
  /\ (* at most three requests *)
     (length (table k) <= 3)%nat.
Proof. intros [] [] [] [] [] [] []; vm_compute; (split; [reflexivity | repeat constructor]). Qed.
Print Assumptions C30_split_table_rows.

(** The Pather never panics on well-formed combinator output. *)
Theorem C30_no_panic : forall fetch combine rev_active nexthop sp now dst,
  comb_ok combine (sp_local sp) ->
  get_paths fetch combine rev_active nexthop sp now dst <> GPanic.
Proof. exact no_panic. Qed.
Print Assumptions C30_no_panic.

Theorem C30_no_panic_combinator : forall enc dec body fetch rev_active nexthop sp now dst,
  (forall x, dec (enc x) = x) -> fetched_sat fetch (shaped body) ->
  get_paths fetch (comb_inst enc dec body) rev_active nexthop sp now dst <> GPanic.
Proof. intros. now apply no_panic_combinator. Qed.
Print Assumptions C30_no_panic_combinator.

(** The oracle of the correspondence check holds on the model for every case
    whose shipped combinator output is well-formed. *)
Theorem C30_oracle_holds_on_model : forall e,
  isd (sp_local (e_sp e)) <> 0 -> wildcard (sp_local (e_sp e)) = false ->
  comb_wf (sp_local (e_sp e)) (e_comb e) -> pool_core_ok e ->
  oracle e (requests (e_sp e) (e_dst e)) (res_ok (model_paths e)) (res_paths (model_paths e)) = true.
Proof. exact oracle_model. Qed.
Print Assumptions C30_oracle_holds_on_model.

(** Non-vacuity: non-core source 1-111 below the single core 1-110, destination
    1-112; two candidate paths, one of them over a revoked interface, one expired
    candidate; exactly the live unrevoked path is returned. *)
Example C30_example :
  let sp := mksplit (1, 111) false (Some (mkinsp [(1, 110); (2, 210)] false)) in
  let pool := [mkseg Up (1, 110) (1, 111) 0; mkseg Down (1, 110) (1, 112) 1;
               mkseg Core (2, 210) (1, 110) 2] in
  let comb := [((1, 112), [mkcpath [((1, 111), 1); ((1, 110), 11); ((1, 110), 12); ((1, 112), 1)] 500;
                           mkcpath [((1, 111), 2); ((1, 110), 13); ((1, 110), 12); ((1, 112), 1)] 700;
                           mkcpath [((1, 111), 1); ((1, 110), 11); ((1, 110), 12); ((1, 112), 1)] (-5)])] in
  let e := mkenv sp (1, 112) pool false comb [(((1, 110), 13), 60%Z); (((1, 110), 11), (-60)%Z)] []
                 [(1, 110); (2, 210)] true in
  requests sp (1, 112) = [mkreq Up (1, 111) (1, 110); mkreq Down (1, 110) (1, 112)]
  /\ model_paths e
     = GOk [mkrpath (1, 111) (1, 112) [((1, 111), 1); ((1, 110), 11); ((1, 110), 12); ((1, 112), 1)] 500]
  /\ oracle e (requests sp (1, 112)) (res_ok (model_paths e)) (res_paths (model_paths e)) = true.
Proof. vm_compute. repeat split; reflexivity. Qed.
