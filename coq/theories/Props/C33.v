(** C33 — TRC payloads are validated faithfully.
    Property theorems only; each is closed by a lemma of Proofs/PKI.v.
    The ASN.1 round trip (Encode -> DecodeTRC) is not modelled in Coq: it is checked on the
    implementation for every accepted payload of every run (see spec/C33.json, "partial"). *)
From Coq Require Import List ZArith Bool Lia.
From Scion Require Import Lib.Check Model.PKI Proofs.PKI.
Import ListNotations.
Import PKI.
Local Open Scope Z_scope.

(** [TRC.Validate] accepts a payload iff it satisfies every rule of the property:
    supported version; non-wildcard ISD and 1 <= base <= serial; non-empty validity; a base TRC
    has neither grace period nor votes; 1 <= quorum <= 255, at most the number of sensitive and
    of regular voters; core and authoritative AS lists non-empty, without wildcard, without
    duplicates; every certificate is a well-formed sensitive voting, regular voting or root
    certificate, belongs to the ISD (if it names an ISD-AS), covers the TRC validity; issuer and
    serial number are unique, and so are the subjects within each class. *)
Theorem C33_valid_iff : forall t, trc_validate t = None <-> trc_rules t.
Proof. exact validate_iff_rules. Qed.
Print Assumptions C33_valid_iff.

(** Whenever a payload is rejected, the reported error class names a rule that the payload
    really violates (so the error classes compared by the correspondence check are meaningful). *)
Theorem C33_error_names_violated_rule : forall t e, trc_validate t = Some e -> violated e t.
Proof. exact validate_error_sound. Qed.
Print Assumptions C33_error_names_violated_rule.

(** One statement per rule: a payload violating it is rejected, whatever else holds. *)
Theorem C33_rule_version : forall t, t_version t <> 1 -> trc_validate t <> None.
Proof. intros t H V. apply validate_iff_rules in V. destruct V. contradiction. Qed.
Print Assumptions C33_rule_version.

Theorem C33_rule_id : forall t,
  ~ (t_isd t <> 0 /\ 1 <= t_base t <= t_serial t) -> trc_validate t <> None.
Proof. intros t H V. apply validate_iff_rules in V. destruct V. apply H. split; assumption. Qed.
Print Assumptions C33_rule_id.

Theorem C33_rule_validity : forall t, ~ t_nb t < t_na t -> trc_validate t <> None.
Proof. intros t H V. apply validate_iff_rules in V. destruct V. contradiction. Qed.
Print Assumptions C33_rule_validity.

Theorem C33_rule_base_trc : forall t,
  t_base t = t_serial t -> t_grace t <> 0 \/ t_votes t <> [] -> trc_validate t <> None.
Proof.
  intros t B H V. apply validate_iff_rules in V. destruct V as [? ? ? ? Hb].
  destruct (Hb B) as [G N]. destruct H; contradiction.
Qed.
Print Assumptions C33_rule_base_trc.

Theorem C33_rule_quorum : forall t, ~ 1 <= t_quorum t <= 255 -> trc_validate t <> None.
Proof. intros t H V. apply validate_iff_rules in V. destruct V. contradiction. Qed.
Print Assumptions C33_rule_quorum.

Theorem C33_rule_enough_voters : forall t,
  len (sens_of t) < t_quorum t \/ len (reg_of t) < t_quorum t -> trc_validate t <> None.
Proof. intros t H V. apply validate_iff_rules in V. destruct V. lia. Qed.
Print Assumptions C33_rule_enough_voters.

Theorem C33_rule_as_lists : forall t,
  ~ as_list_rule (t_core t) \/ ~ as_list_rule (t_auth t) -> trc_validate t <> None.
Proof. intros t H V. apply validate_iff_rules in V. destruct V. destruct H; contradiction. Qed.
Print Assumptions C33_rule_as_lists.

Theorem C33_rule_classifiable : forall t c,
  In c (t_certs t) ->
  validate_cert c <> Some Sensitive -> validate_cert c <> Some Regular ->
  validate_cert c <> Some Root -> trc_validate t <> None.
Proof.
  intros t c Hc H1 H2 H3 V. apply validate_iff_rules in V.
  destruct (r_classifiable t V c Hc) as [E|[E|E]]; contradiction.
Qed.
Print Assumptions C33_rule_classifiable.

Theorem C33_rule_same_isd : forall t c i a,
  In c (t_certs t) -> find_ia (c_subject c) = FSome i a -> i <> t_isd t -> trc_validate t <> None.
Proof.
  intros t c i a Hc Hf Hi V. apply validate_iff_rules in V.
  destruct (r_cert_isd t V c Hc) as [_ E]. apply Hi. exact (E i a Hf).
Qed.
Print Assumptions C33_rule_same_isd.

Theorem C33_rule_cover : forall t c,
  In c (t_certs t) -> ~ (c_nb c <= t_nb t /\ t_na t <= c_na c) -> trc_validate t <> None.
Proof. intros t c Hc H V. apply validate_iff_rules in V. exact (H (r_cover t V c Hc)). Qed.
Print Assumptions C33_rule_cover.

Theorem C33_rule_issuer_serial_unique : forall t,
  ~ NoDup (map (fun c => (c_issuer c, c_serial c)) (t_certs t)) -> trc_validate t <> None.
Proof. intros t H V. apply validate_iff_rules in V. destruct V. contradiction. Qed.
Print Assumptions C33_rule_issuer_serial_unique.

Theorem C33_rule_subject_unique : forall t,
  ~ NoDup (subjects (sens_of t)) \/ ~ NoDup (subjects (reg_of t)) \/
  ~ NoDup (subjects (root_of t)) -> trc_validate t <> None.
Proof.
  intros t H V. apply validate_iff_rules in V. destruct V. destruct H as [H|[H|H]]; contradiction.
Qed.
Print Assumptions C33_rule_subject_unique.

(** The error of [findIA] in the certificate loop of [Validate] is dead code. *)
Theorem C33_no_findia_error : forall t, trc_validate t <> Some EFindIA.
Proof. exact validate_never_findia. Qed.
Print Assumptions C33_no_findia_error.

(** The oracle of the correspondence check holds on the model for every payload: whatever the
    model accepts satisfies the rules (evaluated as the boolean [rules_b]). *)
Theorem C33_oracle_holds_on_model : forall t,
  negb (validate_code t =? 0) || rules_b t = true.
Proof.
  intros t. unfold validate_code. destruct (trc_validate t) as [e|] eqn:E.
  - destruct e; reflexivity.
  - apply validate_rules_b in E. rewrite E. reflexivity.
Qed.
Print Assumptions C33_oracle_holds_on_model.

(** Non-vacuity: a valid update TRC (two sensitive voters, two regular voters, one root), and
    for every rule a payload that violates only that rule and is rejected with its error. *)
Definition ia1 := IASome 1 272.
Definition voter (k id : Z) : acert :=
  mkcert [k] false false true false false false false (-1) false true id 0
         (mkname id ia1) (mkname id ia1) (1000 + id) 0 1000 id id.
Definition root (id : Z) : acert :=
  mkcert [3] true false true false false true true 1 false true id id
         (mkname id ia1) (mkname id ia1) (1000 + id) 0 1000 id id.
Definition good : trc :=
  mktrc 1 1 1 2 10 900 3600 false [0; 1] 2 [272; 273] [272]
        [voter 1 1; voter 1 2; voter 2 3; voter 2 4; root 5].

Definition set_certs (t : trc) cs :=
  mktrc (t_version t) (t_isd t) (t_base t) (t_serial t) (t_nb t) (t_na t) (t_grace t) (t_ntr t)
        (t_votes t) (t_quorum t) (t_core t) (t_auth t) cs.

Example C33_example :
  trc_validate good = None /\ rules_b good = true /\
  map trc_validate
    [ mktrc 2 1 1 2 10 900 3600 false [0; 1] 2 [272; 273] [272] (t_certs good);
      mktrc 1 0 1 2 10 900 3600 false [0; 1] 2 [272; 273] [272] (t_certs good);
      mktrc 1 1 3 2 10 900 3600 false [0; 1] 2 [272; 273] [272] (t_certs good);
      mktrc 1 1 1 2 10 10 3600 false [0; 1] 2 [272; 273] [272] (t_certs good);
      mktrc 1 1 2 2 10 900 3600 false [] 2 [272; 273] [272] (t_certs good);
      mktrc 1 1 2 2 10 900 0 false [0; 1] 2 [272; 273] [272] (t_certs good);
      mktrc 1 1 1 2 10 900 3600 false [0; 1] (-1) [272; 273] [272] (t_certs good);
      mktrc 1 1 1 2 10 900 3600 false [0; 1] 3 [272; 273] [272] (t_certs good);
      mktrc 1 1 1 2 10 900 3600 false [0; 1] 2 [] [272] (t_certs good);
      mktrc 1 1 1 2 10 900 3600 false [0; 1] 2 [272; 273] [0] (t_certs good);
      mktrc 1 1 1 2 10 900 3600 false [0; 1] 2 [272; 272] [272] (t_certs good);
      set_certs good [voter 1 1; voter 1 2; voter 2 3; voter 2 4; voter 9 5];
      mktrc 1 2 1 2 10 900 3600 false [0; 1] 2 [272; 273] [272] (t_certs good);
      mktrc 1 1 1 2 10 1001 3600 false [0; 1] 2 [272; 273] [272] (t_certs good);
      set_certs good [voter 1 1; voter 1 2; voter 2 3; voter 2 4; root 5; voter 1 1] ]
  = [Some EVersion; Some EID; Some EID; Some EValidity; Some EGrace; Some EVotesOnBase;
     Some EQuorum; Some ENotEnoughVoters; Some ENoASes; Some EWildcardAS; Some EDuplicateAS;
     Some EUnclassified; Some EOtherISD; Some ENotCovered; Some EDuplicate].
Proof. vm_compute. repeat split; reflexivity. Qed.
