(** C23 — beacon extension produces verifiable, correctly bounded AS entries.
    Property theorems only.  [mac] is an arbitrary function (None = no value
    supplied); nothing depends on the MAC algorithm. *)
From Coq Require Import List NArith ZArith Bool Lia.
From Scion Require Import Lib.Check Lib.Bytes Model.Extend Proofs.Extend.
Import ListNotations.
Import Extend.
Local Open Scope Z_scope.

(** ExpTimeFromDuration returns the largest expiry value whose duration does not
    exceed the given one: duration(from_duration d) <= d < duration(from_duration d) + unit. *)
Theorem C23_exp_roundtrip : forall d e, exp_from_dur d = Some e ->
  0 <= e <= 255 /\ exp_to_dur e <= d /\ d < exp_to_dur e + exp_unit.
Proof. intros d e H. apply exp_from_dur_spec in H. tauto. Qed.
Print Assumptions C23_exp_roundtrip.

Theorem C23_exp_range : forall d, exp_from_dur d = None <-> d < exp_unit \/ d > max_ttl.
Proof. exact exp_from_dur_none. Qed.
Print Assumptions C23_exp_range.

(** The added entry names the local AS and the neighbour behind the egress
    interface (the zero IA when the segment is terminated) and carries the given
    interfaces; the extended segment passes Validate. *)
Theorem C23_entry_wf : forall mac c signers gen_err now s ingress egress peers e idx sg,
  extend mac c signers gen_err now s ingress egress peers = Ok e idx sg ->
  e_local e = c_ia c /\ e_in e = ingress /\ e_eg e = egress /\
  (egress = 0%N -> e_next e = ia_zero) /\
  (egress <> 0%N -> exists i, lookup (c_ifs c) egress = Some i /\ i_ia i = e_next e /\ wildcard (e_next e) = false) /\
  validate (map fst (s_entries s) ++ [e]) (negb (egress =? 0)%N) = true.
Proof.
  intros mac c signers gen_err now s ingress egress peers e idx sg H.
  apply extend_ok in H as (_ & sgn & A). destruct A.
  repeat split; auto.
  - intros ->. cbn in a_next. now inversion a_next.
  - intros Hne. unfold remote_ia in a_next. apply N.eqb_neq in Hne. rewrite Hne in a_next.
    destruct (lookup (c_ifs c) egress) as [i|]; [|discriminate].
    destruct (wildcard (i_ia i)) eqn:W; [discriminate|]. inversion a_next; subst. now exists i.
Qed.
Print Assumptions C23_entry_wf.

(** Its hop field MAC verifies under the accumulated segment identifier
    (SegID xor the first two MAC bytes of all earlier hop fields), the peer hop
    fields under that value xor the new hop field's own first two MAC bytes; peer
    entries exist only for requested interfaces with complete remote information
    and share expiry and egress with the hop field. *)
Theorem C23_macs_verify : forall mac c signers gen_err now s ingress egress peers e idx sg,
  extend mac c signers gen_err now s ingress egress peers = Ok e idx sg ->
  let beta := extract_beta s in
  mac_verifies mac beta (s_ts s) (e_exp e) (e_in e) (e_eg e) (e_mac e) = true /\
  forall p, In p (e_peers e) ->
    mac_verifies mac (N.lxor beta (sigma (e_mac e))) (s_ts s) (p_exp p) (p_in p) (p_eg p) (p_mac p) = true /\
    p_exp p = e_exp e /\ p_eg p = e_eg e /\ In (p_in p) peers /\
    remote_info (c_ifs c) (p_in p) = Some (p_ia p, p_rif p, p_mtu p).
Proof.
  intros mac c signers gen_err now s ingress egress peers e idx sg H beta.
  apply extend_ok in H as (_ & sgn & A). destruct A. subst beta. unfold mac_verifies. split.
  - rewrite a_in, a_eg, a_mac. apply bytes_eqb_refl.
  - intros p Hp. destruct (peer_entries_spec _ _ _ _ _ _ _ _ a_peers) as [F I]. rewrite Forall_forall in F.
    destruct (F p Hp) as (P1 & P2 & P3 & P4). rewrite P2, P3, P1, a_eg. repeat split; auto. apply bytes_eqb_refl.
Qed.
Print Assumptions C23_macs_verify.

(** The signer used covers [segment timestamp, now] and expires last among those
    that do; the hop expiry never exceeds the configured maximum nor that signer's expiry:
    timestamp + duration(exp) <= min (timestamp + duration(maxExp), signer.NotAfter). *)
Theorem C23_expiry_bound : forall mac c signers gen_err now s ingress egress peers e idx sg,
  0 <= c_maxexp c <= 255 ->
  extend mac c signers gen_err now s ingress egress peers = Ok e idx sg ->
  exists sgn, nth_error signers (N.to_nat idx) = Some sgn /\ covers sgn (ns (s_ts s)) now = true /\
    (forall sgn', In sgn' signers -> covers sgn' (ns (s_ts s)) now = true -> s_na sgn' <= s_na sgn) /\
    0 <= e_exp e <= c_maxexp c /\
    ns (s_ts s) + exp_to_dur (e_exp e) <= Z.min (ns (s_ts s) + exp_to_dur (c_maxexp c)) (s_na sgn) /\
    (forall p, In p (e_peers e) -> p_exp p = e_exp e).
Proof.
  intros mac c signers gen_err now s ingress egress peers e idx sg Hm H.
  pose proof (C23_macs_verify _ _ _ _ _ _ _ _ _ _ _ _ H) as [_ HP].
  apply extend_ok in H as (_ & sgn & A). destruct A. exists sgn.
  destruct (last_expiring_some _ _ _ _ _ a_signer) as (Hn & Hc & Hmax).
  destruct (expiry_bound _ _ _ _ Hm a_exp) as (He & Hb).
  repeat split; auto; try lia; try (intros p Hp; now destruct (HP p Hp) as (_ & E & _)).
Qed.
Print Assumptions C23_expiry_bound.

(** What is signed: the new entry, over the segment information and the signed
    messages (header-and-body, signature) of all earlier entries, in order. *)
Theorem C23_signed_over : forall mac c signers gen_err now s ingress egress peers e idx sg,
  extend mac c signers gen_err now s ingress egress peers = Ok e idx sg ->
  sg = {| sg_body := e; sg_info := (s_ts s, s_segid s); sg_prev := map snd (s_entries s) |}.
Proof.
  intros mac c signers gen_err now s ingress egress peers e idx sg H.
  apply extend_ok in H as (_ & sgn & A). now destruct A.
Qed.
Print Assumptions C23_signed_over.

(** Audit follow-up: [C23_signed_over] is the record [extend] builds; what ties it to the code is the
    correspondence check, which since then compares the identities of the byte strings the real signer
    was handed ([CExt2]: random identity numbers per earlier entry) with this list: the segment info
    first, then HeaderAndBody and Signature of every earlier entry, in segment order. *)
Theorem C23_signed_over_assoc : forall mac c signers gen_err now s ingress egress peers e idx sg,
  extend mac c signers gen_err now s ingress egress peers = Ok e idx sg ->
  assoc_ids (sg_prev sg) = 0%N :: flat_map (fun x => [fst (snd x); snd (snd x)]) (s_entries s) /\
  ids_oracle s (obs_of (Ok e idx sg)) (assoc_ids (sg_prev sg)) = true.
Proof.
  intros mac c signers gen_err now s ingress egress peers e idx sg H.
  rewrite (C23_signed_over _ _ _ _ _ _ _ _ _ _ _ _ H). cbn [sg_prev obs_of ids_oracle]. split.
  - unfold assoc_ids. f_equal. induction (s_entries s) as [|x t IH]; [reflexivity|]. cbn. now rewrite IH.
  - apply list_N_eqb_refl.
Qed.
Print Assumptions C23_signed_over_assoc.

(** Extension fails when ingress/egress are inconsistent with the entry's
    position: zero ingress on a non-empty segment, non-zero ingress on an empty
    one, or both zero. *)
Theorem C23_rejects : forall mac c signers gen_err now s ingress egress peers,
  (ingress = 0%N /\ s_entries s <> []) \/ (ingress <> 0%N /\ s_entries s = []) \/ (ingress = 0%N /\ egress = 0%N) ->
  exists x, extend mac c signers gen_err now s ingress egress peers = Err x.
Proof.
  intros mac c signers gen_err now s ingress egress peers H. apply extend_rejects_position.
  unfold position_inconsistent. destruct H as [[-> H]|[[H1 H2]|[-> ->]]].
  - destruct (s_entries s); [congruence|reflexivity].
  - rewrite H2. apply N.eqb_neq in H1. rewrite H1. reflexivity.
  - cbn. now rewrite orb_true_r.
Qed.
Print Assumptions C23_rejects.

(** ... and without a signer covering the segment timestamp until now, or when the
    signer expires less than one expiry unit after the timestamp. *)
Theorem C23_rejects_without_signer : forall mac c signers gen_err now s ingress egress peers e idx sg,
  0 <= c_maxexp c ->
  extend mac c signers gen_err now s ingress egress peers = Ok e idx sg ->
  exists sgn, In sgn signers /\ covers sgn (ns (s_ts s)) now = true /\ ns (s_ts s) + exp_unit <= s_na sgn.
Proof.
  intros mac c signers gen_err now s ingress egress peers e idx sg Hm H.
  apply extend_ok in H as (_ & sgn & A). destruct A.
  destruct (last_expiring_some _ _ _ _ _ a_signer) as (Hn & Hc & _). exists sgn.
  split; [eapply nth_error_In; eauto|]. split; [exact Hc|].
  destruct (ns (s_ts s) + exp_to_dur (c_maxexp c) >? s_na sgn) eqn:C.
  - apply exp_from_dur_spec in a_exp. lia.
  - unfold exp_to_dur in C. assert (exp_unit > 0) by (rewrite exp_unit_val; lia). nia.
Qed.
Print Assumptions C23_rejects_without_signer.

(** The oracle of the correspondence check holds on the model for every input
    (max expiry is a uint8), also for the ExpTimeFromDuration cases. *)
Theorem C23_oracle_holds_on_model : forall c signers gen_err now s ingress egress peers macs,
  0 <= c_maxexp c <= 255 ->
  oracle c signers now s ingress egress macs
         (obs_of (extend (table_mac macs) c signers gen_err now s ingress egress peers)) = true.
Proof. exact oracle_model. Qed.
Print Assumptions C23_oracle_holds_on_model.

Theorem C23_exp_oracle_holds_on_model : forall d,
  match exp_from_dur d with
  | Some e => (0 <=? e) && (e <=? 255) && (exp_to_dur e =? exp_to_dur e) && (exp_to_dur e <=? d) && (d <? exp_to_dur e + exp_unit)
  | None => (d <? exp_unit) || (d >? max_ttl)
  end = true.
Proof. exact check_exp_oracle. Qed.
Print Assumptions C23_exp_oracle_holds_on_model.

(** Non-vacuity with a toy MAC (the reversed input): the second AS entry of a
    segment whose signer expires 5000 s after the segment timestamp
    (configured maximum 63 = 6 h): expiry is shortened to 13 (14 units = 4725 s <= 5000 s < 15 units),
    one of the two requested peers has no remote interface id and is skipped. *)
Example C23_example :
  let toy := fun i : list N => Some (rev i) in
  let c := {| c_ia := (1, 110)%N; c_mtu := 1400%N; c_maxexp := 63;
              c_ifs := [(1, {| i_ia := (1, 100); i_rif := 7; i_mtu := 1500 |});
                        (2, {| i_ia := (1, 120); i_rif := 8; i_mtu := 1500 |});
                        (3, {| i_ia := (2, 210); i_rif := 9; i_mtu := 1400 |});
                        (4, {| i_ia := (2, 220); i_rif := 0; i_mtu := 1400 |})]%N |} in
  let e0 := {| e_local := (1, 100)%N; e_next := (1, 110)%N; e_mtu := 1400%N; e_inmtu := 0%N; e_in := 0%N; e_eg := 5%N;
               e_exp := 63; e_mac := [1; 2; 3; 4; 5; 6]%N; e_peers := [] |} in
  let s := {| s_ts := 1000; s_segid := 4660%N; s_entries := [(e0, (1, 2)%N)] |} in
  let sgn := {| s_nb := 0; s_na := ns 6000 |} in
  match extend toy c [sgn] false (ns 2000) s 1 2 [3; 4]%N with
  | Ok e idx sg =>
    e_exp e = 13 /\ e_next e = (1, 120)%N /\ length (e_peers e) = 1%nat /\ idx = 0%N /\
    sg_prev sg = [(1, 2)%N] /\ extract_beta s = N.lxor 4660%N 258%N
  | _ => False
  end /\
  (exists x, extend toy c [sgn] false (ns 2000) s 0 2 [] = Err x).
Proof. vm_compute. repeat split. eexists; reflexivity. Qed.
